/-
C14 — property theorems (statements only; helper lemmas live in `Proofs/C14*.lean`).
-/
import Mahotas.Proofs.C14
import Mahotas.Proofs.C14Holes
import Mahotas.Proofs.C14Reg
import Mahotas.Proofs.StarCheck
import Mahotas.Proofs.C14Families
open Mahotas Mahotas.C14

/-- **C14-T1 (local extrema).** For every image of every rank and shape, every pixel `p` inside it and
every neighbourhood (centre removed) that is coordinate-wise star-shaped — the centred cross and
every centred box are — the model of `locmin_max` (neighbours read through
`fix_offset(ExtendNearest)`, i.e. clamped onto the image) marks `p` exactly when no neighbour
*inside the image* exceeds it (`isMin = false`, `locmax`) / undercuts it (`isMin = true`, `locmin`):
clamping is unobservable because a clamped neighbour is the pixel itself or a genuine neighbour. -/
theorem C14_locmax_eq_spec (isMin : Bool) (A : Img Int) (nb : List (List Int)) (p : List Int)
    (hp : inside A.shape p = true) (hlen : ∀ k ∈ nb, k.length = p.length) (hstar : StarShaped nb) :
    locAt isMin A nb p = locSpecAt isMin A nb p :=
  locAt_eq_spec isMin A nb p hp hlen hstar

/-- **C14-T2 (regional ⊆ local), unconditional.** Whatever the image, the neighbourhood and the
order in which the flood visits pixels: every pixel marked by the model of `regmax`/`regmin`
(`locmin_max` followed by `remove_fake_regmin_max`) is marked by the model of `locmax`/`locmin`,
because the removal pass only ever clears marks. -/
theorem C14_regional_subset_local (isMin : Bool) (A : Img Int) (nb : List (List Int)) (i : Nat)
    (h : (regModel isMin A nb).getD i false = true) : (locModel isMin A nb).getD i false = true :=
  removeFake_sub isMin A nb (locModel isMin A nb) i h

/-- **C14-T2 (regional extrema = plateaus without a strictly better neighbour).** For every image of
every rank and shape, every neighbourhood (centre removed) that is symmetric (`SymNb`: with `k` also
`−k`, offsets of the rank of the image) and coordinate-wise star-shaped — cross and box are — and
every pixel `q` inside the image: the model of `regmax`/`regmin` (`locmin_max`, then the scan of
`remove_fake_regmin_max` with its stack flood through marked pixels) marks `q` exactly when **every**
pixel `r` of the plateau of `q` (`PConn`: reached from `q` by neighbourhood steps between pixels of
equal value inside the image) has no neighbour inside the image that is strictly higher
(`isMin = false`) / strictly lower (`isMin = true`). Ties between plateaus, plateaus touching the
border and any scan/stack order are covered. -/
theorem C14_regional_eq_spec (isMin : Bool) (A : Img Int) (nb : List (List Int)) (hn : SymNb A nb)
    (hstar : StarShaped nb) (q : List Int) (hq : inside A.shape q = true) :
    (regModel isMin A nb).getD (ravelI A.shape q) false = true ↔ Regional isMin A nb q :=
  regModel_spec hn hstar q hq

/-- **C14-T4 (hit-or-miss = its definition).** For every image, every template whose sides are all
odd (any rank ≥ 1, template of the rank of the image) and every position `p`: the model of
`hitmiss` (border skipping through the `slack` counter, then the conjunction over the entries
different from 2) is 1 exactly when the whole template lies inside the image and every 0/1 entry
equals the pixel under it. -/
theorem C14_hitmiss_eq_spec (A : Img Int) (bshape : List Nat) (bc : Array Int) (p : List Int)
    (hodd : ∀ b ∈ bshape, b % 2 = 1) (hne : A.shape ≠ [])
    (hl1 : bshape.length = A.shape.length) (hl2 : p.length = A.shape.length) :
    hitmissAt A bshape (hmEntries bshape bc) p = hitmissSpecAt A bshape bc p := by
  unfold hitmissAt hitmissSpecAt
  rw [hmEvaluated_eq_inside A.shape bshape p hodd hne hl1 hl2, hmEntries_all]
  cases templateInside A.shape bshape p <;> simp

/-- **C14-T4 (the shuffle is unobservable).** The C++ shuffles the list of tested entries with a
fixed-seed `mt19937` before scanning; the model's answer is the same for *every* permutation of
that list (a conjunction does not depend on the order of evaluation). -/
theorem C14_hitmiss_order_irrelevant (A : Img Int) (bshape : List Nat)
    (es es' : List (List Int × Int)) (hperm : es.Perm es') (p : List Int) :
    hitmissAt A bshape es p = hitmissAt A bshape es' p := by
  unfold hitmissAt
  rw [hperm.all_eq]

/-- **F14 (flood fill = reachability).** For every shape, neighbourhood, initial flag array and
initial stack whose own flags are already cleared: with fuel at least `|stack| + #set flags` the
stack flood shared by `remove_fake_regmin_max` and `close_holes` ends with exactly those flags
cleared that belong to pixels reachable from the stack by steps `p ↦ p + k` through pixels inside
the image whose flag was set — it takes every such pixel, takes nothing else, and the fuel is
never exhausted (each pop is paid for by one stack entry or one set flag). -/
theorem C14_flood_reachability (c : Ctx) (fuel : Nat) (hfuel : c.stack0.length + cnt c.avail0 ≤ fuel)
    (h0 : ∀ p ∈ c.stack0, c.fl c.avail0 p = false) (q : List Int) (hq : inside c.shape q = true) :
    c.fl (flood c.shape c.nb fuel c.avail0 c.stack0) q = true ↔
      (c.fl c.avail0 q = true ∧ ¬ Reach c q) :=
  flood_final c fuel hfuel h0 q hq

/-- **C14-T3 (hole closing).** For every image (any rank the model is given, any shape, `data` of the
size of the shape), every neighbourhood and every pixel `q` inside the image: the model of
`close_holes` (seed the background pixels of the border, flood through background pixels, complement)
is true at `q` exactly when `q` is **not** a background pixel connected to the image border
(`BorderConn`: a background border pixel, or reached from one by neighbourhood steps through
background pixels inside the image). In particular every foreground pixel stays set and exactly the
enclosed background is filled. -/
theorem C14_close_holes_eq_spec (ref : Img Int) (nb : List (List Int))
    (hwf : ref.data.size = shapeSize ref.shape) (q : List Int) (hq : inside ref.shape q = true) :
    (closeHoles ref nb).getD (ravelI ref.shape q) false = true ↔ ¬ BorderConn ref nb q :=
  closeHoles_spec ref nb hwf q hq

/-- the Boolean checks `starShapedB` / `symNbB` (enumerate every offset between 0 and each member) are
sound for the hypotheses `StarShaped` and `SymNb` of the theorems above: for a concrete neighbourhood
they are discharged by `decide`. -/
theorem C14_star_sym_check (A : Img Int) (nb : List (List Int))
    (h1 : starShapedB nb = true) (h2 : symNbB A.shape.length nb = true) : StarShaped nb ∧ SymNb A nb :=
  ⟨starShaped_of_check nb h1, symNb_of_check A nb h2⟩

/-! the neighbourhoods of the property's quantifier pass the checks: crosses and boxes in 1, 2 and 3 D -/
example : starShapedB (neighbours [3] #[1, 1, 1]) = true ∧ symNbB 1 (neighbours [3] #[1, 1, 1]) = true := by decide
example : starShapedB (neighbours [3, 3] #[0, 1, 0, 1, 1, 1, 0, 1, 0]) = true ∧
    symNbB 2 (neighbours [3, 3] #[0, 1, 0, 1, 1, 1, 0, 1, 0]) = true := by decide
example : starShapedB (neighbours [3, 3] #[1, 1, 1, 1, 1, 1, 1, 1, 1]) = true ∧
    symNbB 2 (neighbours [3, 3] #[1, 1, 1, 1, 1, 1, 1, 1, 1]) = true := by decide
example : starShapedB (neighbours [3, 3, 3] (C01.crossElem 3 1)) = true ∧
    symNbB 3 (neighbours [3, 3, 3] (C01.crossElem 3 1)) = true := by decide
example : starShapedB (neighbours [3, 3, 3] (Array.replicate 27 1)) = true ∧
    symNbB 3 (neighbours [3, 3, 3] (Array.replicate 27 1)) = true := by decide

/-! non-vacuity: the 2-D cross (centre removed) is star-shaped, and a 2×3 image with a plateau
    touching the border and a tie between two plateaus meets every hypothesis of `C14_locmax_eq_spec`;
    the regional maxima are a strict subset of the local ones there. -/
example : StarShaped (neighbours [3, 3] #[0, 1, 0, 1, 1, 1, 0, 1, 0]) := by
  intro k hk k' hb
  have hk' : k = [-1, 0] ∨ k = [0, -1] ∨ k = [0, 1] ∨ k = [1, 0] := by
    have : neighbours [3, 3] #[0, 1, 0, 1, 1, 1, 0, 1, 0] = [[-1, 0], [0, -1], [0, 1], [1, 0]] := by decide
    rw [this] at hk; simpa using hk
  have hn : neighbours [3, 3] #[0, 1, 0, 1, 1, 1, 0, 1, 0] = [[-1, 0], [0, -1], [0, 1], [1, 0]] := by decide
  rw [hn]
  match k', hb with
  | [a, b], hb =>
    rcases hk' with rfl | rfl | rfl | rfl <;>
    · simp only [C01.between, Bool.and_true, Bool.and_eq_true, Bool.or_eq_true, decide_eq_true_eq] at hb
      have ha : a = -1 ∨ a = 0 ∨ a = 1 := by omega
      have hb' : b = -1 ∨ b = 0 ∨ b = 1 := by omega
      rcases ha with rfl | rfl | rfl <;> rcases hb' with rfl | rfl | rfl <;> first | omega | decide
  | [], hb => rcases hk' with rfl | rfl | rfl | rfl <;> simp [C01.between] at hb
  | [_], hb => rcases hk' with rfl | rfl | rfl | rfl <;> simp [C01.between] at hb
  | _ :: _ :: _ :: _, hb => rcases hk' with rfl | rfl | rfl | rfl <;> simp [C01.between] at hb

example :
    let A : Img Int := { shape := [2, 3], data := #[2, 2, 1, 0, 1, 2] }
    let nb := neighbours [3, 3] #[0, 1, 0, 1, 1, 1, 0, 1, 0]
    (locModel false A nb).toList = [true, true, false, false, false, true] ∧
    (regModel false A nb).toList = [true, true, false, false, false, true] ∧
    (regModel false { shape := [1, 4], data := #[1, 1, 2, 0] } (neighbours [1, 3] #[1, 1, 1])).toList
      = [false, false, true, false] ∧
    (locModel false { shape := [1, 4], data := #[1, 1, 2, 0] } (neighbours [1, 3] #[1, 1, 1])).toList
      = [true, false, true, false] := by
  decide

/-! the 2-D cross is a symmetric neighbourhood of a 2×3 image -/
example : SymNb { shape := [2, 3], data := #[2, 2, 1, 0, 1, 2] } (neighbours [3, 3] #[0, 1, 0, 1, 1, 1, 0, 1, 0]) :=
  ⟨by decide, by decide⟩

/-! non-vacuity for hit-or-miss and hole closing: a 3×3 ring is closed, the template matches once. -/
example :
    let A : Img Int := { shape := [3, 3], data := #[1, 1, 1, 1, 0, 1, 1, 1, 1] }
    (closeHoles A (neighbours [3, 3] #[0, 1, 0, 1, 1, 1, 0, 1, 0])).toList = List.replicate 9 true ∧
    (allPos A.shape).map (hitmissAt A [3, 3] (hmEntries [3, 3] #[2, 1, 2, 1, 0, 1, 2, 1, 2]))
      = [0, 0, 0, 0, 1, 0, 0, 0, 0] := by
  decide

/-! ## Round 2 — the neighbourhood hypotheses proved for whole families

`C01.CrossBoxDisk d S bc` (`Proofs/C02Families.lean`, spelled out in `C02_cross_box_disk_family`): `(S, bc)` is
`crossElem d r` on the shape `3 × … × 3` (what `get_structuring_elem` builds; any radius), `diskElem d r` on
`(2r+1) × … × (2r+1)` (any radius), or an all-ones box of rank `d` with arbitrary odd sides.
`neighbours S bc` is the list the driver hands to the kernels' models (non-zero entries, centre removed). -/

/-- **`StarShaped` and `SymNb` for every cross, box and disk.** For every rank `d`, every radius and every
odd box shape, the neighbourhood list the driver builds from a cross `crossElem d r`, a disk `diskElem d r`
or an all-ones odd box is coordinate-wise star-shaped (hypothesis of `C14_locmax_eq_spec` and
`C14_regional_eq_spec`), consists of offsets of length `d`, is closed under negation, hence is a symmetric
neighbourhood (`SymNb`) of **every** image of rank `d`; and it is exactly the set of non-centre offsets of the
compressed support of C01/C02 (all of height 1). -/
theorem C14_cross_box_star_sym (d : Nat) (S : List Nat) (bc : Array Int) (h : C01.CrossBoxDisk d S bc) :
    StarShaped (neighbours S bc) ∧
    (∀ k ∈ neighbours S bc, k.length = d) ∧
    (∀ k ∈ neighbours S bc, negPos k ∈ neighbours S bc) ∧
    (∀ A : Img Int, A.shape.length = d → SymNb A (neighbours S bc)) ∧
    (∀ k, k ∈ neighbours S bc ↔ (k, (1 : Int)) ∈ C01.support S bc true ∧ isZeroPos k = false) := by
  have hr := h.regular
  refine ⟨starShaped_family hr, neighbours_len hr, ?_, fun A hd => symNb_family hr A hd, ?_⟩
  · intro k hk
    exact (symNb_family hr { shape := List.replicate d 1, data := #[] } (by simp)).neg k hk
  · intro k
    rw [mem_neighbours]
    constructor
    · rintro ⟨⟨kh, hkh, rfl⟩, hz⟩
      have : kh = (kh.1, 1) := Prod.ext rfl (hr.ones kh hkh)
      rw [← this]; exact ⟨hkh, hz⟩
    · rintro ⟨hk, hz⟩; exact ⟨⟨(k, 1), hk, rfl⟩, hz⟩

/-- **local extrema with any cross / box / disk = their definition**, with no hypothesis on the
neighbourhood: for every image of every rank and shape, every pixel `p` inside it and the neighbourhood of any
`crossElem`, `diskElem` (every radius) or all-ones odd box of the rank of the image, the model of
`locmin_max` marks `p` exactly when no neighbour inside the image exceeds / undercuts it; consequently the
whole output array of the model is the specification's (the two lists the driver prints). -/
theorem C14_locmax_eq_spec_cross_box_disk (isMin : Bool) (A : Img Int) (S : List Nat) (bc : Array Int)
    (hfam : C01.CrossBoxDisk A.shape.length S bc) :
    (∀ p, inside A.shape p = true →
      locAt isMin A (neighbours S bc) p = locSpecAt isMin A (neighbours S bc) p) ∧
    (locModel isMin A (neighbours S bc)).toList =
      (allPos A.shape).map (locSpecAt isMin A (neighbours S bc)) := by
  have hr := hfam.regular
  have key : ∀ p, inside A.shape p = true →
      locAt isMin A (neighbours S bc) p = locSpecAt isMin A (neighbours S bc) p := by
    intro p hp
    refine locAt_eq_spec isMin A _ p hp ?_ (starShaped_family hr)
    intro k hk
    rw [neighbours_len hr k hk, C01.inside_length hp]
  refine ⟨key, ?_⟩
  unfold locModel
  rw [List.toList_toArray]
  exact List.map_congr_left fun p hp => key p ((C01.mem_allPos A.shape p).mp hp)

/-- **regional extrema with any cross / box / disk = plateaus without a strictly better neighbour**, with no
hypothesis on the neighbourhood: for every image of every rank and shape, every pixel `q` inside it and the
neighbourhood of any `crossElem`, `diskElem` (every radius) or all-ones odd box of the rank of the image, the
model of `regmax`/`regmin` marks `q` exactly when every pixel of the plateau of `q` has no strictly better
neighbour inside the image (`Regional`). -/
theorem C14_regional_eq_spec_cross_box_disk (isMin : Bool) (A : Img Int) (S : List Nat) (bc : Array Int)
    (hfam : C01.CrossBoxDisk A.shape.length S bc) (q : List Int) (hq : inside A.shape q = true) :
    (regModel isMin A (neighbours S bc)).getD (ravelI A.shape q) false = true ↔
      Regional isMin A (neighbours S bc) q :=
  regModel_spec (symNb_family hfam.regular A rfl) (starShaped_family hfam.regular) q hq

/-! non-vacuity of Round 2: the 3-D cross of radius 2 (18 neighbours), the radius-2 disk (8 neighbours) and
    the 5×3 box (14 neighbours) are instances; the corollaries apply to the 2×3 image with a plateau
    touching the border used above, with no further hypothesis on the neighbourhood. -/
example : StarShaped (neighbours [3, 3, 3] (C01.crossElem 3 2)) ∧
    (neighbours [3, 3, 3] (C01.crossElem 3 2)).length = 18 :=
  ⟨(C14_cross_box_star_sym 3 _ _ (Or.inl ⟨2, rfl, rfl⟩)).1, by decide⟩
example : StarShaped (neighbours [5, 5] (C01.diskElem 2 2)) ∧
    (neighbours [5, 5] (C01.diskElem 2 2)).length = 8 :=
  ⟨(C14_cross_box_star_sym 2 _ _ (Or.inr (Or.inl ⟨2, rfl, rfl⟩))).1, by decide⟩
example : SymNb { shape := [2, 3], data := #[2, 2, 1, 0, 1, 2] } (neighbours [5, 3] (Array.replicate 15 1)) ∧
    (neighbours [5, 3] (Array.replicate 15 1)).length = 14 :=
  ⟨(C14_cross_box_star_sym 2 _ _ (Or.inr (Or.inr ⟨rfl, by decide, by decide⟩))).2.2.2.1 _ rfl, by decide⟩

example :
    let A : Img Int := { shape := [2, 3], data := #[2, 2, 1, 0, 1, 2] }
    (locModel false A (neighbours [3, 3] (C01.crossElem 2 1))).toList =
      (allPos A.shape).map (locSpecAt false A (neighbours [3, 3] (C01.crossElem 2 1))) ∧
    ((regModel false A (neighbours [3, 3] (C01.crossElem 2 1))).getD (ravelI A.shape [0, 1]) false = true ↔
      Regional false A (neighbours [3, 3] (C01.crossElem 2 1)) [0, 1]) ∧
    (regModel false A (neighbours [3, 3] (C01.crossElem 2 1))).toList = [true, true, false, false, false, true] := by
  intro A
  exact ⟨(C14_locmax_eq_spec_cross_box_disk false A [3, 3] (C01.crossElem 2 1) (Or.inl ⟨1, rfl, rfl⟩)).2,
    C14_regional_eq_spec_cross_box_disk false A [3, 3] (C01.crossElem 2 1) (Or.inl ⟨1, rfl, rfl⟩) [0, 1]
      (by decide), by decide⟩
