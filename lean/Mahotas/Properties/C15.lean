/-
C15 — property theorems (statements only; helper lemmas live in `Proofs/C15*.lean`).

What is proved here is about the executable model `Mahotas.C15` that the native driver runs and
that the correspondence check compares with the real `mahotas.thin` / `mahotas.euler`, and about
the tables the translator extracts from `_thin.cpp` and `euler.py` on every run.
Not proved in general (validated by the check only): that Gray's bit-quad sum equals components −
holes (exhaustive small scope + random); proved for pixels, rectangles, rings and far-apart unions
of them, with the invariances of the sum (`C15_euler_*`, round 3, end of this file).
-/
import Mahotas.Proofs.C15
import Mahotas.Proofs.C15Thin
import Mahotas.Proofs.C15Model
import Mahotas.Proofs.C15Idem
import Mahotas.Proofs.C15Hull
import Mahotas.Proofs.C15Graham
import Mahotas.Proofs.C15Euler
import Mahotas.Proofs.C15Cell
import Mahotas.Proofs.C15Count
import Mahotas.Proofs.C15Flood
import Mahotas.Proofs.C15Row
import Mahotas.Proofs.C15FloodPx
open Mahotas Mahotas.C15

/-- **thin ⊆ input.** Every pixel set in the model of `mahotas.thin` (crop to the bounding box, zero
frame, the eight-pass loop with any `max_iter`, paste back) is set in the input, for every image. -/
theorem C15_thin_subset (b : Bin) (maxIter : Int) (y x : Int)
    (h : (thinModel b maxIter).get y x = true) : b.get y x = true :=
  thinModel_le b maxIter y x h

/-- **One pass keeps the 8-connected components** — for each of the eight hit-or-miss elements that
the translator extracts from `_thin.cpp` and for every image: the surviving pixel set `B` of a pass
(all matching pixels cleared in parallel) is a subset of the pixel set `A` before the pass, two
surviving pixels are 8-connected inside `A` iff they are 8-connected inside `B`, and every pixel of
`A` is 8-connected inside `A` to a surviving pixel. Hence inclusion induces a bijection between the
8-components of `B` and those of `A`: the number of components is unchanged. -/
theorem C15_thin_pass_preserves_components (e : Elem) (he : e ∈ Generated.thinElems) (b : Bin) :
    SameComps (bset b) (bset (pass b e)) := by
  rw [bset_pass]
  exact pass_sameComps e he (bset b)

/-- **The thinning loop keeps the 8-connected components**: the same three facts relate the image
handed to `_thin.thin` (the zero-framed crop) and the image it returns, for every image and every
`max_iter`. -/
theorem C15_thin_loop_preserves_components (b : Bin) (maxIter : Int) :
    SameComps (bset b) (bset (thinCore b maxIter)) :=
  thinCore_sameComps b maxIter

/-- **Termination / fixed point.** Every iteration that changes the image clears at least one
pixel, so with `max_iter < 0` the loop of the model (fuel = number of set pixels + 1) ends in an
image that none of the eight passes changes. -/
theorem C15_thin_reaches_fixpoint (b : Bin) (hb : b.WF) (maxIter : Int) (hm : maxIter < 0) :
    Stable (thinCore b maxIter) :=
  thinCore_stable b hb maxIter hm

/-- **thin keeps the 8-connected components** — the whole model of `mahotas.thin` (bounding-box
crop, zero frame, loop with any `max_iter`, paste back), every image: with `A` the input pixel set
and `B` the output pixel set, `B ⊆ A`, two pixels of `B` are 8-connected inside `A` iff they are
inside `B`, and every pixel of `A` is 8-connected inside `A` to a pixel of `B`; i.e. inclusion is a
bijection between the 8-components of the output and of the input (same number of components). -/
theorem C15_thin_preserves_components (b : Bin) (maxIter : Int) :
    SameComps (bset b) (bset (thinModel b maxIter)) :=
  thinModel_sameComps b maxIter

/-- **Thinning the result again changes nothing**: `thin(thin(x), ·) = thin(x)` for the whole model
(full skeletonisation `max_iter < 0` in the first call, any `max_iter` in the second) and every
image. (The loop's result is a fixed point; cropping it to its possibly smaller bounding box and
re-framing is a translation; passes commute with translations.) -/
theorem C15_thin_idempotent (b : Bin) (maxIter maxIter' : Int) (hm : maxIter < 0) :
    thinModel (thinModel b maxIter) maxIter' = thinModel b maxIter :=
  thinModel_idem b maxIter maxIter' hm

/-- **The eight templates are two templates and their rotations.** Each generated element has the
same members as a rotation by a multiple of 90° of generated element 0 (north edge:
`000 / ·1· / 111`) or of generated element 1 (north-east corner: `·00 / 11 0 / ·1·`). -/
theorem C15_thin_templates_rotations :
    Generated.thinElems.all (fun e =>
      (List.range 4).any fun k =>
        [Generated.thinElems.getD 0 [], Generated.thinElems.getD 1 []].any fun base =>
          let r := (rotE^[k]) base
          e.all (fun t => r.contains t) && r.all (fun t => e.contains t)) = true := by
  decide

/-- **The Euler look-up tables are Gray's bit-quad weights.** With the generated weights
`_powers = [[1,2],[4,8]]` and denominator 4, entry `code` of `_euler_lookup8` (`_euler_lookup4`) is
`(+1, −1, ∓2, 0)/4` according to whether the quad has one pixel, three pixels, a diagonal pair, or
anything else — for all 16 codes. -/
theorem C15_euler_tables_gray :
    Generated.eulerPowers = [[1, 2], [4, 8]] ∧ Generated.eulerDen = 4 ∧
    (∀ code : Fin 16, Generated.eulerLookup8.getD code.val 0 =
      grayQuad true (quadBit code 1) (quadBit code 2) (quadBit code 4) (quadBit code 8)) ∧
    (∀ code : Fin 16, Generated.eulerLookup4.getD code.val 0 =
      grayQuad false (quadBit code 1) (quadBit code 2) (quadBit code 4) (quadBit code 8)) :=
  ⟨euler_powers, euler_den, lookup8_gray, lookup4_gray⟩

/-- **The Euler model is Gray's bit-quad count.** For every image, `4·euler(f, n)` of the model
(convolution with `_powers` over the image padded by one background row and column, table look-up,
sum) equals the sum over *every* 2×2 window that meets the image — top-left corner from `(-1,-1)`
to `(rows-1, cols-1)`, background outside — of Gray's weight of that window:
`n(Q1) − n(Q3) − 2·n(QD)` for 8-connectivity and `… + 2·n(QD)` for 4-connectivity.
(That this count equals components − holes is Gray's theorem: validated, not proved.) -/
theorem C15_euler_model_is_gray_sum (b : Bin) (conn8 : Bool) : eulerModel4 b conn8 = graySum b conn8 :=
  eulerModel4_eq_graySum b conn8

/-- **Hull corners are distinct foreground pixels.** Every corner returned by the model of
`_convex.convexhull` (sort, two in-place monotone-chain scans) is a set pixel of the image, and no
corner is returned twice — for every image. -/
theorem C15_hull_corners_distinct_foreground (b : Bin) :
    (∀ p ∈ hullModel b, b.get p.1 p.2 = true) ∧ (hullModel b).Nodup :=
  ⟨fun p hp => foreground_get b p (grahamModel_subset _ p hp), grahamModel_nodup _ (foreground_nodup b)⟩

/-- **The hull model satisfies the statement's predicate** — the very predicate `hullOK` that the
check evaluates on the corners returned by the real `convexhull` — for every image: the corners of
the model (`std::sort`, forward monotone-chain scan, rotation, reverse scan on the rest) are
foreground pixels, pairwise distinct, returned iff there is a foreground pixel; every foreground
pixel (hence every corner: weak convex position) lies on one and the same side of, or on, every
directed edge of the closed corner polygon (containment); and the lexicographically smallest and
largest foreground pixels are corners. Proved from the scan's loop invariant (`ScanInv`: the stack
is strictly monotone, turns strictly one way, and every processed point lies on the inner side of
every stack edge) and one geometric lemma (`halfplane_trans`). -/
theorem C15_hull_correct (b : Bin) : hullOK (foreground b) (hullModel b) = true :=
  hullModel_hullOK b

/-- the same for an arbitrary list of distinct points handed to `inPlaceGraham` -/
theorem C15_graham_scan_correct (pts : List Pt) (hnd : pts.Nodup) : hullOK pts (grahamModel pts) = true :=
  grahamModel_hullOK pts hnd

/-- **fill_convexhull ⊇ input** for the model of `polygon.fill_convexhull` on boolean images (hull
corners, scan-line `fill_polygon` in the float arithmetic of the Python code, then
`canvas[bwimg] = 1`): every set pixel of the input is set in the result, for every image. -/
theorem C15_fill_convexhull_superset (b : Bin) (y x : Int) (h : b.get y x = true) :
    (fillHullModel b).get y x = true :=
  fillHullModel_superset b y x h

/-! ### non-vacuity -/

/-- a pass really deletes pixels: the top row of a 2×3 block matches the north-edge template -/
example : ∃ x : Px, delT e0 {p | (p.1 = 0 ∨ p.1 = 1) ∧ -1 ≤ p.2 ∧ p.2 ≤ 1} x :=
  ⟨(0, 0), by
    refine ⟨by simp, ?_⟩
    intro t ht
    simp [e0] at ht
    rcases ht with rfl | rfl | rfl | rfl | rfl | rfl <;> simp⟩

example : grayQuad true true false false true = -2 ∧ grayQuad false true false false true = 2 := by decide

/-! ### Round 3: exact identities of the Euler model's bit-quad sum

Gray's identity (bit-quad sum = components − holes) is not proved in general; the theorems below
prove what supports it, about `eulerModel4` itself (generated tables, every image size): the value
on the basic shapes (one pixel, filled rectangle: one component, no hole → 4·1; rectangular ring:
one component, one hole → 4·0), the invariances, and additivity over far-apart parts — so that
the identity holds for every image that is a far-apart union of translated/transposed rectangles
and rings. -/

/-- **A single pixel has Euler number 1.** An image of any size whose only set pixel is `(y0, x0)`
(necessarily inside the image: reads outside are `false`) has `eulerModel4 = 4` (= 4 · 1) for
8- and for 4-connectivity. -/
theorem C15_euler_single_pixel (b : Bin) (conn8 : Bool) (y0 x0 : Int)
    (h : ∀ y x, b.get y x = true ↔ (y = y0 ∧ x = x0)) : eulerModel4 b conn8 = 4 := by
  apply euler_rect b conn8 y0 1 x0 1 (by omega) (by omega)
  intro y x
  rw [Bool.eq_iff_iff, h]
  simp only [rectFn, ivl, Bool.and_eq_true, decide_eq_true_eq]
  omega

/-- **A filled rectangle has Euler number 1.** An image of any size whose set pixels are exactly
the `a × b` rectangle `[y0, y0+a) × [x0, x0+b)` with `a, b ≥ 1` (necessarily inside the image) has
`eulerModel4 = 4` for both connectivities: only the four corner windows have non-zero weight. -/
theorem C15_euler_rectangle (bi : Bin) (conn8 : Bool) (y0 x0 a b : Int) (ha : 1 ≤ a) (hb : 1 ≤ b)
    (h : ∀ y x, bi.get y x = true ↔ (y0 ≤ y ∧ y < y0 + a ∧ x0 ≤ x ∧ x < x0 + b)) :
    eulerModel4 bi conn8 = 4 := by
  apply euler_rect bi conn8 y0 a x0 b ha hb
  intro y x
  rw [Bool.eq_iff_iff, h]
  simp only [rectFn, ivl, Bool.and_eq_true, decide_eq_true_eq]
  omega

/-- **A rectangular ring has Euler number 0.** An image of any size whose set pixels are exactly
the boundary pixels of the rectangle `[y0, y0+a) × [x0, x0+b)` with `a, b ≥ 3` (a ring of thickness
one around a hole of `(a−2) × (b−2)` pixels) has `eulerModel4 = 0` for both connectivities (one
component, one hole): four outer corner windows of weight +1, four inner corner windows with three
pixels of weight −1. -/
theorem C15_euler_frame (bi : Bin) (conn8 : Bool) (y0 x0 a b : Int) (ha : 3 ≤ a) (hb : 3 ≤ b)
    (h : ∀ y x, bi.get y x = true ↔ (y0 ≤ y ∧ y < y0 + a ∧ x0 ≤ x ∧ x < x0 + b ∧
      (y = y0 ∨ y = y0 + a - 1 ∨ x = x0 ∨ x = x0 + b - 1))) :
    eulerModel4 bi conn8 = 0 := by
  apply euler_frame bi conn8 y0 a x0 b ha hb
  intro y x
  rw [Bool.eq_iff_iff, h]
  simp only [frameFn, rectFn, ivl, Bool.and_eq_true, Bool.not_eq_true', decide_eq_true_eq,
    Bool.and_eq_false_iff, decide_eq_false_iff_not]
  omega

/-- **Translation invariance.** If `b'` is `b` translated by `(dy, dx)` — possibly onto a canvas
of another size; since reads outside a canvas are `false`, the hypothesis says that no set pixel is
lost — then the bit-quad sums agree, for both connectivities. -/
theorem C15_euler_translation_invariant (b b' : Bin) (conn8 : Bool) (dy dx : Int)
    (h : ∀ y x, b'.get (y + dy) (x + dx) = b.get y x) : eulerModel4 b' conn8 = eulerModel4 b conn8 :=
  euler_translate b b' conn8 dy dx h

/-- **Transposition invariance.** If `b'` is the transpose of `b` then the bit-quad sums agree, for
both connectivities (Gray's weights are symmetric under swapping the two off-diagonal pixels). -/
theorem C15_euler_transpose_invariant (b b' : Bin) (conn8 : Bool)
    (h : ∀ y x, b'.get y x = b.get x y) : eulerModel4 b' conn8 = eulerModel4 b conn8 :=
  euler_transpose b b' conn8 h

/-- **Additivity over far-apart parts.** If `u` is the pixelwise union of `b1` and `b2` (canvases
of any sizes) and every set pixel of `b1` is at Chebyshev distance ≥ 2 from every set pixel of `b2`
(they are neither equal nor 8-neighbours, so no 2×2 window meets both), then the bit-quad sum of
the union is the sum of the two bit-quad sums, for both connectivities. -/
theorem C15_euler_additive_far_apart (b1 b2 u : Bin) (conn8 : Bool)
    (hu : ∀ y x, u.get y x = (b1.get y x || b2.get y x))
    (hfar : ∀ y1 x1 y2 x2, b1.get y1 x1 = true → b2.get y2 x2 = true →
      (y1 + 1 < y2 ∨ y2 + 1 < y1 ∨ x1 + 1 < x2 ∨ x2 + 1 < x1)) :
    eulerModel4 u conn8 = eulerModel4 b1 conn8 + eulerModel4 b2 conn8 := by
  apply euler_additive b1 b2 u conn8 hu
  rintro y x ⟨a1, a2⟩
  obtain ⟨y1, x1, e1, r1, c1⟩ := active_rows b1.get y x a1
  obtain ⟨y2, x2, e2, r2, c2⟩ := active_rows b2.get y x a2
  have := hfar y1 x1 y2 x2 e1 e2
  omega

/-- **Additivity over parts separated by an empty row or column.** If `u` is the pixelwise union
of `b1` and `b2` (canvases of any sizes) and some row `k` separates them (every set pixel of `b1`
has row `< k`, every set pixel of `b2` has row `> k`) or some column `k` does, then
`eulerModel4 u = eulerModel4 b1 + eulerModel4 b2`, for both connectivities. -/
theorem C15_euler_additive_disjoint (b1 b2 u : Bin) (conn8 : Bool)
    (hu : ∀ y x, u.get y x = (b1.get y x || b2.get y x))
    (hsep : (∃ k : Int, (∀ y x, b1.get y x = true → y < k) ∧ (∀ y x, b2.get y x = true → k < y)) ∨
      (∃ k : Int, (∀ y x, b1.get y x = true → x < k) ∧ (∀ y x, b2.get y x = true → k < x))) :
    eulerModel4 u conn8 = eulerModel4 b1 conn8 + eulerModel4 b2 conn8 := by
  apply C15_euler_additive_far_apart b1 b2 u conn8 hu
  intro y1 x1 y2 x2 e1 e2
  rcases hsep with ⟨k, h1, h2⟩ | ⟨k, h1, h2⟩
  · have := h1 y1 x1 e1
    have := h2 y2 x2 e2
    omega
  · have := h1 y1 x1 e1
    have := h2 y2 x2 e2
    omega

/-! ### non-vacuity (round 3) -/

example : eulerModel4 (Bin.ofInts 1 1 [1]) true = 4 ∧ eulerModel4 (Bin.ofInts 1 1 [1]) false = 4 := by decide
example : eulerModel4 (Bin.ofInts 2 2 [1, 1, 1, 1]) true = 4 ∧ eulerModel4 (Bin.ofInts 2 2 [1, 1, 1, 1]) false = 4 := by
  decide
example : eulerModel4 (Bin.ofInts 3 3 [1, 1, 1, 1, 0, 1, 1, 1, 1]) true = 0 ∧
    eulerModel4 (Bin.ofInts 3 3 [1, 1, 1, 1, 0, 1, 1, 1, 1]) false = 0 := by decide
example : eulerModel4 (Bin.ofInts 1 3 [1, 0, 1]) true = 8 ∧ eulerModel4 (Bin.ofInts 1 3 [1, 0, 1]) false = 8 := by
  decide
/-- the far-apart hypothesis is needed: two diagonal neighbours are one 8-component (4) but two
    4-components (8) -/
example : eulerModel4 (Bin.ofInts 2 2 [1, 0, 0, 1]) true = 4 ∧ eulerModel4 (Bin.ofInts 2 2 [1, 0, 0, 1]) false = 8 := by
  decide

/-- the hypotheses are satisfiable: a 3×4 rectangle at (1, 2) inside a 5×7 canvas -/
example (c : Bool) : eulerModel4 (Bin.tabulate 5 7 fun y x => decide (1 ≤ y ∧ y < 4 ∧ 2 ≤ x ∧ x < 6)) c = 4 :=
  C15_euler_rectangle _ c 1 2 3 4 (by omega) (by omega) (by
    intro y x
    rw [Bin.get_tabulate]
    simp only [Bool.and_eq_true, decide_eq_true_eq]
    omega)

/-- a 4×5 ring at (1, 1) inside a 6×7 canvas -/
example (c : Bool) : eulerModel4 (Bin.tabulate 6 7 fun y x =>
    decide (1 ≤ y ∧ y < 5 ∧ 1 ≤ x ∧ x < 6 ∧ (y = 1 ∨ y = 4 ∨ x = 1 ∨ x = 5))) c = 0 :=
  C15_euler_frame _ c 1 1 4 5 (by omega) (by omega) (by
    intro y x
    rw [Bin.get_tabulate]
    simp only [Bool.and_eq_true, decide_eq_true_eq]
    omega)

/-- one pixel at (2, 3) of a 4×5 canvas -/
example (c : Bool) : eulerModel4 (Bin.tabulate 4 5 fun y x => decide (y = 2 ∧ x = 3)) c = 4 :=
  C15_euler_single_pixel _ c 2 3 (by
    intro y x
    rw [Bin.get_tabulate]
    simp only [Bool.and_eq_true, decide_eq_true_eq]
    omega)

/-- translation onto a canvas of another size, transposition, and a union across an empty column:
    a rectangle and a ring side by side have bit-quad sum 4 + 0 -/
example (c : Bool) (f : Int → Int → Bool) :
    eulerModel4 (Bin.tabulate 9 8 fun y x => f (y - 2) (x - 1) && decide (2 ≤ y ∧ y < 5 ∧ 1 ≤ x ∧ x < 5)) c =
      eulerModel4 (Bin.tabulate 3 4 f) c :=
  C15_euler_translation_invariant _ _ c 2 1 (by
    intro y x
    rw [Bin.get_tabulate, Bin.get_tabulate]
    have e1 : y + 2 - 2 = y := by omega
    have e2 : x + 1 - 1 = x := by omega
    rw [e1, e2]
    cases f y x
    · simp
    · rw [Bool.eq_iff_iff]
      simp only [Bool.and_eq_true, decide_eq_true_eq, true_and, and_true]
      omega)

example (c : Bool) (f : Int → Int → Bool) :
    eulerModel4 (Bin.tabulate 4 3 fun y x => f x y) c = eulerModel4 (Bin.tabulate 3 4 f) c :=
  C15_euler_transpose_invariant _ _ c (by
    intro y x
    rw [Bin.get_tabulate, Bin.get_tabulate]
    cases f x y
    · simp
    · rw [Bool.eq_iff_iff]
      simp only [Bool.and_eq_true, decide_eq_true_eq, and_true]
      omega)

example (c : Bool) :
    eulerModel4 (Bin.tabulate 3 6 fun y x =>
      decide (x < 2) || decide (3 ≤ x ∧ (y = 0 ∨ y = 2 ∨ x = 3 ∨ x = 5))) c = 4 + 0 := by
  rw [C15_euler_additive_disjoint (Bin.tabulate 3 2 fun _ _ => true)
    (Bin.tabulate 3 6 fun y x => decide (3 ≤ x ∧ (y = 0 ∨ y = 2 ∨ x = 3 ∨ x = 5))) _ c ?_ (Or.inr ⟨2, ?_, ?_⟩)]
  · congr 1
    · exact C15_euler_rectangle _ c 0 0 3 2 (by omega) (by omega) (by
        intro y x
        rw [Bin.get_tabulate]
        simp only [Bool.and_eq_true, decide_eq_true_eq, and_true]
        omega)
    · exact C15_euler_frame _ c 0 3 3 3 (by omega) (by omega) (by
        intro y x
        rw [Bin.get_tabulate]
        simp only [Bool.and_eq_true, decide_eq_true_eq]
        omega)
  · intro y x
    rw [Bool.eq_iff_iff]
    simp only [Bin.get_tabulate, Bool.and_eq_true, Bool.or_eq_true, decide_eq_true_eq, and_true]
    omega
  · intro y x
    simp only [Bin.get_tabulate, Bool.and_eq_true, decide_eq_true_eq, and_true]
    omega
  · intro y x
    simp only [Bin.get_tabulate, Bool.and_eq_true, decide_eq_true_eq]
    omega

/-- **The bit-quad sum is four times the Euler characteristic `V − E + F` of a cell complex** — for every image
and both conventions, about `eulerModel4` itself. `F = pixelsN` counts the set pixels; for 8-connectivity
(`conn8 = true`, closed unit squares) `E = edgesN` counts the unit edges and `V = verticesN` the lattice vertices
adjacent to *some* set pixel; for 4-connectivity an edge (vertex) counts iff *both* (all four) adjacent pixels are set
(`cop`), all read with background outside the image. The identity is local double counting (every pixel lies in four
2×2 windows, every edge in two, every vertex in one; `grayQuad_cells` checks Gray's weights against
`4·[vertex] − 2·[edges] + [pixels]` for all 32 cases). Gray's identity `euler = components − holes` is thereby
reduced to the Euler–Poincaré formula `V − E + F = b₀ − b₁` for this planar complex, which is **not** proved
(validated exhaustively on small images and randomly). -/
theorem C15_euler_cell_complex (b : Bin) (conn8 : Bool) :
    eulerModel4 b conn8 = 4 * (verticesN conn8 b - edgesN conn8 b + pixelsN b) :=
  eulerModel4_eq_cells b conn8

/-- one pixel: 4 vertices, 4 edges, 1 face (8-conn.) / 0 vertices, 0 edges, 1 pixel (4-conn.);
    a diagonal pair: 7 − 8 + 2 = 1 (8-conn.) and 0 − 0 + 2 = 2 (4-conn.) -/
example : verticesN true (Bin.ofInts 1 1 [1]) = 4 ∧ edgesN true (Bin.ofInts 1 1 [1]) = 4 ∧
    pixelsN (Bin.ofInts 1 1 [1]) = 1 ∧ verticesN false (Bin.ofInts 1 1 [1]) = 0 ∧
    verticesN true (Bin.ofInts 2 2 [1, 0, 0, 1]) = 7 ∧ edgesN true (Bin.ofInts 2 2 [1, 0, 0, 1]) = 8 ∧
    edgesN false (Bin.ofInts 2 2 [1, 0, 0, 1]) = 0 := by
  decide +kernel

/-- **thin keeps the NUMBER of 8-connected components** — literally: `Comps A` is the set of 8-connected components of
the pixel set `A` (the quotient of `A` by 8-connectivity inside `A`); for every image and every `max_iter` the component
sets of the input and of the model of `mahotas.thin` have the same (finite) cardinality, and so have the pixel sets
before and after every single pass and before and after the loop. (`SameComps A B` gives the bijection
`Comps B → Comps A` induced by the inclusion: `compMap_bijective`.) -/
theorem C15_thin_same_number_of_components (b : Bin) (maxIter : Int) :
    Nat.card (Comps (bset (thinModel b maxIter))) = Nat.card (Comps (bset b)) ∧
    Finite (Comps (bset b)) ∧ Finite (Comps (bset (thinModel b maxIter))) ∧
    Nat.card (Comps (bset (thinCore b maxIter))) = Nat.card (Comps (bset b)) ∧
    (∀ e ∈ Generated.thinElems, Nat.card (Comps (bset (pass b e))) = Nat.card (Comps (bset b))) :=
  ⟨(thinModel_sameComps b maxIter).card_eq, comps_finite b, comps_finite _,
   (thinCore_sameComps b maxIter).card_eq,
   fun e he => (C15_thin_pass_preserves_components e he b).card_eq⟩

/-- non-vacuity: the one-pixel image has exactly one component -/
example : Nat.card (Comps (bset (Bin.ofInts 1 1 [1]))) = 1 := by
  rw [Nat.card_eq_one_iff_unique]
  have hmem : ((0, 0) : Px) ∈ bset (Bin.ofInts 1 1 [1]) := by
    show (Bin.ofInts 1 1 [1]).get 0 0 = true
    decide
  refine ⟨⟨fun qa qb => ?_⟩, ⟨Quotient.mk _ ⟨(0, 0), hmem⟩⟩⟩
  induction qa using Quotient.ind with
  | _ a =>
    induction qb using Quotient.ind with
    | _ c =>
      have ha := get_inrange _ a.1.1 a.1.2 a.2
      have hc := get_inrange _ c.1.1 c.1.2 c.2
      have hac : a = c := by
        apply Subtype.ext
        apply Prod.ext
        · have h1 := ha.1; have h2 := ha.2.1; have h3 := hc.1; have h4 := hc.2.1
          simp only [Bin.ofInts] at h2 h4
          omega
        · have h1 := ha.2.2.1; have h2 := ha.2.2.2; have h3 := hc.2.2.1; have h4 := hc.2.2.2
          simp only [Bin.ofInts] at h2 h4
          omega
      rw [hac]
/-! ## Round 3 addendum: the flood-fill counting oracle counts connected components -/

/-- **The flood-fill oracle counts the connected components** — for every `rows`, `cols`, every mask array (reads
outside the array are `false`; no size hypothesis is needed) and both connectivities. The graph: a vertex
(`IsV rows cols mask i`) is a flat index `i < rows * cols` with `mask[i] = true`; `adjIdx rows cols conn8 i j` says
that `j`'s (row, column) is `i`'s (row `i / cols`, column `i % cols`) plus one of the offsets of `neigh conn8`
(the 8 or the 4 neighbours), inside the box `[0, rows) × [0, cols)` (`tgt`, the model's own index arithmetic);
`IConn` is the reflexive-transitive closure of "adjacent vertices" (it is symmetric: `IConn.symm`). Claim: there is a
duplicate-free list `seeds` whose **length is the first component of `countComps`**, whose members are exactly the
set pixels that are the smallest index of their connected component (one canonical representative per component), and
every set pixel is connected to exactly one member. Hence `(countComps rows cols mask conn8).1` is the number of
connected components. Proof: loop invariant of `flood` (everything newly marked is connected to the seed; every marked
pixel that has left the stack has all its set neighbours marked), fuel adequacy (`stack length + #unmarked set pixels`
never increases over a step that pops one pixel, so `rows * cols + 1` steps empty the stack), and the invariant of the
outer scan (the marked set is the union of the components of the seeds found so far). -/
theorem C15_components_count (rows cols : Nat) (mask : Array Bool) (conn8 : Bool) :
    ∃ seeds : List Nat, seeds.Nodup ∧ seeds.length = (countComps rows cols mask conn8).1 ∧
      (∀ i, i ∈ seeds ↔ (IsV rows cols mask i ∧ ∀ j, IConn rows cols mask conn8 i j → i ≤ j)) ∧
      (∀ k, IsV rows cols mask k → ∃! s, s ∈ seeds ∧ IConn rows cols mask conn8 s k) := by
  obtain ⟨seeds, _, h1, h2, h3, h4, _⟩ := countComps_spec rows cols mask conn8
  exact ⟨seeds, h1, h2, h3, h4⟩

/-- **`components b conn8` is the number of `conn8`-connected components of the foreground of `b`** (the oracle used by
the correspondence check for the thinning outputs and for `eulerSpec`): the statement of `C15_components_count` for
the image's own `rows`, `cols`, `data`. -/
theorem C15_components_count_bin (b : Bin) (conn8 : Bool) :
    ∃ seeds : List Nat, seeds.Nodup ∧ seeds.length = components b conn8 ∧
      (∀ i, i ∈ seeds ↔ (IsV b.rows b.cols b.data i ∧ ∀ j, IConn b.rows b.cols b.data conn8 i j → i ≤ j)) ∧
      (∀ k, IsV b.rows b.cols b.data k → ∃! s, s ∈ seeds ∧ IConn b.rows b.cols b.data conn8 s k) :=
  C15_components_count b.rows b.cols b.data conn8

/-- **The second counter counts the components that meet the image border**: there is a duplicate-free list whose
length is `(countComps rows cols mask conn8).2` and whose members are exactly the canonical representatives (smallest
index of the component) of those components that contain a pixel `k` in row 0, column 0, the last row or the last
column (`bdr rows cols k`). -/
theorem C15_components_border_count (rows cols : Nat) (mask : Array Bool) (conn8 : Bool) :
    ∃ touching : List Nat, touching.Nodup ∧ touching.length = (countComps rows cols mask conn8).2 ∧
      (∀ s, s ∈ touching ↔ ((IsV rows cols mask s ∧ ∀ j, IConn rows cols mask conn8 s j → s ≤ j) ∧
        ∃ k, IConn rows cols mask conn8 s k ∧ bdr rows cols k = true)) := by
  obtain ⟨_, seeds2, _, _, _, _, h5, h6, h7⟩ := countComps_spec rows cols mask conn8
  exact ⟨seeds2, h5, h6, h7⟩

/-- **`holes b conn8` is the number of `conn8`-connected components of the background that do not meet the image
border**: the background mask is `b.data.map (!·)` (for a well-formed image, `b.data.size = b.rows * b.cols`, its
vertices are exactly the unset pixels of the box); there is a duplicate-free list of length `holes b conn8` whose members
are exactly the canonical representatives of the background components containing no border pixel. -/
theorem C15_holes_count (b : Bin) (conn8 : Bool) :
    ∃ inner : List Nat, inner.Nodup ∧ inner.length = holes b conn8 ∧
      (∀ s, s ∈ inner ↔ ((IsV b.rows b.cols (b.data.map (!·)) s ∧
          ∀ j, IConn b.rows b.cols (b.data.map (!·)) conn8 s j → s ≤ j) ∧
        ¬ ∃ k, IConn b.rows b.cols (b.data.map (!·)) conn8 s k ∧ bdr b.rows b.cols k = true)) :=
  countComps_inner b.rows b.cols (b.data.map (!·)) conn8

/-- the background mask of a well-formed image: inside the box a pixel is a background vertex iff it is not set -/
theorem C15_background_vertex (b : Bin) (hwf : b.data.size = b.rows * b.cols) (k : Nat) :
    IsV b.rows b.cols (b.data.map (!·)) k ↔ (k < b.rows * b.cols ∧ b.data.getD k false = false) := by
  unfold IsV mk
  constructor
  · rintro ⟨h1, h2⟩
    refine ⟨h1, ?_⟩
    have : k < b.data.size := by omega
    simpa [Array.getD_eq_getD_getElem?, this] using h2
  · rintro ⟨h1, h2⟩
    refine ⟨h1, ?_⟩
    have : k < b.data.size := by omega
    simpa [Array.getD_eq_getD_getElem?, this] using h2

/-- **`eulerSpec` is (number of foreground components) − (number of background components in the dual connectivity
that do not meet the border)**, with both numbers given as lengths of duplicate-free lists of canonical
representatives. -/
theorem C15_eulerSpec_count (b : Bin) (conn8 : Bool) :
    ∃ comps inner : List Nat, comps.Nodup ∧ inner.Nodup ∧
      eulerSpec b conn8 = (comps.length : Int) - (inner.length : Int) ∧
      (∀ i, i ∈ comps ↔ (IsV b.rows b.cols b.data i ∧ ∀ j, IConn b.rows b.cols b.data conn8 i j → i ≤ j)) ∧
      (∀ s, s ∈ inner ↔ ((IsV b.rows b.cols (b.data.map (!·)) s ∧
          ∀ j, IConn b.rows b.cols (b.data.map (!·)) (!conn8) s j → s ≤ j) ∧
        ¬ ∃ k, IConn b.rows b.cols (b.data.map (!·)) (!conn8) s k ∧ bdr b.rows b.cols k = true)) := by
  obtain ⟨comps, h1, h2, h3, _⟩ := C15_components_count_bin b conn8
  obtain ⟨inner, g1, g2, g3⟩ := C15_holes_count b (!conn8)
  exact ⟨comps, inner, h1, g1, by unfold eulerSpec; rw [h2, g2], h3, g3⟩

/-- non-vacuity: the diagonal pair `[[1,0],[0,1]]` is one 8-component and two 4-components, all touching the border;
    its pixels 0 and 3 are joined by an edge for 8-connectivity (`IConn`) and are not adjacent for 4-connectivity;
    the 3×3 ring has one component and one hole (4-connected background); with the corner pixel `(0,0)` removed the
    centre is still a hole for the 4-connected background (the gap is diagonal) but not for the 8-connected one. -/
example : countComps 2 2 #[true, false, false, true] true = (1, 1) ∧
    countComps 2 2 #[true, false, false, true] false = (2, 2) ∧
    components (Bin.ofInts 3 3 [1, 1, 1, 1, 0, 1, 1, 1, 1]) true = 1 ∧
    holes (Bin.ofInts 3 3 [1, 1, 1, 1, 0, 1, 1, 1, 1]) false = 1 ∧
    eulerSpec (Bin.ofInts 3 3 [1, 1, 1, 1, 0, 1, 1, 1, 1]) true = 0 ∧
    holes (Bin.ofInts 3 3 [0, 1, 1, 1, 0, 1, 1, 1, 1]) false = 1 ∧
    holes (Bin.ofInts 3 3 [0, 1, 1, 1, 0, 1, 1, 1, 1]) true = 0 := by
  decide +kernel

example : IConn 2 2 #[true, false, false, true] true 0 3 ∧ ¬ adjIdx 2 2 false 0 3 := by
  refine ⟨Relation.ReflTransGen.single ⟨⟨by decide, by decide⟩, ⟨by decide, by decide⟩, (1, 1), by decide, by decide⟩, ?_⟩
  rintro ⟨d, hd, ht⟩
  revert ht
  revert d
  decide

/-- **The edges of the counted graph in pixel coordinates** (both connectivities): for a flat index `j` inside the box,
`adjIdx rows cols conn8 i j` holds iff (row of `j` − row of `i`, column of `j` − column of `i`) is one of the offsets
of `neigh conn8`, with row `= index / cols` and column `= index % cols`. So the graph of `C15_components_count` is the
usual 8- (4-) neighbourhood graph on the set pixels of the `rows × cols` box. -/
theorem C15_flood_graph_coordinates (rows cols : Nat) (conn8 : Bool) (i j : Nat) (hj : j < rows * cols) :
    adjIdx rows cols conn8 i j ↔
      (((j / cols : Nat) : Int) - ((i / cols : Nat) : Int), ((j % cols : Nat) : Int) - ((i % cols : Nat) : Int))
        ∈ neigh conn8 :=
  adjIdx_iff hj

/-- **For 8-connectivity the oracle counts the classes of `Conn (bset b)`** — the very connectivity relation
(`adj8` on pixels `(row, column) : ℤ × ℤ`, chains inside the pixel set `bset b` of the image) that the thinning theorems
`C15_pass_preserves_components` … speak about: there is a duplicate-free list of `components b true` flat indices of
set pixels such that every pixel of `bset b` is `Conn (bset b)`-connected to the pixel (`pxOf`: row `s / cols`, column
`s % cols`) of exactly one member. Hence `components b true` is the number of 8-connected components of `bset b`, and
the `nin = nout` comparison of the check compares exactly the quantity that `SameComps` preserves. -/
theorem C15_components_count_pixels (b : Bin) :
    ∃ seeds : List Nat, seeds.Nodup ∧ seeds.length = components b true ∧
      (∀ s ∈ seeds, s < b.rows * b.cols ∧ pxOf b.cols s ∈ bset b) ∧
      (∀ p ∈ bset b, ∃! s, s ∈ seeds ∧ Conn (bset b) (pxOf b.cols s) p) := by
  obtain ⟨seeds, h1, h2, h3, h4⟩ := C15_components_count_bin b true
  refine ⟨seeds, h1, h2, fun s hs => (isV_iff b s).mp ((h3 s).mp hs).1, ?_⟩
  intro p hp
  obtain ⟨l, e⟩ := box_idx (bset_box b hp)
  have hV : IsV b.rows b.cols b.data (idxOf b.cols p) := (isV_iff b _).mpr ⟨l, by rw [e]; exact hp⟩
  obtain ⟨s, ⟨hs1, hs2⟩, huniq⟩ := h4 _ hV
  refine ⟨s, ⟨hs1, ?_⟩, ?_⟩
  · have := ((IConn_iff_Conn b ((h3 s).mp hs1).1).mp hs2).2
    rwa [e] at this
  · rintro s' ⟨hs1', hs2'⟩
    apply huniq
    refine ⟨hs1', (IConn_iff_Conn b ((h3 s').mp hs1').1).mpr ⟨l, ?_⟩⟩
    rw [e]; exact hs2'

/-- non-vacuity: in the 2×2 diagonal pair the pixels `(0,0)` and `(1,1)` form one class of `Conn (bset b)`, and the
    oracle says 1 -/
example : components (Bin.ofInts 2 2 [1, 0, 0, 1]) true = 1 ∧
    Conn (bset (Bin.ofInts 2 2 [1, 0, 0, 1])) (0, 0) (1, 1) := by
  refine ⟨by decide +kernel, Relation.ReflTransGen.single
    ⟨show (Bin.ofInts 2 2 [1, 0, 0, 1]).get 0 0 = true by decide,
     show (Bin.ofInts 2 2 [1, 0, 0, 1]).get 1 1 = true by decide, ?_⟩⟩
  rw [adj8_iff]
  decide

/-- **Images with the same 8-components get the same count from the oracle**: if `SameComps (bset a) (bset b)` (the
pixel set of `b` lies in that of `a`, connectivity between pixels of `b` is the same in both, every pixel of `a` is
connected to one of `b` — the relation the thinning theorems establish) then `components a true = components b true`.
(Counting argument on the two systems of representatives of `C15_components_count_pixels`.) -/
theorem C15_components_eq_of_sameComps (a b : Bin) (h : SameComps (bset a) (bset b)) :
    components a true = components b true := by
  obtain ⟨la, a1, a2, a3, a4⟩ := C15_components_count_pixels a
  obtain ⟨lb, b1, b2, b3, b4⟩ := C15_components_count_pixels b
  rw [← a2, ← b2]
  exact sdr_length_eq h ⟨a1, fun s hs => (a3 s hs).2, a4⟩ ⟨b1, fun s hs => (b3 s hs).2, b4⟩

/-- **`thin` keeps the number of 8-connected components as counted by the oracle** — the `nin = nout` comparison of the
correspondence check, proved for the model and every image and every `max_iter`:
`components (thinModel b maxIter) true = components b true`
(from `C15_thin_preserves_components` and `C15_components_eq_of_sameComps`). -/
theorem C15_thin_components_count (b : Bin) (maxIter : Int) :
    components (thinModel b maxIter) true = components b true :=
  (C15_components_eq_of_sameComps b (thinModel b maxIter) (C15_thin_preserves_components b maxIter)).symm

/-- non-vacuity: a filled 3×3 square thins to fewer pixels and keeps its single component -/
example : components (Bin.ofInts 3 3 [1, 1, 1, 1, 1, 1, 1, 1, 1]) true = 1 ∧
    (thinModel (Bin.ofInts 3 3 [1, 1, 1, 1, 1, 1, 1, 1, 1])).count < 9 ∧
    components (thinModel (Bin.ofInts 3 3 [1, 1, 1, 1, 1, 1, 1, 1, 1])) true = 1 := by
  decide +kernel

/-- **The oracle's count is the cardinality of the set of components**: `components b true` (the flood-fill counter the
check evaluates on inputs and real outputs) equals `Nat.card (Comps (bset b))`, the number of classes of 8-connectivity
on the pixel set — for every image. (From the system of distinct representatives of `C15_components_count_pixels`: the
map `s ↦ ⟦pxOf s⟧` from the seeds to the components is a bijection.) With `C15_thin_same_number_of_components` this is
`components (thin b) = components b` once more, now through the quotient. -/
theorem C15_components_eq_card (b : Bin) : components b true = Nat.card (Comps (bset b)) := by
  obtain ⟨seeds, hnd, hlen, hmem, huniq⟩ := C15_components_count_pixels b
  have hcard : Nat.card {s : Nat // s ∈ seeds} = seeds.length := by
    rw [← List.toFinset_card_of_nodup hnd, ← Fintype.card_coe, ← Nat.card_eq_fintype_card]
    exact Nat.card_congr (Equiv.subtypeEquivRight (by simp))
  rw [← hlen, ← hcard]
  refine Nat.card_congr (Equiv.ofBijective
    (fun s : {s : Nat // s ∈ seeds} => (Quotient.mk (compSetoid (bset b)) ⟨pxOf b.cols s.1, (hmem s.1 s.2).2⟩ :
      Comps (bset b))) ⟨?_, ?_⟩)
  · intro s t hst
    have hc : Conn (bset b) (pxOf b.cols s.1) (pxOf b.cols t.1) := Quotient.exact hst
    obtain ⟨u, _, hu⟩ := huniq (pxOf b.cols t.1) (hmem t.1 t.2).2
    have h1 := hu s.1 ⟨s.2, hc⟩
    have h2 := hu t.1 ⟨t.2, Conn.refl _⟩
    exact Subtype.ext (h1.trans h2.symm)
  · intro q
    induction q using Quotient.ind with
    | _ p =>
      obtain ⟨s, ⟨hs, hc⟩, _⟩ := huniq p.1 p.2
      exact ⟨⟨s, hs⟩, Quotient.sound hc⟩

/-! ## Round 4 — the `mode` argument of `euler` -/

/-- reading through `ignore` (an out-of-image element is skipped = contributes weight 0) is reading background outside -/
theorem C15_getMode_ignore (b : C15.Bin) (y x : Int) : C15.getMode b .ignore y x = b.get y x := by
  unfold C15.getMode fixOffset
  by_cases hy : y < 0 ∨ y ≥ (b.rows : Int)
  · have : b.get y x = false := by
      unfold C15.Bin.get; rw [if_neg]; omega
    simp [hy, this]
  · by_cases hx : x < 0 ∨ x ≥ (b.cols : Int)
    · have : b.get y x = false := by
        unfold C15.Bin.get; rw [if_neg]; omega
      simp [hy, hx, this]
    · simp [hy, hx]

/-- every mode reads the pixel itself inside the image -/
theorem C15_getMode_inside (b : C15.Bin) (m : Mode) (y x : Int)
    (hy : 0 ≤ y ∧ y < (b.rows : Int)) (hx : 0 ≤ x ∧ x < (b.cols : Int)) : C15.getMode b m y x = b.get y x := by
  have h1 : ¬ y < 0 := by omega
  have h2 : ¬ y ≥ (b.rows : Int) := by omega
  have h3 : ¬ x < 0 := by omega
  have h4 : ¬ x ≥ (b.cols : Int) := by omega
  cases m <;> simp [C15.getMode, fixOffset, h1, h2, h3, h4]

/-- **C15 (`euler`, the `mode` argument).** `eulerMode4` is the model of `euler(f, n, mode)` for all six border modes (compared
with the real call for every mode by the check). The default `constant` is the padded sum `eulerModel4` the statement is about;
`ignore` is the *unpadded* sum `eulerPinned4` (only the windows ending inside the image, background outside) — the quantity
the pinned code computed in the default mode too (defect #23) — and for every mode the value only depends on reads of row /
column `-1` through `fixOffset`: inside the image all modes read the pixel itself. -/
theorem C15_euler_mode (b : C15.Bin) (conn8 : Bool) :
    C15.eulerMode4 b conn8 .constant = C15.eulerModel4 b conn8 ∧
    C15.eulerMode4 b conn8 .ignore = C15.eulerPinned4 b conn8 := by
  refine ⟨rfl, ?_⟩
  have hq : ∀ y x, C15.quadCodeMode b .ignore y x = C15.quadCode b y x := by
    intro y x
    unfold C15.quadCodeMode C15.quadCode
    simp only [C15_getMode_ignore]
  simp only [C15.eulerMode4, C15.eulerPinned4, hq]

/-! non-vacuity: the 2×2 block is 1 component (4/4) in the default mode; unpadded (`ignore`) only the top-left window counts
    (1/4, what the real code returns); `wrap` sees a torus entirely covered (0); `nearest` a quarter plane (1/4 … ) -/
example :
    let b := C15.Bin.ofInts 2 2 [1, 1, 1, 1]
    C15.eulerMode4 b true .constant = 4 ∧ C15.eulerMode4 b true .ignore = 1 ∧
    C15.eulerMode4 b true .wrap = 0 ∧ C15.eulerMode4 b true .nearest = 0 ∧
    C15.getMode b .mirror (-1) 0 = true ∧ C15.getMode (C15.Bin.ofInts 2 1 [0, 1]) .mirror (-1) 0 = true ∧
    C15.getMode (C15.Bin.ofInts 2 1 [0, 1]) .reflect (-1) 0 = false := by decide

/-! ## Round 4 — `thin`: the `max_iter` argument and the control structure around the passes -/

/-- the loop composes: `n + k` rounds are `k` rounds after `n` rounds (an early exit leaves a stable image) -/
theorem C15_thinLoop_add (n k : Nat) (b : C15.Bin) (hb : b.WF) :
    C15.thinLoop (n + k) b = C15.thinLoop k (C15.thinLoop n b) := by
  have succ : ∀ (m : Nat) (a : C15.Bin), C15.thinLoop (m + 1) a =
      if (C15.iter a).data == a.data then C15.iter a else C15.thinLoop m (C15.iter a) := fun _ _ => rfl
  induction n generalizing b with
  | zero => simp [C15.thinLoop]
  | succ n ih =>
    have e : n + 1 + k = (n + k) + 1 := by omega
    rw [e, succ (n + k) b, succ n b]
    obtain ⟨hr, hc, hw⟩ := C15.iter_shape b hb
    by_cases heq : ((C15.iter b).data == b.data) = true
    · rw [if_pos heq, if_pos heq]
      have hd : (C15.iter b).data = b.data := by simpa using heq
      have hib : C15.iter b = b := C15.bin_ext _ _ hr hc hd
      have hs : C15.Stable (C15.iter b) := by unfold C15.Stable; rw [hib]; exact hd
      exact (C15.thinLoop_eq_of_stable k _ hw hs).symm
    · rw [if_neg heq, if_neg heq]
      exact ih (C15.iter b) hw

/-- **C15 (`thin`, the `max_iter` argument).** `while (any_change && (max_iter < 0 || n++ < max_iter))`: for
`max_iter ≥ 0` the model runs exactly the loop with fuel `max_iter` — at most `max_iter` rounds of the eight passes, stopping
early at a fixed point; the internal cap `count + 1` never binds (more fuel than pixels changes nothing). Consequences:
`max_iter = 0` returns the image unchanged; every `max_iter > count` (and every negative one) gives the full thinning; and
the result for `max_iter + k` is the result of `k` more rounds on the result for `max_iter`. -/
theorem C15_thin_max_iter (b : C15.Bin) (hb : b.WF) (m : Nat) :
    C15.thinCore b (m : Int) = C15.thinLoop m b ∧
    C15.thinCore b 0 = b ∧
    (b.count < m → C15.thinCore b (m : Int) = C15.thinCore b (-1)) ∧
    (∀ k : Nat, C15.thinCore b ((m + k : Nat) : Int) = C15.thinLoop k (C15.thinCore b (m : Int))) := by
  have full : ∀ n : Nat, b.count + 1 ≤ n → C15.thinLoop n b = C15.thinLoop (b.count + 1) b := by
    intro n hn
    obtain ⟨k, rfl⟩ : ∃ k, n = (b.count + 1) + k := ⟨n - (b.count + 1), by omega⟩
    rw [C15_thinLoop_add _ _ _ hb]
    exact C15.thinLoop_eq_of_stable k _ (C15.thinLoop_wf _ b hb) (C15.thinLoop_stable _ b hb (by omega))
  have core : ∀ n : Nat, C15.thinCore b (n : Int) = C15.thinLoop n b := by
    intro n
    unfold C15.thinCore
    have : ¬ ((n : Int) < 0) := by omega
    simp only [this, if_false, Int.toNat_natCast]
    rcases Nat.le_total (b.count + 1) n with h | h
    · rw [Nat.min_eq_left h]; exact (full n h).symm
    · rw [Nat.min_eq_right h]
  refine ⟨core m, ?_, ?_, ?_⟩
  · have := core 0
    simpa [C15.thinLoop] using this
  · intro h
    rw [core m, full m (by omega)]
    unfold C15.thinCore
    simp
  · intro k
    rw [core (m + k), core m, C15_thinLoop_add _ _ _ hb]

/-- **C15 (`thin`: control structure tied to the current source).** What `thinModel` / `thinCore` / `thinLoop` transliterate,
re-extracted on every run: `thin.py` — result `zeros_like`, `bbox`, a `(r+2, c+2)` zero frame with the crop pasted at
`[1:r+1, 1:c+1]`, the native call with `int(max_iter)`, the paste back into `[min0:max0, min1:max1]`; `_thin.cpp: py_thin` —
`any_change = true; n = 0; while (any_change && ((max_iter < 0) || n++ < max_iter))`, `any_change = false` at the head of a round,
the `for` over all `Nr_Elements` elements in order with `fast_hitmiss(array, elems[i], buffer)` followed by the clearing loop over
all `N = PyArray_SIZE(array)` cells (`if (*pb && *pa)`), and the eight `fill_data` calls (`C15_thin_templates_rotations`).
A changed frame width, slice, loop bound or stop condition breaks this `decide`. -/
theorem C15_thin_structure_source_tie :
    Generated.thinPyParams = ["binimg", "max_iter", "=-1"] ∧
    Generated.thinPyBody =
      ["res = np.zeros_like(binimg)", "min0, max0, min1, max1 = bbox(binimg)", "r, c = (max0 - min0, max1 - min1)",
       "image_exp = np.zeros((r + 2, c + 2), bool)", "image_exp[1:r + 1, 1:c + 1] = binimg[min0:max0, min1:max1]",
       "imagebuf = np.empty((r + 2, c + 2), bool)", "_thin(image_exp, imagebuf, int(max_iter))",
       "res[min0:max0, min1:max1] = image_exp[1:r + 1, 1:c + 1]", "return res"] ∧
    Generated.thinLoopInit = ["N = PyArray_SIZE(array)", "any_change = true", "n = 0"] ∧
    Generated.thinLoopCond = "any_change && ((max_iter < 0) || n++ < max_iter)" ∧
    Generated.thinLoopSkeleton =
      ["any_change = false", "for i in [0, Nr_Elements)", "fast_hitmiss(array, elems[i], buffer)", "for j in [0, N)", "if (*pb && *pa)"] ∧
    Generated.thinElems.length = 8 := by
  decide

/-! non-vacuity: on a filled 3×3 block in its frame one round changes the image, `max_iter = 0` does not, and two rounds are
    one round after one round -/
set_option maxRecDepth 8000 in
example :
    let b := C15.Bin.ofInts 5 5 [0,0,0,0,0, 0,1,1,1,0, 0,1,1,1,0, 0,1,1,1,0, 0,0,0,0,0]
    (C15.thinCore b 0).data = b.data ∧ (C15.thinCore b 1).data ≠ b.data ∧
    (C15.thinCore b 2).data = (C15.thinLoop 1 (C15.thinCore b 1)).data := by decide


/-! ## Round 4 — Gray's identity for an unbounded family: every one-row image -/

/-- **C15 (`euler`: Gray's identity, every image of height 1).** For every image with one row — any width, any
number of runs, runs touching either end — and both connectivity conventions, the bit-quad sum of the model (generated
look-up tables, padded windows) is four times `components − holes` as counted by the flood-fill oracle:
`eulerModel4 b c = 4 · eulerSpec b c`. Bit-quad side: a one-row image is a product image, its window weight factors into
(row transition) × (column transition) (`qw_prod`), the row indicator has two transitions and the number of value changes along
the row is twice the number of runs (telescoping sum). Graph side (`C15_eulerSpec_count`): in one row the edges join horizontal
neighbours only, the smallest pixel of a component is exactly a run start (`minimal_iff_one_row`), and every background pixel
is a border pixel, so there are no holes. (First instance of the identity for a family with arbitrarily many components;
heights ≥ 2 remain validated only — there holes appear and the argument needs the Euler–Poincaré step.) -/
theorem C15_euler_gray_one_row (b : C15.Bin) (c : Bool) (h1 : b.rows = 1) :
    C15.eulerModel4 b c = 4 * C15.eulerSpec b c := by
  obtain ⟨comps, inner, hc, _, hspec, hcm, him⟩ := C15_eulerSpec_count b c
  rw [C15.eulerModel4_one_row b c h1, hspec]
  have hinner : inner = [] := by
    cases inner with
    | nil => rfl
    | cons s t =>
      have hs := (him s).1 (List.mem_cons_self)
      have hlt : s < b.cols := by have := hs.1.1.1; rw [h1] at this; omega
      exact absurd ⟨s, Relation.ReflTransGen.refl, by rw [h1]; exact C15.bdr_one_row hlt⟩ hs.2
  have hlen : (comps.length : Int) =
      ∑ k ∈ Finset.range b.cols, if (C15.mk b.data k = true ∧ (k = 0 ∨ C15.mk b.data (k - 1) = false)) then 1 else 0 := by
    apply C15.length_eq_sum_indicator comps hc b.cols
    intro i
    rw [hcm i]
    constructor
    · rintro ⟨hv, hmin⟩
      have hv1 : C15.IsV 1 b.cols b.data i := by rw [← h1]; exact hv
      have := (C15.minimal_iff_one_row b.cols b.data c i hv1).1 (by rw [← h1]; exact hmin)
      exact ⟨by have := hv1.1; omega, hv1.2, this⟩
    · rintro ⟨hi, hm, hl⟩
      have hv1 : C15.IsV 1 b.cols b.data i := ⟨by omega, hm⟩
      refine ⟨by rw [h1]; exact hv1, ?_⟩
      rw [h1]
      exact (C15.minimal_iff_one_row b.cols b.data c i hv1).2 hl
  rw [hinner, hlen]
  simp only [List.length_nil, Int.natCast_zero, Int.sub_zero]
  congr 1
  apply Finset.sum_congr rfl
  intro k hk
  exact C15.up_one_row b h1 k (Finset.mem_range.mp hk)

/-! non-vacuity: `1 0 1 1 0 1` has three runs: sum 12, three components, no hole — and the theorem applies to it -/
example :
    let b := C15.Bin.ofInts 1 6 [1, 0, 1, 1, 0, 1]
    C15.eulerModel4 b true = 12 ∧ C15.eulerSpec b true = 3 ∧ C15.eulerModel4 b false = 4 * C15.eulerSpec b false := by
  intro b
  exact ⟨by decide +kernel, by decide +kernel, C15_euler_gray_one_row b false rfl⟩

/-- **C15 (`euler`: Gray's identity, every image of width 1).** The same for one-column images (any height, any number of
runs, both connectivities): `eulerModel4 b c = 4 · eulerSpec b c` for `b.cols = 1`. The pixel graph of a one-column box is again
a path (`adj_one_col`), every pixel is a border pixel, and the image is the product of the column profile with the indicator
of column 0. Together with `C15_euler_gray_one_row`: Gray's identity holds for every image with `min(rows, cols) = 1`. -/
theorem C15_euler_gray_one_col (b : C15.Bin) (c : Bool) (h1 : b.cols = 1) :
    C15.eulerModel4 b c = 4 * C15.eulerSpec b c := by
  obtain ⟨comps, inner, hc, _, hspec, hcm, him⟩ := C15_eulerSpec_count b c
  rw [C15.eulerModel4_one_col b c h1, hspec]
  have hinner : inner = [] := by
    cases inner with
    | nil => rfl
    | cons s t =>
      have hs := (him s).1 (List.mem_cons_self)
      exact absurd ⟨s, Relation.ReflTransGen.refl, by rw [h1]; exact C15.bdr_one_col _ _⟩ hs.2
  have hpath := C15.minimal_iff_path b.rows 1 b.data c
    (fun i j hi h => C15.adj_one_col (by omega) h)
    (fun i hi h1' => C15.adj_left_one_col c (by omega) h1')
  have hlen : (comps.length : Int) =
      ∑ k ∈ Finset.range b.rows, if (C15.mk b.data k = true ∧ (k = 0 ∨ C15.mk b.data (k - 1) = false)) then 1 else 0 := by
    apply C15.length_eq_sum_indicator comps hc b.rows
    intro i
    rw [hcm i, h1]
    constructor
    · rintro ⟨hv, hmin⟩
      exact ⟨by have := hv.1; omega, hv.2, (hpath i hv).1 hmin⟩
    · rintro ⟨hi, hm, hl⟩
      have hv : C15.IsV b.rows 1 b.data i := ⟨by omega, hm⟩
      exact ⟨hv, (hpath i hv).2 hl⟩
  rw [hinner, hlen]
  simp only [List.length_nil, Int.natCast_zero, Int.sub_zero]
  congr 1
  apply Finset.sum_congr rfl
  intro k hk
  exact C15.up_one_col b h1 k (Finset.mem_range.mp hk)

/-! non-vacuity: the column `1 1 0 1` has two runs -/
example :
    let b := C15.Bin.ofInts 4 1 [1, 1, 0, 1]
    C15.eulerModel4 b true = 8 ∧ C15.eulerSpec b false = 2 ∧ C15.eulerModel4 b false = 4 * C15.eulerSpec b false := by
  intro b
  exact ⟨by decide +kernel, by decide +kernel, C15_euler_gray_one_col b false rfl⟩
