/-
C15 — property theorems (statements only; helper lemmas live in `Proofs/C15*.lean`).

What is proved here is about the executable model `Mahotas.C15` that the native driver runs and
that the correspondence check compares with the real `mahotas.thin` / `mahotas.euler`, and about
the tables the translator extracts from `_thin.cpp` and `euler.py` on every run.
Not proved (validated by the check only): that Gray's bit-quad sum equals components − holes
(exhaustive small scope + random), and the Graham scan (`hullOK` is evaluated on the real output).
-/
import Mahotas.Proofs.C15
import Mahotas.Proofs.C15Thin
import Mahotas.Proofs.C15Model
import Mahotas.Proofs.C15Idem
import Mahotas.Proofs.C15Hull
import Mahotas.Proofs.C15Graham
open Mahotas Mahotas.C15

/-- **thin ⊆ input.** Every pixel set in the model of `mahotas.thin` (crop to the bounding box, zero
frame, the eight-pass loop with any `max_iter`, paste back) is set in the input, for every image. -/
theorem C15_thin_subset (b : Bin) (maxIter : Int) (y x : Int)
    (h : (thinModel b maxIter).get y x = true) : b.get y x = true :=
  thinModel_le b maxIter y x h

/-- **One pass keeps the 8-connected components** — for each of the eight hit-or-miss elements that
the translator extracts from `_thin.cpp` and for every image: the surviving pixel set `B` of a pass
(all matching pixels cleared in parallel) is a subset of the pixel set `A` before the pass, two
surviving pixels are 8-connected inside `A` iff they are 8-connected inside `B`, and every pixel of
`A` is 8-connected inside `A` to a surviving pixel. Hence inclusion induces a bijection between the
8-components of `B` and those of `A`: the number of components is unchanged. -/
theorem C15_thin_pass_preserves_components (e : Elem) (he : e ∈ Generated.thinElems) (b : Bin) :
    SameComps (bset b) (bset (pass b e)) := by
  rw [bset_pass]
  exact pass_sameComps e he (bset b)

/-- **The thinning loop keeps the 8-connected components**: the same three facts relate the image
handed to `_thin.thin` (the zero-framed crop) and the image it returns, for every image and every
`max_iter`. -/
theorem C15_thin_loop_preserves_components (b : Bin) (maxIter : Int) :
    SameComps (bset b) (bset (thinCore b maxIter)) :=
  thinCore_sameComps b maxIter

/-- **Termination / fixed point.** Every iteration that changes the image clears at least one
pixel, so with `max_iter < 0` the loop of the model (fuel = number of set pixels + 1) ends in an
image that none of the eight passes changes. -/
theorem C15_thin_reaches_fixpoint (b : Bin) (hb : b.WF) (maxIter : Int) (hm : maxIter < 0) :
    Stable (thinCore b maxIter) :=
  thinCore_stable b hb maxIter hm

/-- **thin keeps the 8-connected components** — the whole model of `mahotas.thin` (bounding-box
crop, zero frame, loop with any `max_iter`, paste back), every image: with `A` the input pixel set
and `B` the output pixel set, `B ⊆ A`, two pixels of `B` are 8-connected inside `A` iff they are
inside `B`, and every pixel of `A` is 8-connected inside `A` to a pixel of `B`; i.e. inclusion is a
bijection between the 8-components of the output and of the input (same number of components). -/
theorem C15_thin_preserves_components (b : Bin) (maxIter : Int) :
    SameComps (bset b) (bset (thinModel b maxIter)) :=
  thinModel_sameComps b maxIter

/-- **Thinning the result again changes nothing**: `thin(thin(x), ·) = thin(x)` for the whole model
(full skeletonisation `max_iter < 0` in the first call, any `max_iter` in the second) and every
image. (The loop's result is a fixed point; cropping it to its possibly smaller bounding box and
re-framing is a translation; passes commute with translations.) -/
theorem C15_thin_idempotent (b : Bin) (maxIter maxIter' : Int) (hm : maxIter < 0) :
    thinModel (thinModel b maxIter) maxIter' = thinModel b maxIter :=
  thinModel_idem b maxIter maxIter' hm

/-- **The eight templates are two templates and their rotations.** Each generated element has the
same members as a rotation by a multiple of 90° of generated element 0 (north edge:
`000 / ·1· / 111`) or of generated element 1 (north-east corner: `·00 / 11 0 / ·1·`). -/
theorem C15_thin_templates_rotations :
    Generated.thinElems.all (fun e =>
      (List.range 4).any fun k =>
        [Generated.thinElems.getD 0 [], Generated.thinElems.getD 1 []].any fun base =>
          let r := (rotE^[k]) base
          e.all (fun t => r.contains t) && r.all (fun t => e.contains t)) = true := by
  decide

/-- **The Euler look-up tables are Gray's bit-quad weights.** With the generated weights
`_powers = [[1,2],[4,8]]` and denominator 4, entry `code` of `_euler_lookup8` (`_euler_lookup4`) is
`(+1, −1, ∓2, 0)/4` according to whether the quad has one pixel, three pixels, a diagonal pair, or
anything else — for all 16 codes. -/
theorem C15_euler_tables_gray :
    Generated.eulerPowers = [[1, 2], [4, 8]] ∧ Generated.eulerDen = 4 ∧
    (∀ code : Fin 16, Generated.eulerLookup8.getD code.val 0 =
      grayQuad true (quadBit code 1) (quadBit code 2) (quadBit code 4) (quadBit code 8)) ∧
    (∀ code : Fin 16, Generated.eulerLookup4.getD code.val 0 =
      grayQuad false (quadBit code 1) (quadBit code 2) (quadBit code 4) (quadBit code 8)) :=
  ⟨euler_powers, euler_den, lookup8_gray, lookup4_gray⟩

/-- **The Euler model is Gray's bit-quad count.** For every image, `4·euler(f, n)` of the model
(convolution with `_powers` over the image padded by one background row and column, table look-up,
sum) equals the sum over *every* 2×2 window that meets the image — top-left corner from `(-1,-1)`
to `(rows-1, cols-1)`, background outside — of Gray's weight of that window:
`n(Q1) − n(Q3) − 2·n(QD)` for 8-connectivity and `… + 2·n(QD)` for 4-connectivity.
(That this count equals components − holes is Gray's theorem: validated, not proved.) -/
theorem C15_euler_model_is_gray_sum (b : Bin) (conn8 : Bool) : eulerModel4 b conn8 = graySum b conn8 :=
  eulerModel4_eq_graySum b conn8

/-- **Hull corners are distinct foreground pixels.** Every corner returned by the model of
`_convex.convexhull` (sort, two in-place monotone-chain scans) is a set pixel of the image, and no
corner is returned twice — for every image. -/
theorem C15_hull_corners_distinct_foreground (b : Bin) :
    (∀ p ∈ hullModel b, b.get p.1 p.2 = true) ∧ (hullModel b).Nodup :=
  ⟨fun p hp => foreground_get b p (grahamModel_subset _ p hp), grahamModel_nodup _ (foreground_nodup b)⟩

/-- **The hull model satisfies the statement's predicate** — the very predicate `hullOK` that the
check evaluates on the corners returned by the real `convexhull` — for every image: the corners of
the model (`std::sort`, forward monotone-chain scan, rotation, reverse scan on the rest) are
foreground pixels, pairwise distinct, returned iff there is a foreground pixel; every foreground
pixel (hence every corner: weak convex position) lies on one and the same side of, or on, every
directed edge of the closed corner polygon (containment); and the lexicographically smallest and
largest foreground pixels are corners. Proved from the scan's loop invariant (`ScanInv`: the stack
is strictly monotone, turns strictly one way, and every processed point lies on the inner side of
every stack edge) and one geometric lemma (`halfplane_trans`). -/
theorem C15_hull_correct (b : Bin) : hullOK (foreground b) (hullModel b) = true :=
  hullModel_hullOK b

/-- the same for an arbitrary list of distinct points handed to `inPlaceGraham` -/
theorem C15_graham_scan_correct (pts : List Pt) (hnd : pts.Nodup) : hullOK pts (grahamModel pts) = true :=
  grahamModel_hullOK pts hnd

/-- **fill_convexhull ⊇ input** for the model of `polygon.fill_convexhull` on boolean images (hull
corners, scan-line `fill_polygon` in the float arithmetic of the Python code, then
`canvas[bwimg] = 1`): every set pixel of the input is set in the result, for every image. -/
theorem C15_fill_convexhull_superset (b : Bin) (y x : Int) (h : b.get y x = true) :
    (fillHullModel b).get y x = true :=
  fillHullModel_superset b y x h

/-! ### non-vacuity -/

/-- a pass really deletes pixels: the top row of a 2×3 block matches the north-edge template -/
example : ∃ x : Px, delT e0 {p | (p.1 = 0 ∨ p.1 = 1) ∧ -1 ≤ p.2 ∧ p.2 ≤ 1} x :=
  ⟨(0, 0), by
    refine ⟨by simp, ?_⟩
    intro t ht
    simp [e0] at ht
    rcases ht with rfl | rfl | rfl | rfl | rfl | rfl <;> simp⟩

example : grayQuad true true false false true = -2 ∧ grayQuad false true false false true = 2 := by decide
