/-
C16 — property theorems (statements only; helper lemmas live in `Proofs/C16*.lean`).

The kernels of `Model/C16.lean` are generic in the arithmetic; the driver runs them at `Float`
(compared bit-for-bit with the real code) and at `Rat`; the theorems below are about the `Rat`/`Int`
instances of the same definitions, or hold for every instance.
-/
import Mahotas.Proofs.C16
import Mahotas.Proofs.C16Otsu
import Mahotas.Proofs.C16Rc
import Mahotas.Proofs.C16Zeros
import Mahotas.Proofs.C16Round
import Mahotas.Proofs.C16Degenerate
import Mahotas.Proofs.C16RcRound
import Mahotas.Proofs.C05Binary64
open Mahotas Mahotas.C16 Mahotas.C05

/-- **soft_threshold = the statement (integers).** For `tval ≥ 0` the three numpy statements
`f*(|f|>t); f -= t*(f>t); f += t*(f<-t)` compute, element by element, `f − t` above `t`, `f + t`
below `−t` and `0` in between (magnitudes shrunk by `t`, those not exceeding it zeroed). -/
theorem C16_soft_threshold_int (f t : Int) (ht : 0 ≤ t) :
    softGen (0 : Int) f t = softSpec (0 : Int) f t ∧ softSpec (0 : Int) f t = Int.sign f * max (|f| - t) 0 :=
  ⟨softGen_int f t ht, softSpec_int_closed f t ht⟩

/-- **soft_threshold = the statement (exact rationals)**, same definitions instantiated at `Rat`. -/
theorem C16_soft_threshold_rat (f t : Rat) (ht : 0 ≤ t) : softGen (0 : Rat) f t = softSpec (0 : Rat) f t :=
  softGen_rat f t ht

/-- **fullhistogram counts.** Bin `i` of the model histogram is the number of pixels equal to `i`
(and reads 0 above the largest level), for every pixel list. -/
theorem C16_histogram_counts (img : List Nat) (i : Nat) : (fullhistogram img).getD i 0 = img.count i :=
  fullhistogram_count img i

/-- **otsu and rc depend only on the histogram, which ignores pixel order.** For any arithmetic
instance (in particular the `Float` one the driver runs and the exact `Rat` one) and either setting
of `ignore_zeros`, permuting the pixels changes neither the histogram nor the two thresholds.
(The model takes the pixels in C order, so a reshape is the identity on its input.) -/
theorem C16_histogram_only {α : Type} [Add α] [Sub α] [Mul α] [Div α] [LT α] [DecidableLT α]
    (cast : Nat → α) {img₁ img₂ : List Nat} (p : img₁.Perm img₂) (ignoreZeros : Bool) :
    fullhistogram img₁ = fullhistogram img₂ ∧
    otsuImg cast img₁ ignoreZeros = otsuImg cast img₂ ignoreZeros ∧
    rcImg cast img₁ ignoreZeros = rcImg cast img₂ ignoreZeros := by
  refine ⟨fullhistogram_perm p, ?_, ?_⟩
  · unfold otsuImg; rw [histOf_perm p]
  · unfold rcImg; rw [histOf_perm p, fullhistogram_perm p, p.length_eq]

/-- **The class sums used below are the statement's.** `nBOf hist T = Σ_{i≤T} hist[i]` and
`sBOf hist T = Σ_{i≤T} i·hist[i]` (by their recurrences), `nOOf hist T` the remaining count;
`otsuSigma hist T = n_B n_O (μ_B − μ_O)²` with `μ_B = s_B/n_B`, `μ_O = s_O/n_O`, and 0 when a class is
empty — the between-class variance of the split `{0..T} | {T+1..}`. The oracle table `sigmaAll`
that the check evaluates on the returned threshold is exactly this function. -/
theorem C16_otsu_class_sums (hist : List Nat) :
    (0 < hist.length → nBOf hist 0 = hOf hist 0) ∧ sBOf hist 0 = 0 ∧
    (∀ T, T + 1 < hist.length → nBOf hist (T + 1) = nBOf hist T + hOf hist (T + 1)) ∧
    (∀ T, T + 1 < hist.length → sBOf hist (T + 1) = sBOf hist T + (T + 1) * hOf hist (T + 1)) ∧
    (∀ T, T < hist.length → (sigmaAll hist)[T]? = some (otsuSigma hist T)) := by
  refine ⟨fun h => ?_, sB_zero hist, nB_succ hist, sB_succ hist, sigmaAll_getElem? hist⟩
  rw [nBOf_eq, hOf_eq, cumsum_getD_zero _ _ h]; simp

/-- **otsu returns the first maximiser of the between-class variance.** For every image and either
setting of `ignore_zeros` (bin 0 cleared), the model of `_histogram.otsu` — cumulative counts,
running class means updated in one pass, `continue` on an empty lower class, `break` on an empty
upper class, strict `>` — run over the exact rationals returns a threshold `T*` inside the histogram
with `σ(T) ≤ σ(T*)` for every level `T` and `σ(T) < σ(T*)` for every `T < T*`; it is also what the
oracle `firstArgmax (sigmaAll hist)` of the check computes. -/
theorem C16_otsu_first_argmax (img : List Nat) (ignoreZeros : Bool) :
    let hist := histOf img ignoreZeros
    let Ts := otsuImg ratCast img ignoreZeros
    (Ts < hist.length ∨ Ts = 0) ∧
    (∀ T, T < hist.length → otsuSigma hist T ≤ otsuSigma hist Ts) ∧
    (∀ T, T < Ts → otsuSigma hist T < otsuSigma hist Ts) ∧
    firstArgmax (sigmaAll hist) = Ts := by
  have h := otsuGen_first_argmax' (histOf img ignoreZeros)
  exact ⟨h.1, h.2.1, h.2.2, firstArgmax_sigmaAll _⟩

/-- **rc obeys the Riddler–Calvard stopping rule and stays between the occurring levels.** For every
histogram with an occupied bin (an image, bin 0 cleared when zeros are ignored and some pixel is
non-zero), with `lo`/`hi` the smallest/largest occupied level (`hist[lo] ≠ 0`, nothing below;
`hist[hi] ≠ 0`, nothing above) and `m(t)` the midpoint of the mean grey levels of the classes
`{≤ t}` and `{> t}`, the model of `rc` run over the exact rationals returns: the single level when
`lo = hi`; otherwise `m(t*)` for the FIRST `t* ∈ [lo, hi)` with `m(t*) ≤ t*+1` (all earlier
`t ∈ [lo, t*)` have `m(t) > t+1`); and in all cases a value in `[lo, hi]`. The oracle `rcSpec` that
the check compares the real double with is this same value. -/
theorem C16_rc_rule (img : List Nat) (ignoreZeros : Bool)
    (hne : ∃ v ∈ histOf img ignoreZeros, v ≠ 0) :
    let hist := histOf img ignoreZeros
    let r := rcGen ratCast hist
    let lo := loOf hist
    let hi := lastNonzero hist
    (hOf hist lo ≠ 0 ∧ ∀ i, i < lo → hOf hist i = 0) ∧
    (hOf hist hi ≠ 0 ∧ ∀ i, hi < i → hOf hist i = 0) ∧
    (lo = hi → r = (hi : Rat)) ∧
    (lo < hi → ∃ ts, lo ≤ ts ∧ ts < hi ∧ r = rcMid hist ts ∧ rcMid hist ts ≤ (ts : Rat) + 1 ∧
      ∀ t, lo ≤ t → t < ts → (t : Rat) + 1 < rcMid hist t) ∧
    ((lo : Rat) ≤ r ∧ r ≤ (hi : Rat)) ∧
    (rcSpec hist).1 = r := by
  intro hist r lo hi
  have h := rcGen_main hist hne
  exact ⟨loOf_spec hist hne, lastNonzero_spec hist hne, h.1, h.2.1, h.2.2, rcSpec_fst hist hne⟩

/-- `rc` of the image is `rcGen` of its histogram, except that with `ignore_zeros` an all-zero
image returns 0 (`if hist[0] == img.size: return 0`). -/
theorem C16_rc_of_image (img : List Nat) (ignoreZeros : Bool) :
    rcImg ratCast img ignoreZeros =
      if ignoreZeros && (fullhistogram img).getD 0 0 == img.length then 0
      else rcGen ratCast (histOf img ignoreZeros) := by
  unfold rcImg
  split <;> simp [ratCast]

/-- **Bernsen rule.** At every pixel whose (reflect-extended) neighbourhood is non-empty the model
of `gbernsen` returns: with `M`/`m` the largest/smallest neighbourhood value (both attained),
`M + m > 2·f` (pixel below the local mid-grey `(M+m)/2`) where the local contrast `M − m` reaches
`contrast_threshold`, and `M + m < 2·gthresh` (mid-grey below the global threshold) where it does not. -/
theorem C16_bernsen_rule (A : Img Int) (offs : List (List Int)) (ct g2 : Int) (p : List Int)
    (hne : neighbours A offs p ≠ []) :
    ∃ M m, M ∈ neighbours A offs p ∧ (∀ v ∈ neighbours A offs p, v ≤ M) ∧
           m ∈ neighbours A offs p ∧ (∀ v ∈ neighbours A offs p, m ≤ v) ∧
           gbernsenAt bernsenRule A offs ct g2 p =
             (if M - m ≥ ct then decide (M + m > 2 * A.getD p 0) else decide (M + m < g2)) := by
  obtain ⟨h1, h2⟩ := listMaxI_spec _ hne
  obtain ⟨h3, h4⟩ := listMinI_spec _ hne
  exact ⟨_, _, h1, h2, h3, h4, rfl⟩

/-- **otsu with `ignore_zeros` = otsu without the zero pixels.** For every arithmetic instance (the
`Float` one the driver runs and the exact one) and every image: `otsu(img, ignore_zeros=True)` is the
kernel applied to the histogram with bin 0 cleared (`hist[0] = 0`, as in `thresholding.py`), and that
histogram *is* the histogram of the image with its zero pixels removed — same number of bins (an
all-zero image gives the one-bin histogram `[0]` either way) — so the result equals
`otsu(img[img != 0], ignore_zeros=False)`. With `C16_otsu_first_argmax` (stated for both settings) the
threshold maximises the between-class variance of the non-zero pixels. -/
theorem C16_otsu_ignore_zeros {α : Type} [Add α] [Sub α] [Mul α] [Div α] [LT α] [DecidableLT α]
    (cast : Nat → α) (img : List Nat) :
    otsuImg cast img true = otsuGen cast ((fullhistogram img).toList.set 0 0) ∧
    histOf img true = (fullhistogram (img.filter (· ≠ 0))).toList ∧
    otsuImg cast img true = otsuImg cast (img.filter (· ≠ 0)) false := by
  refine ⟨rfl, histOf_ignore_zeros img, ?_⟩
  unfold otsuImg; rw [histOf_ignore_zeros]

/-- **rc with `ignore_zeros` = rc without the zero pixels**, for every arithmetic instance and every
image: when some pixel is non-zero the result is the kernel applied to the histogram with bin 0
cleared; an all-zero image returns 0 (the early return `if hist[0] == img.size`); in both cases the
result equals `rc(img[img != 0], ignore_zeros=False)` (for the all-zero image: `rc` of the empty
image, whose one-bin histogram has no occupied level, is level 0). -/
theorem C16_rc_ignore_zeros {α : Type} [Add α] [Sub α] [Mul α] [Div α] [LT α] [DecidableLT α]
    (cast : Nat → α) (img : List Nat) :
    (img.count 0 ≠ img.length →
      rcImg cast img true = rcGen cast ((fullhistogram img).toList.set 0 0)) ∧
    (img.count 0 = img.length → rcImg cast img true = cast 0) ∧
    rcImg cast img true = rcImg cast (img.filter (· ≠ 0)) false := by
  refine ⟨fun h => ?_, fun h => ?_, rcImg_ignore_zeros cast img⟩
  · have hz : ¬ (fullhistogram img).getD 0 0 = img.length := by rw [fullhistogram_count]; exact h
    unfold rcImg
    simp only [Bool.true_and, beq_iff_eq, hz, if_false]; rfl
  · have hz : (fullhistogram img).getD 0 0 = img.length := by rw [fullhistogram_count]; exact h
    unfold rcImg
    simp only [Bool.true_and, beq_iff_eq, hz, if_true]

/-- **otsu separates the occupied levels.** For every image and either setting of `ignore_zeros`:
if the histogram handed to the kernel has at least two occupied levels (`lo < hi`, the smallest and
the largest occupied level), the threshold returned by the exact instance of the model satisfies
`lo ≤ T < hi` — both classes `{≤ T}` and `{> T}` contain pixels. Corollary of
`C16_otsu_first_argmax`: at any `t ∈ [lo, hi)` the class means satisfy `μ_B ≤ t < t+1 ≤ μ_O`, so
`σ(t) > 0`, while `σ = 0` whenever a class is empty. -/
theorem C16_otsu_separates (img : List Nat) (ignoreZeros : Bool)
    (hne : ∃ v ∈ histOf img ignoreZeros, v ≠ 0)
    (hlh : loOf (histOf img ignoreZeros) < lastNonzero (histOf img ignoreZeros)) :
    let hist := histOf img ignoreZeros
    let T := otsuImg ratCast img ignoreZeros
    loOf hist ≤ T ∧ T < lastNonzero hist ∧ nBOf hist T ≠ 0 ∧ nOOf hist T ≠ 0 ∧ 0 < otsuSigma hist T := by
  intro hist T
  obtain ⟨h1, h2⟩ := otsuGen_separates hist hne hlh
  have hn := hi_lt_length hist hne
  refine ⟨h1, h2, ?_, ?_, otsuSigma_pos hist hne h1 h2⟩
  · exact Nat.pos_iff_ne_zero.1 (cB_pos hist hne h1 (Nat.lt_trans h2 hn))
  · exact Nat.pos_iff_ne_zero.1 (cO_pos hist hne h2)

/-- **otsu on a two-level image separates the two levels.** If every pixel (every non-zero pixel when
zeros are ignored) is `a` or `b` with `a < b` and both occur, the returned threshold `T` satisfies
`a ≤ T < b`: thresholding with `img > T` yields exactly the pixels of level `b`. -/
theorem C16_otsu_two_level (img : List Nat) (ignoreZeros : Bool) (a b : Nat) (hab : a < b)
    (hz : ignoreZeros = true → a ≠ 0) (ha : a ∈ img) (hb : b ∈ img)
    (hall : ∀ p ∈ img, p = a ∨ p = b ∨ (ignoreZeros = true ∧ p = 0)) :
    let T := otsuImg ratCast img ignoreZeros
    a ≤ T ∧ T < b ∧ ∀ p ∈ img, (p = a → ¬ T < p) ∧ (p = b → T < p) := by
  intro T
  have hA : hOf (histOf img ignoreZeros) a ≠ 0 := by
    rw [hOf_histOf, if_neg (fun h => hz h.1 h.2)]
    exact fun h => (List.count_eq_zero.1 h) ha
  have hB : hOf (histOf img ignoreZeros) b ≠ 0 := by
    rw [hOf_histOf, if_neg (fun h => by omega)]
    exact fun h => (List.count_eq_zero.1 h) hb
  have hAll : ∀ i, hOf (histOf img ignoreZeros) i ≠ 0 → i = a ∨ i = b := by
    intro i hi
    rw [hOf_histOf] at hi
    by_cases hc : ignoreZeros = true ∧ i = 0
    · rw [if_pos hc] at hi; exact absurd rfl hi
    · rw [if_neg hc] at hi
      have hm : i ∈ img := by
        by_contra hn
        exact hi (List.count_eq_zero.2 hn)
      rcases hall i hm with h | h | h
      · exact Or.inl h
      · exact Or.inr h
      · exact absurd h hc
  obtain ⟨hne, hlo, hhi⟩ := two_level_lo_hi _ a b hab hA hB hAll
  obtain ⟨h1, h2⟩ := otsuGen_separates (histOf img ignoreZeros) hne (by rw [hlo, hhi]; exact hab)
  rw [hlo] at h1
  rw [hhi] at h2
  refine ⟨h1, h2, fun p _ => ⟨fun e => ?_, fun e => ?_⟩⟩
  · subst e; exact Nat.not_lt.2 h1
  · subst e; exact h2

/-! ### round 4: the loop step by step, rounding, degenerate inputs, `circle_se` -/

/-- **σ computed by the loop = the between-class variance at every step T.** For every histogram
with at least two bins and a pixel above level 0 (otherwise `otsu` returns 0 before the loop) and for
EVERY arithmetic instance, `otsuGen` is "the first strict maximum (`otsuPick`) of the list of pairs
`(T, sigma_between)` that the loop computes (`otsuTraceOf`), starting from the value computed for
`T = 0`"; over the exact rationals that starting value is `σ(0)`, every pair `(T, s)` of the list has
`s = σ(T)` — the single-pass update of the two running means reproduces the between-class variance
`n_B n_O (μ_B − μ_O)²` of the definition at every step — and the list visits every level `T ≥ 1` with
both classes occupied (the others have `σ = 0`). -/
theorem C16_otsu_sigma_stepwise (hist : List Nat) (hn : 2 ≤ hist.length) (hH : sumL (hist.drop 1) ≠ 0) :
    (∀ {α : Type} [Add α] [Sub α] [Mul α] [Div α] [LT α] [DecidableLT α] (cast : Nat → α),
      otsuGen cast hist = otsuPick (otsuTraceOf cast hist)
        (cast (nBOf hist 0) * cast (nOOf hist 0) *
          (cast 0 - cast (sumL (weighted hist)) / cast (sumL (hist.drop 1))) *
          (cast 0 - cast (sumL (weighted hist)) / cast (sumL (hist.drop 1)))) 0) ∧
    ratCast (nBOf hist 0) * ratCast (nOOf hist 0) *
          (ratCast 0 - ratCast (sumL (weighted hist)) / ratCast (sumL (hist.drop 1))) *
          (ratCast 0 - ratCast (sumL (weighted hist)) / ratCast (sumL (hist.drop 1))) = otsuSigma hist 0 ∧
    (∀ p ∈ otsuTraceOf ratCast hist, p.2 = otsuSigma hist p.1) ∧
    (∀ T, 1 ≤ T → T < hist.length → nBOf hist T ≠ 0 → nOOf hist T ≠ 0 →
      ∃ s, (T, s) ∈ otsuTraceOf ratCast hist) :=
  otsu_sigma_stepwise hist hn hH

/-- **Floating-point error bound for every `sigma_between` of the loop.** Run the same generic loop
in rounded arithmetic (`Rd rnd`: every `+ − × ÷` and every int→double conversion followed by `rnd`)
for ANY `rnd` satisfying the `Rounding` interface (monotone, relative error ≤ 2^-53, integers up to
2^53 exact — binary64 round-to-nearest `rne53` in particular). Assume `N² ≤ 2^53` (`N` = number of
counted pixels, so `N < 2^26.5`) and first moment `Fn = Σ i·h[i] ≤ 2^53`, and let `E t` be any budget
that starts at `≥ u·Fn`-level accuracy of the two running means, is monotone, and grows by three roundings
(`g3`) per proper step. Then every pair `(T, σ̂)` in the trace satisfies
`|σ̂ − σ(T)| ≤ sigBound N N² Δ Emax`, where `Δ` bounds the distance of the exact class means. (The
instantiation `E t = u·Fn·(1 + 4·#steps)`, `Δ = hi − lo` is `C16_otsu_rounded_near_optimal`.) -/
theorem C16_otsu_rounded_sigma_error {rnd : ℚ → ℚ} (hr : Rounding rnd) (hist : List Nat) (N Fn : ℕ)
    (hN : N = nBOf hist (hist.length - 1)) (hF : Fn = sBOf hist (hist.length - 1))
    (hNN : N * N ≤ 2 ^ 53) (hFF : Fn ≤ 2 ^ 53) (Δ Emax : ℚ) (E : ℕ → ℚ)
    (hEmono : ∀ t, E t ≤ E (t + 1)) (hEmax : ∀ t, t < hist.length → E t ≤ Emax)
    (hEstep : ∀ T, 1 ≤ T → T < hist.length → nBOf hist T ≠ 0 → nOOf hist T ≠ 0 →
      g3 (Fn : ℚ) (E (T - 1)) ≤ E T)
    (hΔ : ∀ T, T < hist.length → nBOf hist T ≠ 0 → nOOf hist T ≠ 0 →
      |(sBOf hist T : ℚ) / (nBOf hist T : ℚ) -
        ((Fn - sBOf hist T : ℕ) : ℚ) / (nOOf hist T : ℚ)| ≤ Δ)
    (muB muO : ℚ)
    (hB : |muB * (nBOf hist 0 : ℚ) - (sBOf hist 0 : ℚ)| ≤ E 0)
    (hO : |muO * (nOOf hist 0 : ℚ) - ((Fn - sBOf hist 0 : ℕ) : ℚ)| ≤ E 0) :
    ∀ p ∈ otsuTrace (α := Rd rnd) (rdCast rnd) (hOf hist) (nBOf hist) (nOOf hist)
        (List.range' 1 (hist.length - 1)) muB muO,
      |Rd.val rnd p.2 - otsuSigma hist p.1| ≤ sigBound (N : ℚ) ((N : ℚ) * (N : ℚ)) Δ Emax := by
  by_cases hn : hist.length = 0
  · intro p hp; rw [hn] at hp; simp [otsuTrace] at hp
  · exact otsuTrace_rd hr hist N Fn hN hF hNN hFF Δ Emax E hEmono hEmax hEstep hΔ (hist.length - 1) 1
      muB muO (le_refl 1) (by omega) hB hO

/-- **otsu in rounded (binary64) arithmetic is optimal up to an explicit margin — the guarded
comparison of the check is sound.** For every image, either `ignore_zeros`, and ANY `Rounding`
(`rne53` = IEEE binary64 round-to-nearest-even is one: `C16_otsu_binary64_margin`): if the histogram
has an occupied bin, at most 2^32 bins, `N² ≤ 2^53` counted pixels and first moment `≤ 2^53`, then
the threshold `Tr` returned by the model run in rounded arithmetic lies inside the histogram and its
EXACT between-class variance is within `otsuMargin hist = 2·otsuErrBound N Fn lo hi` of the exact
maximum, for every competitor `T`. In the form the check evaluates (`smax`, `sgot` printed by the
driver from `sigmaAll`): `0 ≤ smax − sgot ≤ otsuMargin hist`. So a returned threshold that is not an
exact maximiser but within the margin is explained by rounding ("near-tie, not judged"), and one
outside the margin cannot be produced by the model in binary64 arithmetic. The bound is explicit
(`C16_otsu_margin_explicit`), leading term `16·2^-53·(hi−lo)²·Fn·N`. -/
theorem C16_otsu_rounded_near_optimal {rnd : ℚ → ℚ} (hr : Rounding rnd) (img : List Nat)
    (ignoreZeros : Bool) (hne : ∃ v ∈ histOf img ignoreZeros, v ≠ 0)
    (hlen : (histOf img ignoreZeros).length ≤ 2 ^ 32)
    (hNN : nBOf (histOf img ignoreZeros) ((histOf img ignoreZeros).length - 1) *
      nBOf (histOf img ignoreZeros) ((histOf img ignoreZeros).length - 1) ≤ 2 ^ 53)
    (hFF : sBOf (histOf img ignoreZeros) ((histOf img ignoreZeros).length - 1) ≤ 2 ^ 53) :
    let hist := histOf img ignoreZeros
    let Tr := otsuImg (α := Rd rnd) (rdCast rnd) img ignoreZeros
    Tr < hist.length ∧
    (∀ T, T < hist.length → otsuSigma hist T - otsuMargin hist ≤ otsuSigma hist Tr) ∧
    0 ≤ listMax (sigmaAll hist) - (sigmaAll hist).getD Tr (-1) ∧
    listMax (sigmaAll hist) - (sigmaAll hist).getD Tr (-1) ≤ otsuMargin hist := by
  intro hist Tr
  obtain ⟨h1, h2, h3⟩ := otsu_margin_sound hr hist hne hlen hNN hFF
  exact ⟨h1, otsuGen_rd_near_optimal hr hist hne hlen hNN hFF, h2, h3⟩

/-- The same for IEEE binary64 round-to-nearest-even (`rne53` of `Proofs/C05Binary64.lean`, exponent
range unbounded): `0 ≤ smax − sgot ≤ otsuMargin hist` for the threshold computed in doubles. -/
theorem C16_otsu_binary64_margin (img : List Nat) (ignoreZeros : Bool)
    (hne : ∃ v ∈ histOf img ignoreZeros, v ≠ 0)
    (hlen : (histOf img ignoreZeros).length ≤ 2 ^ 32)
    (hNN : nBOf (histOf img ignoreZeros) ((histOf img ignoreZeros).length - 1) *
      nBOf (histOf img ignoreZeros) ((histOf img ignoreZeros).length - 1) ≤ 2 ^ 53)
    (hFF : sBOf (histOf img ignoreZeros) ((histOf img ignoreZeros).length - 1) ≤ 2 ^ 53) :
    let hist := histOf img ignoreZeros
    let Tr := otsuImg (α := Rd rne53) (rdCast rne53) img ignoreZeros
    Tr < hist.length ∧
    0 ≤ listMax (sigmaAll hist) - (sigmaAll hist).getD Tr (-1) ∧
    listMax (sigmaAll hist) - (sigmaAll hist).getD Tr (-1) ≤ otsuMargin hist := by
  intro hist Tr
  obtain ⟨h1, _, h3, h4⟩ := C16_otsu_rounded_near_optimal rne53_rounding img ignoreZeros hne hlen hNN hFF
  exact ⟨h1, h3, h4⟩

/-- **The margin, written out.** With `u = 2^-53`, `N` the number of counted pixels, `Fn = Σ i·h[i]`,
`Δ = hi − lo` (largest minus smallest occupied level), `E = u·Fn·(1 + 4Δ)` (accuracy of the running
means after at most `Δ` proper steps of three roundings each) and `η = 2(1+u)E + uΔ` (accuracy of
`μ_B − μ_O`): `otsuMargin = 2·[((1+u)·E·N + u·N²·Δ)·(2Δ + η) + (2u + u²)·N²·(Δ + η)²]`, and it is
non-negative. -/
theorem C16_otsu_margin_explicit (hist : List Nat) :
    let N : ℚ := (nBOf hist (hist.length - 1) : ℚ)
    let Fn : ℚ := (sBOf hist (hist.length - 1) : ℚ)
    let Δ : ℚ := ((lastNonzero hist - loOf hist : ℕ) : ℚ)
    let u : ℚ := 1 / 2 ^ 53
    let E : ℚ := u * Fn * (1 + 4 * Δ)
    let η : ℚ := (1 + u) * (2 * E) + u * Δ
    otsuMargin hist = 2 * (((1 + u) * (E * N) + u * (N * N * Δ)) * (2 * Δ + η) +
      (2 * u + u * u) * (N * N * ((Δ + η) * (Δ + η)))) ∧ 0 ≤ otsuMargin hist := by
  intro N Fn Δ u E η
  refine ⟨?_, ?_⟩
  · rw [otsuMargin_eq]
    unfold otsuErrBound sigBound etaMax
    rw [u53_eq]
  · rw [otsuMargin_eq]
    have := otsuErrBound_nonneg (nBOf hist (hist.length - 1)) (sBOf hist (hist.length - 1))
      (loOf hist) (lastNonzero hist)
    linarith

/-- **rc in rounded (binary64) arithmetic follows the stopping rule on the rounded midpoints.** For
ANY `Rounding` (binary64 `rne53` included), every image with an occupied bin, at most 2^53 bins,
pixels and first moment: the model of `rc` run in rounded arithmetic returns the single level when only
one is occupied, otherwise `m̂(ts)` for the first `ts ∈ [lo, hi)` with `m̂(ts) ≤ ts + 1` (or
`ts = hi − 1`), where `m̂(t) = rcMidR` is the midpoint as the loop body computes it — four roundings
applied to exact integer sums — and every `m̂(t)` is within `4·2^-53` RELATIVE of the exact midpoint
`m(t)` (no accumulation: each midpoint is computed afresh). -/
theorem C16_rc_rounded_rule {rnd : ℚ → ℚ} (hr : Rounding rnd) (img : List Nat) (ignoreZeros : Bool)
    (hne : ∃ v ∈ histOf img ignoreZeros, v ≠ 0)
    (hlen : (histOf img ignoreZeros).length ≤ 2 ^ 53)
    (hN : nBOf (histOf img ignoreZeros) ((histOf img ignoreZeros).length - 1) ≤ 2 ^ 53)
    (hF : sBOf (histOf img ignoreZeros) ((histOf img ignoreZeros).length - 1) ≤ 2 ^ 53) :
    let hist := histOf img ignoreZeros
    let r := Rd.val rnd (rcGen (α := Rd rnd) (rdCast rnd) hist)
    let lo := loOf hist
    let hi := lastNonzero hist
    (lo = hi → r = (hi : ℚ)) ∧
    (lo < hi → ∃ ts, lo ≤ ts ∧ ts < hi ∧ r = rcMidR rnd hist ts ∧
      (rcMidR rnd hist ts ≤ (ts : ℚ) + 1 ∨ ts + 1 = hi) ∧
      ∀ t, lo ≤ t → t < ts → (t : ℚ) + 1 < rcMidR rnd hist t) ∧
    (∀ t, |rcMidR rnd hist t - rcMid hist t| ≤ 4 * u53 * rcMid hist t) := by
  intro hist r lo hi
  have h := rcGenR_spec hr hist hne hlen hN hF
  exact ⟨h.1, h.2, fun t => rcMidR_err hr hist t⟩

/-- **The guarded comparison of `rc` in the check is sound.** Same hypotheses, at most 2^20 grey
levels. If every comparison `m(t) ≤ t + 1` that the EXACT rule makes (all `t` from `lo` up to and
including the exact stopping level) is decided with a margin above `1e-9` — the check's "judged"
cases: its margin test is `min_t |m(t) − (t+1)| > 1e-9·max(1,|exact|)` — then the value computed in
rounded arithmetic stops at the same level and differs from the exact one by at most
`4·2^-53·exact ≤ 1e-12·exact`, the tolerance the check applies. Contrapositive: a binary64 result
outside the tolerance is only possible when the margin is below `1e-9` ("near-tie, not judged"). -/
theorem C16_rc_rounded_close {rnd : ℚ → ℚ} (hr : Rounding rnd) (img : List Nat) (ignoreZeros : Bool)
    (hne : ∃ v ∈ histOf img ignoreZeros, v ≠ 0)
    (hlen : (histOf img ignoreZeros).length ≤ 2 ^ 20)
    (hN : nBOf (histOf img ignoreZeros) ((histOf img ignoreZeros).length - 1) ≤ 2 ^ 53)
    (hF : sBOf (histOf img ignoreZeros) ((histOf img ignoreZeros).length - 1) ≤ 2 ^ 53)
    (hmargin : ∀ t, loOf (histOf img ignoreZeros) ≤ t → t < lastNonzero (histOf img ignoreZeros) →
      (∀ s, loOf (histOf img ignoreZeros) ≤ s → s < t → (s : ℚ) + 1 < rcMid (histOf img ignoreZeros) s) →
      1 / 10 ^ 9 < |rcMid (histOf img ignoreZeros) t - ((t : ℚ) + 1)|) :
    let hist := histOf img ignoreZeros
    let r := rcGen ratCast hist
    let rr := Rd.val rnd (rcGen (α := Rd rnd) (rdCast rnd) hist)
    |rr - r| ≤ 4 * u53 * r ∧ 4 * u53 * r ≤ r / 10 ^ 12 ∧ 0 ≤ r := by
  intro hist r rr
  have hhn := hi_lt_length hist hne
  have hlen' : hist.length ≤ 2 ^ 20 := hlen
  have hr0 : 0 ≤ r := by
    have := (rcGen_main hist hne).2.2.1
    exact le_trans (by positivity) this
  have hclose := rcGenR_close hr hist hne (le_trans hlen (by norm_num)) hN hF (fun t h1 h2 h3 => by
    have hb := (rcMid_bounds hist hne h1 h2).2
    have ht : (t : ℚ) ≤ (lastNonzero hist : ℚ) := by exact_mod_cast (show t ≤ lastNonzero hist by omega)
    have hh : (lastNonzero hist : ℚ) ≤ 2 ^ 20 := by
      have : lastNonzero hist ≤ 2 ^ 20 := by omega
      exact_mod_cast this
    have hm := hmargin t h1 h2 h3
    refine lt_of_le_of_lt ?_ hm
    have : rcMid hist t ≤ 2 ^ 20 := by linarith
    unfold u53
    nlinarith)
  refine ⟨hclose, ?_, hr0⟩
  unfold u53
  nlinarith

/-- **otsu on degenerate images, every arithmetic instance.** If every pixel — every NON-ZERO pixel
when zeros are ignored — has the same level `v` (constant images, all-zero images with either
setting, zeros plus one other level with `ignore_zeros`, one-pixel images, the empty pixel list) the
model of `otsu` returns 0 whatever the arithmetic (`Float`, exact, rounded): the histogram has one
bin, or no pixel above level 0, or the loop `continue`s up to the occupied level and `break`s there. -/
theorem C16_otsu_single_level {α : Type} [Add α] [Sub α] [Mul α] [Div α] [LT α] [DecidableLT α]
    (cast : Nat → α) (img : List Nat) (ignoreZeros : Bool) (v : Nat)
    (hall : ∀ p ∈ img, p = v ∨ (ignoreZeros = true ∧ p = 0)) : otsuImg cast img ignoreZeros = 0 :=
  otsuImg_single_level cast img ignoreZeros v hall

/-- `otsu(img, ignore_zeros=True)` of an image without non-zero pixel is 0, for every arithmetic
instance (special case of `C16_otsu_single_level`). -/
theorem C16_otsu_all_zero_ignore_zeros {α : Type} [Add α] [Sub α] [Mul α] [Div α] [LT α] [DecidableLT α]
    (cast : Nat → α) (img : List Nat) (hz : ∀ p ∈ img, p = 0) : otsuImg cast img true = 0 :=
  otsuImg_single_level cast img true 0 (fun p hp => Or.inl (hz p hp))

/-- **rc on a single-level image is that level, every arithmetic instance.** If every counted pixel
has level `v`, some pixel has it, and `v ≠ 0` when zeros are ignored, the model of `rc` returns
`cast v` — whatever the arithmetic's `<` says in the loop guard `t < res`, because the lower class is
empty below `v` and the update is skipped. (With `ignore_zeros` and no non-zero pixel the result is
`cast 0`: `C16_rc_ignore_zeros`.) -/
theorem C16_rc_single_level {α : Type} [Add α] [Sub α] [Mul α] [Div α] [LT α] [DecidableLT α]
    (cast : Nat → α) (img : List Nat) (ignoreZeros : Bool) (v : Nat)
    (hv : v ∈ img) (hz : ignoreZeros = true → v ≠ 0)
    (hall : ∀ p ∈ img, p = v ∨ (ignoreZeros = true ∧ p = 0)) : rcImg cast img ignoreZeros = cast v :=
  rcImg_single_level cast img ignoreZeros v hv hz hall

/-- **Support of `circle_se(r)`** (the element `bernsen(f, r, …)` hands to `gbernsen`; the driver now
builds it with `circleSe` instead of trusting the implementation's): a `(2r+1)×(2r+1)` row-major
array whose entry `(i, j)` is 1 exactly when `(i − r)² + (j − r)² < r²` — STRICT, as in `morph.py` —
so the centre is set for `r ≥ 1` while the first/last row and column never are (`circle_se(1)` is the
single centre pixel). -/
theorem C16_circle_se_spec (r : Nat) :
    (circleSe r).length = (2 * r + 1) * (2 * r + 1) ∧
    (∀ i j, i ≤ 2 * r → j ≤ 2 * r → (circleSe r).getD (i * (2 * r + 1) + j) 0 =
      if ((i : Int) - r) * ((i : Int) - r) + ((j : Int) - r) * ((j : Int) - r) < (r : Int) * r then 1 else 0) ∧
    (1 ≤ r → (circleSe r).getD (r * (2 * r + 1) + r) 0 = 1 ∧
      (∀ j, j ≤ 2 * r → (circleSe r).getD (0 * (2 * r + 1) + j) 0 = 0) ∧
      (∀ j, j ≤ 2 * r → (circleSe r).getD (2 * r * (2 * r + 1) + j) 0 = 0) ∧
      (∀ i, i ≤ 2 * r → (circleSe r).getD (i * (2 * r + 1) + 0) 0 = 0) ∧
      (∀ i, i ≤ 2 * r → (circleSe r).getD (i * (2 * r + 1) + 2 * r) 0 = 0)) :=
  ⟨circleSe_length r, fun i j hi hj => circleSe_spec r i j hi hj, circleSe_centre_and_rim r⟩

/-! ### non-vacuity -/

example : softGen (0 : Int) 5 2 = 3 ∧ softGen (0 : Int) (-5) 2 = -3 ∧ softGen (0 : Int) 2 2 = 0 := by decide
example : bernsenRule 200 10 10 50 60 = true ∧ bernsenRule 12 10 12 50 60 = true ∧
    bernsenRule 12 10 12 50 20 = false := by decide
example : [0, 2, 1, 2].Perm [2, 2, 1, 0] := by decide
example : histOf [0, 0, 3, 3, 5] true = [0, 0, 0, 2, 0, 1] ∧ histOf [3, 3, 5] false = [0, 0, 0, 2, 0, 1] ∧
    histOf [0, 0] true = [0] ∧ histOf [] false = [0] := by decide
example : loOf (histOf [5, 2, 2, 7] false) = 2 ∧ lastNonzero (histOf [5, 2, 2, 7] false) = 7 ∧
    (∃ v ∈ histOf [5, 2, 2, 7] false, v ≠ 0) := by decide

-- round 4
example : Rounding rne53 := rne53_rounding
example : Rounding (id : ℚ → ℚ) :=
  ⟨fun _ _ h => h, fun x => by simp only [id, sub_self, abs_zero]; positivity, fun _ _ => rfl⟩
example : 2 ≤ (histOf [5, 2, 2, 7] false).length ∧ sumL ((histOf [5, 2, 2, 7] false).drop 1) ≠ 0 := by decide
example : ∃ s, (1, s) ∈ otsuTraceOf ratCast [1, 2, 0, 1] :=
  (C16_otsu_sigma_stepwise [1, 2, 0, 1] (by decide) (by decide)).2.2.2 1 (by decide) (by decide)
    (by decide) (by decide)
example : (histOf [5, 2, 2, 7] false).length ≤ 2 ^ 32 ∧
    nBOf (histOf [5, 2, 2, 7] false) ((histOf [5, 2, 2, 7] false).length - 1) *
      nBOf (histOf [5, 2, 2, 7] false) ((histOf [5, 2, 2, 7] false).length - 1) ≤ 2 ^ 53 ∧
    sBOf (histOf [5, 2, 2, 7] false) ((histOf [5, 2, 2, 7] false).length - 1) ≤ 2 ^ 53 := by decide
example : circleSe 1 = [0, 0, 0, 0, 1, 0, 0, 0, 0] := by decide
example : otsuImg floatCast [7, 7, 7] false = 0 ∧ otsuImg ratCast [0, 0, 5, 5] true = 0 :=
  ⟨C16_otsu_single_level _ _ _ 7 (by simp), C16_otsu_single_level _ _ _ 5 (by simp)⟩
example : rcImg ratCast [0, 0, 5, 5] true = 5 :=
  C16_rc_single_level ratCast [0, 0, 5, 5] true 5 (by simp) (by simp) (by simp)
example : (histOf [5, 2, 2, 7] false).length ≤ 2 ^ 20 ∧
    ∀ t, loOf (histOf [5, 2, 2, 7] false) ≤ t → t < lastNonzero (histOf [5, 2, 2, 7] false) → t < 8 := by
  refine ⟨by decide, fun t _ h => ?_⟩
  have : lastNonzero (histOf [5, 2, 2, 7] false) = 7 := by decide
  omega
