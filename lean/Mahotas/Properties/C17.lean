/-
C17 — property theorems (statements only; helper lemmas live in `Proofs/C17.lean`).
All of them are about the definitions of `Model/C17.lean` that the native driver runs at `Float`,
here instantiated at an arbitrary field `K` (of characteristic ≠ 2 where a halving is undone), and
about the coefficient tables the translator regenerates from `_convolve.cpp` on every run.
-/
import Mahotas.Proofs.C17
import Mahotas.Proofs.C17PR
import Mahotas.Proofs.C17Resid
import Mahotas.Proofs.C17General
import Mahotas.Proofs.C17Energy
import Mahotas.Proofs.C17Odd
import Mahotas.Proofs.C17Mem
import Mahotas.Proofs.C17Center
import Mahotas.Proofs.C17Round
import Mahotas.Proofs.C17Cast
import Mahotas.Proofs.C17RoundTrip
import Mathlib.Algebra.Order.Ring.Rat
namespace Mahotas.C17
open Mahotas

/-- the sum of squares of an `N0 × N1` image -/
def energy {K : Type} [Field K] (N0 N1 : Nat) (g : Im K) : K :=
  sumTo N0 (fun y => sumTo N1 (fun x => g y x ^ 2))

/-- a table entry as a rational number -/
def toRat (mk : Int × Nat) : Rat := (mk.1 : Rat) / ((2 ^ mk.2 : Nat) : Rat)
def dot (t : List Rat) (s : Nat) : Rat := ((t.zip (t.drop (2 * s))).map fun ab => ab.1 * ab.2).sum
def altSum (t : List Rat) : Rat := (t.zipIdx.map fun ci => if ci.2 % 2 = 0 then ci.1 else -ci.1).sum
def absR (x : Rat) : Rat := if x < 0 then -x else x
/-- the quadrature-mirror identities of a scaling filter normalised to `Σ c = 2`, within `eps`:
    `Σ c_k = 2`, `Σ (−1)^k c_k = 0`, `Σ_k c_k c_{k+2s} = 2·δ_{s,0}` for every even lag `2s`. -/
def qmfWithin (eps : Rat) (t : List (Int × Nat)) : Bool :=
  let c := t.map toRat
  decide (absR (c.sum - 2) ≤ eps) && decide (absR (altSum c) ≤ eps) &&
  (List.range (c.length / 2)).all fun s => decide (absR (dot c s - (if s = 0 then 2 else 0)) ≤ eps)


/-- proved reconstruction tolerances of the ten generated tables `D2 … D20` (relative to `max|f|`, exact
    arithmetic), see `C17_tables_error_bound` -/
def tableTol : List Rat :=
  [0, 13 / 100000000, 19 / 100000000, 250 / 100000000, 17 / 100000000, 7 / 100000000, 81 / 100000000,
   15 / 100000000, 7 / 100000000, 11 / 100000000]

/-- the inner product of two `N0 × N1` images -/
def inner2 {K : Type} [Field K] (N0 N1 : Nat) (u v : Im K) : K :=
  sumTo N0 (fun y => sumTo N1 (fun x => u y x * v y x))

end Mahotas.C17

open Mahotas Mahotas.C17

/-- **C17-T1 (row).** On every row of even length `ihaar` undoes `haar`, over any field in which `2 ≠ 0`. -/
theorem C17_ihaar_haar_row {K : Type} [Field K] (h2 : (2 : K) ≠ 0) (N : Nat) (hN : N % 2 = 0)
    (f : Nat → K) (k : Nat) (hk : k < N) : ihaarRow N (haarRow N f) k = f k :=
  ihaarRow_haarRow h2 N hN f k hk

/-- **C17-T1.** For every 2-D image with even sides `ihaar(haar(f)) = f`, with `preserve_energy` on or
off (the same flag in both calls): the model of `convolve.ihaar` (rows, columns through the transposed
view, `*2`) applied to the model of `convolve.haar` (rows, columns, `/2`) returns `f` at every pixel. -/
theorem C17_ihaar_haar {K : Type} [Field K] (h2 : (2 : K) ≠ 0) (pe : Bool) (N0 N1 : Nat)
    (h0 : N0 % 2 = 0) (h1 : N1 % 2 = 0) (f : Im K) (y x : Nat) (hy : y < N0) (hx : x < N1) :
    ihaar2 pe N0 N1 (haar2 pe N0 N1 f) y x = f y x := by
  have core : ∀ y x, y < N0 → x < N1 →
      colsPass ihaarRow N0 (rowsPass ihaarRow N1 (colsPass haarRow N0 (rowsPass haarRow N1 f))) y x = f y x := by
    intro y x hy hx
    rw [rows_cols_comm_haar ihaarRow ihaarRow_linear]
    show ihaarRow N0 (fun k => haarRow N0 (fun k' => ihaarRow N1 (haarRow N1 (f k')) x) k) y = f y x
    rw [ihaarRow_haarRow h2 N0 h0 _ y hy]
    exact ihaarRow_haarRow h2 N1 h1 (f y) x hx
  cases pe with
  | false => exact core y x hy hx
  | true =>
    simp only [ihaar2, haar2, if_true, two_eq]
    have e1 : rowsPass ihaarRow N1
          (fun y x => colsPass haarRow N0 (rowsPass haarRow N1 f) y x / 2)
        = fun y x => rowsPass ihaarRow N1 (colsPass haarRow N0 (rowsPass haarRow N1 f)) y x / 2 := by
      funext y x
      exact scale_of_linear ihaarRow ihaarRow_linear N1 2 _ x
    rw [e1]
    have e2 : colsPass ihaarRow N0
          (fun y x => rowsPass ihaarRow N1 (colsPass haarRow N0 (rowsPass haarRow N1 f)) y x / 2) y x
        = colsPass ihaarRow N0 (rowsPass ihaarRow N1 (colsPass haarRow N0 (rowsPass haarRow N1 f))) y x / 2 :=
      scale_of_linear ihaarRow ihaarRow_linear N0 2 _ y
    rw [e2, core y x hy hx]
    field_simp

/-- **C17-T2.** The energy-preserving Haar transform conserves the sum of squares of every image with
even sides. -/
theorem C17_haar_energy {K : Type} [Field K] (h2 : (2 : K) ≠ 0) (N0 N1 : Nat)
    (h0 : N0 % 2 = 0) (h1 : N1 % 2 = 0) (f : Im K) :
    energy N0 N1 (haar2 true N0 N1 f) = energy N0 N1 f := by
  have rows : ∀ g : Im K, energy N0 N1 (rowsPass haarRow N1 g) = 2 * energy N0 N1 g := by
    intro g
    unfold energy
    rw [← sumTo_mul]
    apply sumTo_congr
    intro y _
    exact haarRow_energy N1 h1 (g y)
  have cols : ∀ g : Im K, energy N0 N1 (colsPass haarRow N0 g) = 2 * energy N0 N1 g := by
    intro g
    unfold energy
    rw [sumTo_swap, sumTo_swap N0 N1 (fun y x => g y x ^ 2), ← sumTo_mul]
    apply sumTo_congr
    intro x _
    exact haarRow_energy N0 h0 (fun k => g k x)
  have half : ∀ g : Im K, energy N0 N1 (fun y x => g y x / 2) = (1 / 2) ^ 2 * energy N0 N1 g := by
    intro g
    unfold energy
    rw [← sumTo_mul]
    apply sumTo_congr
    intro y _
    rw [← sumTo_mul]
    apply sumTo_congr
    intro x _
    ring
  simp only [haar2, if_true, two_eq]
  rw [half, cols, rows]
  field_simp

/-- **C17-T3.** `D2` coincides with the unnormalised Haar transform: the Daubechies model run with the
table the translator extracted for code 0 (`D2 = {1, 1}`) is, as a function, the Haar model with
`preserve_energy=False` — for every shape (even or odd) and every image. -/
theorem C17_d2_is_haar {K : Type} [Field K] (N0 N1 : Nat) (f : Im K) :
    daubechies2 (coeffsOf 0 : List K) N0 N1 f = haar2 false N0 N1 f := by
  have cs : (coeffsOf 0 : List K) = [1, 1] := by
    simp [coeffsOf, Generated.dcoeffs, Generated.D2, coef]
  have row : ∀ N (r : Nat → K), waveletRow ([1, 1] : List K) N r = haarRow N r := by
    intro N r
    funext x
    unfold waveletRow haarRow
    simp only [access_natCast]
    by_cases a : x < N / 2
    · have b1 : 2 * x < N := by omega
      have b2 : 2 * x + 1 < N := by omega
      simp [a, List.range_succ, b1, b2]
    · by_cases b : x < 2 * (N / 2)
      · have b1 : 2 * (x - N / 2) < N := by omega
        have b2 : 2 * (x - N / 2) + 1 < N := by omega
        simp [a, b, List.range_succ, b1, b2]
        ring
      · simp [a, b]
  simp only [daubechies2, haar2, cs]
  have e : waveletRow ([1, 1] : List K) = haarRow := by funext N r; exact row N r
  rw [e]
  rfl

/-- **C17-T4 (Haar).** `haar` is linear in the image, with either normalisation. -/
theorem C17_linear_haar {K : Type} [Field K] (pe : Bool) (N0 N1 : Nat) (a b : K) (f g : Im K) (y x : Nat) :
    haar2 pe N0 N1 (fun y x => a * f y x + b * g y x) y x
      = a * haar2 pe N0 N1 f y x + b * haar2 pe N0 N1 g y x := by
  unfold haar2
  rw [rowsPass_linear haarRow haarRow_linear, colsPass_linear haarRow haarRow_linear]
  cases pe
  · simp
  · simp; ring

/-- **C17-T4 (inverse Haar).** `ihaar` is linear in the image. -/
theorem C17_linear_ihaar {K : Type} [Field K] (pe : Bool) (N0 N1 : Nat) (a b : K) (f g : Im K) (y x : Nat) :
    ihaar2 pe N0 N1 (fun y x => a * f y x + b * g y x) y x
      = a * ihaar2 pe N0 N1 f y x + b * ihaar2 pe N0 N1 g y x := by
  unfold ihaar2
  rw [rowsPass_linear ihaarRow ihaarRow_linear, colsPass_linear ihaarRow ihaarRow_linear]
  cases pe
  · simp
  · simp; ring

/-- **C17-T4 (Daubechies).** `daubechies` is linear in the image, for every coefficient list
(in particular for each of the ten generated tables). -/
theorem C17_linear_daubechies {K : Type} [Field K] (cs : List K) (N0 N1 : Nat) (a b : K) (f g : Im K)
    (y x : Nat) :
    daubechies2 cs N0 N1 (fun y x => a * f y x + b * g y x) y x
      = a * daubechies2 cs N0 N1 f y x + b * daubechies2 cs N0 N1 g y x := by
  unfold daubechies2
  rw [rowsPass_linear (waveletRow cs) (waveletRow_linear cs),
    colsPass_linear (waveletRow cs) (waveletRow_linear cs)]

/-- **C17-T4 (inverse Daubechies).** `idaubechies` is linear in the image. -/
theorem C17_linear_idaubechies {K : Type} [Field K] (cs : List K) (N0 N1 : Nat) (a b : K) (f g : Im K)
    (y x : Nat) :
    idaubechies2 cs N0 N1 (fun y x => a * f y x + b * g y x) y x
      = a * idaubechies2 cs N0 N1 f y x + b * idaubechies2 cs N0 N1 g y x := by
  unfold idaubechies2
  rw [colsPass_linear (iwaveletRow cs) (iwaveletRow_linear cs),
    rowsPass_linear (iwaveletRow cs) (iwaveletRow_linear cs)]

/-- **C17-T5.** `wavelet_decenter` undoes `wavelet_center` exactly: slicing the embedded image at the
offsets at which it was embedded returns every pixel of `f`, whatever the border value. -/
theorem C17_decenter_center {α : Type} (N0 N1 d0 d1 : Nat) (cval : α) (f : Im α) (y x : Nat)
    (hy : y < N0) (hx : x < N1) : decenter d0 d1 (center N0 N1 d0 d1 cval f) y x = f y x := by
  have c : d0 ≤ y + d0 ∧ y + d0 < d0 + N0 ∧ d1 ≤ x + d1 ∧ x + d1 < d1 + N1 := by omega
  simp [decenter, center, c]

/-- **C17-T6 (`pr_exact`, rows).** For every filter length 4, 6, …, 20 (the lengths of `D4 … D20`) and every
coefficient list satisfying the quadrature-mirror identities `Σ_k c_k c_{k+2s} = 2·δ_s` *exactly*, the model of
`iwavelet` applied to the model of `wavelet` returns every sample of an even-length row at the positions
`x ≥ ncoeffs − 2` — for **every** row content (no support hypothesis). The bound is forced by the code: it reads
zeros outside `[0,N)`, so analysis coefficients of negative index do not exist, and its truncating `xmap2/2`
adds a spurious tap below `ncoeffs − 2`. -/
theorem C17_pr_exact_row {K : Type} [Field K] (h2 : (2 : K) ≠ 0) (cs : List K) (hl : cs.length ∈ prLengths)
    (hq : qmfExact cs) (N : Nat) (hN : N % 2 = 0) (f : Nat → K) (x : Nat) (hx : cs.length ≤ x + 2)
    (hxN : x < N) : iwaveletRow cs N (waveletRow cs N f) x = f x :=
  pr_list h2 cs hl hq N hN f x hx hxN

/-- **C17-T6 (`pr_exact`, images).** With exactly quadrature-mirror coefficients of length 4 … 20,
`idaubechies(daubechies(f))` (rows then columns; columns then rows) returns `f` at every pixel `(y, x)` with
`y, x ≥ ncoeffs − 2` of every image with even sides. -/
theorem C17_pr_exact {K : Type} [Field K] (h2 : (2 : K) ≠ 0) (cs : List K) (hl : cs.length ∈ prLengths)
    (hq : qmfExact cs) (N0 N1 : Nat) (h0 : N0 % 2 = 0) (h1 : N1 % 2 = 0) (f : Im K) (y x : Nat)
    (hy : cs.length ≤ y + 2) (hyN : y < N0) (hx : cs.length ≤ x + 2) (hxN : x < N1) :
    idaubechies2 cs N0 N1 (daubechies2 cs N0 N1 f) y x = f y x := by
  show iwaveletRow cs N1 (fun x' => iwaveletRow cs N0
      (fun k => waveletRow cs N0 (fun k' => waveletRow cs N1 (f k') x') k) y) x = f y x
  have e : (fun x' => iwaveletRow cs N0
      (fun k => waveletRow cs N0 (fun k' => waveletRow cs N1 (f k') x') k) y)
      = waveletRow cs N1 (f y) := by
    funext x'
    exact pr_list h2 cs hl hq N0 h0 (fun k' => waveletRow cs N1 (f k') x') y hy hyN
  rw [e]
  exact pr_list h2 cs hl hq N1 h1 (f y) x hx hxN

/-- **C17-T6 (reconstruction after `wavelet_center`).** If the image is embedded at offsets
`d0, d1 ≥ ncoeffs − 2` (what `wavelet_center(border ≥ ncoeffs − 3)` guarantees by `C17_center_margin`) into an
even-sided image, then `wavelet_decenter(idaubechies(daubechies(wavelet_center(f))))` is `f` at every pixel,
for exactly quadrature-mirror coefficients, whatever the fill value. With the float32 tables (identities
within 3·10⁻⁶, `C17_tables_qmf_eps`) this is the "equal up to rounding" of the statement, which the
correspondence run checks at `1e-5·max|f|`. -/
theorem C17_reconstruction_centered {K : Type} [Field K] (h2 : (2 : K) ≠ 0) (cs : List K)
    (hl : cs.length ∈ prLengths) (hq : qmfExact cs) (N0 N1 d0 d1 M0 M1 : Nat) (cval : K)
    (hM0 : M0 % 2 = 0) (hM1 : M1 % 2 = 0) (hd0 : cs.length ≤ d0 + 2) (hd1 : cs.length ≤ d1 + 2)
    (hf0 : d0 + N0 ≤ M0) (hf1 : d1 + N1 ≤ M1) (f : Im K) (y x : Nat) (hy : y < N0) (hx : x < N1) :
    decenter d0 d1 (idaubechies2 cs M0 M1 (daubechies2 cs M0 M1 (center N0 N1 d0 d1 cval f))) y x = f y x := by
  show idaubechies2 cs M0 M1 (daubechies2 cs M0 M1 (center N0 N1 d0 d1 cval f)) (y + d0) (x + d1) = f y x
  rw [C17_pr_exact h2 cs hl hq M0 M1 hM0 hM1 _ (y + d0) (x + d1) (by omega) (by omega) (by omega) (by omega)]
  exact C17_decenter_center N0 N1 d0 d1 cval f y x hy hx

/-- **C17-T5 (the embedding leaves the requested margin).** Whatever `_wavelet_center_compute` returns,
the new side lengths are powers of two `2^(⌊log₂ o⌋ + c)` with one common `c ≥ 1`, the offsets are
`(new − old)/2`, and every offset exceeds the requested `border` — so at least `border + 1` samples of
`cval` precede the data on every axis (the margin the Daubechies reconstruction needs is `ncoeffs`). -/
theorem C17_center_margin (oshape : List Nat) (border : Nat) (ns d : List Nat)
    (h : centerCompute oshape border = some (ns, d)) :
    (∀ x ∈ d, border < x) ∧
    ∃ c, 1 ≤ c ∧ ns = oshape.map (fun o => 2 ^ (Nat.log2 o + c)) ∧
      d = (ns.zip oshape).map (fun no => (no.1 - no.2) / 2) := by
  unfold centerCompute at h
  obtain ⟨a, ha, hf⟩ := List.exists_of_findSome?_eq_some h
  simp only [List.mem_map, List.mem_range] at ha
  obtain ⟨i, _, rfl⟩ := ha
  simp only at hf
  split at hf
  · rename_i hall
    simp only [Option.some.injEq, Prod.mk.injEq] at hf
    obtain ⟨rfl, rfl⟩ := hf
    refine ⟨?_, i + 1, by omega, rfl, rfl⟩
    intro x hx
    have := List.all_eq_true.mp hall x hx
    simpa using this
  · cases hf

/-- **C17-T3/T6 (tables).** The table extracted for `D2` is exactly `(1, 1)`. -/
theorem C17_D2_exact : Generated.D2.map toRat = [1, 1] := by decide +kernel

/-- **C17-T6 (tables).** Every generated table `D2 … D20` (the float32 values the compiler stores)
satisfies the quadrature-mirror identities `Σ c = 2`, `Σ (−1)^k c_k = 0`, `Σ_k c_k c_{k+2s} = 2 δ_s`
within `3·10⁻⁶`, by exact rational arithmetic; there are ten tables and table `i` has `2(i+1)` entries
(`ncoeffs = 2*(code+1)`). -/
theorem C17_tables_qmf_eps :
    Generated.dcoeffs.all (qmfWithin (3 / 1000000)) = true ∧
    Generated.dcoeffs.map List.length = (List.range 10).map (fun i => 2 * (i + 1)) := by
  constructor <;> decide +kernel

/-- non-vacuity: a concrete 2×2 image over ℚ, transformed and recovered -/
example : haar2 true 2 2 (fun y x => ((3 * y + x + 1 : Nat) : Rat)) 0 0 = 6 ∧
    ihaar2 true 2 2 (haar2 true 2 2 (fun y x => ((3 * y + x + 1 : Nat) : Rat))) 1 0 = 4 := by
  constructor <;> norm_num [haar2, ihaar2, colsPass, rowsPass, haarRow, ihaarRow, two, zero]

/-- non-vacuity of `C17_pr_exact`: a rational four-tap filter with the identities exactly
(`cos t = 3/5`, `sin t = 4/5` in the D4 family) -/
example : qmfExact ([3 / 5, 6 / 5, 2 / 5, -1 / 5] : List Rat) ∧
    ([3 / 5, 6 / 5, 2 / 5, -1 / 5] : List Rat).length ∈ prLengths := by
  constructor
  · intro s hs
    have : s = 0 ∨ s = 1 := by simp at hs; omega
    rcases this with rfl | rfl <;> norm_num [List.range_succ]
  · decide

/-- **C17-T6 (reconstruction error, rows).** For every filter length 2, 4, …, 20 and **every** coefficient list
of that length (no hypothesis on the coefficients), over every field with `2 ≠ 0`: at every position
`x ≥ ncoeffs − 2` of an even-length row the model of `iwavelet` applied to the model of `wavelet` returns
`f x + errRow cs N f x`, where `errRow = ½ Σ_{j<n−1} resid(|j − (n/2−1)|) · f[x − (n−2) + 2j]` (zero outside the
row) is *linear in the residuals* `resid cs s = Σ_k c_k c_{k+2s} − 2δ_s` of the quadrature-mirror identities.
Over an ordered field, if `|f| ≤ M` on the row then `|iwavelet(wavelet f) x − f x| ≤ errConst cs · M` with
`errConst cs = ½ Σ_{j<n−1} |resid(|j − (n/2−1)|)|`, and if every identity holds within `ε` then
`errConst cs ≤ (n − 1)/2 · ε`. (`C17_pr_exact_row` is the case `ε = 0`.) -/
theorem C17_reconstruction_error_bound_row {K : Type} [Field K] [LinearOrder K] [IsStrictOrderedRing K]
    (cs : List K) (hl : cs.length ∈ errLengths) (N : Nat) (hN : N % 2 = 0) (f : Nat → K) (M : K) (hM : 0 ≤ M)
    (hf : ∀ p, p < N → |f p| ≤ M) (x : Nat) (hx : cs.length ≤ x + 2) (hxN : x < N) :
    iwaveletRow cs N (waveletRow cs N f) x = f x + errRow cs N f x ∧
    |iwaveletRow cs N (waveletRow cs N f) x - f x| ≤ errConst cs * M ∧
    (∀ eps : K, (∀ s, s < cs.length / 2 → |resid cs s| ≤ eps) →
      |iwaveletRow cs N (waveletRow cs N f) x - f x| ≤ ((cs.length - 1 : Nat) : K) / 2 * eps * M) := by
  have hid := rowIdentity_list (two_ne_zero) cs hl N hN f x hx hxN
  have hb : |iwaveletRow cs N (waveletRow cs N f) x - f x| ≤ errConst cs * M := by
    rw [hid, add_sub_cancel_left]
    exact abs_errRow_le cs N f M hM hf x
  refine ⟨hid, hb, ?_⟩
  intro eps heps
  have heven : cs.length % 2 = 0 := by
    simp only [errLengths, List.mem_cons, List.not_mem_nil, or_false] at hl
    omega
  exact le_trans hb (mul_le_mul_of_nonneg_right (errConst_le cs heven eps heps) hM)

/-- **C17-T6 (`reconstruction_error_bound`, images).** For every filter length 2, 4, …, 20, every coefficient
list `cs` of that length whose quadrature-mirror identities `Σ_k c_k c_{k+2s} = 2δ_s` hold within `ε`
(`|resid cs s| ≤ ε` for `s < n/2`; this is what `C17_tables_qmf_eps` establishes for the generated float32
tables with `ε = 3·10⁻⁶`), every image with even sides and `|f| ≤ M`, over every ordered field: at every pixel
`(y, x)` with `y, x ≥ ncoeffs − 2`

`|idaubechies(daubechies f) y x − f y x| ≤ (2d + d²)·M`, `d = (n − 1)/2 · ε`,

i.e. `C(n)·ε·M` with the explicit constant `C(n) = (n − 1)·(1 + (n − 1)ε/4)` (rows then columns: the column
error `≤ dM`, then the row error of a row bounded by `(1 + d)M`). The sharper `d = errConst cs` (the actual
residuals instead of `ε`) is the first conjunct. -/
theorem C17_reconstruction_error_bound {K : Type} [Field K] [LinearOrder K] [IsStrictOrderedRing K]
    (cs : List K) (hl : cs.length ∈ errLengths) (N0 N1 : Nat) (h0 : N0 % 2 = 0) (h1 : N1 % 2 = 0)
    (f : Im K) (M : K) (hM : 0 ≤ M) (hf : ∀ y x, y < N0 → x < N1 → |f y x| ≤ M)
    (y x : Nat) (hy : cs.length ≤ y + 2) (hyN : y < N0) (hx : cs.length ≤ x + 2) (hxN : x < N1) :
    |idaubechies2 cs N0 N1 (daubechies2 cs N0 N1 f) y x - f y x|
        ≤ (2 * errConst cs + errConst cs ^ 2) * M ∧
    (∀ eps : K, (∀ s, s < cs.length / 2 → |resid cs s| ≤ eps) →
      |idaubechies2 cs N0 N1 (daubechies2 cs N0 N1 f) y x - f y x|
        ≤ (2 * (((cs.length - 1 : Nat) : K) / 2 * eps) + (((cs.length - 1 : Nat) : K) / 2 * eps) ^ 2) * M) := by
  have hb := abs_round_trip_2d_le cs (rowIdentity_list (two_ne_zero) cs hl) N0 N1 h0 h1 f M hM hf y x hy hyN hx hxN
  refine ⟨hb, ?_⟩
  intro eps heps
  have heven : cs.length % 2 = 0 := by
    simp only [errLengths, List.mem_cons, List.not_mem_nil, or_false] at hl
    omega
  have hd := errConst_le cs heven eps heps
  have d0 := errConst_nonneg cs
  refine le_trans hb (mul_le_mul_of_nonneg_right ?_ hM)
  have hsq : errConst cs ^ 2 ≤ (((cs.length - 1 : Nat) : K) / 2 * eps) ^ 2 := pow_le_pow_left₀ d0 hd 2
  linarith

/-- the constants of the generated tables, by exact rational arithmetic: table `code` has `2(code+1)` entries and
    `2d + d² ≤ tableTol[code]` for its row constant `d = errConst` -/
theorem tables_consts :
    (List.range 10).all (fun code =>
      decide ((coeffsOf code : List ℚ).length = 2 * (code + 1)) &&
      decide (2 * errConst (coeffsOf code : List ℚ) + errConst (coeffsOf code : List ℚ) ^ 2
        ≤ tableTol.getD code 0)) = true := by decide +kernel

/-- **C17-T6 (proved tolerance of the ten generated tables).** For each of the ten tables `D2 … D20` the
translator extracts (the float32 values the compiler stores, as exact rationals), in exact (rational) arithmetic:
for every image with even sides and `|f| ≤ M`, at every pixel `(y, x)` with `y, x ≥ ncoeffs − 2`,
`|idaubechies(daubechies f) y x − f y x| ≤ tableTol[code]·M` with
`tableTol = (0, 1.3e-7, 1.9e-7, 2.5e-6, 1.7e-7, 7e-8, 8.1e-7, 1.5e-7, 7e-8, 1.1e-7)` — the instance of
`C17_reconstruction_error_bound` at the tables' actual residuals (`decide +kernel` over ℚ). Every floating-point
image is a rational image, so this covers every input of the correspondence run; what it does not cover is the
rounding of the floating-point evaluation itself. The run uses `tableTol[code] + 1e-12` for float64 images. -/
theorem C17_tables_error_bound (code : Nat) (hc : code < 10) (N0 N1 : Nat) (h0 : N0 % 2 = 0) (h1 : N1 % 2 = 0)
    (f : Im ℚ) (M : ℚ) (hM : 0 ≤ M) (hf : ∀ y x, y < N0 → x < N1 → |f y x| ≤ M)
    (y x : Nat) (hy : 2 * (code + 1) ≤ y + 2) (hyN : y < N0) (hx : 2 * (code + 1) ≤ x + 2) (hxN : x < N1) :
    |idaubechies2 (coeffsOf code) N0 N1 (daubechies2 (coeffsOf code) N0 N1 f) y x - f y x|
      ≤ tableTol.getD code 0 * M := by
  have h := List.all_eq_true.mp tables_consts code (List.mem_range.mpr hc)
  simp only [Bool.and_eq_true, decide_eq_true_eq] at h
  obtain ⟨hlen, htol⟩ := h
  have hl : (coeffsOf code : List ℚ).length ∈ errLengths := by
    rw [hlen]
    simp only [errLengths, List.mem_cons, List.not_mem_nil, or_false]
    omega
  have hb := (C17_reconstruction_error_bound (coeffsOf code : List ℚ) hl N0 N1 h0 h1 f M hM hf y x
    (by rw [hlen]; exact hy) hyN (by rw [hlen]; exact hx) hxN).1
  exact le_trans hb (mul_le_mul_of_nonneg_right htol hM)

/-- **C17-T7 (`inline_only`).** In the wrapper model (`wrapCall`: `_as_floating_point_array`, then
`_wavelet_array`'s `if not inline: return f.copy()`, then the in-place kernels) every wrapper returns the
transform of its input, and the caller's array is written only when `inline=True` **and** the array is
floating point — then it holds the result (it *is* the returned array); in every other case it is unchanged
(integer input is always converted and copied, `inline=False` always copies). -/
theorem C17_inline_only {α : Type} (T : Im α → Im α) (isFloat inline : Bool) (f : Im α) :
    (wrapCall T isFloat inline f).2 = T f ∧
    (wrapTarget isFloat inline = .input ↔ (inline = true ∧ isFloat = true)) ∧
    (¬ (inline = true ∧ isFloat = true) → (wrapCall T isFloat inline f).1 = f) ∧
    (inline = true ∧ isFloat = true → (wrapCall T isFloat inline f).1 = T f) := by
  cases isFloat <;> cases inline <;> simp [wrapCall, wrapTarget]

/-- non-vacuity of the error bound: the rational four-tap list `(3/5, 6/5, 2/5, −1/5 + 1/100)` violates the
identities by a known amount (`resid 0 = −39/10000`, `resid 1 = 3/250`) and its row constant is `279/20000` -/
example : ([3 / 5, 6 / 5, 2 / 5, -1 / 5 + 1 / 100] : List ℚ).length ∈ errLengths ∧
    errConst ([3 / 5, 6 / 5, 2 / 5, -1 / 5 + 1 / 100] : List ℚ) ≤ 279 / 20000 ∧
    279 / 20000 ≤ errConst ([3 / 5, 6 / 5, 2 / 5, -1 / 5 + 1 / 100] : List ℚ) := by
  refine ⟨?_, ?_, ?_⟩ <;> decide +kernel

/-! ## Round 3: every even filter length; orthogonality of the Haar transform -/

/-- **C17-T6 (`pr_exact_row_general`: rows, EVERY even number of coefficients).** One length-independent theorem
replacing the per-length generated proofs: for every coefficient list with an even number `n ≥ 2` of entries that
satisfies the quadrature-mirror identities `Σ_k c_k c_{k+2s} = 2·δ_s` (`s < n/2`) exactly, over every field with
`2 ≠ 0`, the model of `iwavelet` applied to the model of `wavelet` returns every sample of every even-length row at
the positions `x ≥ n − 2` — for every row content. (Proof: `rowIdentity_general`, `Proofs/C17General.lean`: closed
forms of the two kernels as finite sums, `2·iw(w f)[x] = Σ_{a ≡ b (2)} c_a c_b f[x + a − b]` — the mixed-parity
products cancel termwise —, regrouped by the lag `a − b`.) -/
theorem C17_pr_exact_row_general {K : Type} [Field K] (h2 : (2 : K) ≠ 0) (cs : List K)
    (heven : cs.length % 2 = 0) (hpos : 2 ≤ cs.length) (hq : qmfExact cs) (N : Nat) (hN : N % 2 = 0)
    (f : Nat → K) (x : Nat) (hx : cs.length ≤ x + 2) (hxN : x < N) :
    iwaveletRow cs N (waveletRow cs N f) x = f x := by
  rw [rowIdentity_general h2 cs heven hpos N hN f x hx hxN, errRow_eq_zero cs heven hpos hq, add_zero]

/-- **C17-T6 (`pr_exact`, images, every even number of coefficients).** With exactly quadrature-mirror
coefficients of any even length `n ≥ 2`, `idaubechies(daubechies(f))` returns `f` at every pixel `(y, x)` with
`y, x ≥ n − 2` of every image with even sides. -/
theorem C17_pr_exact_general {K : Type} [Field K] (h2 : (2 : K) ≠ 0) (cs : List K)
    (heven : cs.length % 2 = 0) (hpos : 2 ≤ cs.length) (hq : qmfExact cs) (N0 N1 : Nat)
    (h0 : N0 % 2 = 0) (h1 : N1 % 2 = 0) (f : Im K) (y x : Nat)
    (hy : cs.length ≤ y + 2) (hyN : y < N0) (hx : cs.length ≤ x + 2) (hxN : x < N1) :
    idaubechies2 cs N0 N1 (daubechies2 cs N0 N1 f) y x = f y x := by
  show iwaveletRow cs N1 (fun x' => iwaveletRow cs N0
      (fun k => waveletRow cs N0 (fun k' => waveletRow cs N1 (f k') x') k) y) x = f y x
  have e : (fun x' => iwaveletRow cs N0
      (fun k => waveletRow cs N0 (fun k' => waveletRow cs N1 (f k') x') k) y)
      = waveletRow cs N1 (f y) := by
    funext x'
    exact C17_pr_exact_row_general h2 cs heven hpos hq N0 h0 (fun k' => waveletRow cs N1 (f k') x') y hy hyN
  rw [e]
  exact C17_pr_exact_row_general h2 cs heven hpos hq N1 h1 (f y) x hx hxN

/-- **C17-T6 (reconstruction after `wavelet_center`, every even number of coefficients).** As
`C17_reconstruction_centered`, for every even filter length. -/
theorem C17_reconstruction_centered_general {K : Type} [Field K] (h2 : (2 : K) ≠ 0) (cs : List K)
    (heven : cs.length % 2 = 0) (hpos : 2 ≤ cs.length) (hq : qmfExact cs) (N0 N1 d0 d1 M0 M1 : Nat) (cval : K)
    (hM0 : M0 % 2 = 0) (hM1 : M1 % 2 = 0) (hd0 : cs.length ≤ d0 + 2) (hd1 : cs.length ≤ d1 + 2)
    (hf0 : d0 + N0 ≤ M0) (hf1 : d1 + N1 ≤ M1) (f : Im K) (y x : Nat) (hy : y < N0) (hx : x < N1) :
    decenter d0 d1 (idaubechies2 cs M0 M1 (daubechies2 cs M0 M1 (center N0 N1 d0 d1 cval f))) y x = f y x := by
  show idaubechies2 cs M0 M1 (daubechies2 cs M0 M1 (center N0 N1 d0 d1 cval f)) (y + d0) (x + d1) = f y x
  rw [C17_pr_exact_general h2 cs heven hpos hq M0 M1 hM0 hM1 _ (y + d0) (x + d1)
    (by omega) (by omega) (by omega) (by omega)]
  exact C17_decenter_center N0 N1 d0 d1 cval f y x hy hx

/-- **C17-T6 (reconstruction error, rows, every even number of coefficients).** The statement of
`C17_reconstruction_error_bound_row` without the restriction to the lengths 2 … 20: for **every** coefficient list
with an even number `n ≥ 2` of entries and no other hypothesis, `iwavelet(wavelet f)[x] = f[x] + errRow cs N f x` at
every `x ≥ n − 2`, `errRow` linear in the residuals of the quadrature-mirror identities; hence
`|iwavelet(wavelet f)[x] − f[x]| ≤ errConst cs · M`, and `≤ (n − 1)/2 · ε · M` when the identities hold within `ε`. -/
theorem C17_reconstruction_error_bound_row_general {K : Type} [Field K] [LinearOrder K] [IsStrictOrderedRing K]
    (cs : List K) (heven : cs.length % 2 = 0) (hpos : 2 ≤ cs.length) (N : Nat) (hN : N % 2 = 0)
    (f : Nat → K) (M : K) (hM : 0 ≤ M) (hf : ∀ p, p < N → |f p| ≤ M) (x : Nat) (hx : cs.length ≤ x + 2)
    (hxN : x < N) :
    iwaveletRow cs N (waveletRow cs N f) x = f x + errRow cs N f x ∧
    |iwaveletRow cs N (waveletRow cs N f) x - f x| ≤ errConst cs * M ∧
    (∀ eps : K, (∀ s, s < cs.length / 2 → |resid cs s| ≤ eps) →
      |iwaveletRow cs N (waveletRow cs N f) x - f x| ≤ ((cs.length - 1 : Nat) : K) / 2 * eps * M) := by
  have hid := rowIdentity_general (two_ne_zero) cs heven hpos N hN f x hx hxN
  have hb : |iwaveletRow cs N (waveletRow cs N f) x - f x| ≤ errConst cs * M := by
    rw [hid, add_sub_cancel_left]
    exact abs_errRow_le cs N f M hM hf x
  refine ⟨hid, hb, ?_⟩
  intro eps heps
  exact le_trans hb (mul_le_mul_of_nonneg_right (errConst_le cs heven eps heps) hM)

/-- **C17-T6 (`reconstruction_error_bound`, images, every even number of coefficients).** The statement of
`C17_reconstruction_error_bound` for every even filter length `n ≥ 2`:
`|idaubechies(daubechies f) y x − f y x| ≤ (2d + d²)·M` with `d = errConst cs`, and with `d = (n − 1)/2·ε` when the
quadrature-mirror identities hold within `ε`, at every pixel with `y, x ≥ n − 2` of every even-sided image with
`|f| ≤ M`, over every ordered field. -/
theorem C17_reconstruction_error_bound_general {K : Type} [Field K] [LinearOrder K] [IsStrictOrderedRing K]
    (cs : List K) (heven : cs.length % 2 = 0) (hpos : 2 ≤ cs.length) (N0 N1 : Nat) (h0 : N0 % 2 = 0)
    (h1 : N1 % 2 = 0) (f : Im K) (M : K) (hM : 0 ≤ M) (hf : ∀ y x, y < N0 → x < N1 → |f y x| ≤ M)
    (y x : Nat) (hy : cs.length ≤ y + 2) (hyN : y < N0) (hx : cs.length ≤ x + 2) (hxN : x < N1) :
    |idaubechies2 cs N0 N1 (daubechies2 cs N0 N1 f) y x - f y x|
        ≤ (2 * errConst cs + errConst cs ^ 2) * M ∧
    (∀ eps : K, (∀ s, s < cs.length / 2 → |resid cs s| ≤ eps) →
      |idaubechies2 cs N0 N1 (daubechies2 cs N0 N1 f) y x - f y x|
        ≤ (2 * (((cs.length - 1 : Nat) : K) / 2 * eps) + (((cs.length - 1 : Nat) : K) / 2 * eps) ^ 2) * M) := by
  have hb := abs_round_trip_2d_le cs (rowIdentity_general (two_ne_zero) cs heven hpos) N0 N1 h0 h1 f M hM hf
    y x hy hyN hx hxN
  refine ⟨hb, ?_⟩
  intro eps heps
  have hd := errConst_le cs heven eps heps
  have d0 := errConst_nonneg cs
  refine le_trans hb (mul_le_mul_of_nonneg_right ?_ hM)
  have hsq : errConst cs ^ 2 ≤ (((cs.length - 1 : Nat) : K) / 2 * eps) ^ 2 := pow_le_pow_left₀ d0 hd 2
  linarith

/-- non-vacuity of the general theorems beyond the generated lengths: a 22-tap list (longer than `D20`) made of
the exact four-tap filter `(3/5, 6/5, 2/5, −1/5)` shifted by 8 satisfies the identities, has even length, and is
not covered by `prLengths` -/
example : qmfExact ((List.replicate 8 0 ++ [3 / 5, 6 / 5, 2 / 5, -1 / 5] ++ List.replicate 10 0 : List Rat)) ∧
    ((List.replicate 8 0 ++ [3 / 5, 6 / 5, 2 / 5, -1 / 5] ++ List.replicate 10 0 : List Rat)).length = 22 ∧
    22 ∉ prLengths := by
  refine ⟨?_, by decide, by decide⟩
  unfold qmfExact
  decide +kernel

/-- **C17-T2 (`haar_is_orthogonal`).** The energy-preserving Haar transform preserves the inner product of any two
images with even sides: `⟨haar f, haar g⟩ = ⟨f, g⟩` (`inner2`, the sum of the pixelwise products) — its matrix `T`
satisfies `TᵀT = I`, it is an orthogonal matrix. (Polarisation of `C17_haar_energy` with `C17_linear_haar`; `2 ≠ 0`.) -/
theorem C17_haar_is_orthogonal {K : Type} [Field K] (h2 : (2 : K) ≠ 0) (N0 N1 : Nat)
    (h0 : N0 % 2 = 0) (h1 : N1 % 2 = 0) (f g : Im K) :
    inner2 N0 N1 (haar2 true N0 N1 f) (haar2 true N0 N1 g) = inner2 N0 N1 f g := by
  have key : ∀ u v : Im K, energy N0 N1 (fun y x => u y x + v y x)
      = energy N0 N1 u + energy N0 N1 v + 2 * inner2 N0 N1 u v := by
    intro u v
    unfold energy inner2
    rw [← sumTo_mul, ← sumTo_add, ← sumTo_add]
    apply sumTo_congr
    intro y _
    rw [← sumTo_mul, ← sumTo_add, ← sumTo_add]
    apply sumTo_congr
    intro x _
    ring
  have lin : haar2 true N0 N1 (fun y x => f y x + g y x)
      = fun y x => haar2 true N0 N1 f y x + haar2 true N0 N1 g y x := by
    funext y x
    have := C17_linear_haar true N0 N1 1 1 f g y x
    simpa only [one_mul] using this
  have E := C17_haar_energy h2 N0 N1 h0 h1 (fun y x => f y x + g y x)
  rw [lin, key, key, C17_haar_energy h2 N0 N1 h0 h1 f, C17_haar_energy h2 N0 N1 h0 h1 g] at E
  have : 2 * inner2 N0 N1 (haar2 true N0 N1 f) (haar2 true N0 N1 g) = 2 * inner2 N0 N1 f g := by
    linear_combination E
  exact mul_left_cancel₀ h2 this

/-- non-vacuity: two concrete 2×2 images over ℚ with a non-zero inner product, before and after the transform -/
example : inner2 2 2 (fun y x => ((3 * y + x + 1 : Nat) : Rat)) (fun y x => ((y + 2 * x : Nat) : Rat)) = 23 ∧
    inner2 2 2 (haar2 true 2 2 (fun y x => ((3 * y + x + 1 : Nat) : Rat)))
      (haar2 true 2 2 (fun y x => ((y + 2 * x : Nat) : Rat))) = 23 := by
  constructor <;> norm_num [inner2, sumTo, haar2, colsPass, rowsPass, haarRow, two, zero]

/-! ## Round 3: energy of the Daubechies transform -/

/-- `energy` (the `sumTo` form used by `C17_haar_energy`) is the `Finset` double sum `energy2` of `Proofs/C17Energy.lean` -/
theorem energy_eq_energy2 {K : Type} [Field K] (N0 N1 : Nat) (g : Im K) : energy N0 N1 g = energy2 N0 N1 g :=
  (energy2_eq_sumTo N0 N1 g).symm

/-- **C17 (`daubechies_energy_bound`).** Energy of the Daubechies analysis transform for coefficient lists that
satisfy the quadrature-mirror identities only approximately — every even number `n ≥ 2` of coefficients, no other
hypothesis on them, every ordered field. For every even-sided image that vanishes in its first `n − 2` rows and
columns (what embedding with `wavelet_center`, fill value 0, at offsets `≥ n − 2` provides; without a margin the code
drops the analysis samples of negative index and the energy is *not* conserved even by an exact filter):

`|Σ (daubechies f)² − 4·Σ f²| ≤ (8d + 4d²)·Σ f²`, `d = errConst cs = ½ Σ_{j<n−1} |resid cs |j − (n/2−1)||`

(the factor 4 is the normalisation `Σ c_k² = 2` per axis, as for the unnormalised Haar transform `D2`); if every
identity holds within `ε` the same with `d = (n − 1)/2·ε`; and for exactly quadrature-mirror coefficients
`Σ (daubechies f)² = 4·Σ f²`. (Proof, `Proofs/C17Energy.lean`: the synthesis kernel is half the transpose of the analysis
kernel on such rows — `wavelet_adjoint` — so `Σ (Wf)² = 2 Σ f·iW(Wf) = 2Σf² + 2Σ f·errRow f` by the row identity;
`|Σ_x f[x] f[x+2s]| ≤ Σ f²`.) -/
theorem C17_daubechies_energy_bound {K : Type} [Field K] [LinearOrder K] [IsStrictOrderedRing K]
    (cs : List K) (heven : cs.length % 2 = 0) (hpos : 2 ≤ cs.length) (N0 N1 : Nat) (h0 : N0 % 2 = 0)
    (h1 : N1 % 2 = 0) (f : Im K)
    (hy0 : ∀ y x, y < N0 → x < N1 → y + 2 < cs.length → f y x = 0)
    (hx0 : ∀ y x, y < N0 → x < N1 → x + 2 < cs.length → f y x = 0) :
    |energy N0 N1 (daubechies2 cs N0 N1 f) - 4 * energy N0 N1 f|
        ≤ (8 * errConst cs + 4 * errConst cs ^ 2) * energy N0 N1 f ∧
    (∀ eps : K, (∀ s, s < cs.length / 2 → |resid cs s| ≤ eps) →
      |energy N0 N1 (daubechies2 cs N0 N1 f) - 4 * energy N0 N1 f|
        ≤ (8 * (((cs.length - 1 : Nat) : K) / 2 * eps) + 4 * (((cs.length - 1 : Nat) : K) / 2 * eps) ^ 2)
            * energy N0 N1 f) ∧
    (qmfExact cs → energy N0 N1 (daubechies2 cs N0 N1 f) = 4 * energy N0 N1 f) := by
  have hb := abs_daubechies2_energy_le_of_lt cs heven (rowIdentity_general two_ne_zero cs heven hpos)
    N0 N1 h0 h1 f hy0 hx0
  rw [← energy_eq_energy2, ← energy_eq_energy2] at hb
  have hE : 0 ≤ energy N0 N1 f := by
    rw [energy_eq_energy2]
    unfold energy2
    exact Finset.sum_nonneg fun y _ => Finset.sum_nonneg fun x _ => sq_nonneg _
  have d0 := errConst_nonneg cs
  have hmono : ∀ eps : K, (∀ s, s < cs.length / 2 → |resid cs s| ≤ eps) →
      |energy N0 N1 (daubechies2 cs N0 N1 f) - 4 * energy N0 N1 f|
        ≤ (8 * (((cs.length - 1 : Nat) : K) / 2 * eps) + 4 * (((cs.length - 1 : Nat) : K) / 2 * eps) ^ 2)
            * energy N0 N1 f := by
    intro eps heps
    have hd := errConst_le cs heven eps heps
    refine le_trans hb (mul_le_mul_of_nonneg_right ?_ hE)
    have hsq : errConst cs ^ 2 ≤ (((cs.length - 1 : Nat) : K) / 2 * eps) ^ 2 := pow_le_pow_left₀ d0 hd 2
    linarith
  refine ⟨hb, hmono, ?_⟩
  intro hq
  have hr := (qmfExact_iff_resid cs).mp hq
  have h := hmono 0 (fun s hs => by rw [hr s hs, abs_zero])
  simp only [mul_zero, ne_eq, OfNat.ofNat_ne_zero, not_false_eq_true, zero_pow, add_zero, zero_mul] at h
  exact sub_eq_zero.mp (abs_eq_zero.mp (le_antisymm h (abs_nonneg _)))

/-- **C17 (`daubechies_energy_bound` after `wavelet_center`).** For an image embedded by `wavelet_center` with fill
value 0 at offsets `d0, d1 ≥ n − 2` into an even-sided image (`C17_center_margin`), the bound of
`C17_daubechies_energy_bound` holds for the embedded image, whatever `f` is. -/
theorem C17_daubechies_energy_centered {K : Type} [Field K] [LinearOrder K] [IsStrictOrderedRing K]
    (cs : List K) (heven : cs.length % 2 = 0) (hpos : 2 ≤ cs.length) (N0 N1 d0 d1 M0 M1 : Nat)
    (hM0 : M0 % 2 = 0) (hM1 : M1 % 2 = 0) (hd0 : cs.length ≤ d0 + 2) (hd1 : cs.length ≤ d1 + 2) (f : Im K) :
    |energy M0 M1 (daubechies2 cs M0 M1 (center N0 N1 d0 d1 0 f)) - 4 * energy M0 M1 (center N0 N1 d0 d1 0 f)|
      ≤ (8 * errConst cs + 4 * errConst cs ^ 2) * energy M0 M1 (center N0 N1 d0 d1 0 f) := by
  refine (C17_daubechies_energy_bound cs heven hpos M0 M1 hM0 hM1 (center N0 N1 d0 d1 0 f) ?_ ?_).1
  · intro y x _ _ hy
    have : ¬ (d0 ≤ y ∧ y < d0 + N0 ∧ d1 ≤ x ∧ x < d1 + N1) := by omega
    simp only [center, this, if_false]
  · intro y x _ _ hx
    have : ¬ (d0 ≤ y ∧ y < d0 + N0 ∧ d1 ≤ x ∧ x < d1 + N1) := by omega
    simp only [center, this, if_false]

/-- the energy constants of the generated tables, by exact rational arithmetic: `8d + 4d² ≤ 4·tableTol[code]` -/
theorem tables_energy_consts :
    (List.range 10).all (fun code =>
      decide ((coeffsOf code : List ℚ).length = 2 * (code + 1)) &&
      decide (8 * errConst (coeffsOf code : List ℚ) + 4 * errConst (coeffsOf code : List ℚ) ^ 2
        ≤ 4 * tableTol.getD code 0)) = true := by decide +kernel

/-- **C17 (energy of the ten generated tables).** For each table `D2 … D20` the translator extracts (the float32
values the compiler stores, as exact rationals) and every even-sided rational image vanishing in its first
`ncoeffs − 2` rows and columns: `|Σ (daubechies f)² − 4·Σ f²| ≤ 4·tableTol[code]·Σ f²` — relative energy defect at most
`tableTol = (0, 1.3e-7, 1.9e-7, 2.5e-6, 1.7e-7, 7e-8, 8.1e-7, 1.5e-7, 7e-8, 1.1e-7)`, the same constants as the
reconstruction tolerance (`C17_tables_error_bound`). Exact arithmetic; the floating-point rounding of the kernels is
not covered. -/
theorem C17_tables_energy_bound (code : Nat) (hc : code < 10) (N0 N1 : Nat) (h0 : N0 % 2 = 0) (h1 : N1 % 2 = 0)
    (f : Im ℚ)
    (hy0 : ∀ y x, y < N0 → x < N1 → y + 2 < 2 * (code + 1) → f y x = 0)
    (hx0 : ∀ y x, y < N0 → x < N1 → x + 2 < 2 * (code + 1) → f y x = 0) :
    |energy N0 N1 (daubechies2 (coeffsOf code) N0 N1 f) - 4 * energy N0 N1 f|
      ≤ 4 * tableTol.getD code 0 * energy N0 N1 f := by
  have h := List.all_eq_true.mp tables_energy_consts code (List.mem_range.mpr hc)
  simp only [Bool.and_eq_true, decide_eq_true_eq] at h
  obtain ⟨hlen, htol⟩ := h
  have hb := (C17_daubechies_energy_bound (coeffsOf code : List ℚ) (by rw [hlen]; omega) (by rw [hlen]; omega)
    N0 N1 h0 h1 f (by rw [hlen]; exact hy0) (by rw [hlen]; exact hx0)).1
  have hE : 0 ≤ energy N0 N1 f := by
    rw [energy_eq_energy2]
    unfold energy2
    exact Finset.sum_nonneg fun y _ => Finset.sum_nonneg fun x _ => sq_nonneg _
  exact le_trans hb (mul_le_mul_of_nonneg_right htol hE)

/-- non-vacuity of the support hypothesis and of the energy identity: the exact four-tap filter
`(3/5, 6/5, 2/5, −1/5)` on the 4×4 image that is 1 at `(2, 2)` and 0 elsewhere (it vanishes in its first two rows
and columns): the transform has energy `4 = 4·1` -/
example : energy 4 4 (daubechies2 ([3 / 5, 6 / 5, 2 / 5, -1 / 5] : List ℚ) 4 4
      (fun y x => if y = 2 ∧ x = 2 then 1 else 0)) = 4 ∧
    energy 4 4 (fun y x => if y = 2 ∧ x = 2 then (1 : ℚ) else 0) = 1 := by
  constructor <;> decide +kernel

/-! ## Round 4 — the kernels in rounded (floating-point) arithmetic (`Proofs/C17RoundTrip.lean`) -/

namespace Mahotas.C17
/-- proved allowance for the rounding of the **double** evaluation of `idaubechies(daubechies f)` with the ten generated
    tables (relative to `max|f|`): `C⁴·((1+u)^(8n+4) − 1)` at `u = 2⁻⁵³`, `C = Σ|c_k|`, see `C17_tables_rounded_bound` -/
def tableRoundTol : List Rat :=
  [4 / 100000000000000, 13 / 100000000000000, 28 / 100000000000000, 37 / 100000000000000, 60 / 100000000000000,
   103 / 100000000000000, 136 / 100000000000000, 125 / 100000000000000, 200 / 100000000000000, 299 / 100000000000000]
end Mahotas.C17

/-- **C17-T6 (one row, rounded arithmetic).** `RT.RV K fl` is the ordered field `K` in which every `+ − × ÷` is followed
by the rounding function `fl` (negation and the literals `0`, `2` are exact) — the polymorphic row kernels `waveletRow`,
`iwaveletRow` instantiated there perform the operations of the C loops in the C loops' order (`acc += c·d` per tap,
`(l + h)/2`), each one rounded. Under the standard model of floating-point arithmetic `|fl x − x| ≤ u·|x|` (IEEE
round-to-nearest without under/overflow: `u = 2⁻⁵³` for double, `2⁻²⁴` for float), for **every** coefficient list with an
even number `n ≥ 2` of entries (exactly representable values), every even `N`, every row with `|f| ≤ M`:
(i) each analysis sample is within `((1+u)^(2n) − 1)·C·M` of the exact one, (ii) each synthesis sample within
`((1+u)^(2n+2) − 1)·C·G` (`|g| ≤ G`), (iii) the rounded round trip satisfies
`|ĩw(w̃ f)[x] − f[x]| ≤ (errConst cs + C²·((1+u)^(4n+2) − 1))·M` at every `n − 2 ≤ x < N`, `C = Σ|c_k|`. -/
theorem C17_rounded_round_trip_row {K : Type} [Field K] [LinearOrder K] [IsStrictOrderedRing K] (fl : K → K) (u : K)
    (hu : 0 ≤ u) (hfl : ∀ x, |fl x - x| ≤ u * |x|) (cs : List K) (N : Nat) (f : Nat → K) (M : K) (hM : 0 ≤ M)
    (hf : ∀ p, p < N → |f p| ≤ M) :
    (∀ k, |(waveletRow (cs.map (RT.ex (fl := fl))) N (fun q => RT.ex (f q)) k).v - waveletRow cs N f k|
      ≤ RT.gam u cs.length * (RT.absSum cs * M)) ∧
    (∀ x, |(iwaveletRow (cs.map (RT.ex (fl := fl))) N (fun q => RT.ex (f q)) x).v - iwaveletRow cs N f x|
      ≤ RT.gam u (cs.length + 1) * (RT.absSum cs * M)) ∧
    (cs.length % 2 = 0 → 2 ≤ cs.length → N % 2 = 0 → ∀ x, cs.length ≤ x + 2 → x < N →
      |(iwaveletRow (cs.map (RT.ex (fl := fl))) N
          (waveletRow (cs.map (RT.ex (fl := fl))) N (fun q => RT.ex (f q))) x).v - f x|
        ≤ (errConst cs + RT.absSum cs ^ 2 * RT.gam u (2 * cs.length + 1)) * M) :=
  ⟨fun k => RT.wavelet_round hu hfl cs N f M hM hf k,
   fun x => RT.iwavelet_round hu hfl cs N f M hM hf x,
   fun heven hpos hN x hx hxN => RT.round_trip_round hu hfl cs heven hpos N hN f M hM hf x hx hxN⟩

/-- **C17-T6 (`idaubechies(daubechies f)` in rounded arithmetic).** The whole 2-D pipeline (`daubechies2`: rows, columns;
`idaubechies2`: columns, rows) evaluated in `RT.RV K fl` — every operation of the four passes rounded, in the order the
code performs them. For every coefficient list with an even number `n ≥ 2` of entries and **no** other hypothesis, every
even-sided image with `|f| ≤ M`: the rounded result is within `C⁴·((1+u)^(8n+4) − 1)·M` of the exact pipeline at **every**
pixel, hence within `((2d + d²) + C⁴·((1+u)^(8n+4) − 1))·M` of `f` at every pixel with `y, x ≥ n − 2`
(`d = errConst cs`: the quadrature-mirror residuals; the second term: the rounding). `RT.gam u k = (1+u)^(2k) − 1`. -/
theorem C17_rounded_reconstruction_bound {K : Type} [Field K] [LinearOrder K] [IsStrictOrderedRing K] (fl : K → K)
    (u : K) (hu : 0 ≤ u) (hfl : ∀ x, |fl x - x| ≤ u * |x|) (cs : List K) (heven : cs.length % 2 = 0)
    (hpos : 2 ≤ cs.length) (N0 N1 : Nat) (h0 : N0 % 2 = 0) (h1 : N1 % 2 = 0) (f : Im K) (M : K) (hM : 0 ≤ M)
    (hf : ∀ y x, y < N0 → x < N1 → |f y x| ≤ M) :
    (∀ y x, |(idaubechies2 (cs.map (RT.ex (fl := fl))) N0 N1
          (daubechies2 (cs.map (RT.ex (fl := fl))) N0 N1 (fun y x => RT.ex (f y x))) y x).v
        - idaubechies2 cs N0 N1 (daubechies2 cs N0 N1 f) y x|
        ≤ RT.gam u (4 * cs.length + 2) * (RT.absSum cs ^ 4 * M)) ∧
    (∀ y x, cs.length ≤ y + 2 → y < N0 → cs.length ≤ x + 2 → x < N1 →
      |(idaubechies2 (cs.map (RT.ex (fl := fl))) N0 N1
          (daubechies2 (cs.map (RT.ex (fl := fl))) N0 N1 (fun y x => RT.ex (f y x))) y x).v - f y x|
        ≤ ((2 * errConst cs + errConst cs ^ 2) + RT.absSum cs ^ 4 * RT.gam u (4 * cs.length + 2)) * M) := by
  have hfw := fun y x => RT.forward_2d hu hfl cs N0 N1 f M hM hf y x
  refine ⟨hfw, ?_⟩
  intro y x hy hyN hx hxN
  have hex := (C17_reconstruction_error_bound_general cs heven hpos N0 N1 h0 h1 f M hM hf y x hy hyN hx hxN).1
  have e : (idaubechies2 (cs.map (RT.ex (fl := fl))) N0 N1
      (daubechies2 (cs.map (RT.ex (fl := fl))) N0 N1 (fun y x => RT.ex (f y x))) y x).v - f y x =
      ((idaubechies2 (cs.map (RT.ex (fl := fl))) N0 N1
        (daubechies2 (cs.map (RT.ex (fl := fl))) N0 N1 (fun y x => RT.ex (f y x))) y x).v
        - idaubechies2 cs N0 N1 (daubechies2 cs N0 N1 f) y x) +
      (idaubechies2 cs N0 N1 (daubechies2 cs N0 N1 f) y x - f y x) := by ring
  rw [e]
  refine le_trans (abs_add_le _ _) ?_
  have := hfw y x
  nlinarith

/-- the rounding constants of the generated tables at `u = 2⁻⁵³`, exact rational arithmetic -/
theorem tables_round_consts :
    (List.range 10).all (fun code =>
      decide (RT.absSum (coeffsOf code : List ℚ) ^ 4 *
        RT.gam (1 / 9007199254740992 : ℚ) (4 * (coeffsOf code : List ℚ).length + 2)
        ≤ tableRoundTol.getD code 0)) = true := by decide +kernel

/-- **C17-T6 (the ten generated tables, double arithmetic).** For each table `D2 … D20` (the float32 values the compiler
stores, exactly representable in double), any rounding function on ℚ with `|fl x − x| ≤ 2⁻⁵³·|x|`, every even-sided
rational image (every double image is one) with `|f| ≤ M`, at every pixel with `y, x ≥ ncoeffs − 2`: the result of
`idaubechies(daubechies f)` computed with every operation rounded is within
`(tableTol[code] + tableRoundTol[code])·M` of `f`, `tableRoundTol = (4, 13, 28, 37, 60, 103, 136, 125, 200, 299)·10⁻¹⁴` —
the formerly unproved rounding allowance of the correspondence run (it used `1e-12`). Underflow is outside the model. -/
theorem C17_tables_rounded_bound (fl : ℚ → ℚ) (hfl : ∀ x, |fl x - x| ≤ (1 / 9007199254740992 : ℚ) * |x|)
    (code : Nat) (hc : code < 10) (N0 N1 : Nat) (h0 : N0 % 2 = 0) (h1 : N1 % 2 = 0)
    (f : Im ℚ) (M : ℚ) (hM : 0 ≤ M) (hf : ∀ y x, y < N0 → x < N1 → |f y x| ≤ M)
    (y x : Nat) (hy : 2 * (code + 1) ≤ y + 2) (hyN : y < N0) (hx : 2 * (code + 1) ≤ x + 2) (hxN : x < N1) :
    |(idaubechies2 ((coeffsOf code : List ℚ).map (RT.ex (fl := fl))) N0 N1
        (daubechies2 ((coeffsOf code : List ℚ).map (RT.ex (fl := fl))) N0 N1 (fun y x => RT.ex (f y x))) y x).v - f y x|
      ≤ (tableTol.getD code 0 + tableRoundTol.getD code 0) * M := by
  have h := List.all_eq_true.mp tables_consts code (List.mem_range.mpr hc)
  simp only [Bool.and_eq_true, decide_eq_true_eq] at h
  obtain ⟨hlen, htol⟩ := h
  have hr := List.all_eq_true.mp tables_round_consts code (List.mem_range.mpr hc)
  simp only [decide_eq_true_eq] at hr
  have hb := (C17_rounded_reconstruction_bound fl (1 / 9007199254740992 : ℚ) (by norm_num) hfl
    (coeffsOf code : List ℚ) (by rw [hlen]; omega) (by rw [hlen]; omega) N0 N1 h0 h1 f M hM hf).2 y x
    (by rw [hlen]; exact hy) hyN (by rw [hlen]; exact hx) hxN
  refine le_trans hb (mul_le_mul_of_nonneg_right ?_ hM)
  linarith

namespace Mahotas.C17
/-- a rounding function that is not the identity: `x ↦ x·(1 + 2⁻⁵³)` meets the model with equality -/
def exampleFl : ℚ → ℚ := fun x => x * (1 + 1 / 9007199254740992)
end Mahotas.C17

/-- non-vacuity: under `exampleFl` the rounded low-pass sample of the row `(1, 2, 3, 4)` with the exact four-tap filter
differs from the exact sample `−1/5·1 + 2/5·2 + 6/5·3 + 3/5·4 = 33/5` and stays inside the proved band -/
example :
    (∀ x : ℚ, |exampleFl x - x| ≤ (1 / 9007199254740992 : ℚ) * |x|) ∧
    waveletRow ([3 / 5, 6 / 5, 2 / 5, -1 / 5] : List ℚ) 4 (fun p => ([1, 2, 3, 4] : List ℚ).getD p 0) 0 = 33 / 5 ∧
    (waveletRow (([3 / 5, 6 / 5, 2 / 5, -1 / 5] : List ℚ).map (RT.ex (fl := exampleFl))) 4
      (fun q => RT.ex (([1, 2, 3, 4] : List ℚ).getD q 0)) 0).v ≠ 33 / 5 ∧
    |(waveletRow (([3 / 5, 6 / 5, 2 / 5, -1 / 5] : List ℚ).map (RT.ex (fl := exampleFl))) 4
      (fun q => RT.ex (([1, 2, 3, 4] : List ℚ).getD q 0)) 0).v - 33 / 5|
      ≤ RT.gam (1 / 9007199254740992 : ℚ) 4 * (RT.absSum ([3 / 5, 6 / 5, 2 / 5, -1 / 5] : List ℚ) * 4) := by
  refine ⟨?_, by decide +kernel, by decide +kernel, by decide +kernel⟩
  intro x
  have : exampleFl x - x = (1 / 9007199254740992 : ℚ) * x := by unfold exampleFl; ring
  rw [this, abs_mul]
  norm_num



/-! ## Round 4: odd sides, the strided memory the C code works on, every border -/

open Mahotas.C17.Mem in
/-- **C17 (Haar round trip, every length).** On a row of ANY length `N` (odd included) `ihaar(haar(row))` returns the
first `2⌊N/2⌋` samples unchanged and `0` in every later slot: for odd `N` the last sample is lost (the C loops run to
`N/2`, the last slot of the scratch buffer keeps `T()`). Over any field with `2 ≠ 0`. -/
theorem C17_ihaar_haar_row_any {K : Type} [Field K] (h2 : (2 : K) ≠ 0) (N : Nat) (f : Nat → K) (k : Nat) :
    ihaarRow N (haarRow N f) k = if k < 2 * (N / 2) then f k else 0 :=
  ihaarRow_haarRow_any h2 N f k

/-- **C17 (Haar round trip, every shape, core model).** For every shape, `preserve_energy` on or off, the core model of
`ihaar(haar(f))` returns `f` on `[0, 2⌊N0/2⌋) × [0, 2⌊N1/2⌋)` and `0` elsewhere — the last row and the last column of
an odd side are lost, everything else is reconstructed. The real code follows the core model exactly when the pointer
`high = data + step*N1/2` is right (`C17_high_pointer`, `C17_mem_is_core`): for a C-contiguous array that is every
`N1` and every EVEN `N0`; with an odd number of rows the column pass of `ihaar` reads other elements
(`Model/C17Mem.lean` reproduces that, the run compares it). -/
theorem C17_ihaar_haar_any {K : Type} [Field K] (h2 : (2 : K) ≠ 0) (pe : Bool) (N0 N1 : Nat) (f : Im K)
    (y x : Nat) :
    ihaar2 pe N0 N1 (haar2 pe N0 N1 f) y x = if y < 2 * (N0 / 2) ∧ x < 2 * (N1 / 2) then f y x else 0 :=
  ihaar2_haar2_any h2 pe N0 N1 f y x

/-- non-vacuity: a row of five samples: the first four come back, the fifth is lost -/
example : (List.range 5).map (ihaarRow 5 (haarRow 5 (fun i => ((i : ℚ) + 1) ^ 2))) = [1, 4, 9, 16, 0] := by
  decide +kernel

/-- **C17 (the pointer `high`, as repaired).** `ihaar` and `iwavelet` compute the address of the second half of a row as
`data + step·(N/2)`: the address of sample `N/2` for every stride and every length (after the repair
"fix: ihaar/iwavelet computed the start of the high-pass half as (step*N1)/2 instead of step*(N1/2)"). -/
theorem C17_high_pointer (step : Int) (N : Nat) : Mem.highOff step N = step * ((N / 2 : Nat) : Int) := rfl

/-- **C17 (history: the pointer of the pinned tree).** The pinned code computed `data + (step·N)/2` with C's truncating
division. That is the address of sample `N/2` whenever `N` is even or `step = ±1`; for odd `N` it is off by exactly
`step/2` (truncated) elements — zero only for `|step| ≤ 1` (the defect found by the layout sweep of C08 in round 4). -/
theorem C17_high_pointer_pinned (step : Int) (N : Nat) :
    ((N % 2 = 0 ∨ step = 1 ∨ step = -1) → Mem.highOffPinned step N = step * ((N / 2 : Nat) : Int)) ∧
    (N % 2 = 1 → Mem.highOffPinned step N = step * ((N / 2 : Nat) : Int) + step.tdiv 2) :=
  ⟨fun h => by
      rcases h with h | h
      · exact Mem.highOffPinned_even step N h
      · exact Mem.highOffPinned_unit step N h,
   fun h => Mem.highOffPinned_odd step N h⟩

/-- non-vacuity: the transposed pass over a C-contiguous `3 × 2` array (`step = 2`, `N = 3`): the pinned `high` was one
element too far; over a `3 × 3` array (`step = 3`) likewise; with `step = 1` it was right; the repaired one is right -/
example : Mem.highOffPinned 2 3 = 3 ∧ Mem.highOff 2 3 = 2 ∧ Mem.highOffPinned 3 3 = 4 ∧ Mem.highOff 3 3 = 3 ∧
    Mem.highOffPinned 1 3 = 1 := by
  decide

/-- **C17 (the C kernels on strided memory are the core model).** For each of the four wrappers (`haar`, `ihaar`,
`daubechies`, `idaubechies`), every coefficient list, `preserve_energy` on or off, every strided view `v` of a memory
`m` whose elements have distinct addresses (`View.Inj`: C, Fortran, sliced, negative strides, …) and for which both
pointers are right (each side even, or unit stride along it): the in-place passes over `f` and over the transposed
view `f.T` followed by the in-place scaling — rows processed one after the other, each through its scratch buffer
(`Mem.wrapperBody`, what the driver runs) — leave in the view exactly the core 2-D model applied to the image the
view showed, and change no address outside the view. In particular on even sides the result does not depend on the
memory layout. -/
theorem C17_mem_is_core {K : Type} [Field K] (w : Mem.Wrapper) (pe : Bool) (cs : List K) (v : Mem.View)
    (hinj : v.Inj) (h1 : v.N1 % 2 = 0 ∨ v.s1 = 1 ∨ v.s1 = -1) (h0 : v.N0 % 2 = 0 ∨ v.s0 = 1 ∨ v.s0 = -1)
    (m : Mem.Memory K) :
    (∀ y x, y < v.N0 → x < v.N1 →
      Mem.wrapperBody w pe cs v m (v.addr y x) = Mem.core2 w pe cs v.N0 v.N1 (v.read m) y x) ∧
    (∀ a, (∀ y x, y < v.N0 → x < v.N1 → a ≠ v.addr y x) → Mem.wrapperBody w pe cs v m a = m a) :=
  Mem.wrapperBody_spec w pe cs v hinj (Mem.highOK_of _ _ h1) (Mem.highOK_of _ _ h0) m

/-- **C17 (the C kernels on strided memory are the core model, every shape).** As repaired (`C17_high_pointer`) the
parity / unit-stride hypotheses of `C17_mem_is_core` are not needed: for every injective view, odd sides included, the
memory-level wrapper leaves the core 2-D model in the view and touches nothing else. -/
theorem C17_mem_is_core_every_shape {K : Type} [Field K] (w : Mem.Wrapper) (pe : Bool) (cs : List K) (v : Mem.View)
    (hinj : v.Inj) (m : Mem.Memory K) :
    (∀ y x, y < v.N0 → x < v.N1 →
      Mem.wrapperBody w pe cs v m (v.addr y x) = Mem.core2 w pe cs v.N0 v.N1 (v.read m) y x) ∧
    (∀ a, (∀ y x, y < v.N0 → x < v.N1 → a ≠ v.addr y x) → Mem.wrapperBody w pe cs v m a = m a) :=
  Mem.wrapperBody_spec w pe cs v hinj (Mem.highOK_all _ _) (Mem.highOK_all _ _) m

/-- non-vacuity of `C17_mem_is_core` (a C-contiguous `2 × 4` view is injective with both sides even) and the case the
pinned tree got wrong: on the C-contiguous `3 × 2` array with rows `(1,4), (9,16), (25,36)` the pinned code returned
`(−7, 5/4), (11/2, 5/4), (0, 0)`; the memory-level `ihaar` (as repaired, = the real code now) and the core model both give
`(1, −5), (−5/2, 15/2), (0, 0)` -/
example : (Mem.View.contig 2 4).Inj ∧
    (List.range 6).map (fun (a : Nat) => Mem.wrapperBody .ihaar false ([] : List ℚ) (Mem.View.contig 3 2)
      (fun p => ([1, 4, 9, 16, 25, 36] : List ℚ).getD p.toNat 0) (a : Int)) = [1, -5, -5 / 2, 15 / 2, 0, 0] ∧
    (List.range 6).map (fun (a : Nat) => ihaar2 false 3 2
      (fun y x => ([1, 4, 9, 16, 25, 36] : List ℚ).getD (2 * y + x) 0) (a / 2) (a % 2)) = [1, -5, -5 / 2, 15 / 2, 0, 0] := by
  refine ⟨Mem.contig_inj 2 4, ?_, ?_⟩ <;> decide +kernel

/-- **C17 (`inline`, at the level of memory).** A wrapper call on a view `v` of the caller's memory `m`
(`Mem.wrapMem`: `_wavelet_array`, then the kernels): unless `inline=True` AND the array is floating point, the caller's
memory is returned unchanged — every address, inside and outside the view — and the result is computed in a fresh
contiguous array from the image the view shows; with `inline=True` on a floating-point array the passes run on the
caller's view itself, whatever its strides, and the returned image is that view. -/
theorem C17_inline_memory {K : Type} [Field K] (w : Mem.Wrapper) (pe : Bool) (cs : List K) (isFloat inline : Bool)
    (v : Mem.View) (m : Mem.Memory K) :
    (¬ (inline = true ∧ isFloat = true) →
      (Mem.wrapMem w pe cs isFloat inline v m).1 = m ∧
      (Mem.wrapMem w pe cs isFloat inline v m).2
        = (Mem.freshView isFloat inline v).read (Mem.wrapperBody w pe cs (Mem.freshView isFloat inline v)
            (Mem.freshMem (Mem.freshView isFloat inline v) (v.read m)))) ∧
    (inline = true ∧ isFloat = true →
      (Mem.wrapMem w pe cs isFloat inline v m).1 = Mem.wrapperBody w pe cs v m ∧
      (Mem.wrapMem w pe cs isFloat inline v m).2 = v.read (Mem.wrapperBody w pe cs v m)) := by
  cases isFloat <;> cases inline <;> simp [Mem.wrapMem, Mem.wrapMemG, wrapTarget, Mem.wrapperBody]

/-- non-vacuity: `haar(f, inline=True)` on the float view `A[:, ::2]` of a `2 × 4` buffer writes the transform into
the even columns and leaves the odd columns alone; with `inline=False` the buffer is unchanged -/
example :
    (List.range 8).map (fun (a : Nat) => (Mem.wrapMem .haar false ([] : List ℚ) true true ⟨0, 2, 2, 4, 2⟩
      (fun p => ([1, 7, 2, 7, 3, 7, 5, 7] : List ℚ).getD p.toNat 0)).1 (a : Int)) = [11, 7, 3, 7, 5, 7, 1, 7] ∧
    (List.range 8).map (fun (a : Nat) => (Mem.wrapMem .haar false ([] : List ℚ) true false ⟨0, 2, 2, 4, 2⟩
      (fun p => ([1, 7, 2, 7, 3, 7, 5, 7] : List ℚ).getD p.toNat 0)).1 (a : Int)) = [1, 7, 2, 7, 3, 7, 5, 7] := by
  constructor <;> decide +kernel

/-- **C17 (`wavelet_center` for every border).** Whatever `_wavelet_center_compute(oshape, border)` returns for an
INTEGER border (negative, zero, huge): the border is below `2^40`, the shape non-empty with positive sides, and there is
one step `1 ≤ c ≤ 63` such that every new side is the power of two `2^(⌊log₂ o⌋ + c)`, every offset is `(new − old)/2` and
exceeds the border, and `c` is the FIRST such step (for every smaller `c' ≥ 1` some offset is `≤ border`): the sides
are the minimal admissible powers of two. A negative border gives `c = 1` (the result of `border = −1`… is that of no
border requirement at all). -/
theorem C17_center_every_border (oshape : List Int) (border : Int) (ns d : List Nat)
    (h : Mem.centerComputeI oshape border = some (ns, d)) :
    border < 2 ^ 40 ∧ oshape ≠ [] ∧ (∀ o ∈ oshape, 0 < o) ∧
    ∃ c, 1 ≤ c ∧ c ≤ 63 ∧
      ns = (oshape.map Int.toNat).map (fun t => 2 ^ (Nat.log2 t + c)) ∧
      d = (oshape.map Int.toNat).map (fun t => (2 ^ (Nat.log2 t + c) - t) / 2) ∧
      (∀ x ∈ d, border < (x : Int)) ∧
      (∀ c', 1 ≤ c' → c' < c →
        ∃ t ∈ oshape.map Int.toNat, (((2 ^ (Nat.log2 t + c') - t) / 2 : Nat) : Int) ≤ border) ∧
      (border < 0 → c = 1) :=
  Mem.centerComputeI_spec oshape border ns d h

/-- **C17 (`wavelet_center` never fails on an admissible input).** For every non-empty shape with positive sides and
every integer border below `2^40` the loop `for c in range(1, 64)` of `_wavelet_center_compute` finds a step (`c = 42`
always qualifies): a result exists. -/
theorem C17_center_total (oshape : List Int) (border : Int) (hb : border < 2 ^ 40) (hne : oshape ≠ [])
    (hpos : ∀ o ∈ oshape, 0 < o) : (Mem.centerComputeI oshape border).isSome = true :=
  Mem.centerComputeI_total oshape border hb hne hpos

/-- **C17 (`wavelet_decenter ∘ wavelet_center = id` for every border).** For every 2-D shape and every integer border
for which `_wavelet_center_compute` returns new sides `(M0, M1)` and offsets `(d0, d1)`: the image fits behind its
offsets (`d0 + N0 ≤ M0`, `d1 + N1 ≤ M1`), and slicing the embedded image at the same offsets gives `f` back at every
pixel, for any fill value and any scalar type. -/
theorem C17_decenter_center_every_border {α : Type} (N0 N1 : Nat) (border : Int) (M0 M1 d0 d1 : Nat)
    (h : Mem.centerComputeI [(N0 : Int), (N1 : Int)] border = some ([M0, M1], [d0, d1]))
    (cval : α) (f : Im α) :
    d0 + N0 ≤ M0 ∧ d1 + N1 ≤ M1 ∧
    ∀ y x, y < N0 → x < N1 → decenter d0 d1 (center N0 N1 d0 d1 cval f) y x = f y x := by
  obtain ⟨_, _, _, c, hc, _, hns, hd, _, _, _⟩ := Mem.centerComputeI_spec _ _ _ _ h
  simp only [List.map_cons, List.map_nil, Int.toNat_natCast, List.cons.injEq, and_true] at hns hd
  obtain ⟨rfl, rfl⟩ := hns
  obtain ⟨rfl, rfl⟩ := hd
  exact ⟨Mem.cand_fits N0 c hc, Mem.cand_fits N1 c hc, fun y x hy hx => C17_decenter_center N0 N1 _ _ cval f y x hy hx⟩

/-- non-vacuity: a negative border, the default, a large one, the largest admissible one, one beyond it, a zero side -/
example : Mem.centerComputeI [5, 12] (-3) = some ([8, 16], [1, 2]) ∧
    Mem.centerComputeI [5, 12] 0 = some ([8, 16], [1, 2]) ∧
    Mem.centerComputeI [5, 12] 1 = some ([16, 32], [5, 10]) ∧
    Mem.centerComputeI [4] (2 ^ 40 - 1) = some ([2 ^ 42], [2 ^ 41 - 2]) ∧
    Mem.centerComputeI [4] (2 ^ 40) = none ∧ Mem.centerComputeI [4, 0] 0 = none := by
  decide +kernel

/-- **C17 (the `f.T` call).** (1) In the core model the column pass is the row pass between two transpositions:
`colsPass T N0 f = (rowsPass T N0 fᵀ)ᵀ`. (2) At the level of memory: one call of a C kernel on the TRANSPOSED view
`v.T` (strides swapped, same memory) of an injective view, with the pointer right along axis 0 (`N0` even or
`|s0| = 1`), stores into the view the core row kernel applied to every COLUMN of the image the view showed, and changes
nothing outside the view — `_convolve.daubechies(f.T, code)` is the column pass whatever the layout of `f`. -/
theorem C17_transposed_pass {K : Type} [Field K] (k : Mem.Kern) (cs : List K) (v : Mem.View) (hinj : v.Inj)
    (h0 : v.N0 % 2 = 0 ∨ v.s0 = 1 ∨ v.s0 = -1) (m : Mem.Memory K) :
    (∀ (T : Nat → (Nat → K) → Nat → K) (N0 : Nat) (f : Im K),
      colsPass T N0 f = fun y x => rowsPass T N0 (fun a b => f b a) x y) ∧
    (∀ y x, y < v.N0 → x < v.N1 →
      Mem.pass k cs v.T m (v.addr y x) = colsPass (Mem.coreKernel k cs) v.N0 (v.read m) y x) ∧
    (∀ a, (∀ y x, y < v.N0 → x < v.N1 → a ≠ v.addr y x) → Mem.pass k cs v.T m a = m a) :=
  ⟨fun _ _ _ => rfl, (Mem.pass_T_spec k cs v hinj (Mem.highOK_of _ _ h0) m).1,
    (Mem.pass_T_spec k cs v hinj (Mem.highOK_of _ _ h0) m).2⟩

/-- **C17 (`ihaar(haar(f))` in memory, odd sides included).** `haar` and then `ihaar`, both in place on the same
injective view with both pointers right (each side even or of unit stride — e.g. a C-contiguous array with an EVEN
number of rows and ANY number of columns, or a Fortran-contiguous one with an even number of columns), `preserve_energy`
the same in both calls: afterwards the view holds the original value at every `(y, x)` with `y < 2⌊N0/2⌋`, `x < 2⌊N1/2⌋`
and `0` in the last row / column of an odd side. Over any field with `2 ≠ 0`. (Where a pointer is wrong — an odd side
reached with a non-unit stride — the memory model `Mem.wrapperBody` still says what the code returns, see the example
after `C17_mem_is_core`; no closed form is claimed there.) -/
theorem C17_ihaar_haar_memory {K : Type} [Field K] (h2 : (2 : K) ≠ 0) (pe : Bool) (cs cs' : List K) (v : Mem.View)
    (hinj : v.Inj) (h1 : v.N1 % 2 = 0 ∨ v.s1 = 1 ∨ v.s1 = -1) (h0 : v.N0 % 2 = 0 ∨ v.s0 = 1 ∨ v.s0 = -1)
    (m : Mem.Memory K) (y x : Nat) (hy : y < v.N0) (hx : x < v.N1) :
    Mem.wrapperBody .ihaar pe cs' v (Mem.wrapperBody .haar pe cs v m) (v.addr y x)
      = if y < 2 * (v.N0 / 2) ∧ x < 2 * (v.N1 / 2) then m (v.addr y x) else 0 :=
  Mem.haar_ihaar_mem h2 pe cs cs' v hinj (Mem.highOK_of _ _ h1) (Mem.highOK_of _ _ h0) m y x hy hx

/-- non-vacuity: the C-contiguous `2 × 3` array `(1,4,9), (16,25,36)` (even number of rows, odd number of columns):
`ihaar(haar(f))` in place gives `(1,4,0), (16,25,0)` — what the real code returns -/
example : (List.range 6).map (fun (a : Nat) => Mem.wrapperBody .ihaar true ([] : List ℚ) (Mem.View.contig 2 3)
      (Mem.wrapperBody .haar true [] (Mem.View.contig 2 3)
        (fun p => ([1, 4, 9, 16, 25, 36] : List ℚ).getD p.toNat 0)) (a : Int)) = [1, 4, 0, 16, 25, 0] := by
  decide +kernel

/-- **C17 (rounding of the analysis kernel, standard model of floating-point arithmetic).** Let `fl` be ANY rounding
function on an ordered field with `|fl t − t| ≤ u·|t|` for every `t` (IEEE double: `u = 2⁻⁵³`, barring overflow and
underflow — that is the hypothesis, Lean's `Float` itself is opaque). Run the model's own loop `waveletRow` — same
taps, same order of accumulation, starting from `T()` — in the arithmetic `Rnd K fl` in which every `+` and `×` is
followed by `fl` (coefficients and samples enter exactly: float32 coefficients and double samples are doubles). Then
every sample of one row of `daubechies`, low-pass and high-pass alike, every coefficient list, every length:
`|rounded − exact| ≤ ((1+u)^(n+1) − 1) · Σ_ci |c_ci · f(2x+ci)|`, `n = ncoeffs` — about `(n+1)·u` times the sum of
the absolute products, the classical dot-product bound, for THIS order of operations. (The synthesis kernel and the
2-D composition are not covered; see the report.) -/
theorem C17_wavelet_row_rounding {K : Type} [Field K] [LinearOrder K] [IsStrictOrderedRing K] (fl : K → K) (u : K)
    (hu : 0 ≤ u) (hfl : ∀ t, |fl t - t| ≤ u * |t|) (cs : List K) (N : Nat) (f : Nat → K) (x : Nat) :
    |(waveletRow (cs.map (fun c => (⟨c⟩ : Rnd K fl))) N (fun i => (⟨f i⟩ : Rnd K fl)) x).val - waveletRow cs N f x|
      ≤ ((1 + u) ^ (cs.length + 1) - 1) * rowAbs cs N f x :=
  waveletRow_round fl u hu hfl cs N f x

/-- non-vacuity: a rounding function that is not the identity (`fl t = 9t/8`, `u = 1/8`) satisfies the hypothesis; the
exact four-tap filter on a row of four samples -/
example : |(waveletRow (([3 / 5, 6 / 5, 2 / 5, -1 / 5] : List ℚ).map (fun c => (⟨c⟩ : Rnd ℚ (fun t => t * (9 / 8)))))
      4 (fun i => (⟨(i : ℚ) + 1⟩ : Rnd ℚ (fun t => t * (9 / 8)))) 0).val
      - waveletRow ([3 / 5, 6 / 5, 2 / 5, -1 / 5] : List ℚ) 4 (fun i => (i : ℚ) + 1) 0|
    ≤ ((1 + 1 / 8) ^ (4 + 1) - 1) * rowAbs ([3 / 5, 6 / 5, 2 / 5, -1 / 5] : List ℚ) 4 (fun i => (i : ℚ) + 1) 0 :=
  C17_wavelet_row_rounding (fun t => t * (9 / 8)) (1 / 8) (by norm_num) (by
    intro t
    rw [show t * (9 / 8) - t = 1 / 8 * t by ring, abs_mul]
    norm_num) _ 4 _ 0

/-- **C17 (what a call that does not work in place returns).** `w(f, inline=False)` for any layout of `f`, and
`w(f, inline=True)` on an integer array whose axes are in C order (`|s1| ≤ |s0|`): the caller's memory is untouched
(`C17_inline_memory`) and, when the number of rows is even (ANY number of columns — the fresh copy is C-contiguous, so
its rows have unit stride), the returned image is the core 2-D model of the image the view shows, at every pixel —
whatever the strides, offset or sign of the caller's view. -/
theorem C17_not_inline_result {K : Type} [Field K] (w : Mem.Wrapper) (pe : Bool) (cs : List K) (isFloat inline : Bool)
    (v : Mem.View) (hfresh : ¬ (inline = true ∧ isFloat = true))
    (hC : isFloat = true ∨ inline = false ∨ v.s1.natAbs ≤ v.s0.natAbs)
    (h0 : v.N0 % 2 = 0) (m : Mem.Memory K) (y x : Nat) (hy : y < v.N0) (hx : x < v.N1) :
    (Mem.wrapMem w pe cs isFloat inline v m).2 y x = Mem.core2 w pe cs v.N0 v.N1 (v.read m) y x := by
  refine Mem.wrapMem_fresh_core w pe cs isFloat inline v hfresh ?_ h0 m y x hy hx
  unfold Mem.freshView
  rw [if_neg]
  rintro ⟨a, b, c⟩
  rcases hC with h | h | h
  · simp [h] at a
  · simp [h] at b
  · omega

/-- non-vacuity: `haar(f, inline=False)` on the reversed-rows view of a `2 × 3` buffer (negative row stride, odd number
of columns): the result is the core model of the viewed image `(10,20,30), (1,2,3)` -/
example : (List.range 6).map (fun (a : Nat) => (Mem.wrapMem .haar false ([] : List ℚ) true false ⟨3, 2, 3, -3, 1⟩
      (fun p => ([1, 2, 3, 10, 20, 30] : List ℚ).getD p.toNat 0)).2 (a / 3) (a % 3))
    = (List.range 6).map (fun (a : Nat) => haar2 false 2 3
      (fun y x => ([10, 20, 30, 1, 2, 3] : List ℚ).getD (3 * y + x) 0) (a / 3) (a % 3)) := by
  decide +kernel

/-- **C17-T6 (proved tolerance of the ten generated tables, any ordered field).** `C17_tables_error_bound` for images
over EVERY linearly ordered field `K` (ℝ included), not only ℚ: the table `coeffsOf code : List K` is the cast of the
rational table, its residuals and error constant are the casts of the rational ones (`Proofs/C17Cast.lean`), so the
constants decided over ℚ carry over: `|idaubechies(daubechies f) y x − f y x| ≤ tableTol[code]·M` at every pixel with
`y, x ≥ ncoeffs − 2` of every even-sided image with `|f| ≤ M`. -/
theorem C17_tables_error_bound_field {K : Type} [Field K] [LinearOrder K] [IsStrictOrderedRing K]
    (code : Nat) (hc : code < 10) (N0 N1 : Nat) (h0 : N0 % 2 = 0) (h1 : N1 % 2 = 0)
    (f : Im K) (M : K) (hM : 0 ≤ M) (hf : ∀ y x, y < N0 → x < N1 → |f y x| ≤ M)
    (y x : Nat) (hy : 2 * (code + 1) ≤ y + 2) (hyN : y < N0) (hx : 2 * (code + 1) ≤ x + 2) (hxN : x < N1) :
    |idaubechies2 (coeffsOf code) N0 N1 (daubechies2 (coeffsOf code) N0 N1 f) y x - f y x|
      ≤ ((tableTol.getD code 0 : ℚ) : K) * M := by
  have h := List.all_eq_true.mp tables_consts code (List.mem_range.mpr hc)
  simp only [Bool.and_eq_true, decide_eq_true_eq] at h
  obtain ⟨hlen, htol⟩ := h
  have hlenK : (coeffsOf code : List K).length = 2 * (code + 1) := by
    rw [coeffsOf_cast, List.length_map, hlen]
  have hb := (C17_reconstruction_error_bound_general (coeffsOf code : List K) (by rw [hlenK]; omega)
    (by rw [hlenK]; omega) N0 N1 h0 h1 f M hM hf y x (by rw [hlenK]; exact hy) hyN (by rw [hlenK]; exact hx) hxN).1
  refine le_trans hb (mul_le_mul_of_nonneg_right ?_ hM)
  rw [coeffsOf_cast, errConst_cast]
  have : ((2 * errConst (coeffsOf code : List ℚ) + errConst (coeffsOf code : List ℚ) ^ 2 : ℚ) : K)
      ≤ ((tableTol.getD code 0 : ℚ) : K) := Rat.cast_le.mpr htol
  simpa using this

/-- **C17 (energy of the ten generated tables, any ordered field).** `C17_tables_energy_bound` over every linearly
ordered field: relative energy defect of `daubechies` at most `4·tableTol[code]` on even-sided images vanishing in their
first `ncoeffs − 2` rows and columns. -/
theorem C17_tables_energy_bound_field {K : Type} [Field K] [LinearOrder K] [IsStrictOrderedRing K]
    (code : Nat) (hc : code < 10) (N0 N1 : Nat) (h0 : N0 % 2 = 0) (h1 : N1 % 2 = 0) (f : Im K)
    (hy0 : ∀ y x, y < N0 → x < N1 → y + 2 < 2 * (code + 1) → f y x = 0)
    (hx0 : ∀ y x, y < N0 → x < N1 → x + 2 < 2 * (code + 1) → f y x = 0) :
    |energy N0 N1 (daubechies2 (coeffsOf code) N0 N1 f) - 4 * energy N0 N1 f|
      ≤ 4 * ((tableTol.getD code 0 : ℚ) : K) * energy N0 N1 f := by
  have h := List.all_eq_true.mp tables_energy_consts code (List.mem_range.mpr hc)
  simp only [Bool.and_eq_true, decide_eq_true_eq] at h
  obtain ⟨hlen, htol⟩ := h
  have hlenK : (coeffsOf code : List K).length = 2 * (code + 1) := by
    rw [coeffsOf_cast, List.length_map, hlen]
  have hb := (C17_daubechies_energy_bound (coeffsOf code : List K) (by rw [hlenK]; omega) (by rw [hlenK]; omega)
    N0 N1 h0 h1 f (by rw [hlenK]; exact hy0) (by rw [hlenK]; exact hx0)).1
  have hE : 0 ≤ energy N0 N1 f := by
    rw [energy_eq_energy2]
    unfold energy2
    exact Finset.sum_nonneg fun y _ => Finset.sum_nonneg fun x _ => sq_nonneg _
  refine le_trans hb (mul_le_mul_of_nonneg_right ?_ hE)
  rw [coeffsOf_cast, errConst_cast]
  have : ((8 * errConst (coeffsOf code : List ℚ) + 4 * errConst (coeffsOf code : List ℚ) ^ 2 : ℚ) : K)
      ≤ ((4 * tableTol.getD code 0 : ℚ) : K) := Rat.cast_le.mpr htol
  simpa using this

/-- non-vacuity: the field of the theorem can be ℚ itself (the cast is then the identity), where the hypotheses are
met by the `4 × 4` delta image of the energy example; and the table of `D4` over any field is the cast of the rational
one -/
example : |idaubechies2 (coeffsOf 1) 4 4 (daubechies2 (coeffsOf 1) 4 4 (fun y x => if y = 2 ∧ x = 2 then (1 : ℚ) else 0)) 2 2
      - 1| ≤ ((tableTol.getD 1 0 : ℚ) : ℚ) * 1 := by
  have := C17_tables_error_bound_field (K := ℚ) 1 (by omega) 4 4 rfl rfl
    (fun y x => if y = 2 ∧ x = 2 then (1 : ℚ) else 0) 1 (by norm_num)
    (by intro y x _ _; by_cases h : y = 2 ∧ x = 2 <;> simp [h]) 2 2 (by omega) (by omega) (by omega) (by omega)
  simpa using this

/-- **C17 (the `high` reads stay in the row).** For every stride (positive, negative, zero), every length `N` (odd
included) and every sample index `i < N/2` that `ihaar` (`high[i·step]`) and `iwavelet`
(`_access(high, N1/2, i, step)`) use: the address offset `highOff step N + step·i` relative to `data` lies in
`[0, step·(N−1)]` (in `[step·(N−1), 0]` for a negative stride) — between the first and the last element of the row the
kernel was given. -/
theorem C17_high_reads_in_row (step : Int) (N i : Nat) (hi : i < N / 2) :
    (0 ≤ step → 0 ≤ Mem.highOff step N + step * (i : Int) ∧
      Mem.highOff step N + step * (i : Int) ≤ step * ((N - 1 : Nat) : Int)) ∧
    (step ≤ 0 → step * ((N - 1 : Nat) : Int) ≤ Mem.highOff step N + step * (i : Int) ∧
      Mem.highOff step N + step * (i : Int) ≤ 0) :=
  Mem.high_read_in_row step N i hi

/-- **C17 (history: the truncated pointer of the pinned tree never left the row).** The misplaced reads of the pinned
code on odd sides were reads of other elements of the same array, never out-of-bounds accesses. -/
theorem C17_high_reads_in_row_pinned (step : Int) (N i : Nat) (hi : i < N / 2) :
    (0 ≤ step → 0 ≤ Mem.highOffPinned step N + step * (i : Int) ∧
      Mem.highOffPinned step N + step * (i : Int) ≤ step * ((N - 1 : Nat) : Int)) ∧
    (step ≤ 0 → step * ((N - 1 : Nat) : Int) ≤ Mem.highOffPinned step N + step * (i : Int) ∧
      Mem.highOffPinned step N + step * (i : Int) ≤ 0) :=
  Mem.highPinned_read_in_row step N i hi

/-- non-vacuity: the transposed pass over a C-contiguous `5 × 5` array (`step = 5`, `N = 5`): the two high samples are
read at offsets 12 and 17, inside `[0, 20]`, where samples 2 and 3 of the column are at 10 and 15 -/
example : Mem.highOffPinned 5 5 + 5 * 0 = 12 ∧ Mem.highOffPinned 5 5 + 5 * 1 = 17 ∧ Mem.highOff 5 5 + 5 * 0 = 10 ∧
    Mem.highOff 5 5 + 5 * 1 = 15 ∧ (5 : Int) * ((5 - 1 : Nat) : Int) = 20 := by
  decide
