/-
C18 — property theorems (statements only; helper lemmas live in `Proofs/C18.lean`).
They are about the polymorphic definitions of `Model/C18.lean` that the native driver runs at `Float`,
instantiated at an arbitrary ordered field `K` with an arbitrary floor function `fl`
(`IsFloor fl : ∀ z, fl z ≤ z < fl z + 1`).
-/
import Mahotas.Proofs.C18
import Mathlib.Data.Rat.Floor
namespace Mahotas.C18
open Mahotas

/-- where an integer shift reads along one axis: inside the array the sample itself, outside the sample
    the border rule of the mode assigns (the mathematical `borderSpec`), or nothing (`constant`/`ignore`) -/
def shiftIndex (m : Mode) (len : Nat) (n : Int) : Option Int :=
  if 0 ≤ n ∧ n ≤ (len : Int) - 1 then some n else borderSpec m n len

/-- the source position of output position `p` under the integer shift `d`, axis by axis -/
def shiftPos (m : Mode) : List Nat → List Int → List Int → Option (List Int)
  | len :: ls, kk :: ks, d :: ds =>
    match shiftIndex m len (kk - d), shiftPos m ls ks ds with
    | some j, some js => some (j :: js)
    | _, _ => none
  | _, _, _ => some []

section
variable {K : Type} [Field K] [LinearOrder K] [IsStrictOrderedRing K]

/-- the knot entries `zoom_shift` precomputes for an integer shift, order 1 -/
theorem go_int {fl : K → Int} (h : IsFloor fl) (m : Mode) :
    ∀ (shape : List Nat) (p ds : List Int), (∀ len ∈ shape, 0 < len) → (∀ kk ∈ p, 0 ≤ kk) →
      pixel.go fl 1 m shape p (ds.map fun (d : Int) => some (-(d : K))) (ds.map fun _ => none)
        = (shiftPos m shape p ds).map
            (fun pos => (pos.zip shape).map fun jl => ([jl.1, edgeFold jl.2 (jl.1 + 1)], [(1 : K), 0])) := by
  intro shape
  induction shape with
  | nil => intro p ds _ _; cases p <;> cases ds <;> simp [pixel.go, shiftPos]
  | cons len ls ih =>
    intro p ds hs hp
    cases p with
    | nil => cases ds <;> simp [pixel.go, shiftPos]
    | cons kk ks =>
      cases ds with
      | nil => simp [pixel.go, shiftPos]
      | cons d ds =>
        have hlen : 0 < len := hs len (by simp)
        have hkk : 0 ≤ kk := hp kk (by simp)
        have ih' := ih ks ds (fun l hl => hs l (by simp [hl])) (fun k hk => hp k (by simp [hk]))
        have hc : coord kk.toNat (some (-(d : K))) none = ((kk - d : Int) : K) := by
          have : ((kk.toNat : Nat) : K) = (kk : K) := by
            have e : ((kk.toNat : Nat) : Int) = kk := Int.toNat_of_nonneg hkk
            rw [← Int.cast_natCast, e]
          simp only [coord, this]; push_cast; ring
        have hax : axisEntry fl 1 m len ((kk - d : Int) : K)
            = (shiftIndex m len (kk - d)).map fun j => ([j, edgeFold len (j + 1)], [(1 : K), 0]) := by
          unfold axisEntry
          rw [mapCoord_int h]
          unfold shiftIndex
          rw [← fixOffset_eq_spec m (kk - d) len (by exact_mod_cast hlen)]
          by_cases c : 0 ≤ kk - d ∧ kk - d ≤ (len : Int) - 1
          · have r : List.range (1 + 1) = [0, 1] := rfl
            obtain ⟨s1, s2⟩ := axisEntry_int1 h len (kk - d)
            simp only [c, and_self, if_true, Option.map_some, s1, s2, r, List.map_cons, List.map_nil]
            rw [edgeFold_inside len (kk - d + ((0 : Nat) : Int)) (by simp; omega) (by simp; omega)]
            simp
          · simp only [c, if_false]
            cases hf : fixOffset m (kk - d) len with
            | none => simp
            | some j =>
              have rg := fixOffset_range m (kk - d) len (by exact_mod_cast hlen) j hf
              have r : List.range (1 + 1) = [0, 1] := rfl
              obtain ⟨s1, s2⟩ := axisEntry_int1 h len j
              simp only [Option.map_some, s1, s2, r, List.map_cons, List.map_nil]
              rw [edgeFold_inside len (j + ((0 : Nat) : Int)) (by simp; omega) (by simp; omega)]
              simp
        simp only [List.map_cons, pixel.go, hc, hax, ih', shiftPos]
        cases shiftIndex m len (kk - d) <;> cases shiftPos m ls ks ds <;> simp

end
end Mahotas.C18

open Mahotas Mahotas.C18

/-- **C18-T1 (partition of unity).** For every spline order 1–5 and every coordinate `x` the `order+1`
weights computed by `spline_coefficients` — start knot `order odd ? ⌊x⌋ : ⌊x+½⌋` minus `order/2`, distance
`|start − x + h|`, the piecewise polynomial of the order — sum to one, over every ordered field and for
every floor function. (Constants are therefore reproduced exactly by `shift` and `zoom` wherever no
`cval` pixel is produced.) -/
theorem C18_weights_partition {K : Type} [Field K] [LinearOrder K] [IsStrictOrderedRing K]
    {fl : K → Int} (h : IsFloor fl) (order : Nat) (h1 : 1 ≤ order) (h5 : order ≤ 5) (x : K) :
    (weights fl order x).sum = 1 := by
  have : order = 1 ∨ order = 2 ∨ order = 3 ∨ order = 4 ∨ order = 5 := by omega
  rcases this with rfl | rfl | rfl | rfl | rfl
  · rw [partition1 h]; simp
  · exact partition2 h x
  · exact partition3 h x
  · exact partition4 h x
  · exact partition5 h x

/-- **C18-T1 (order 1 is linear interpolation).** With `t = x − ⌊x⌋` the two weights of order 1 are
`(1 − t, t)` on the knots `⌊x⌋, ⌊x⌋+1`, and the accumulation of `zoom_shift` along an axis with these
weights is `(1−t)·f[i] + t·f[j]`: at fractional offsets order 1 is the linear interpolation of the two
neighbours. -/
theorem C18_order1_linear {K : Type} [Field K] [LinearOrder K] [IsStrictOrderedRing K]
    {fl : K → Int} (h : IsFloor fl) (x : K) (sample : List Int → K) (i j : Int) :
    startIdx fl 1 x = fl x ∧
    weights fl 1 x = [1 - (x - (fl x : K)), x - (fl x : K)] ∧
    tensorSum ((0 : Nat) : K) sample [([i, j], weights fl 1 x)]
      = (1 - (x - (fl x : K))) * sample [i] + (x - (fl x : K)) * sample [j] := by
  refine ⟨by simp [startIdx], partition1 h x, ?_⟩
  rw [partition1 h x]
  exact tensorSum_linear1 sample i j _

/-- **C18-T2 (integer shifts are exact translations, order 1, any dimension).** For an image of any rank
with positive axis lengths, an integer shift vector `d` and every output position `p`, the model of
`interpolate.shift(order=1)` (`shift *= -1`, then `zoom_shift`: coordinate `p − d`, border handling,
start knot, weights, tensor-product accumulation) returns exactly the input sample at `p − d` where that
lies inside the array, the sample the border rule of the mode assigns to `p − d` (mathematical
definition `borderSpec`: clamp / modulo / reflection / mirror) where it lies outside, and `cval` for
`constant`/`ignore`. A zero shift returns the input. -/
theorem C18_integer_shift_exact {K : Type} [Field K] [LinearOrder K] [IsStrictOrderedRing K]
    {fl : K → Int} (h : IsFloor fl) (m : Mode) (cval : K) (im : Img K) (p ds : List Int)
    (hs : ∀ len ∈ im.shape, 0 < len) (hp : ∀ kk ∈ p, 0 ≤ kk) :
    pixel fl 1 m cval im (ds.map fun (d : Int) => some (-(d : K))) (ds.map fun _ => none) p =
      match shiftPos m im.shape p ds with
      | some pos => im.getD pos 0
      | none => cval := by
  unfold pixel
  rw [go_int h m im.shape p ds hs hp]
  cases hsp : shiftPos m im.shape p ds with
  | none => simp
  | some pos =>
    simp only [Option.map_some]
    have e : (pos.zip im.shape).map (fun jl => ([jl.1, edgeFold jl.2 (jl.1 + 1)], [(1 : K), 0]))
        = ((pos.zip im.shape).map fun jl => (jl.1, edgeFold jl.2 (jl.1 + 1))).map
            fun ij => ([ij.1, ij.2], [(1 : K), 0]) := by
      simp [List.map_map]
    rw [e, tensorSum_delta]
    have e2 : ((pos.zip im.shape).map fun jl => (jl.1, edgeFold jl.2 (jl.1 + 1))).map (fun ij => ij.1) = pos := by
      have hl : ∀ (shape : List Nat) (p ds pos : List Int), shiftPos m shape p ds = some pos →
          ((pos.zip shape).map fun jl => jl.1) = pos := by
        intro shape
        induction shape with
        | nil => intro p ds pos hh; cases p <;> cases ds <;> simp_all [shiftPos]
        | cons len ls ih =>
          intro p ds pos hh
          cases p with
          | nil => cases ds <;> simp_all [shiftPos]
          | cons kk ks =>
            cases ds with
            | nil => simp_all [shiftPos]
            | cons d ds =>
              simp only [shiftPos] at hh
              cases h1 : shiftIndex m len (kk - d) with
              | none => simp [h1] at hh
              | some j =>
                cases h2 : shiftPos m ls ks ds with
                | none => simp [h1, h2] at hh
                | some js =>
                  simp only [h1, h2, Option.some.injEq] at hh
                  subst hh
                  simp [ih ks ds js h2]
      simp only [List.map_map]
      exact hl im.shape p ds pos hsp
    rw [e2]
    simp

/-- **C18-T3 (shape and corners).** `zoom` onto a requested shape returns an image of exactly that shape
(also through `resize_to`, `resize_rgb_to`, `imresize` with an integer size, which pass the requested
shape as `out`), output index 0 maps to input coordinate 0, and on every axis with at least two output
samples the last output index maps to the last input sample `n_in − 1`: corners go to corners. With
equal input and output lengths every index maps to itself (unit zoom). -/
theorem C18_shape_exact {K : Type} [Field K] [LinearOrder K] [IsStrictOrderedRing K]
    (fl : K → Int) (order : Nat) (m : Mode) (cval : K) (im : Img K) (oshape : List Nat)
    (nin nout kk : Nat) (h2 : 2 ≤ nout) :
    (zoomGlue fl order m cval im oshape).shape = oshape ∧
    coord 0 none (some (zoomFactor nin nout : K)) = 0 ∧
    coord (nout - 1) none (some (zoomFactor nin nout : K)) = (((nin : Int) - 1 : Int) : K) ∧
    coord kk none (some (zoomFactor nin nin : K)) = (kk : K) :=
  ⟨rfl, zoomFactor_origin _, zoomFactor_corner nin nout h2, zoomFactor_unit nin kk⟩

/-- non-vacuity: over ℚ with the true floor, the cubic weights at `x = 5/2` are the B-spline samples
`1/48, 23/48, 23/48, 1/48`, and a shift by 2 of a length-3 signal in `nearest` mode reads sample 0 at
output index 1 -/
example : weights (fun z : ℚ => ⌊z⌋) 3 (5 / 2) = [1 / 48, 23 / 48, 23 / 48, 1 / 48] ∧
    shiftPos .nearest [3] [1] [2] = some [0] := by
  constructor
  · have f1 : ⌊(5 / 2 : ℚ)⌋ = 2 := by
      rw [Int.floor_eq_iff]; norm_num
    simp only [weights, startIdx, f1]
    norm_num [List.range_succ, splineCoeff, absV, q]
  · decide
