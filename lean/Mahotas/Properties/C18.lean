/-
C18 — property theorems (statements only; helper lemmas live in `Proofs/C18.lean`, `Proofs/C18Shift.lean`).
They are about the polymorphic definitions of `Model/C18.lean` that the native driver runs at `Float`,
instantiated at an arbitrary ordered field `K` with an arbitrary floor function `fl`
(`IsFloor fl : ∀ z, fl z ≤ z < fl z + 1`).
-/
import Mahotas.Proofs.C18Shift
import Mahotas.Proofs.C18Filter
import Mahotas.Proofs.C18Order3
import Mahotas.Proofs.C18Tensor
import Mahotas.Proofs.C18Init
import Mahotas.Proofs.C18Order3b
import Mahotas.Proofs.C18BSplineW
import Mahotas.Proofs.C18Interp
import Mahotas.Proofs.C18Resize
import Mahotas.Proofs.C18Interp45
import Mahotas.Proofs.C18Border
import Mahotas.Proofs.C18Shape
import Mahotas.Proofs.C18Array
import Mathlib.Analysis.SpecialFunctions.Pow.Real
import Mathlib.Data.Rat.Floor
import Mahotas.Proofs.Modes

open Mahotas Mahotas.C18

/-- **C18-T1 (partition of unity).** For every spline order 1–5 and every coordinate `x` the `order+1`
weights computed by `spline_coefficients` — start knot `order odd ? ⌊x⌋ : ⌊x+½⌋` minus `order/2`, distance
`|start − x + h|`, the piecewise polynomial of the order — sum to one, over every ordered field and for
every floor function. (Constants are therefore reproduced exactly by `shift` and `zoom` wherever no
`cval` pixel is produced.) -/
theorem C18_weights_partition {K : Type} [Field K] [LinearOrder K] [IsStrictOrderedRing K]
    {fl : K → Int} (h : IsFloor fl) (order : Nat) (h1 : 1 ≤ order) (h5 : order ≤ 5) (x : K) :
    (weights fl order x).sum = 1 := by
  have : order = 1 ∨ order = 2 ∨ order = 3 ∨ order = 4 ∨ order = 5 := by omega
  rcases this with rfl | rfl | rfl | rfl | rfl
  · rw [partition1 h]; simp
  · exact partition2 h x
  · exact partition3 h x
  · exact partition4 h x
  · exact partition5 h x

/-- **C18-T1 (order 1 is linear interpolation).** With `t = x − ⌊x⌋` the two weights of order 1 are
`(1 − t, t)` on the knots `⌊x⌋, ⌊x⌋+1`, and the accumulation of `zoom_shift` along an axis with these
weights is `(1−t)·f[i] + t·f[j]`: at fractional offsets order 1 is the linear interpolation of the two
neighbours. -/
theorem C18_order1_linear {K : Type} [Field K] [LinearOrder K] [IsStrictOrderedRing K]
    {fl : K → Int} (h : IsFloor fl) (x : K) (sample : List Int → K) (i j : Int) :
    startIdx fl 1 x = fl x ∧
    weights fl 1 x = [1 - (x - (fl x : K)), x - (fl x : K)] ∧
    tensorSum ((0 : Nat) : K) sample [([i, j], weights fl 1 x)]
      = (1 - (x - (fl x : K))) * sample [i] + (x - (fl x : K)) * sample [j] := by
  refine ⟨by simp [startIdx], partition1 h x, ?_⟩
  rw [partition1 h x]
  exact tensorSum_linear1 sample i j _

/-- **C18-T2 (integer shifts are exact translations, order 1, any dimension).** For an image of any rank
with positive axis lengths, an integer shift vector `d` and every output position `p`, the model of
`interpolate.shift(order=1)` (`shift *= -1`, then `zoom_shift`: coordinate `p − d`, border handling,
start knot, weights, tensor-product accumulation) returns exactly the input sample at `p − d` where that
lies inside the array, the sample the border rule of the mode assigns to `p − d` (mathematical
definition `borderSpec`: clamp / modulo / reflection / mirror) where it lies outside, and `cval` for
`constant`/`ignore`. A zero shift returns the input. -/
theorem C18_integer_shift_exact {K : Type} [Field K] [LinearOrder K] [IsStrictOrderedRing K]
    {fl : K → Int} (h : IsFloor fl) (m : Mode) (cval : K) (im : Img K) (p ds : List Int)
    (hs : ∀ len ∈ im.shape, 0 < len) (hp : ∀ kk ∈ p, 0 ≤ kk) :
    pixel fl 1 m cval im (ds.map fun (d : Int) => some (-(d : K))) (ds.map fun _ => none) p =
      match shiftPos m im.shape p ds with
      | some pos => im.getD pos 0
      | none => cval := by
  unfold pixel
  rw [go_int h m im.shape p ds hs hp]
  cases hsp : shiftPos m im.shape p ds with
  | none => simp
  | some pos =>
    simp only [Option.map_some]
    have e : (pos.zip im.shape).map (fun jl => ([jl.1, edgeFold jl.2 (jl.1 + 1)], [(1 : K), 0]))
        = ((pos.zip im.shape).map fun jl => (jl.1, edgeFold jl.2 (jl.1 + 1))).map
            fun ij => ([ij.1, ij.2], [(1 : K), 0]) := by
      simp [List.map_map]
    rw [e, tensorSum_delta]
    have e2 : ((pos.zip im.shape).map fun jl => (jl.1, edgeFold jl.2 (jl.1 + 1))).map (fun ij => ij.1) = pos := by
      have hl : ∀ (shape : List Nat) (p ds pos : List Int), shiftPos m shape p ds = some pos →
          ((pos.zip shape).map fun jl => jl.1) = pos := by
        intro shape
        induction shape with
        | nil => intro p ds pos hh; cases p <;> cases ds <;> simp_all [shiftPos]
        | cons len ls ih =>
          intro p ds pos hh
          cases p with
          | nil => cases ds <;> simp_all [shiftPos]
          | cons kk ks =>
            cases ds with
            | nil => simp_all [shiftPos]
            | cons d ds =>
              simp only [shiftPos] at hh
              cases h1 : shiftIndex m len (kk - d) with
              | none => simp [h1] at hh
              | some j =>
                cases h2 : shiftPos m ls ks ds with
                | none => simp [h1, h2] at hh
                | some js =>
                  simp only [h1, h2, Option.some.injEq] at hh
                  subst hh
                  simp [ih ks ds js h2]
      simp only [List.map_map]
      exact hl im.shape p ds pos hsp
    rw [e2]
    simp

/-- **C18-T2 (zero shift).** A zero shift at order 1 returns the input: every pixel inside the array, in
any dimension and every border mode. -/
theorem C18_zero_shift_identity {K : Type} [Field K] [LinearOrder K] [IsStrictOrderedRing K]
    {fl : K → Int} (h : IsFloor fl) (m : Mode) (cval : K) (im : Img K) (p : List Int)
    (hs : ∀ len ∈ im.shape, 0 < len) (hp : inside im.shape p = true) :
    pixel fl 1 m cval im ((p.map fun _ => (0 : Int)).map fun (d : Int) => some (-(d : K)))
        ((p.map fun _ => (0 : Int)).map fun _ => none) p = im.getD p 0 := by
  have hnn : ∀ kk ∈ p, 0 ≤ kk := by
    have : ∀ (shape : List Nat) (p : List Int), inside shape p = true → ∀ kk ∈ p, 0 ≤ kk := by
      intro shape
      induction shape with
      | nil => intro p hp; cases p <;> simp_all [inside]
      | cons len ls ih =>
        intro p hp
        cases p with
        | nil => simp
        | cons kk ks =>
          simp only [inside, Bool.and_eq_true, decide_eq_true_eq] at hp
          intro k hk
          rcases List.mem_cons.mp hk with rfl | hk
          · exact hp.1.1
          · exact ih ks hp.2 k hk
    exact this im.shape p hp
  rw [C18_integer_shift_exact h m cval im p _ hs hnn, shiftPos_zero m im.shape p hp]

/-- **C18-T2 (unit zoom).** A unit zoom (output shape = input shape, the factor `(n−1)/(n−1)`, or 1 for a
one-sample axis) at order 1 returns the input: every pixel inside the array, in any dimension and every
border mode, through the `zoom` glue and the whole `zoom_shift` model. -/
theorem C18_unit_zoom_identity {K : Type} [Field K] [LinearOrder K] [IsStrictOrderedRing K]
    {fl : K → Int} (h : IsFloor fl) (m : Mode) (cval : K) (im : Img K) (p : List Int)
    (hp : inside im.shape p = true) :
    pixel fl 1 m cval im (im.shape.map fun _ => (none : Option K))
        ((im.shape.zip im.shape).map fun io => some (zoomFactor io.1 io.2 : K)) p = im.getD p 0 := by
  unfold pixel
  rw [go_unit h m im.shape p hp]
  have e : (p.zip im.shape).map (fun jl => ([jl.1, edgeFold jl.2 (jl.1 + 1)], [(1 : K), 0]))
      = ((p.zip im.shape).map fun jl => (jl.1, edgeFold jl.2 (jl.1 + 1))).map
          fun ij => ([ij.1, ij.2], [(1 : K), 0]) := by
    simp [List.map_map]
  simp only [e]
  rw [tensorSum_delta]
  have hl : ∀ (shape : List Nat) (p : List Int), inside shape p = true →
      ((p.zip shape).map fun jl => jl.1) = p := by
    intro shape
    induction shape with
    | nil => intro p hp; cases p <;> simp_all [inside]
    | cons len ls ih =>
      intro p hp
      cases p with
      | nil => simp
      | cons kk ks =>
        simp only [inside, Bool.and_eq_true, decide_eq_true_eq] at hp
        simp [ih ks hp.2]
  simp only [List.map_map]
  have : ((fun ij : Int × Int => ij.1) ∘ fun jl : Int × Nat => (jl.1, edgeFold jl.2 (jl.1 + 1)))
      = fun jl : Int × Nat => jl.1 := by funext jl; rfl
  rw [this, hl im.shape p hp]
  simp

/-- **C18-T2 (orders 2–4 at integer coordinates).** At an integer coordinate the weights of orders 2, 3, 4
are the B-spline sampled at the integers — `(1/8, 3/4, 1/8)`, `(1/6, 2/3, 1/6, 0)`,
`(1/384, 19/96, 115/192, 19/96, 1/384)` — centred on that coordinate: what `shift`/`zoom` return at
integer coordinates is the sampled-B-spline combination of the coefficients around it, i.e. exactly the
quantity `spline_filter` is required to make equal to the input sample ("the B-spline expansion
reproduces the input at the sample points"; that the recursive filter achieves this is checked on the
real output by the correspondence run, not proved). -/
theorem C18_integer_weights {K : Type} [Field K] [LinearOrder K] [IsStrictOrderedRing K]
    {fl : K → Int} (h : IsFloor fl) (n : Int) :
    (startIdx fl 2 (n : K) = n - 1 ∧ weights fl 2 (n : K) = [1 / 8, 3 / 4, 1 / 8]) ∧
    (startIdx fl 3 (n : K) = n - 1 ∧ weights fl 3 (n : K) = [1 / 6, 2 / 3, 1 / 6, 0]) ∧
    (startIdx fl 4 (n : K) = n - 2 ∧ weights fl 4 (n : K) = [1 / 384, 19 / 96, 115 / 192, 19 / 96, 1 / 384]) := by
  refine ⟨⟨?_, weights_int2 h n⟩, ⟨?_, weights_int3 h n⟩, ⟨?_, weights_int4 h n⟩⟩
  · simp only [startIdx, q_half, h.int_half]; simp
  · simp [startIdx, h.int]
  · simp only [startIdx, q_half, h.int_half]; simp

/-- **C18-T4 (partial: one-pole prefilter, every sample but the first).** For orders 2 and 3
`spline_filter1d` runs, per line, `line *= weight` and then the causal and anti-causal recursions for the single
pole `z` (`onePole`, the definition the driver runs). If `z` is an exact root of `z² + 6z + 1` (order 2,
`√8 − 3`) resp. `z² + 4z + 1` (order 3, `√3 − 2`) then `weight = (1−z)(1−1/z)` is 8 resp. 6 and the resulting
coefficients `c` satisfy, for **any** initial value `c0` of the causal pass (the code's truncated or full
geometric sum), `⅛c[k−1] + ¾c[k] + ⅛c[k+1] = f[k]` resp. `⅙c[k−1] + ⅔c[k] + ⅙c[k+1] = f[k]` at every interior
sample `1 ≤ k ≤ n−2`, and the same with the mirrored knot `c[n] = c[n−2]` at the last sample: by
`C18_integer_weights` this is "the B-spline expansion reproduces the input at the sample points" for all samples
`k ≥ 1`. **Missing**: sample 0 (it depends on the initialisation of the causal sum — the closed form of the
mirrored geometric series, cut at `1e−15` on long lines — and is checked numerically), the two-pole orders 4 and 5
(see `C18_prefilter_inverts_order4_partial`), and the fact that the floating-point poles are only approximate roots. -/
theorem C18_prefilter_inverts_partial {K : Type} [Field K] (z c0 : K) (n : Nat) (hn : 2 ≤ n)
    (hz1 : z * z - 1 ≠ 0) (f : Nat → K) :
    (z * z + 6 * z + 1 = 0 → (8 : K) ≠ 0 →
      (1 - z) * (1 - 1 / z) = 8 ∧
      (∀ k, 1 ≤ k → k + 2 ≤ n →
        1 / 8 * onePole z c0 n (fun i => 8 * f i) (k - 1) + 3 / 4 * onePole z c0 n (fun i => 8 * f i) k
          + 1 / 8 * onePole z c0 n (fun i => 8 * f i) (k + 1) = f k) ∧
      1 / 8 * onePole z c0 n (fun i => 8 * f i) (n - 2) + 3 / 4 * onePole z c0 n (fun i => 8 * f i) (n - 1)
          + 1 / 8 * onePole z c0 n (fun i => 8 * f i) (n - 2) = f (n - 1)) ∧
    (z * z + 4 * z + 1 = 0 → (6 : K) ≠ 0 →
      (1 - z) * (1 - 1 / z) = 6 ∧
      (∀ k, 1 ≤ k → k + 2 ≤ n →
        1 / 6 * onePole z c0 n (fun i => 6 * f i) (k - 1) + 2 / 3 * onePole z c0 n (fun i => 6 * f i) k
          + 1 / 6 * onePole z c0 n (fun i => 6 * f i) (k + 1) = f k) ∧
      1 / 6 * onePole z c0 n (fun i => 6 * f i) (n - 2) + 2 / 3 * onePole z c0 n (fun i => 6 * f i) (n - 1)
          + 1 / 6 * onePole z c0 n (fun i => 6 * f i) (n - 2) = f (n - 1)) := by
  constructor
  · intro hz h8
    have h2 : (2 : K) ≠ 0 := fun h => h8 (by linear_combination 4 * h)
    have h4 : (4 : K) ≠ 0 := fun h => h8 (by linear_combination 2 * h)
    refine ⟨by rw [poleWeight_eq z 6 hz]; norm_num, ?_, ?_⟩
    · intro k h1 h2'
      have := onePole_interior z 6 c0 hz n (fun i => 8 * f i) k h1 h2'
      field_simp
      linear_combination 4 * this
    · have := onePole_last z 6 c0 hz hz1 n hn (fun i => 8 * f i)
      field_simp
      linear_combination 4 * this
  · intro hz h6
    have h2 : (2 : K) ≠ 0 := fun h => h6 (by linear_combination 3 * h)
    have h3 : (3 : K) ≠ 0 := fun h => h6 (by linear_combination 2 * h)
    refine ⟨by rw [poleWeight_eq z 4 hz]; norm_num, ?_, ?_⟩
    · intro k h1 h2'
      have := onePole_interior z 4 c0 hz n (fun i => 6 * f i) k h1 h2'
      field_simp
      linear_combination 3 * this
    · have := onePole_last z 4 c0 hz hz1 n hn (fun i => 6 * f i)
      field_simp
      linear_combination 3 * this

/-- **C18-T4 (partial: order 4, every sample but the first two).** For order 4 `spline_filter1d` runs the
one-pole recursion twice, the second pass on the output of the first. If `z₁, z₂` are exact roots of
`z² + λᵢz + 1` with `λ₁ + λ₂ = 76`, `λ₁λ₂ = 228` (the factorisation of the sampled quartic B-spline
`(1, 76, 230, 76, 1)/384`; `init_poles`' values satisfy this to rounding) then the weight
`(1−z₁)(1−1/z₁)(1−z₂)(1−1/z₂)` is 384 and, for any initial values of the two causal passes, the coefficients
satisfy `(c[k−2] + 76c[k−1] + 230c[k] + 76c[k+1] + c[k+2])/384 = f[k]` at every sample `2 ≤ k ≤ n−3` and, with
the mirrored knots `c[n] = c[n−2]`, `c[n+1] = c[n−3]`, at the last two samples. **Missing**: samples 0 and 1
(they depend on the initial sums) and the approximate poles. -/
theorem C18_prefilter_inverts_order4_partial {K : Type} [Field K] (z1 z2 l1 l2 c1 c2 : K) (n : Nat) (hn : 4 ≤ n)
    (h1 : z1 * z1 + l1 * z1 + 1 = 0) (h2 : z2 * z2 + l2 * z2 + 1 = 0)
    (hz1 : z1 * z1 - 1 ≠ 0) (hz2 : z2 * z2 - 1 ≠ 0) (hs : l1 + l2 = 76) (hp : l1 * l2 = 228)
    (h384 : (384 : K) ≠ 0) (f : Nat → K) :
    let c := onePole z2 c2 n (onePole z1 c1 n (fun i => 384 * f i))
    (1 - z1) * (1 - 1 / z1) * ((1 - z2) * (1 - 1 / z2)) = 384 ∧
    (∀ k, 2 ≤ k → k + 3 ≤ n →
      1 / 384 * c (k - 2) + 19 / 96 * c (k - 1) + 115 / 192 * c k + 19 / 96 * c (k + 1) + 1 / 384 * c (k + 2) = f k) ∧
    (1 / 384 * c (n - 4) + 19 / 96 * c (n - 3) + 115 / 192 * c (n - 2) + 19 / 96 * c (n - 1) + 1 / 384 * c (n - 2)
      = f (n - 2)) ∧
    (1 / 384 * c (n - 3) + 19 / 96 * c (n - 2) + 115 / 192 * c (n - 1) + 19 / 96 * c (n - 2) + 1 / 384 * c (n - 3)
      = f (n - 1)) := by
  intro c
  simp only [c]
  have h96 : (96 : K) ≠ 0 := fun e => h384 (by linear_combination 4 * e)
  have h192 : (192 : K) ≠ 0 := fun e => h384 (by linear_combination 2 * e)
  have hl : l1 + l2 = 76 := hs
  refine ⟨?_, ?_, ?_, ?_⟩
  · rw [poleWeight_eq z1 l1 h1, poleWeight_eq z2 l2 h2]
    linear_combination 2 * hs + hp
  · intro k hk hk'
    have key := twoPole_interior z1 z2 l1 l2 c1 c2 h1 h2 n (fun i => 384 * f i) k hk hk'
    simp only [hs, hp] at key
    field_simp
    linear_combination 18432 * key
  · have key := (twoPole_last z1 z2 l1 l2 c1 c2 h1 h2 hz1 hz2 n hn (fun i => 384 * f i)).1
    simp only [hs, hp] at key
    field_simp
    linear_combination 18432 * key
  · have key := (twoPole_last z1 z2 l1 l2 c1 c2 h1 h2 hz1 hz2 n hn (fun i => 384 * f i)).2
    simp only [hs, hp] at key
    field_simp
    linear_combination 18432 * key

/-- **C18-T2/T4 (partial: integer shifts at order 3 on a line).** Composition of the pieces for the cubic case
in one dimension: if the coefficient line holds what the one-pole prefilter produces from the samples `f`
(`weight = 6`, exact pole `z² + 4z + 1 = 0`, **any** initial value of the causal pass), then `shift` by an integer
`d` at order 3 — the `zoom_shift` model: coordinate `kk − d`, start knot, the weights `(⅙, ⅔, ⅙, 0)`, mirror folding of
the knot beyond the end, accumulation — returns exactly the sample `f[kk − d]` at every output index whose source
`kk − d` lies in `[1, n−1]`. **Missing**: source index 0 (depends on the initial sum, see
`C18_prefilter_inverts_partial`), sources outside the array (they are first sent by the border rule to an index
inside the array — `mapCoord_int` — to which the same statement then applies; not composed here), more than one
dimension, orders 2 and 4. -/
theorem C18_integer_shift_order3_line_partial {K : Type} [Field K] [LinearOrder K] [IsStrictOrderedRing K]
    {fl : K → Int} (h : IsFloor fl) (m : Mode) (cval z c0 : K) (hz : z * z + 4 * z + 1 = 0)
    (hz1 : z * z - 1 ≠ 0) (h6 : (6 : K) ≠ 0) (n : Nat) (f : Nat → K) (im : Img K) (hshape : im.shape = [n])
    (hdata : ∀ k, k < n → im.getD [((k : Nat) : Int)] 0 = onePole z c0 n (fun i => 6 * f i) k)
    (kk d : Int) (i : Nat) (hkk : 0 ≤ kk) (hi : kk - d = (i : Int)) (h1 : 1 ≤ i) (h2 : i + 1 ≤ n) :
    pixel fl 3 m cval im [some (-(d : K))] [none] [kk] = f i := by
  rw [pixel3_line h m cval im n hshape kk d i hkk hi h1 h2]
  obtain ⟨_, hint, hlast⟩ := (C18_prefilter_inverts_partial z c0 n (by omega) hz1 f).2 hz h6
  have e1 : (i : Int) - 1 = ((i - 1 : Nat) : Int) := by omega
  by_cases e : i + 1 = n
  · have e2 : i - 1 = n - 2 := by omega
    have e3 : i = n - 1 := by omega
    rw [if_pos e, e1, hdata (i - 1) (by omega), hdata i (by omega), e2]
    rw [e3] at *
    exact hlast
  · have e2 : (i : Int) + 1 = ((i + 1 : Nat) : Int) := by omega
    rw [if_neg e, e1, e2, hdata (i - 1) (by omega), hdata i (by omega), hdata (i + 1) (by omega)]
    exact hint i h1 (by omega)

/-- **C18-T3 (shape and corners).** `zoom` onto a requested shape returns an image of exactly that shape
(also through `resize_to`, `resize_rgb_to`, `imresize` with an integer size, which pass the requested
shape as `out`), output index 0 maps to input coordinate 0, and on every axis with at least two output
samples the last output index maps to the last input sample `n_in − 1`: corners go to corners. With
equal input and output lengths every index maps to itself (unit zoom). -/
theorem C18_shape_exact {K : Type} [Field K] [LinearOrder K] [IsStrictOrderedRing K]
    (fl : K → Int) (order : Nat) (m : Mode) (cval : K) (im : Img K) (oshape : List Nat)
    (nin nout kk : Nat) (h2 : 2 ≤ nout) :
    (zoomGlue fl order m cval im oshape).shape = oshape ∧
    coord 0 none (some (zoomFactor nin nout : K)) = 0 ∧
    coord (nout - 1) none (some (zoomFactor nin nout : K)) = (((nin : Int) - 1 : Int) : K) ∧
    coord kk none (some (zoomFactor nin nin : K)) = (kk : K) :=
  ⟨rfl, zoomFactor_origin _, zoomFactor_corner nin nout h2, zoomFactor_unit nin kk⟩

/-- non-vacuity: over ℚ with the true floor, the cubic weights at `x = 5/2` are the B-spline samples
`1/48, 23/48, 23/48, 1/48`, and a shift by 2 of a length-3 signal in `nearest` mode reads sample 0 at
output index 1 -/
example : weights (fun z : ℚ => ⌊z⌋) 3 (5 / 2) = [1 / 48, 23 / 48, 23 / 48, 1 / 48] ∧
    shiftPos .nearest [3] [1] [2] = some [0] := by
  constructor
  · have f1 : ⌊(5 / 2 : ℚ)⌋ = 2 := by
      rw [Int.floor_eq_iff]; norm_num
    simp only [weights, startIdx, f1]
    norm_num [List.range_succ, splineCoeff, absV, q]
  · decide

/-- **C18 (`zoom_shift` IS the evaluation of the tensor-product B-spline expansion).** For every spline order
(1–5 are the ones `spline_coefficients` implements; the statement holds for any), every rank and shape, every
border mode and every output position whose mapped coordinates `x_r = coord kk_r shift_r zoom_r` lie inside
`[0, len_r − 1]` on every axis (`InRange`: no border rule is applied to the coordinate), the whole `zoom_shift`
model (`pixel`: coordinate map, `mapCoord`, start knot, weights, knot folding, the flat accumulation
`t += ((c·w₀)·w₁)…` in `fcoordinates` order) returns

`Σ_{h ∈ {0..order}^rank} (∏_r w_{h_r}(x_r)) · c[k_0(h_0), …, k_{rank−1}(h_{rank−1})]`

where, exactly as the code computes them, `w_h(x) = splineCoeff order |start(x) − x + h|` (`weights`),
`start(x) = (order odd ? ⌊x⌋ : ⌊x + ½⌋) − order/2` (`startIdx`) and `k_r(h) = edgeFold len_r (start(x_r) + h)`
(the mirror folding, the identity for knots inside the array: `edgeFold_inside`). `splineAxes` packs these per
axis, `tensorTerms` enumerates all `(order+1)^rank` knot tuples (third conjunct: their number is the product of
the per-axis knot counts). Second conjunct: the same value as the nested (axis-by-axis) sum `nestedSum`. With
`C18_weights_partition` (the weights sum to one for orders 1–5) this is the value at `x` of the B-spline
expansion of the coefficient array `c`. No property of `fl` is used. -/
theorem C18_zoom_shift_is_tensor_spline {K : Type} [Field K] [LinearOrder K] [IsStrictOrderedRing K]
    (fl : K → Int) (order : Nat) (m : Mode) (cval : K) (im : Img K)
    (shifts zooms : List (Option K)) (p : List Int)
    (hr : InRange im.shape (coordsOf im.shape p shifts zooms)) :
    let axes := splineAxes fl order im.shape (coordsOf im.shape p shifts zooms)
    pixel fl order m cval im shifts zooms p
        = ((tensorTerms axes).map fun pw => pw.2.prod * im.getD pw.1 0).sum ∧
    pixel fl order m cval im shifts zooms p = nestedSum (fun pos => im.getD pos 0) axes ∧
    (tensorTerms axes).length = (axes.map fun e => (e.1.zip e.2).length).prod := by
  intro axes
  have e : pixel fl order m cval im shifts zooms p
      = ((tensorTerms axes).map fun pw => pw.2.prod * im.getD pw.1 0).sum := by
    unfold pixel
    rw [go_inrange fl order m im.shape p shifts zooms hr]
    simp only [Nat.cast_zero]
    have := tensorSum_eq_sum (fun pos => im.getD pos (0 : K)) axes
    simp only [Nat.cast_zero] at this
    exact this
  refine ⟨e, ?_, tensorTerms_length axes⟩
  rw [e]
  exact flat_eq_nested axes (fun pos => im.getD pos 0)

/-- **C18 (order 1 at fractional coordinates is multilinear interpolation, any rank).** For every rank, shape,
border mode and output position whose mapped coordinates lie inside `[0, len_r − 1]` on every axis, the
`zoom_shift` model at order 1 returns the multilinear interpolation of the `2^rank` neighbouring samples
(`multilinear`): along every axis `(1 − t_r)·(… at ⌊x_r⌋) + t_r·(… at ⌊x_r⌋ + 1)` with `t_r = x_r − ⌊x_r⌋`
(the upper neighbour passes through the knot folding, which is the identity unless `x_r = len_r − 1`, where its
weight `t_r` is 0). -/
theorem C18_fractional_order1_is_linear_nd {K : Type} [Field K] [LinearOrder K] [IsStrictOrderedRing K]
    {fl : K → Int} (h : IsFloor fl) (m : Mode) (cval : K) (im : Img K)
    (shifts zooms : List (Option K)) (p : List Int)
    (hr : InRange im.shape (coordsOf im.shape p shifts zooms)) :
    pixel fl 1 m cval im shifts zooms p
      = multilinear fl (fun pos => im.getD pos 0) im.shape (coordsOf im.shape p shifts zooms) := by
  rw [(C18_zoom_shift_is_tensor_spline fl 1 m cval im shifts zooms p hr).2.1]
  exact nested_order1 h im.shape _ _ hr

/-- **C18 (coordinate map of `shift`).** In any rank: the model of `interpolate.shift` is `zoom_shift` onto the
input's shape with the negated shift vector, and output index `kk_r` reads input coordinate `kk_r − shift_r` on
every axis (`coordsOf` is the list of coordinates `pixel` works with, cf. `C18_zoom_shift_is_tensor_spline`). -/
theorem C18_shift_coordinate_map {K : Type} [Field K] [LinearOrder K] [IsStrictOrderedRing K]
    (fl : K → Int) (order : Nat) (m : Mode) (cval : K) (im : Img K) (sh : List K) (p : List Int)
    (hp : ∀ kk ∈ p, 0 ≤ kk) (h1 : im.shape.length = p.length) (h2 : p.length = sh.length) :
    shiftGlue fl order m cval im sh
        = Img.tabulate im.shape
            (pixel fl order m cval im (sh.map fun s => some (-s)) (sh.map fun _ => none)) ∧
    coordsOf im.shape p (sh.map fun s => some (-s)) (sh.map fun _ => (none : Option K))
      = List.zipWith (fun (kk : Int) (s : K) => (kk : K) - s) p sh :=
  ⟨rfl, coordsOf_shift im.shape p sh hp h1 h2⟩

/-- **C18 (coordinate map of `zoom`).** In any rank, for output axes of at least two samples: the model of
`interpolate.zoom(out=…)` is `zoom_shift` onto the requested shape with the factors `(n_in − 1)/(n_out − 1)`,
output index `kk_r` reads input coordinate `kk_r·(n_in,r − 1)/(n_out,r − 1)` on every axis, and this map sends
corner to corner: `0 ↦ 0`, `n_out − 1 ↦ n_in − 1`. -/
theorem C18_zoom_coordinate_map {K : Type} [Field K] [LinearOrder K] [IsStrictOrderedRing K]
    (fl : K → Int) (order : Nat) (m : Mode) (cval : K) (im : Img K) (oshape : List Nat) (p : List Int)
    (hp : ∀ kk ∈ p, 0 ≤ kk) (ho : ∀ n ∈ oshape, 2 ≤ n)
    (h1 : im.shape.length = p.length) (h2 : p.length = oshape.length) :
    zoomGlue fl order m cval im oshape
        = Img.tabulate oshape
            (pixel fl order m cval im (oshape.map fun _ => none)
              ((im.shape.zip oshape).map fun io => some (zoomFactor io.1 io.2))) ∧
    coordsOf im.shape p (oshape.map fun _ => (none : Option K))
        ((im.shape.zip oshape).map fun io => some (zoomFactor io.1 io.2 : K))
      = List.zipWith (fun (kk : Int) (io : Nat × Nat) => (kk : K) * ((io.1 : K) - 1) / ((io.2 : K) - 1))
          p (im.shape.zip oshape) ∧
    (∀ nin nout : Nat, 2 ≤ nout →
      ((0 : Int) : K) * ((nin : K) - 1) / ((nout : K) - 1) = 0 ∧
      (((nout : Int) - 1 : Int) : K) * ((nin : K) - 1) / ((nout : K) - 1) = (nin : K) - 1) := by
  refine ⟨rfl, coordsOf_zoom im.shape oshape p hp ho h1 h2, ?_⟩
  intro nin nout h
  constructor
  · simp
  · have : ((nout : K) - 1) ≠ 0 := by
      have : (1 : K) < (nout : K) := by exact_mod_cast h
      linarith
    push_cast
    field_simp

/-- **C18-T4 (what the two initialisations of the causal pass are).** `spline_filter1d` starts the causal
recursion from `initTrunc` (lines longer than the cut `max = ⌈log 1e−15 / log|p|⌉`) or from `initFull` (shorter
lines) — the polymorphic definitions `filterLine` runs. Over any field: (1) `initTrunc z mx s` is the geometric sum
`Σ_{k<mx} z^k s[k]`; (2) `initFull z (z^(n−1)) n s` — the code's closed form
`(s₀ + z^(n−1)s_{n−1} + Σ_{k=1}^{n−2} (z^k + z^(2n−2−k)) s_k) / (1 − z^(2n−2))`, accumulated as the loop does — is the
**exact mirror-symmetric initial value** `MirrorInit`: the solution of `c0 = Σ_{k<P} z^k s̃[k] + z^P·c0`
(`P = 2n − 2`, `s̃` the mirror extension), which is how `c0 = Σ_{k≥0} z^k s̃[k]` reads without infinite sums;
(3) equivalently, `c0` is the value from which the causal recursion, run once around the mirrored period, returns
to itself. -/
theorem C18_initFull_is_mirror_init {K : Type} [Field K] (z : K) (hz : z ≠ 0) (n : Nat) (hn : 2 ≤ n)
    (hP : 1 - z ^ (n - 1) * z ^ (n - 1) ≠ 0) (s : Nat → K) :
    (∀ mx, 1 ≤ mx → initTrunc z mx s = geomSum z s mx) ∧
    MirrorInit z n s (initFull z (z ^ (n - 1)) n s) ∧
    (∀ c0, MirrorInit z n s c0 ↔ causal z c0 (mirrorExt n s) (2 * n - 2) = c0) :=
  ⟨fun mx h => initTrunc_eq z mx h s, initFull_mirrorInit z hz n hn hP s,
    fun c0 => mirrorInit_iff_steady z c0 n hn s⟩

/-- **C18-T4 (the first sample, orders 2 and 3).** The gap of `C18_prefilter_inverts_partial`: if the causal pass
starts from the exact mirror-symmetric initial value (`MirrorInit`, see `C18_initFull_is_mirror_init`: hypothesis
stated explicitly; it is what the code computes on short lines), then for an exact root `z` of `z² + 6z + 1`
(order 2) resp. `z² + 4z + 1` (order 3) the coefficients produced by `onePole` also reproduce sample 0, with the
mirrored knot `c[−1] = c[1]`: `⅛c[1] + ¾c[0] + ⅛c[1] = f[0]` resp. `⅙c[1] + ⅔c[0] + ⅙c[1] = f[0]`. -/
theorem C18_prefilter_first_sample {K : Type} [Field K] (z c0 : K) (n : Nat) (hn : 2 ≤ n)
    (hz1 : z * z - 1 ≠ 0) (f : Nat → K) :
    (z * z + 6 * z + 1 = 0 → (8 : K) ≠ 0 → MirrorInit z n (fun i => 8 * f i) c0 →
      1 / 8 * onePole z c0 n (fun i => 8 * f i) 1 + 3 / 4 * onePole z c0 n (fun i => 8 * f i) 0
        + 1 / 8 * onePole z c0 n (fun i => 8 * f i) 1 = f 0) ∧
    (z * z + 4 * z + 1 = 0 → (6 : K) ≠ 0 → MirrorInit z n (fun i => 6 * f i) c0 →
      1 / 6 * onePole z c0 n (fun i => 6 * f i) 1 + 2 / 3 * onePole z c0 n (fun i => 6 * f i) 0
        + 1 / 6 * onePole z c0 n (fun i => 6 * f i) 1 = f 0) := by
  constructor
  · intro hz h8 hinit
    have h2 : (2 : K) ≠ 0 := fun h => h8 (by linear_combination 4 * h)
    have h4 : (4 : K) ≠ 0 := fun h => h8 (by linear_combination 2 * h)
    have := onePole_first z 6 c0 hz hz1 n hn (fun i => 8 * f i) hinit
    field_simp
    linear_combination 4 * this
  · intro hz h6 hinit
    have h2 : (2 : K) ≠ 0 := fun h => h6 (by linear_combination 3 * h)
    have h3 : (3 : K) ≠ 0 := fun h => h6 (by linear_combination 2 * h)
    have := onePole_first z 4 c0 hz hz1 n hn (fun i => 6 * f i) hinit
    field_simp
    linear_combination 3 * this

/-- **C18-T4 (`prefilter_inverts`, orders 2 and 3, short lines — every sample).** On the lines where the code uses
its closed-form initialisation (`max ≥ len`: lines of at most 20 / 27 samples for orders 2 / 3 with the `1e−15` cut), in exact
arithmetic with an exact pole (`z² + λz + 1 = 0`, `λ = 6` / `4`, `weight = 2 + λ`) and `pow(p, len−1) = z^(len−1)`:
the coefficients `c = onePole z (initFull z (z^(n−1)) n (w·f)) n (w·f)` — exactly what `filterLine` computes —
satisfy **all** `n` equations of "the B-spline expansion reproduces the samples" with mirror boundaries:
`(c[k−1] + λ·c[k] + c[k+1]) / (2 + λ) = f[k]` for `1 ≤ k ≤ n−2`, `(2c[1] + λc[0]) / (2 + λ) = f[0]`,
`(2c[n−2] + λc[n−1]) / (2 + λ) = f[n−1]`. (By `C18_integer_weights` these are the values `zoom_shift` returns at
the integer coordinates.) What is not covered: the floating-point pole is only an approximate root; long lines use
the truncated sum (`C18_prefilter_truncation_bound`). -/
theorem C18_prefilter_inverts_short_lines {K : Type} [Field K] (z lam : K) (n : Nat) (hn : 2 ≤ n)
    (hz : z * z + lam * z + 1 = 0) (hz1 : z * z - 1 ≠ 0) (hP : 1 - z ^ (n - 1) * z ^ (n - 1) ≠ 0)
    (hw : (2 + lam : K) ≠ 0) (f : Nat → K) :
    let s := fun i => (2 + lam) * f i
    let c := onePole z (initFull z (z ^ (n - 1)) n s) n s
    (1 - z) * (1 - 1 / z) = 2 + lam ∧
    (2 * c 1 + lam * c 0) / (2 + lam) = f 0 ∧
    (∀ k, 1 ≤ k → k + 2 ≤ n → (c (k - 1) + lam * c k + c (k + 1)) / (2 + lam) = f k) ∧
    (2 * c (n - 2) + lam * c (n - 1)) / (2 + lam) = f (n - 1) := by
  intro s c
  have hz0 : z ≠ 0 := by
    rintro rfl
    simp at hz
  have hinit := initFull_mirrorInit z hz0 n hn hP s
  refine ⟨poleWeight_eq z lam hz, ?_, ?_, ?_⟩
  · rw [div_eq_iff hw]
    have := onePole_first z lam _ hz hz1 n hn s hinit
    simp only [c, s] at this ⊢
    linear_combination this
  · intro k h1 h2
    rw [div_eq_iff hw]
    have := onePole_interior z lam (initFull z (z ^ (n - 1)) n s) hz n s k h1 h2
    simp only [c, s] at this ⊢
    linear_combination this
  · rw [div_eq_iff hw]
    have := onePole_last z lam (initFull z (z ^ (n - 1)) n s) hz hz1 n hn s
    simp only [c, s] at this ⊢
    linear_combination this

/-- **C18-T4 (order 4: the first two samples).** The gap of `C18_prefilter_inverts_order4_partial`: if both
causal passes start from their exact mirror-symmetric initial values (`MirrorInit`; on short lines the code's
`initFull`, by `C18_initFull_is_mirror_init`), then with exact poles (`λ₁ + λ₂ = 76`, `λ₁λ₂ = 228`) samples 0 and 1
are reproduced as well, with the mirrored knots `c[−1] = c[1]`, `c[−2] = c[2]`:
`(c[2] + 76c[1] + 230c[0] + 76c[1] + c[2])/384 = f[0]`, `(c[1] + 76c[0] + 230c[1] + 76c[2] + c[3])/384 = f[1]`. -/
theorem C18_prefilter_order4_first_samples {K : Type} [Field K] (z1 z2 l1 l2 c1 c2 : K) (n : Nat) (hn : 4 ≤ n)
    (h1 : z1 * z1 + l1 * z1 + 1 = 0) (h2 : z2 * z2 + l2 * z2 + 1 = 0)
    (hz1 : z1 * z1 - 1 ≠ 0) (hz2 : z2 * z2 - 1 ≠ 0) (hs : l1 + l2 = 76) (hp : l1 * l2 = 228)
    (h384 : (384 : K) ≠ 0) (f : Nat → K)
    (hi1 : MirrorInit z1 n (fun i => 384 * f i) c1)
    (hi2 : MirrorInit z2 n (onePole z1 c1 n (fun i => 384 * f i)) c2) :
    let c := onePole z2 c2 n (onePole z1 c1 n (fun i => 384 * f i))
    (1 / 384 * c 2 + 19 / 96 * c 1 + 115 / 192 * c 0 + 19 / 96 * c 1 + 1 / 384 * c 2 = f 0) ∧
    (1 / 384 * c 1 + 19 / 96 * c 0 + 115 / 192 * c 1 + 19 / 96 * c 2 + 1 / 384 * c 3 = f 1) := by
  intro c
  simp only [c]
  have h96 : (96 : K) ≠ 0 := fun e => h384 (by linear_combination 4 * e)
  have h192 : (192 : K) ≠ 0 := fun e => h384 (by linear_combination 2 * e)
  obtain ⟨k0, k1⟩ := twoPole_first z1 z2 l1 l2 c1 c2 h1 h2 hz1 hz2 n hn (fun i => 384 * f i) hi1 hi2
  simp only [hs, hp] at k0 k1
  constructor
  · field_simp
    linear_combination 18432 * k0
  · field_simp
    linear_combination 18432 * k1

/-- **C18-T4 (long lines: the truncated initial sum).** Over an ordered field, for `|z| < 1` and a line with
`|s| ≤ M`: the value `initTrunc z mx s = Σ_{k<mx} z^k s[k]` from which the code starts the causal pass on lines
longer than the cut (`mx ≤ n`) differs from the exact mirror-symmetric initial value `c0` (`MirrorInit`) by at most
`|z|^mx · M / (1 − |z|)` — with the code's `mx = ⌈log 1e−15 / log|z|⌉`, `|z|^mx ≤ 1e−15`. -/
theorem C18_prefilter_truncation_bound {K : Type} [Field K] [LinearOrder K] [IsStrictOrderedRing K]
    (z : K) (hz : |z| < 1) (n : Nat) (hn : 2 ≤ n) (s : Nat → K) (M : K) (hs : ∀ k, k < n → |s k| ≤ M)
    (c0 : K) (hinit : MirrorInit z n s c0) (mx : Nat) (h1 : 1 ≤ mx) (h2 : mx ≤ n) :
    |c0 - initTrunc z mx s| ≤ |z| ^ mx * M / (1 - |z|) :=
  mirrorInit_trunc_bound z hz n hn s M hs c0 hinit mx h1 h2

/-- non-vacuity of `MirrorInit` / `initFull`: over ℚ, `z = 1/2`, the line `(1, 2, 3)` (mirror period `1 2 3 2`):
the code's closed form gives `c0 = (1 + 2/2 + 3/4 + 2/8) / (1 − 1/16) = 16/5`, and it is the fixed point -/
example : initFull (1 / 2 : ℚ) ((1 / 2) ^ (3 - 1)) 3 (fun k => ((k + 1 : Nat) : ℚ)) = 16 / 5 ∧
    MirrorInit (1 / 2 : ℚ) 3 (fun k => ((k + 1 : Nat) : ℚ)) (16 / 5) := by
  constructor
  · norm_num [initFull, stepFull, List.range_succ]
  · norm_num [MirrorInit, geomSum, mirrorExt]

/-- **C18-T2/T4 (integer shifts at order 3 on a line, every source inside the array).** Closes the source-0 gap
of `C18_integer_shift_order3_line_partial`: if the coefficient line holds what the one-pole prefilter produces from
the samples `f` (`weight = 6`, exact pole `z² + 4z + 1 = 0`) **from the exact mirror-symmetric initial value**
(`MirrorInit`; the code's `initFull` on lines of at most 27 samples, `C18_initFull_is_mirror_init`), then `shift` by an
integer `d` at order 3 — the whole `zoom_shift` model, with the knot before the start folded to `c[1]` and the knot
beyond the end folded to `c[n−2]` — returns exactly `f[kk − d]` at every output index whose source `kk − d` lies in
`[0, n−1]`. **Still missing**: sources outside the array (border rule first, `mapCoord_int`), more than one
dimension, orders 2 and 4, approximate poles. -/
theorem C18_integer_shift_order3_line {K : Type} [Field K] [LinearOrder K] [IsStrictOrderedRing K]
    {fl : K → Int} (h : IsFloor fl) (m : Mode) (cval z c0 : K) (hz : z * z + 4 * z + 1 = 0)
    (hz1 : z * z - 1 ≠ 0) (h6 : (6 : K) ≠ 0) (n : Nat) (hn : 2 ≤ n) (f : Nat → K) (im : Img K)
    (hshape : im.shape = [n]) (hinit : MirrorInit z n (fun i => 6 * f i) c0)
    (hdata : ∀ k, k < n → im.getD [((k : Nat) : Int)] 0 = onePole z c0 n (fun i => 6 * f i) k)
    (kk d : Int) (i : Nat) (hkk : 0 ≤ kk) (hi : kk - d = (i : Int)) (h2 : i + 1 ≤ n) :
    pixel fl 3 m cval im [some (-(d : K))] [none] [kk] = f i := by
  rcases Nat.eq_zero_or_pos i with rfl | hpos
  · rw [pixel3_line0 h m cval im n hn hshape kk d hkk (by simpa using hi)]
    have d0 := hdata 0 (by omega)
    have d1 := hdata 1 (by omega)
    simp only [Nat.cast_zero, Nat.cast_one] at d0 d1
    rw [d0, d1]
    exact (C18_prefilter_first_sample z c0 n hn hz1 f).2 hz h6 hinit
  · exact C18_integer_shift_order3_line_partial h m cval z c0 hz hz1 h6 n f im hshape hdata kk d i hkk hi hpos h2

/-- a 2×2 image over ℚ for the non-vacuity example below -/
def c18Im22 : Img ℚ := { shape := [2, 2], data := #[0, 1, 2, 3] }

/-- non-vacuity of the in-range hypothesis and of `C18_fractional_order1_is_linear_nd`: a shift by `(½, ½)` of
the 2×2 image `[[0,1],[2,3]]` reads, at output `(1,1)`, the in-range coordinate `(½, ½)`, and the multilinear
interpolation there is the mean `3/2` of the four samples -/
example : InRange c18Im22.shape
      (coordsOf c18Im22.shape [1, 1] [some (-(1 / 2 : ℚ)), some (-(1 / 2))] [none, none]) ∧
    multilinear (fun z : ℚ => ⌊z⌋) (fun pos => c18Im22.getD pos 0) c18Im22.shape
      (coordsOf c18Im22.shape [1, 1] [some (-(1 / 2 : ℚ)), some (-(1 / 2))] [none, none]) = 3 / 2 := by
  have f1 : ⌊(1 / 2 : ℚ)⌋ = 0 := by rw [Int.floor_eq_iff]; norm_num
  constructor
  · simp [InRange, coordsOf, coord, c18Im22]; norm_num
  · have c : coordsOf c18Im22.shape [1, 1] [some (-(1 / 2 : ℚ)), some (-(1 / 2))] [none, none]
        = [1 / 2, 1 / 2] := by
      simp [coordsOf, coord, c18Im22]; norm_num
    rw [c]
    simp only [multilinear, c18Im22, f1]
    norm_num [edgeFold, fixOffset, Img.getD, inside, ravelI, shapeSize]

/-! ## Round 3: cardinal B-splines, the interpolation property, order 5, the `resize.py` wrappers -/

/-- **C18 (`weights_are_bsplines`).** The piecewise polynomials of `spline_coefficients` are the cardinal B-splines.
`bspline n` (`Proofs/C18BSpline.lean`) is the centred cardinal B-spline of degree `n` over an ordered field, defined by
the Cox–de Boor recursion on the uniform knots `k − (n+1)/2`: `β⁰ = 1` on `[−½, ½)`,
`β^{n+1}(x) = [(x + (n+2)/2)·βⁿ(x + ½) + ((n+2)/2 − x)·βⁿ(x − ½)]/(n+1)`. For **every** order 1–5 and **every** `x`:
(1) the `switch(order)` body of the C++ code at the distance `|x|` is `β^order(x)`; (2) weight `h` of
`spline_coefficients(x)` — the code's `splineCoeff order |start − x + h|` — is `β^order(x − (start + h))`, `start` as the
code computes it; (3) at every other integer knot `k` (`k < start` or `k > start + order`) `β^order(x − k) = 0` — the
`order + 1` knots the code visits are all the knots whose B-spline does not vanish at `x` (this part for every order
and the true floor), so the finite sum the code forms is the full expansion `Σ_{k∈ℤ} c[k]·βⁿ(x − k)`; (4) `βⁿ` is
even and vanishes outside `[−(n+1)/2, (n+1)/2)`. -/
theorem C18_weights_are_bsplines {K : Type} [Field K] [LinearOrder K] [IsStrictOrderedRing K]
    {fl : K → Int} (h : IsFloor fl) (order : Nat) (h1 : 1 ≤ order) (h5 : order ≤ 5) (x : K) :
    bspline order x = splineCoeff order (absV x) ∧
    weights fl order x
      = (List.range (order + 1)).map (fun hh =>
          bspline order (x - ((startIdx fl order x + ((hh : Nat) : Int) : Int) : K))) ∧
    (∀ k : Int, (k < startIdx fl order x ∨ startIdx fl order x + (order : Int) < k) →
      bspline order (x - (k : K)) = 0) ∧
    bspline order (-x) = bspline order x ∧
    ((x < -(((order : K) + 1) / 2) ∨ ((order : K) + 1) / 2 ≤ x) → bspline order x = 0) :=
  ⟨bspline_eq_splineCoeff order h1 h5 x, weights_eq_bspline fl order h1 h5 x,
    fun k hk => bspline_outside_knots h order x k hk, bspline_even order h1 h5 x, bspline_support order x⟩

/-- **C18 (`zoom_shift` evaluates the cardinal B-spline expansion).** `C18_zoom_shift_is_tensor_spline` with the
weights identified: for orders 1–5, every rank, shape, border mode and every output position whose mapped
coordinates `x_r` lie inside `[0, len_r − 1]`, the `zoom_shift` model returns
`Σ_{h_0} β(x_0 − k_0) · Σ_{h_1} β(x_1 − k_1) ⋯ c[fold k_0, fold k_1, …]`, `k_r = start(x_r) + h_r`, `β = bspline order`
(`bsplineAxes`): the tensor-product B-spline expansion `Σ_k c[k]·Π_r βⁿ(x_r − k_r)` of the (mirror-extended)
coefficient array evaluated at the mapped coordinate — all other knots contribute nothing
(`C18_weights_are_bsplines` (3)). -/
theorem C18_zoom_shift_is_bspline_expansion {K : Type} [Field K] [LinearOrder K] [IsStrictOrderedRing K]
    (fl : K → Int) (order : Nat) (h1 : 1 ≤ order) (h5 : order ≤ 5) (m : Mode) (cval : K) (im : Img K)
    (shifts zooms : List (Option K)) (p : List Int)
    (hr : InRange im.shape (coordsOf im.shape p shifts zooms)) :
    pixel fl order m cval im shifts zooms p
      = nestedSum (fun pos => im.getD pos 0)
          (bsplineAxes fl order im.shape (coordsOf im.shape p shifts zooms)) := by
  rw [(C18_zoom_shift_is_tensor_spline fl order m cval im shifts zooms p hr).2.1,
    splineAxes_eq_bsplineAxes fl order h1 h5]

/-- non-vacuity: over ℚ, `β³(½) = 23/48` and `β²(¼) = 11/16` from the recursion -/
example : bspline 3 (1 / 2 : ℚ) = 23 / 48 ∧ bspline 2 (1 / 4 : ℚ) = 11 / 16 := by
  constructor <;> norm_num [bspline]

/-- **C18 (`interpolation_property`, orders 2 and 3, any rank).** Composition of the prefilter theorems with the
evaluation theorem. Let `c` be what the separable prefilter produces from the samples `f` (`prefilterNd`: along axis
0, then 1, …, every line goes through `lineFilter1`: `line *= weight`, then `onePole` — the recursions `filterLine`
runs — from an initial value `ini len line`), with an exact pole (`z² + λz + 1 = 0`, `λ = 6` for order 2, `λ = 4` for
order 3, `weight = 2 + λ`) and the exact mirror-symmetric initial values (`MirrorInit`; the code's `initFull` on short
lines, `C18_initFull_is_mirror_init`), every axis of at least two samples. Then at **every** output position whose
mapped coordinates are an integer position `js` inside the array — zero shift, integer shifts with the source inside
the array, unit zoom, the corners of every zoom — the whole `zoom_shift` model returns exactly `f js`: the spline
interpolant interpolates. Any rank (tensor product), any border mode. Not covered: the floating-point pole is only an
approximate root; long lines start from the truncated sum (`C18_prefilter_truncation_bound`); that the array loop
`filterAxis` of the `Float` driver visits the lines as `prefilterNd` does is tied by the correspondence run
(`kind=sf`), not proved. -/
theorem C18_interpolation_property {K : Type} [Field K] [LinearOrder K] [IsStrictOrderedRing K]
    {fl : K → Int} (h : IsFloor fl) (m : Mode) (cval : K) (order : Nat) (lam z : K)
    (hord : (order = 2 ∧ lam = 6) ∨ (order = 3 ∧ lam = 4))
    (hz : z * z + lam * z + 1 = 0) (hz1 : z * z - 1 ≠ 0)
    (ini : Nat → (Nat → K) → K) (im : Img K) (hshape : ∀ len ∈ im.shape, 2 ≤ len)
    (hini : ∀ len ∈ im.shape, ∀ s : Nat → K, MirrorInit z len s (ini len s))
    (f : List Int → K)
    (hdata : ∀ pos, inside im.shape pos = true →
      im.getD pos 0 = prefilterNd (lineFilter1 z (2 + lam) ini) im.shape f pos)
    (shifts zooms : List (Option K)) (p js : List Int) (hin : inside im.shape js = true)
    (hc : coordsOf im.shape p shifts zooms = js.map fun (j : Int) => (j : K)) :
    pixel fl order m cval im shifts zooms p = f js := by
  rw [pixel_at_integer fl order m cval im shifts zooms p js (fun len hl => by have := hshape len hl; omega) hin hc
    _ hdata]
  apply nested_prefilter fl order _ im.shape js f _ hin
  intro len hlen s j h0 h1
  rcases hord with ⟨rfl, rfl⟩ | ⟨rfl, rfl⟩
  · rw [axisComb2 h]
    have := line_inverts z 6 hz hz1 (by norm_num) ini len (hshape len hlen) (hini len hlen) s j h0 h1
    have e : edgeFold len j = j := edgeFold_inside len j h0 h1
    rw [e] at this ⊢
    linear_combination this
  · rw [axisComb3 h]
    have := line_inverts z 4 hz hz1 (by norm_num) ini len (hshape len hlen) (hini len hlen) s j h0 h1
    have e : edgeFold len j = j := edgeFold_inside len j h0 h1
    rw [e] at this ⊢
    linear_combination this

/-- **C18 (`interpolation_property` with the code's own initialisation).** The instance of
`C18_interpolation_property` for `ini = initFull z (z^(len−1))`, the closed form `spline_filter1d` uses on lines of at
most 20 / 27 samples (orders 2 / 3): no hypothesis on the initial values is left. -/
theorem C18_interpolation_property_short_lines {K : Type} [Field K] [LinearOrder K] [IsStrictOrderedRing K]
    {fl : K → Int} (h : IsFloor fl) (m : Mode) (cval : K) (order : Nat) (lam z : K)
    (hord : (order = 2 ∧ lam = 6) ∨ (order = 3 ∧ lam = 4))
    (hz : z * z + lam * z + 1 = 0) (hz1 : z * z - 1 ≠ 0)
    (im : Img K) (hshape : ∀ len ∈ im.shape, 2 ≤ len)
    (hP : ∀ len ∈ im.shape, 1 - z ^ (len - 1) * z ^ (len - 1) ≠ 0)
    (f : List Int → K)
    (hdata : ∀ pos, inside im.shape pos = true →
      im.getD pos 0
        = prefilterNd (lineFilter1 z (2 + lam) (fun len s => initFull z (z ^ (len - 1)) len s)) im.shape f pos)
    (shifts zooms : List (Option K)) (p js : List Int) (hin : inside im.shape js = true)
    (hc : coordsOf im.shape p shifts zooms = js.map fun (j : Int) => (j : K)) :
    pixel fl order m cval im shifts zooms p = f js := by
  have hz0 : z ≠ 0 := by
    rintro rfl
    simp at hz
  exact C18_interpolation_property h m cval order lam z hord hz hz1 _ im hshape
    (fun len hl s => initFull_mirrorInit z hz0 len (hshape len hl) (hP len hl) s) f hdata shifts zooms p js hin hc

/-- non-vacuity of `prefilterNd` / `lineFilter1`: on a 2-sample line over ℚ with the (non-root) value `z = 1/2`,
    weight 8 and initial value `s 0`, the filtered line is computed -/
example : prefilterNd (lineFilter1 (1 / 2 : ℚ) 8 (fun _ s => s 0)) [2] (fun p => ((p.getD 0 0 + 1 : Int) : ℚ)) [0]
    = -12 := by
  norm_num [prefilterNd, lineFilter1, onePole, anticausalRev, causal]

/-- **C18 (order 5 at integer coordinates).** At an integer coordinate `n` the six weights of order 5 are the quintic
B-spline sampled at the integers, `(1/120, 13/60, 11/20, 13/60, 1/120, 0)`, on the knots `n−2 … n+3`. -/
theorem C18_integer_weights_order5 {K : Type} [Field K] [LinearOrder K] [IsStrictOrderedRing K]
    {fl : K → Int} (h : IsFloor fl) (n : Int) :
    startIdx fl 5 (n : K) = n - 2 ∧
    weights fl 5 (n : K) = [1 / 120, 13 / 60, 11 / 20, 13 / 60, 1 / 120, 0] := by
  refine ⟨?_, weights_int5 h n⟩
  simp [startIdx, h.int]

/-- **C18-T4 (order 5: every sample).** The order-5 instance of the two-pole theorems: if `z₁, z₂` are exact roots of
`z² + λᵢz + 1` with `λ₁ + λ₂ = 26`, `λ₁λ₂ = 64` (the factorisation of the sampled quintic B-spline
`(1, 26, 66, 26, 1)/120`; `init_poles`' values for order 5 satisfy this to rounding), then the weight
`(1−z₁)(1−1/z₁)(1−z₂)(1−1/z₂)` is 120 and the coefficients `c = onePole z₂ c₂ (onePole z₁ c₁ (120·f))` satisfy
`(c[k−2] + 26c[k−1] + 66c[k] + 26c[k+1] + c[k+2])/120 = f[k]` at every sample `2 ≤ k ≤ n−3` and at the last two
(mirrored knots `c[n] = c[n−2]`, `c[n+1] = c[n−3]`) for **any** initial values, and at samples 0 and 1 (mirrored
knots `c[−1] = c[1]`, `c[−2] = c[2]`) when both causal passes start from their exact mirror-symmetric values
(`MirrorInit`). With `C18_integer_weights_order5` this is "the expansion reproduces the samples" for order 5. -/
theorem C18_prefilter_inverts_order5 {K : Type} [Field K] (z1 z2 l1 l2 c1 c2 : K) (n : Nat) (hn : 4 ≤ n)
    (h1 : z1 * z1 + l1 * z1 + 1 = 0) (h2 : z2 * z2 + l2 * z2 + 1 = 0)
    (hz1 : z1 * z1 - 1 ≠ 0) (hz2 : z2 * z2 - 1 ≠ 0) (hs : l1 + l2 = 26) (hp : l1 * l2 = 64)
    (h120 : (120 : K) ≠ 0) (f : Nat → K) :
    let c := onePole z2 c2 n (onePole z1 c1 n (fun i => 120 * f i))
    (1 - z1) * (1 - 1 / z1) * ((1 - z2) * (1 - 1 / z2)) = 120 ∧
    (∀ k, 2 ≤ k → k + 3 ≤ n →
      1 / 120 * c (k - 2) + 13 / 60 * c (k - 1) + 11 / 20 * c k + 13 / 60 * c (k + 1) + 1 / 120 * c (k + 2) = f k) ∧
    (1 / 120 * c (n - 4) + 13 / 60 * c (n - 3) + 11 / 20 * c (n - 2) + 13 / 60 * c (n - 1) + 1 / 120 * c (n - 2)
      = f (n - 2)) ∧
    (1 / 120 * c (n - 3) + 13 / 60 * c (n - 2) + 11 / 20 * c (n - 1) + 13 / 60 * c (n - 2) + 1 / 120 * c (n - 3)
      = f (n - 1)) ∧
    (MirrorInit z1 n (fun i => 120 * f i) c1 → MirrorInit z2 n (onePole z1 c1 n (fun i => 120 * f i)) c2 →
      (1 / 120 * c 2 + 13 / 60 * c 1 + 11 / 20 * c 0 + 13 / 60 * c 1 + 1 / 120 * c 2 = f 0) ∧
      (1 / 120 * c 1 + 13 / 60 * c 0 + 11 / 20 * c 1 + 13 / 60 * c 2 + 1 / 120 * c 3 = f 1)) := by
  intro c
  simp only [c]
  have h60 : (60 : K) ≠ 0 := fun e => h120 (by linear_combination 2 * e)
  have h20 : (20 : K) ≠ 0 := fun e => h120 (by linear_combination 6 * e)
  refine ⟨?_, ?_, ?_, ?_, ?_⟩
  · rw [poleWeight_eq z1 l1 h1, poleWeight_eq z2 l2 h2]
    linear_combination 2 * hs + hp
  · intro k hk hk'
    have key := twoPole_interior z1 z2 l1 l2 c1 c2 h1 h2 n (fun i => 120 * f i) k hk hk'
    simp only [hs, hp] at key
    field_simp
    linear_combination 1200 * key
  · have key := (twoPole_last z1 z2 l1 l2 c1 c2 h1 h2 hz1 hz2 n hn (fun i => 120 * f i)).1
    simp only [hs, hp] at key
    field_simp
    linear_combination 1200 * key
  · have key := (twoPole_last z1 z2 l1 l2 c1 c2 h1 h2 hz1 hz2 n hn (fun i => 120 * f i)).2
    simp only [hs, hp] at key
    field_simp
    linear_combination 1200 * key
  · intro hi1 hi2
    obtain ⟨k0, k1⟩ := twoPole_first z1 z2 l1 l2 c1 c2 h1 h2 hz1 hz2 n hn (fun i => 120 * f i) hi1 hi2
    simp only [hs, hp] at k0 k1
    constructor
    · field_simp
      linear_combination 1200 * k0
    · field_simp
      linear_combination 1200 * k1

/-- **C18-T3 (`resize_to_shape`).** `resize_to(im, nsize, order)` (the wrapper model `resizeTo`, transliterated from
`resize.py`: length check, `out = np.empty(nsize)`, `zoom(…, out=out)`) raises exactly when `len(nsize) != im.ndim`,
and otherwise returns `zoom`'s result onto the requested shape: the shape is **exactly** `nsize` for every list of
target lengths, and everything proved about `zoomGlue` (coordinate map, corners, interpolation) applies. -/
theorem C18_resize_to_shape {K : Type} [Field K] [LinearOrder K] [IsStrictOrderedRing K]
    (fl : K → Int) (pre : Img K → Img K) (order : Nat) (im : Img K) (nsize : List Nat) :
    (resizeTo fl pre order im nsize = none ↔ nsize.length ≠ im.shape.length) ∧
    (∀ r, resizeTo fl pre order im nsize = some r →
      r.shape = nsize ∧ r = zoomGlue fl order .constant 0 (pre im) nsize) := by
  by_cases hl : nsize.length = im.shape.length
  · rw [resizeTo_some fl pre order im nsize hl]
    refine ⟨by simp [hl], ?_⟩
    intro r hr
    simp only [Option.some.injEq] at hr
    subst hr
    exact ⟨rfl, rfl⟩
  · rw [resizeTo_none fl pre order im nsize hl]
    exact ⟨by simp [hl], by intro r hr; cases hr⟩

/-- **C18-T3 (`imresize_shape`).** `imresize(img, nsize, order)` on its integer path (`imresizeInt`, `resize.py` as
repaired by `5b53411`: the requested shape is handed to `zoom` as `out`) returns an array of **exactly** the requested
shape for every integer target — including a length-49 axis resized to 1 sample, where the former `int(s·(n/s))`
gave 0 — and its values are `zoom`'s onto that shape. -/
theorem C18_imresize_shape {K : Type} [Field K] [LinearOrder K] [IsStrictOrderedRing K]
    (fl : K → Int) (pre : Img K → Img K) (order : Nat) (img : Img K) (nsize : List Nat)
    (hl : nsize.length = img.shape.length) :
    imresizeInt fl pre order img nsize = some (zoomGlue fl order .constant 0 (pre img) nsize) ∧
    (zoomGlue fl order .constant 0 (pre img) nsize).shape = nsize ∧
    (∀ data : Array K, (imresizeInt fl pre order { shape := [49], data := data } [1]).map (·.shape) = some [1]) := by
  refine ⟨?_, rfl, ?_⟩
  · unfold imresizeInt
    rw [if_neg (by simp [hl])]
    simp
  · intro data
    simp [imresizeInt, zoomGlue, zoomShift, Img.tabulate]

/-- **C18-T3 (`resize_rgb_to_shape`).** `resize_rgb_to(im, (h', w'), order)` on an `(h, w, 3)` array (`resizeRgbTo`:
`_check_3`, `np.dstack` of `resize_to` of the three channels `im.transpose((2,0,1))`): the result has shape
`(h', w', 3)` exactly, and its entry `(y, x, c)` is entry `(y, x)` of `zoom` applied to channel `c` alone onto
`(h', w')` — the channels are resized independently, each as `resize_to` does; channel `c` is the `(h, w)` array
`im[:, :, c]`. A wrong rank / third axis ≠ 3 raises. -/
theorem C18_resize_rgb_to_shape {K : Type} [Field K] [LinearOrder K] [IsStrictOrderedRing K]
    (fl : K → Int) (pre : Img K → Img K) (order : Nat) (im : Img K) (h w h' w' : Nat)
    (hs : im.shape = [h, w, 3]) :
    ∃ r, resizeRgbTo fl pre order im [h', w'] = some r ∧ r.shape = [h', w', 3] ∧
      (∀ (y x : Int) (c : Nat), 0 ≤ y → y < h' → 0 ≤ x → x < w' → c < 3 →
        r.getD [y, x, (c : Int)] 0
          = (zoomGlue fl order .constant 0 (pre (channel im c)) [h', w']).getD [y, x] 0) ∧
      (∀ c, (channel im c).shape = [h, w]) ∧
      (∀ (y x : Int) (c : Nat), 0 ≤ y → y < h → 0 ≤ x → x < w →
        (channel im c).getD [y, x] 0 = im.getD [y, x, (c : Int)] 0) := by
  refine ⟨_, resizeRgbTo_some fl pre order im h w hs [h', w'] rfl, rfl, ?_, ?_, ?_⟩
  · intro y x c hy0 hy1 hx0 hx1 hc
    have hin : inside ([h', w'] ++ [((List.range 3).map fun c =>
        zoomGlue fl order .constant 0 (pre (channel im c)) [h', w']).length]) [y, x, (c : Int)] = true := by
      simp [inside, hy0, hy1, hx0, hx1]
      omega
    unfold dstack
    rw [tabulate_getD' _ _ _ _ hin]
    have r : List.range 3 = [0, 1, 2] := rfl
    have hc' : c = 0 ∨ c = 1 ∨ c = 2 := by omega
    rcases hc' with rfl | rfl | rfl <;> simp [r]
  · intro c
    rw [channel_shape, hs]; rfl
  · intro y x c hy0 hy1 hx0 hx1
    exact channel_getD im h w 3 hs c y x ⟨hy0, hy1⟩ ⟨hx0, hx1⟩

/-- `resize_rgb_to` raises on anything that is not `(h, w, 3)` -/
example : resizeRgbTo (fun z : ℚ => ⌊z⌋) id 1 { shape := [2, 2], data := #[0, 1, 2, 3] } [2, 2] = none := by
  simp [resizeRgbTo]

/-- **C18 (tie to the source, generated tables).** The code by which the models number a border mode is the code the
current source gives it in both places: `mode2int` of `mahotas/_filters.py` (what the wrappers send) and
`enum ExtendMode` of `mahotas/_filters.h` (what the kernels switch on); neither table has further entries. Both tables
are regenerated from the source on every run. -/
theorem C18_mode_codes_agree (m : Mahotas.Mode) :
    (Mahotas.Generated.pyModes.lookup m.name = some m.code ∧ Mahotas.Generated.cppModes.lookup m.name = some m.code) ∧
    Mahotas.Generated.pyModes.length = 6 ∧ Mahotas.Generated.cppModes.length = 6 :=
  ⟨Mahotas.mode_codes_agree m, Mahotas.mode_tables_complete.1, Mahotas.mode_tables_complete.2.1⟩

/-! ## Round 4 -/

/-- **C18 (`interpolation_property`, orders 4 and 5, any rank).** The two-pole analogue of
`C18_interpolation_property`. Let `c` be what the separable prefilter produces from the samples `f` (`prefilterNd`:
along axis 0, then 1, …, every line goes through `lineFilterL w [z₁, z₂] ini`: `line *= w`, then for each pole the
causal pass from `ini z len line` and the anti-causal pass — `onePole`, the recursions `filterLine` runs — the second
pole on the output of the first), with exact poles (`zᵢ² + λᵢzᵢ + 1 = 0`; order 4: `λ₁+λ₂ = 76`, `λ₁λ₂ = 228`,
`w = 384`; order 5: `λ₁+λ₂ = 26`, `λ₁λ₂ = 64`, `w = 120`), the exact mirror-symmetric initial values of every
causal pass (`MirrorInit`), every axis of at least two samples (on lines of 2 and 3 samples some knots fold back twice:
`twoPole_all_small`). Then `w` is the code's weight
`(1−z₁)(1−1/z₁)(1−z₂)(1−1/z₂)` and at **every** output position whose mapped coordinates are an integer position `js`
inside the array the whole `zoom_shift` model — start knot, the five (six) weights, the **two** mirror-folded knots
per side, tensor sum — returns exactly `f js`. Any rank, any border mode. Not covered: approximate floating-point
poles, the truncated initial sum on long lines. -/
theorem C18_interpolation_property_order4_5 {K : Type} [Field K] [LinearOrder K] [IsStrictOrderedRing K]
    {fl : K → Int} (h : IsFloor fl) (m : Mode) (cval : K) (order : Nat) (z1 z2 l1 l2 w : K)
    (hord : (order = 4 ∧ l1 + l2 = 76 ∧ l1 * l2 = 228 ∧ w = 384) ∨
      (order = 5 ∧ l1 + l2 = 26 ∧ l1 * l2 = 64 ∧ w = 120))
    (h1 : z1 * z1 + l1 * z1 + 1 = 0) (h2 : z2 * z2 + l2 * z2 + 1 = 0)
    (hz1 : z1 * z1 - 1 ≠ 0) (hz2 : z2 * z2 - 1 ≠ 0)
    (ini : K → Nat → (Nat → K) → K) (im : Img K) (hshape : ∀ len ∈ im.shape, 2 ≤ len)
    (hini : ∀ len ∈ im.shape, ∀ z, z = z1 ∨ z = z2 → ∀ s : Nat → K, MirrorInit z len s (ini z len s))
    (f : List Int → K)
    (hdata : ∀ pos, inside im.shape pos = true →
      im.getD pos 0 = prefilterNd (lineFilterL w [z1, z2] ini) im.shape f pos)
    (shifts zooms : List (Option K)) (p js : List Int) (hin : inside im.shape js = true)
    (hc : coordsOf im.shape p shifts zooms = js.map fun (j : Int) => (j : K)) :
    (1 - z1) * (1 - 1 / z1) * ((1 - z2) * (1 - 1 / z2)) = w ∧
    pixel fl order m cval im shifts zooms p = f js := by
  constructor
  · rw [poleWeight_eq z1 l1 h1, poleWeight_eq z2 l2 h2]
    rcases hord with ⟨_, hs, hp, rfl⟩ | ⟨_, hs, hp, rfl⟩ <;> linear_combination 2 * hs + hp
  rw [pixel_at_integer fl order m cval im shifts zooms p js (fun len hl => by have := hshape len hl; omega) hin hc
    _ hdata]
  apply nested_prefilter fl order _ im.shape js f _ hin
  intro len hlen s j h0 hj
  rcases hord with ⟨rfl, hs, hp, rfl⟩ | ⟨rfl, hs, hp, rfl⟩
  · rw [axisComb4 h]
    have := line_inverts2 z1 z2 l1 l2 384 h1 h2 hz1 hz2 (by norm_num) ini len (hshape len hlen) (hini len hlen)
      s j h0 hj
    simp only [hs, hp] at this
    linear_combination (1 / 384 : K) * this
  · rw [axisComb5 h]
    have := line_inverts2 z1 z2 l1 l2 120 h1 h2 hz1 hz2 (by norm_num) ini len (hshape len hlen) (hini len hlen)
      s j h0 hj
    simp only [hs, hp] at this
    linear_combination (1 / 120 : K) * this

/-- **C18 (orders 4 and 5 with the code's own initialisation).** The instance of
`C18_interpolation_property_order4_5` for `ini z len = initFull z (z^(len−1)) len`, the closed form `spline_filter1d`
uses on short lines: no hypothesis on the initial values is left. -/
theorem C18_interpolation_property_order4_5_short_lines {K : Type} [Field K] [LinearOrder K]
    [IsStrictOrderedRing K] {fl : K → Int} (h : IsFloor fl) (m : Mode) (cval : K) (order : Nat)
    (z1 z2 l1 l2 w : K)
    (hord : (order = 4 ∧ l1 + l2 = 76 ∧ l1 * l2 = 228 ∧ w = 384) ∨
      (order = 5 ∧ l1 + l2 = 26 ∧ l1 * l2 = 64 ∧ w = 120))
    (h1 : z1 * z1 + l1 * z1 + 1 = 0) (h2 : z2 * z2 + l2 * z2 + 1 = 0)
    (hz1 : z1 * z1 - 1 ≠ 0) (hz2 : z2 * z2 - 1 ≠ 0)
    (im : Img K) (hshape : ∀ len ∈ im.shape, 2 ≤ len)
    (hP : ∀ len ∈ im.shape, ∀ z, z = z1 ∨ z = z2 → 1 - z ^ (len - 1) * z ^ (len - 1) ≠ 0)
    (f : List Int → K)
    (hdata : ∀ pos, inside im.shape pos = true →
      im.getD pos 0
        = prefilterNd (lineFilterL w [z1, z2] (fun z len s => initFull z (z ^ (len - 1)) len s)) im.shape f pos)
    (shifts zooms : List (Option K)) (p js : List Int) (hin : inside im.shape js = true)
    (hc : coordsOf im.shape p shifts zooms = js.map fun (j : Int) => (j : K)) :
    pixel fl order m cval im shifts zooms p = f js := by
  have hz0 : ∀ z, z = z1 ∨ z = z2 → z ≠ 0 := by
    rintro z (rfl | rfl) rfl
    · simp at h1
    · simp at h2
  exact (C18_interpolation_property_order4_5 h m cval order z1 z2 l1 l2 w hord h1 h2 hz1 hz2 _ im hshape
    (fun len hl z hzz s => initFull_mirrorInit z (hz0 z hzz) len (by have := hshape len hl; omega) (hP len hl z hzz) s)
    f hdata shifts zooms p js hin hc).2

/-- non-vacuity of `lineFilterL`: on a 2-sample line over ℚ, two (non-root) values `1/2`, `1/3`, weight 2, initial
    value `line[0]`: the filtered line is computed, and a one-sample line is returned as it is -/
example : lineFilterL (2 : ℚ) [1 / 2, 1 / 3] (fun _ _ s => s 0) 2 (fun k => ((k + 1 : Nat) : ℚ)) 0 = 7 / 4 ∧
    lineFilterL (2 : ℚ) [1 / 2, 1 / 3] (fun _ _ s => s 0) 1 (fun k => ((k + 1 : Nat) : ℚ)) 0 = 1 := by
  constructor <;> norm_num [lineFilterL, onePole, anticausalRev, causal]

/-- **C18 (integer coordinates anywhere: the border rule, orders 2 and 3, any rank).** Extension of
`C18_interpolation_property` to sources **outside** the array. Same hypotheses on the coefficients (separable one-pole
prefilter of `f`, exact pole, `MirrorInit` initial values), every axis of one sample (not filtered, all knots fold to
it) or at least two. At **every** output position whose mapped
coordinates are an integer vector `js` — anywhere, e.g. an integer shift larger than the array — the whole
`zoom_shift` model (`mapCoord`: `std_like_round` + `fix_offset` for coordinates outside `[0, len−1]`, then start knot,
weights, mirror-folded knots, tensor sum) returns `f` at the position the **mathematical border rule** of the mode
(`specPos`: `borderSpec` coordinate-wise — clamp / modulo / reflect / mirror, `Model/Border.lean`) assigns to `js`,
and `cval` when the mode flags an axis (`constant`, `ignore`): an integer shift is an exact translation with the border
rule filling vacated pixels, for every mode, rank and both orders. -/
theorem C18_interpolation_property_border {K : Type} [Field K] [LinearOrder K] [IsStrictOrderedRing K]
    {fl : K → Int} (h : IsFloor fl) (m : Mode) (cval : K) (order : Nat) (lam z : K)
    (hord : (order = 2 ∧ lam = 6) ∨ (order = 3 ∧ lam = 4))
    (hz : z * z + lam * z + 1 = 0) (hz1 : z * z - 1 ≠ 0)
    (ini : Nat → (Nat → K) → K) (im : Img K) (hshape : ∀ len ∈ im.shape, len = 1 ∨ 2 ≤ len)
    (hini : ∀ len ∈ im.shape, 2 ≤ len → ∀ s : Nat → K, MirrorInit z len s (ini len s))
    (f : List Int → K)
    (hdata : ∀ pos, inside im.shape pos = true →
      im.getD pos 0 = prefilterNd (lineFilter1 z (2 + lam) ini) im.shape f pos)
    (shifts zooms : List (Option K)) (p js : List Int) (hl : js.length = im.shape.length)
    (hc : coordsOf im.shape p shifts zooms = js.map fun (j : Int) => (j : K)) :
    pixel fl order m cval im shifts zooms p
      = match specPos m im.shape js with
        | some js' => f js'
        | none => cval := by
  have hpos : ∀ len ∈ im.shape, 0 < len := fun len hl' => by have := hshape len hl'; omega
  apply pixel_border_of_core h order m cval im shifts zooms p js hpos hl hc f
  intro js' hin
  rw [nestedSum_inside fl order im js' hpos hin _ hdata]
  apply nested_prefilter fl order _ im.shape js' f _ hin
  intro len hlen s j h0 h1
  rcases hshape len hlen with rfl | hlen2
  · -- an axis with a single sample: every knot folds to it, the weights sum to one, the line is not filtered
    have hj : j = 0 := by omega
    subst hj
    rcases hord with ⟨rfl, rfl⟩ | ⟨rfl, rfl⟩
    · rw [axisComb2 h]; simp only [edgeFold_one, lineFilter1]; norm_num; ring
    · rw [axisComb3 h]; simp only [edgeFold_one, lineFilter1]; norm_num; ring
  rcases hord with ⟨rfl, rfl⟩ | ⟨rfl, rfl⟩
  · rw [axisComb2 h]
    have := line_inverts z 6 hz hz1 (by norm_num) ini len hlen2 (hini len hlen hlen2) s j h0 h1
    have e : edgeFold len j = j := edgeFold_inside len j h0 h1
    rw [e] at this ⊢
    linear_combination this
  · rw [axisComb3 h]
    have := line_inverts z 4 hz hz1 (by norm_num) ini len hlen2 (hini len hlen hlen2) s j h0 h1
    have e : edgeFold len j = j := edgeFold_inside len j h0 h1
    rw [e] at this ⊢
    linear_combination this

/-- **C18 (integer coordinates anywhere, orders 4 and 5).** The two-pole instance of
`C18_interpolation_property_border` (hypotheses of `C18_interpolation_property_order4_5`): at any integer coordinate
vector `js` the model returns `f` at the position the border rule assigns to `js`, or `cval`. -/
theorem C18_interpolation_property_border_order4_5 {K : Type} [Field K] [LinearOrder K] [IsStrictOrderedRing K]
    {fl : K → Int} (h : IsFloor fl) (m : Mode) (cval : K) (order : Nat) (z1 z2 l1 l2 w : K)
    (hord : (order = 4 ∧ l1 + l2 = 76 ∧ l1 * l2 = 228 ∧ w = 384) ∨
      (order = 5 ∧ l1 + l2 = 26 ∧ l1 * l2 = 64 ∧ w = 120))
    (h1 : z1 * z1 + l1 * z1 + 1 = 0) (h2 : z2 * z2 + l2 * z2 + 1 = 0)
    (hz1 : z1 * z1 - 1 ≠ 0) (hz2 : z2 * z2 - 1 ≠ 0)
    (ini : K → Nat → (Nat → K) → K) (im : Img K) (hshape : ∀ len ∈ im.shape, len = 1 ∨ 2 ≤ len)
    (hini : ∀ len ∈ im.shape, 2 ≤ len → ∀ z, z = z1 ∨ z = z2 → ∀ s : Nat → K, MirrorInit z len s (ini z len s))
    (f : List Int → K)
    (hdata : ∀ pos, inside im.shape pos = true →
      im.getD pos 0 = prefilterNd (lineFilterL w [z1, z2] ini) im.shape f pos)
    (shifts zooms : List (Option K)) (p js : List Int) (hl : js.length = im.shape.length)
    (hc : coordsOf im.shape p shifts zooms = js.map fun (j : Int) => (j : K)) :
    pixel fl order m cval im shifts zooms p
      = match specPos m im.shape js with
        | some js' => f js'
        | none => cval := by
  have hpos : ∀ len ∈ im.shape, 0 < len := fun len hl' => by have := hshape len hl'; omega
  apply pixel_border_of_core h order m cval im shifts zooms p js hpos hl hc f
  intro js' hin
  rw [nestedSum_inside fl order im js' hpos hin _ hdata]
  apply nested_prefilter fl order _ im.shape js' f _ hin
  intro len hlen s j h0 hj
  rcases hshape len hlen with rfl | hlen4
  · have hj0 : j = 0 := by omega
    subst hj0
    rcases hord with ⟨rfl, hs, hp, rfl⟩ | ⟨rfl, hs, hp, rfl⟩
    · rw [axisComb4 h]; simp only [edgeFold_one, lineFilterL]; norm_num; ring
    · rw [axisComb5 h]; simp only [edgeFold_one, lineFilterL]; norm_num; ring
  rcases hord with ⟨rfl, hs, hp, rfl⟩ | ⟨rfl, hs, hp, rfl⟩
  · rw [axisComb4 h]
    have := line_inverts2 z1 z2 l1 l2 384 h1 h2 hz1 hz2 (by norm_num) ini len hlen4 (hini len hlen hlen4)
      s j h0 hj
    simp only [hs, hp] at this
    linear_combination (1 / 384 : K) * this
  · rw [axisComb5 h]
    have := line_inverts2 z1 z2 l1 l2 120 h1 h2 hz1 hz2 (by norm_num) ini len hlen4 (hini len hlen hlen4)
      s j h0 hj
    simp only [hs, hp] at this
    linear_combination (1 / 120 : K) * this

/-- **C18 (order 1 at integer coordinates anywhere, shift or zoom, any rank).** Without any prefilter: at every output
position whose mapped coordinates are an integer vector `js` (an integer shift, a unit zoom, the corners of a zoom, an
integer zoom ratio, …) the `zoom_shift` model at order 1 returns the input sample at the position the border rule
assigns to `js` (`specPos`), or `cval`; axes of length 1 included. Generalises `C18_integer_shift_exact` (shifts only)
to every coordinate map. -/
theorem C18_order1_integer_coordinates {K : Type} [Field K] [LinearOrder K] [IsStrictOrderedRing K]
    {fl : K → Int} (h : IsFloor fl) (m : Mode) (cval : K) (im : Img K) (hpos : ∀ len ∈ im.shape, 0 < len)
    (shifts zooms : List (Option K)) (p js : List Int) (hl : js.length = im.shape.length)
    (hc : coordsOf im.shape p shifts zooms = js.map fun (j : Int) => (j : K)) :
    pixel fl 1 m cval im shifts zooms p
      = match specPos m im.shape js with
        | some js' => im.getD js' 0
        | none => cval :=
  pixel_border_of_core h 1 m cval im shifts zooms p js hpos hl hc (fun js' => im.getD js' 0)
    (fun js' hin => core_order1 h im hpos js' hin)

/-- non-vacuity of the border rule: on an axis of 4 samples the integer coordinate `−1` reads sample 1 in `mirror`
mode, sample 0 in `nearest`, sample 3 in `wrap`, and is flagged in `constant` mode; coordinate 5 reads sample 2 in
`reflect` mode -/
example : specPos .mirror [4] [-1] = some [1] ∧ specPos .nearest [4] [-1] = some [0] ∧
    specPos .wrap [4] [-1] = some [3] ∧ specPos .constant [4] [-1] = none ∧ specPos .reflect [4] [5] = some [2] := by
  decide

/-- **C18 (corners of `zoom`, any rank).** For every input shape and requested output shape of the same rank and every
**corner** `p` of the output box (every index 0, or `n_out − 1` on an axis with at least two output samples —
`IsCorner`), the full coordinate vector `zoom` maps `p` to is the corresponding corner of the input box (`cornerSrc`:
0 ↦ 0, `n_out − 1 ↦ n_in − 1` on every axis), which lies inside the array; hence the entry of `zoom`'s result
(`zoomGlue`, also what `resize_to` / `imresize` / `resize_rgb_to` return per channel) at `p` is
* order 1: the input sample at that corner (no hypothesis);
* orders 2, 3: `f` at that corner when the coefficients are the one-pole prefilter of `f`
  (hypotheses of `C18_interpolation_property`);
* orders 4, 5: likewise with the two-pole prefilter (hypotheses of `C18_interpolation_property_order4_5`).
Corner samples go to corner samples, in every rank and for every mode. -/
theorem C18_zoom_corners {K : Type} [Field K] [LinearOrder K] [IsStrictOrderedRing K]
    {fl : K → Int} (h : IsFloor fl) (m : Mode) (cval : K) (im : Img K) (oshape : List Nat) (p : List Int)
    (hrank : im.shape.length = oshape.length) (hcorner : IsCorner oshape p)
    (hpos : ∀ len ∈ im.shape, 0 < len) (hopos : ∀ n ∈ oshape, 0 < n) :
    coordsOf im.shape p (oshape.map fun _ => (none : Option K))
        ((im.shape.zip oshape).map fun io => some (zoomFactor io.1 io.2 : K))
      = (cornerSrc im.shape p).map (fun (j : Int) => (j : K)) ∧
    inside im.shape (cornerSrc im.shape p) = true ∧
    (zoomGlue fl 1 m cval im oshape).getD p 0 = im.getD (cornerSrc im.shape p) 0 ∧
    (∀ (order : Nat) (lam z : K) (ini : Nat → (Nat → K) → K) (f : List Int → K),
      ((order = 2 ∧ lam = 6) ∨ (order = 3 ∧ lam = 4)) → z * z + lam * z + 1 = 0 → z * z - 1 ≠ 0 →
      (∀ len ∈ im.shape, 2 ≤ len) → (∀ len ∈ im.shape, ∀ s : Nat → K, MirrorInit z len s (ini len s)) →
      (∀ pos, inside im.shape pos = true →
        im.getD pos 0 = prefilterNd (lineFilter1 z (2 + lam) ini) im.shape f pos) →
      (zoomGlue fl order m cval im oshape).getD p 0 = f (cornerSrc im.shape p)) ∧
    (∀ (order : Nat) (z1 z2 l1 l2 w : K) (ini : K → Nat → (Nat → K) → K) (f : List Int → K),
      ((order = 4 ∧ l1 + l2 = 76 ∧ l1 * l2 = 228 ∧ w = 384) ∨ (order = 5 ∧ l1 + l2 = 26 ∧ l1 * l2 = 64 ∧ w = 120)) →
      z1 * z1 + l1 * z1 + 1 = 0 → z2 * z2 + l2 * z2 + 1 = 0 → z1 * z1 - 1 ≠ 0 → z2 * z2 - 1 ≠ 0 →
      (∀ len ∈ im.shape, 2 ≤ len) →
      (∀ len ∈ im.shape, ∀ z, z = z1 ∨ z = z2 → ∀ s : Nat → K, MirrorInit z len s (ini z len s)) →
      (∀ pos, inside im.shape pos = true →
        im.getD pos 0 = prefilterNd (lineFilterL w [z1, z2] ini) im.shape f pos) →
      (zoomGlue fl order m cval im oshape).getD p 0 = f (cornerSrc im.shape p)) := by
  have hc := coordsOf_corner (K := K) im.shape oshape p hrank hcorner
  have hin := cornerSrc_inside im.shape oshape p hrank hcorner hpos
  have hpin := isCorner_inside oshape p hcorner hopos
  have hget : ∀ order, (zoomGlue fl order m cval im oshape).getD p 0
      = pixel fl order m cval im (oshape.map fun _ => none)
          ((im.shape.zip oshape).map fun io => some (zoomFactor io.1 io.2)) p := by
    intro order
    unfold zoomGlue zoomShift
    exact tabulate_getD' _ _ _ _ hpin
  refine ⟨hc, hin, ?_, ?_, ?_⟩
  · rw [hget, pixel_at_integer fl 1 m cval im _ _ p _ hpos hin hc (fun pos => im.getD pos 0) (fun _ _ => rfl)]
    exact core_order1 h im hpos _ hin
  · intro order lam z ini f hord hz hz1 hshape hini hdata
    rw [hget]
    exact C18_interpolation_property h m cval order lam z hord hz hz1 ini im hshape hini f hdata _ _ p _ hin hc
  · intro order z1 z2 l1 l2 w ini f hord h1 h2 hz1 hz2 hshape hini hdata
    rw [hget]
    exact (C18_interpolation_property_order4_5 h m cval order z1 z2 l1 l2 w hord h1 h2 hz1 hz2 ini im hshape hini f
      hdata _ _ p _ hin hc).2

/-- non-vacuity: `(2, 0)` is a corner of a `3 × 2` output box and corresponds to the corner `(4, 0)` of a `5 × 7`
input box -/
example : IsCorner [3, 2] [2, 0] ∧ cornerSrc [5, 7] [2, 0] = [4, 0] := by
  constructor
  · simp [IsCorner]
  · rfl

/-- **C18 (the output shape of `zoom` / `imresize` by factor).** `zoomOutShape` is `interpolate.zoom`'s
`output_shape = tuple([int(s * z) for s, z in zip(array.shape, zoom)])` (`int` truncates toward zero: `truncI`; Python's
`round` is **not** involved) after the length check; `none` = the call raises. Over an ordered field with a floor
function, for every shape:
(1) a factor vector of the wrong length raises; (2) non-negative factors never raise; (3) a successful call returns one
length per axis, each `int(s_r · z_r)`; (4) for `z ≥ 0` that length is `⌊s·z⌋`: `len ≤ s·z < len + 1`; (5) it is
monotone in the factor; (6) the factor 1 (broadcast to every axis) asks for the input's own shape; (7) natural factors
`k_r` ask for the exact multiples `s_r·k_r`; (8) `zoomByFactor` (hence `imresizeFactor`) returns `zoom`'s result onto
exactly that shape — everything proved about `zoomGlue` (coordinate map, corners, interpolation) applies. -/
theorem C18_zoom_output_shape {K : Type} [Field K] [LinearOrder K] [IsStrictOrderedRing K]
    {fl : K → Int} (h : IsFloor fl) (shape : List Nat) :
    (∀ zs : List K, zs.length ≠ shape.length → zoomOutShape fl shape zs = none) ∧
    (∀ zs : List K, zs.length = shape.length → (∀ z ∈ zs, 0 ≤ z) → ∃ os, zoomOutShape fl shape zs = some os) ∧
    (∀ (zs : List K) (os : List Nat), zoomOutShape fl shape zs = some os →
      os.length = shape.length ∧ os.map (fun (o : Nat) => (o : Int)) = List.zipWith (zoomOutLen fl) shape zs) ∧
    (∀ (s : Nat) (z : K), 0 ≤ z →
      0 ≤ zoomOutLen fl s z ∧ ((zoomOutLen fl s z : Int) : K) ≤ (s : K) * z ∧
        (s : K) * z < ((zoomOutLen fl s z : Int) : K) + 1) ∧
    (∀ (s : Nat) (z z' : K), z ≤ z' → zoomOutLen fl s z ≤ zoomOutLen fl s z') ∧
    zoomOutShape fl shape (zoomFactors shape.length true [(1 : K)]) = some shape ∧
    (∀ ks : List Nat, ks.length = shape.length →
      zoomOutShape fl shape (ks.map fun (k : Nat) => (k : K)) = some (List.zipWith (· * ·) shape ks)) ∧
    (∀ (pre : Img K → Img K) (order : Nat) (m : Mode) (cval : K) (im : Img K) (scalar : Bool) (zs : List K)
      (r : Img K), zoomByFactor fl pre order m cval im scalar zs = some r →
        ∃ os, zoomOutShape fl im.shape (zoomFactors im.shape.length scalar zs) = some os ∧
          r = zoomGlue fl order m cval (pre im) os ∧ r.shape = os) := by
  refine ⟨fun zs hl => zoomOutShape_length_ne fl shape zs hl, fun zs hl hz => zoomOutShape_nonneg h shape zs hl hz,
    fun zs os hs => (zoomOutShape_some fl shape zs os hs).2, ?_, fun s z z' hz => zoomOutLen_mono h s z z' hz,
    ?_, fun ks hl => zoomOutShape_nat h shape ks hl, ?_⟩
  · intro s z hz
    exact (truncI_bounds h ((s : K) * z)).1 (mul_nonneg (Nat.cast_nonneg s) hz)
  · simp only [zoomFactors, if_true]
    exact zoomOutShape_unit h shape
  · intro pre order m cval im scalar zs r hr
    unfold zoomByFactor at hr
    cases hs : zoomOutShape fl im.shape (zoomFactors im.shape.length scalar zs) with
    | none => rw [hs] at hr; cases hr
    | some os =>
      rw [hs] at hr
      simp only [Option.some.injEq] at hr
      subst hr
      exact ⟨os, rfl, rfl, rfl⟩

/-- non-vacuity: over ℚ with the true floor, a `3 × 4` array zoomed by `(3/2, 1/2)` gets the shape `(4, 2)`, by `−1/2`
the call raises, and the length 49 with the factor `1/49` gives 1 over ℚ (the double product `49·(1/49)` is below 1:
the defect `5b53411` of `imresize` was a floating-point effect) -/
example : zoomOutShape (fun z : ℚ => ⌊z⌋) [3, 4] [3 / 2, 1 / 2] = some [4, 2] ∧
    zoomOutShape (fun z : ℚ => ⌊z⌋) [3] [-1 / 2] = none ∧
    zoomOutShape (fun z : ℚ => ⌊z⌋) [49] [1 / 49] = some [1] := by
  have fl0 : ∀ (q : ℚ) (n : Int), (n : ℚ) ≤ q → q < (n : ℚ) + 1 → ⌊q⌋ = n := fun q n h0 h1 => by
    rw [Int.floor_eq_iff]; exact ⟨h0, h1⟩
  have l1 : zoomOutLen (fun z : ℚ => ⌊z⌋) 3 (3 / 2) = 4 := by
    unfold zoomOutLen
    rw [truncI_nonneg _ _ (by norm_num)]
    exact fl0 _ 4 (by norm_num) (by norm_num)
  have l2 : zoomOutLen (fun z : ℚ => ⌊z⌋) 4 (1 / 2) = 2 := by
    unfold zoomOutLen
    rw [truncI_nonneg _ _ (by norm_num)]
    exact fl0 _ 2 (by norm_num) (by norm_num)
  have l3 : zoomOutLen (fun z : ℚ => ⌊z⌋) 3 (-1 / 2) = -1 := by
    unfold zoomOutLen
    rw [truncI_neg _ _ (by norm_num)]
    have : ⌊-(((3 : Nat) : ℚ) * (-1 / 2))⌋ = 1 := fl0 _ 1 (by norm_num) (by norm_num)
    simp only [this]
  have l4 : zoomOutLen (fun z : ℚ => ⌊z⌋) 49 (1 / 49) = 1 := by
    unfold zoomOutLen
    rw [truncI_nonneg _ _ (by norm_num)]
    exact fl0 _ 1 (by norm_num) (by norm_num)
  refine ⟨?_, ?_, ?_⟩
  · simp only [zoomOutShape, l1, l2]; decide
  · simp only [zoomOutShape, l3]; decide
  · simp only [zoomOutShape, l4]; decide

/-- **C18 (integer images: the stored value is the interpolated value truncated toward zero).** `resize_to` on an
image of an integer dtype (`resizeToDT`: `out = np.empty(nsize, dtype=im.dtype)`, `zoom` in `float64`, then
`o_out[:] = out[:]`) raises exactly when `resize_to` does, returns exactly the requested shape, and every stored entry
is `castToInt` of the `float64` entry of `resize_to`'s result: (1) an integer value inside the dtype's range is stored
unchanged — with the interpolation theorems: corners, unit zoom and integer ratios are exact over a field; (2) any
other value `v` is replaced by the integer between 0 and `v` less than one away from it (`int(v)`), so the statement's
"reproduces the samples" holds on integer images only up to that truncation — in floating point a corner value
`2.9999999999999996` is stored as 2 (observed; integer arrays are outside the statement's quantifier). -/
theorem C18_integer_dtype_truncation {K : Type} [Field K] [LinearOrder K] [IsStrictOrderedRing K]
    {fl : K → Int} (h : IsFloor fl) (pre : Img K → Img K) (order : Nat) (dt : DT) (im : Img K)
    (nsize : List Nat) :
    (resizeToDT fl pre order dt im nsize = none ↔ nsize.length ≠ im.shape.length) ∧
    (∀ r, resizeToDT fl pre order dt im nsize = some r →
      r.shape = nsize ∧
      r.data = (zoomGlue fl order .constant 0 (pre im) nsize).data.map (castToInt fl dt)) ∧
    (∀ n : Int, dt.lo ≤ n → n ≤ dt.hi → castToInt fl dt (n : K) = some n) ∧
    (∀ (v : K) (t : Int), castToInt fl dt v = some t →
      dt.lo ≤ t ∧ t ≤ dt.hi ∧
      (0 ≤ v → 0 ≤ t ∧ (t : K) ≤ v ∧ v < (t : K) + 1) ∧ (v ≤ 0 → t ≤ 0 ∧ v ≤ (t : K) ∧ (t : K) - 1 < v)) := by
  refine ⟨?_, ?_, fun n hlo hhi => castToInt_int h dt n hlo hhi, ?_⟩
  · unfold resizeToDT
    by_cases hl : nsize.length = im.shape.length
    · rw [resizeTo_some fl pre order im nsize hl]; simp [hl]
    · rw [resizeTo_none fl pre order im nsize hl]; simp [hl]
  · intro r hr
    unfold resizeToDT at hr
    by_cases hl : nsize.length = im.shape.length
    · rw [resizeTo_some fl pre order im nsize hl] at hr
      simp only [Option.some.injEq] at hr
      subst hr
      exact ⟨rfl, rfl⟩
    · rw [resizeTo_none fl pre order im nsize hl] at hr
      cases hr
  · intro v t hc
    obtain ⟨rfl, hlo, hhi⟩ := castToInt_some fl dt v t hc
    exact ⟨hlo, hhi, (truncI_bounds h v).1, (truncI_bounds h v).2⟩

/-- non-vacuity: over ℚ, `uint8`: `5/2` is stored as 2, `−1/3` as 0, 255 as 255, and `256` is outside the range -/
example : castToInt (fun z : ℚ => ⌊z⌋) (dtU 8) (5 / 2) = some 2 ∧ castToInt (fun z : ℚ => ⌊z⌋) (dtU 8) (-1 / 3) = some 0 ∧
    castToInt (fun z : ℚ => ⌊z⌋) (dtU 8) 255 = some 255 ∧ castToInt (fun z : ℚ => ⌊z⌋) (dtU 8) 256 = none := by
  have fl0 : ∀ (q : ℚ) (n : Int), (n : ℚ) ≤ q → q < (n : ℚ) + 1 → ⌊q⌋ = n := fun q n h0 h1 => by
    rw [Int.floor_eq_iff]; exact ⟨h0, h1⟩
  have t1 : truncI (fun z : ℚ => ⌊z⌋) (5 / 2) = 2 := by
    rw [truncI_nonneg _ _ (by norm_num)]; exact fl0 _ 2 (by norm_num) (by norm_num)
  have t2 : truncI (fun z : ℚ => ⌊z⌋) (-1 / 3) = 0 := by
    rw [truncI_neg _ _ (by norm_num)]
    have : ⌊-(-1 / 3 : ℚ)⌋ = 0 := fl0 _ 0 (by norm_num) (by norm_num)
    simp only [this]; rfl
  have t3 : truncI (fun z : ℚ => ⌊z⌋) 255 = 255 := by
    rw [truncI_nonneg _ _ (by norm_num)]; exact fl0 _ 255 (by norm_num) (by norm_num)
  have t4 : truncI (fun z : ℚ => ⌊z⌋) 256 = 256 := by
    rw [truncI_nonneg _ _ (by norm_num)]; exact fl0 _ 256 (by norm_num) (by norm_num)
  refine ⟨?_, ?_, ?_, ?_⟩
  · simp only [castToInt, t1]; decide
  · simp only [castToInt, t2]; decide
  · simp only [castToInt, t3]; decide
  · simp only [castToInt, t4]; decide

/-- **C18 (the prefilter the driver runs is the separable prefilter of the theorems).** `splineFilterP`, `filterAxisP`,
`filterLineP` (`Model/C18.lean`) are the array loop of `interpolate.spline_filter` / `spline_filter1d`, polymorphic in
the scalar type; the driver's `splineFilter order` **is** `splineFilterP (filterLineP (poleWeight (poles order))
(poles order) (iniCode cutLen pow))` at `Float` for every order > 1 (last conjunct, by unfolding). Over any field, for
every weight `w`, list of poles `ps`, shape, rank and every initialisation rule that reads only the line (`IniLocal`;
the code's rule `iniCode cut pw` — truncated sum below the cut, closed form otherwise — is local whatever `cut` and `pw`
are): the result has the input's shape and at **every** position inside the array it holds
`prefilterNd (lineFilterL w ps ini)` of the input samples — axis 0 first, then axis 1, …, every line replaced by
`line·w` run through the causal/anti-causal recursions of every pole (`onePole`), axes of length ≤ 1 left alone. So the
hypothesis `hdata` of the interpolation theorems is what the driver's own prefilter establishes. -/
theorem C18_spline_filter_is_prefilterNd {K : Type} [Field K] [LinearOrder K] [IsStrictOrderedRing K]
    (w : K) (ps : List K) (im : Img K) :
    (∀ ini : K → Nat → (Nat → K) → K, IniLocal ini →
      (splineFilterP (filterLineP w ps ini) im).shape = im.shape ∧
      ∀ p, inside im.shape p = true →
        (splineFilterP (filterLineP w ps ini) im).getD p 0
          = prefilterNd (lineFilterL w ps ini) im.shape (fun q => im.getD q 0) p) ∧
    (∀ (cut : K → Int) (pw : K → Nat → K), IniLocal (iniCode cut pw)) ∧
    (∀ (F : Array K → Array K) (axis : Nat) (p : List Int), inside im.shape p = true →
      (filterAxisP F im axis).shape = im.shape ∧
      (filterAxisP F im axis).getD p 0
        = if im.shape.getD axis 1 ≤ 1 then im.getD p 0
          else (F (lineOf im axis p (im.shape.getD axis 1))).getD (p.getD axis 0).toNat 0) :=
  ⟨fun ini hini => splineFilterP_eq_prefilterNd w ps ini hini im, fun cut pw => iniCode_local cut pw,
    fun F axis p hin => ⟨filterAxisP_shape F im axis, by
      rw [filterAxisP_getD F im axis p hin]
      unfold axisFn flOf
      by_cases hl : im.shape.getD axis 1 ≤ 1
      · simp only [hl, if_true]; rw [set_getD_self im.shape p axis hin]
      · simp only [hl, if_false, lineOf, Nat.cast_zero]⟩⟩

/-- non-vacuity: over ℚ, one (non-root) pole `1/2`, weight 2, initial value `line[0]` (a local rule): the array loop
on the `2 × 1` image `[[1],[2]]` filters the first axis (`7/2` at `(0,0)`) and leaves the axis of length 1 alone -/
example : (splineFilterP (filterLineP (2 : ℚ) [1 / 2] (fun _ _ s => s 0)) { shape := [2, 1], data := #[1, 2] }).getD
    [0, 0] 0 = prefilterNd (lineFilterL (2 : ℚ) [1 / 2] (fun _ _ s => s 0)) [2, 1]
      (fun q => ({ shape := [2, 1], data := #[1, 2] } : Img ℚ).getD q 0) [0, 0] ∧
    IniLocal (fun (_ : ℚ) (_ : Nat) (s : Nat → ℚ) => s 0) := by
  have hloc : IniLocal (fun (_ : ℚ) (_ : Nat) (s : Nat → ℚ) => s 0) := fun z len s s' hlen h => h 0 (by omega)
  exact ⟨(splineFilterP_eq_prefilterNd (2 : ℚ) [1 / 2] _ hloc { shape := [2, 1], data := #[1, 2] }).2 [0, 0] rfl, hloc⟩

/-- **C18 (the interpolation property of what the driver computes, orders 2–5, any rank, any mode, sources anywhere).**
The chain closed: let `coeffs = splineFilterP (filterLineP w ps (iniCode cut pw)) im` — the array computation the
driver's `spline_filter` runs (`C18_spline_filter_is_prefilterNd`), with exact poles and their weight (order 2:
`ps = [z₁]`, `z₁² + 6z₁ + 1 = 0`, `w = 8`; order 3: `z₁² + 4z₁ + 1 = 0`, `w = 6`; order 4: `ps = [z₁, z₂]`,
`λ₁+λ₂ = 76`, `λ₁λ₂ = 228`, `w = 384`; order 5: `26`, `64`, `120`), on lines where the code uses its closed-form
initialisation (`cut z ≥ len` for every pole and axis, `pw z n = zⁿ`; every axis has one sample — it is then left
alone by the prefilter and every knot folds to it — or more; no axis is empty). Then at
every output position `p` of `zoom_shift` on `coeffs` (any shifts / zoom factors) whose mapped coordinates are an
integer vector `js`, the result is the **input sample** `im[js']` at the position the border rule of the mode assigns to
`js` (`js' = js` inside the array), or `cval` when the mode flags it: zero shift and unit zoom return the input,
integer shifts are exact translations with the border rule in vacated pixels, corners go to corners — for the composite
`spline_filter` + `zoom_shift` as the driver runs it. Not covered: approximate floating-point poles / `pow`, the
truncated initial sum on long lines (`C18_prefilter_truncation_bound`). -/
theorem C18_interpolation_property_driver {K : Type} [Field K] [LinearOrder K] [IsStrictOrderedRing K]
    {fl : K → Int} (h : IsFloor fl) (m : Mode) (cval : K) (order : Nat) (z1 z2 l1 l2 w : K) (ps : List K)
    (hord : (order = 2 ∧ ps = [z1] ∧ l1 = 6 ∧ w = 8) ∨ (order = 3 ∧ ps = [z1] ∧ l1 = 4 ∧ w = 6) ∨
      (order = 4 ∧ ps = [z1, z2] ∧ l1 + l2 = 76 ∧ l1 * l2 = 228 ∧ w = 384) ∨
      (order = 5 ∧ ps = [z1, z2] ∧ l1 + l2 = 26 ∧ l1 * l2 = 64 ∧ w = 120))
    (h1 : z1 * z1 + l1 * z1 + 1 = 0) (h2 : z2 * z2 + l2 * z2 + 1 = 0)
    (hz1 : z1 * z1 - 1 ≠ 0) (hz2 : z2 * z2 - 1 ≠ 0)
    (cut : K → Int) (pw : K → Nat → K) (im : Img K)
    (hshape : ∀ len ∈ im.shape, 0 < len)
    (hcut : ∀ len ∈ im.shape, 2 ≤ len → ∀ z ∈ ps, ¬ cut z < (len : Int))
    (hpw : ∀ len ∈ im.shape, 2 ≤ len → ∀ z ∈ ps, pw z (len - 1) = z ^ (len - 1))
    (hP : ∀ len ∈ im.shape, 2 ≤ len → ∀ z ∈ ps, 1 - z ^ (len - 1) * z ^ (len - 1) ≠ 0)
    (shifts zooms : List (Option K)) (p js : List Int) (hl : js.length = im.shape.length)
    (hc : coordsOf im.shape p shifts zooms = js.map fun (j : Int) => (j : K)) :
    pixel fl order m cval (splineFilterP (filterLineP w ps (iniCode cut pw)) im) shifts zooms p
      = match specPos m im.shape js with
        | some js' => im.getD js' 0
        | none => cval := by
  obtain ⟨hs, hg⟩ := splineFilterP_eq_prefilterNd w ps (iniCode cut pw) (iniCode_local cut pw) im
  have hz0 : ∀ (z l : K), z * z + l * z + 1 = 0 → z ≠ 0 := by
    rintro z l hz rfl
    simp at hz
  rcases hord with ⟨rfl, rfl, rfl, rfl⟩ | ⟨rfl, rfl, rfl, rfl⟩ | ⟨rfl, rfl, hsum, hprod, rfl⟩ |
    ⟨rfl, rfl, hsum, hprod, rfl⟩
  · have := C18_interpolation_property_border h m cval 2 6 z1 (Or.inl ⟨rfl, rfl⟩) h1 hz1 (iniCode cut pw z1)
      (splineFilterP (filterLineP 8 [z1] (iniCode cut pw)) im)
      (by rw [hs]; intro len hl'; have := hshape len hl'; omega)
      (by rw [hs]; intro len hl' hlen s
          exact iniCode_mirrorInit cut pw z1 (hz0 z1 6 h1) len hlen
            (hcut len hl' hlen z1 (by simp)) (hpw len hl' hlen z1 (by simp)) (hP len hl' hlen z1 (by simp)) s)
      (fun q => im.getD q 0)
      (by rw [hs]; intro pos hpos; rw [hg pos hpos, lineFilterL_single]; norm_num)
      shifts zooms p js (by rw [hs]; exact hl) (by rw [hs]; exact hc)
    rw [hs] at this
    exact this
  · have := C18_interpolation_property_border h m cval 3 4 z1 (Or.inr ⟨rfl, rfl⟩) h1 hz1 (iniCode cut pw z1)
      (splineFilterP (filterLineP 6 [z1] (iniCode cut pw)) im)
      (by rw [hs]; intro len hl'; have := hshape len hl'; omega)
      (by rw [hs]; intro len hl' hlen s
          exact iniCode_mirrorInit cut pw z1 (hz0 z1 4 h1) len hlen
            (hcut len hl' hlen z1 (by simp)) (hpw len hl' hlen z1 (by simp)) (hP len hl' hlen z1 (by simp)) s)
      (fun q => im.getD q 0)
      (by rw [hs]; intro pos hpos; rw [hg pos hpos, lineFilterL_single]; norm_num)
      shifts zooms p js (by rw [hs]; exact hl) (by rw [hs]; exact hc)
    rw [hs] at this
    exact this
  · have := C18_interpolation_property_border_order4_5 h m cval 4 z1 z2 l1 l2 384
      (Or.inl ⟨rfl, hsum, hprod, rfl⟩) h1 h2 hz1 hz2 (iniCode cut pw)
      (splineFilterP (filterLineP 384 [z1, z2] (iniCode cut pw)) im)
      (by rw [hs]; intro len hl'; have := hshape len hl'; omega)
      (by rw [hs]; intro len hl' hlen z hz s
          rcases hz with rfl | rfl
          · exact iniCode_mirrorInit cut pw z (hz0 z l1 h1) len hlen
              (hcut len hl' hlen z (by simp)) (hpw len hl' hlen z (by simp)) (hP len hl' hlen z (by simp)) s
          · exact iniCode_mirrorInit cut pw z (hz0 z l2 h2) len hlen
              (hcut len hl' hlen z (by simp)) (hpw len hl' hlen z (by simp)) (hP len hl' hlen z (by simp)) s)
      (fun q => im.getD q 0)
      (by rw [hs]; intro pos hpos; rw [hg pos hpos])
      shifts zooms p js (by rw [hs]; exact hl) (by rw [hs]; exact hc)
    rw [hs] at this
    exact this
  · have := C18_interpolation_property_border_order4_5 h m cval 5 z1 z2 l1 l2 120
      (Or.inr ⟨rfl, hsum, hprod, rfl⟩) h1 h2 hz1 hz2 (iniCode cut pw)
      (splineFilterP (filterLineP 120 [z1, z2] (iniCode cut pw)) im)
      (by rw [hs]; intro len hl'; have := hshape len hl'; omega)
      (by rw [hs]; intro len hl' hlen z hz s
          rcases hz with rfl | rfl
          · exact iniCode_mirrorInit cut pw z (hz0 z l1 h1) len hlen
              (hcut len hl' hlen z (by simp)) (hpw len hl' hlen z (by simp)) (hP len hl' hlen z (by simp)) s
          · exact iniCode_mirrorInit cut pw z (hz0 z l2 h2) len hlen
              (hcut len hl' hlen z (by simp)) (hpw len hl' hlen z (by simp)) (hP len hl' hlen z (by simp)) s)
      (fun q => im.getD q 0)
      (by rw [hs]; intro pos hpos; rw [hg pos hpos])
      shifts zooms p js (by rw [hs]; exact hl) (by rw [hs]; exact hc)
    rw [hs] at this
    exact this

/-- **C18 (the `Float` driver instantiates the polymorphic prefilter).** What the native driver runs for
`spline_filter` (`kind=sf`, and inside every `kind=zs` / `rs` / `rsi` line with a prefilter) is, for every order > 1,
the polymorphic array loop `splineFilterP (filterLineP weight poles rule)` at `Float` with the code's `poles order`,
their `poleWeight`, and the code's initialisation rule `iniCode cutLen pow`; `spline_filter1d` along one axis is
`filterAxisP` of the same line filter; orders ≤ 1 return the input. So `C18_spline_filter_is_prefilterNd` and
`C18_interpolation_property_driver` speak about the definitions the driver executes (instantiated at an exact field). -/
theorem C18_driver_prefilter_instance (order : Nat) (im : Img Float) :
    letI : NatCast Float := ⟨Float.ofNat⟩
    letI : IntCast Float := ⟨Float.ofInt⟩
    (1 < order → splineFilter order im
      = splineFilterP (filterLineP (poleWeight (poles order)) (poles order)
          (iniCode cutLen (fun p n => Float.pow p (Float.ofNat n)))) im) ∧
    (order ≤ 1 → splineFilter order im = im) ∧
    (∀ axis, filterAxis order im axis
      = filterAxisP (filterLineP (poleWeight (poles order)) (poles order)
          (iniCode cutLen (fun p n => Float.pow p (Float.ofNat n)))) im axis) := by
  refine ⟨?_, ?_, fun axis => rfl⟩
  · intro ho
    unfold splineFilter
    rw [if_neg (by omega)]
    rfl
  · intro ho
    unfold splineFilter
    rw [if_pos ho]

/-- non-vacuity: the driver's prefilter leaves an order-1 request alone and keeps the shape for order 3 -/
example : (splineFilter 1 { shape := [2], data := #[1.0, 2.0] }).shape = [2] ∧
    (filterAxis 3 { shape := [1], data := #[1.0] } 0).shape = [1] := by
  constructor <;> rfl

/-- non-vacuity of the pole hypotheses of the interpolation theorems: over ℝ the code's poles `√8 − 3` (order 2) and
`√3 − 2` (order 3) are exact roots of `z² + 6z + 1` / `z² + 4z + 1`, different from 0 and from ±1 -/
example : (∃ z : ℝ, z * z + 6 * z + 1 = 0 ∧ z * z - 1 ≠ 0 ∧ z ≠ 0) ∧
    (∃ z : ℝ, z * z + 4 * z + 1 = 0 ∧ z * z - 1 ≠ 0 ∧ z ≠ 0) := by
  have sq : ∀ a : ℝ, 0 ≤ a → Real.sqrt a * Real.sqrt a = a := fun a ha => Real.mul_self_sqrt ha
  have lt : ∀ a b : ℝ, 0 ≤ a → a < b → Real.sqrt a < Real.sqrt b := fun a b ha hab => Real.sqrt_lt_sqrt ha hab
  have s4 : Real.sqrt 4 = 2 := by
    rw [show (4 : ℝ) = 2 ^ 2 by norm_num, Real.sqrt_sq (by norm_num)]
  have s9 : Real.sqrt 9 = 3 := by
    rw [show (9 : ℝ) = 3 ^ 2 by norm_num, Real.sqrt_sq (by norm_num)]
  have s1 : Real.sqrt 1 = 1 := Real.sqrt_one
  constructor
  · have h := sq 8 (by norm_num)
    have h2 : (2 : ℝ) < Real.sqrt 8 := by rw [← s4]; exact lt 4 8 (by norm_num) (by norm_num)
    have h3 : Real.sqrt 8 < 3 := by rw [← s9]; exact lt 8 9 (by norm_num) (by norm_num)
    refine ⟨Real.sqrt 8 - 3, by nlinarith [h], ?_, by linarith⟩
    intro e
    nlinarith [h, h2, h3]
  · have h := sq 3 (by norm_num)
    have h2 : (1 : ℝ) < Real.sqrt 3 := by rw [← s1]; exact lt 1 3 (by norm_num) (by norm_num)
    have h3 : Real.sqrt 3 < 2 := by rw [← s4]; exact lt 3 4 (by norm_num) (by norm_num)
    refine ⟨Real.sqrt 3 - 2, by nlinarith [h], ?_, by linarith⟩
    intro e
    nlinarith [h, h2, h3]

/-- **C18 (zero shift and unit zoom return the input — for the driver's composite, orders 2–5, any rank, any mode).**
The first clause of the statement for the spline orders. Under the hypotheses of `C18_interpolation_property_driver`
(exact poles and weight, lines on which the code uses its closed-form initialisation, no empty axis) let `coeffs = splineFilterP (filterLineP w ps (iniCode cut pw)) im` be what the driver's `spline_filter`
computes. Then `shift(im, 0)` — `shiftGlue` of `coeffs` with the zero shift vector — and `zoom(im, out of the same
shape)` — `zoomGlue` of `coeffs` onto `im.shape` — have the input's shape and hold the input sample `im[p]` at **every**
position `p` of the array, whatever the border mode. -/
theorem C18_driver_zero_shift_unit_zoom_identity {K : Type} [Field K] [LinearOrder K] [IsStrictOrderedRing K]
    {fl : K → Int} (h : IsFloor fl) (m : Mode) (cval : K) (order : Nat) (z1 z2 l1 l2 w : K) (ps : List K)
    (hord : (order = 2 ∧ ps = [z1] ∧ l1 = 6 ∧ w = 8) ∨ (order = 3 ∧ ps = [z1] ∧ l1 = 4 ∧ w = 6) ∨
      (order = 4 ∧ ps = [z1, z2] ∧ l1 + l2 = 76 ∧ l1 * l2 = 228 ∧ w = 384) ∨
      (order = 5 ∧ ps = [z1, z2] ∧ l1 + l2 = 26 ∧ l1 * l2 = 64 ∧ w = 120))
    (h1 : z1 * z1 + l1 * z1 + 1 = 0) (h2 : z2 * z2 + l2 * z2 + 1 = 0)
    (hz1 : z1 * z1 - 1 ≠ 0) (hz2 : z2 * z2 - 1 ≠ 0)
    (cut : K → Int) (pw : K → Nat → K) (im : Img K)
    (hshape : ∀ len ∈ im.shape, 0 < len)
    (hcut : ∀ len ∈ im.shape, 2 ≤ len → ∀ z ∈ ps, ¬ cut z < (len : Int))
    (hpw : ∀ len ∈ im.shape, 2 ≤ len → ∀ z ∈ ps, pw z (len - 1) = z ^ (len - 1))
    (hP : ∀ len ∈ im.shape, 2 ≤ len → ∀ z ∈ ps, 1 - z ^ (len - 1) * z ^ (len - 1) ≠ 0)
    (p : List Int) (hin : inside im.shape p = true) :
    let coeffs := splineFilterP (filterLineP w ps (iniCode cut pw)) im
    (shiftGlue fl order m cval coeffs (im.shape.map fun _ => (0 : K))).shape = im.shape ∧
    (shiftGlue fl order m cval coeffs (im.shape.map fun _ => (0 : K))).getD p 0 = im.getD p 0 ∧
    (zoomGlue fl order m cval coeffs im.shape).shape = im.shape ∧
    (zoomGlue fl order m cval coeffs im.shape).getD p 0 = im.getD p 0 := by
  intro coeffs
  have hs : coeffs.shape = im.shape :=
    (splineFilterP_eq_prefilterNd w ps (iniCode cut pw) (iniCode_local cut pw) im).1
  have hlen : p.length = im.shape.length := (inside_length im.shape p hin).symm
  have key : ∀ shifts zooms, coordsOf im.shape p shifts zooms = p.map (fun (j : Int) => (j : K)) →
      pixel fl order m cval coeffs shifts zooms p = im.getD p 0 := by
    intro shifts zooms hc
    have := C18_interpolation_property_driver h m cval order z1 z2 l1 l2 w ps hord h1 h2 hz1 hz2 cut pw im hshape
      hcut hpw hP shifts zooms p p hlen hc
    rw [specPos_of_inside m im.shape p hin] at this
    exact this
  refine ⟨?_, ?_, rfl, ?_⟩
  · show coeffs.shape = im.shape
    exact hs
  · unfold shiftGlue zoomShift
    rw [hs, tabulate_getD' _ _ _ _ hin]
    exact key _ _ (coordsOf_zero_shift im.shape im.shape p hin rfl)
  · unfold zoomGlue zoomShift
    rw [hs, tabulate_getD' _ _ _ _ hin]
    exact key _ _ (coordsOf_unit_zoom im.shape p hin)

/-- non-vacuity: `(1, 0)` is a position of a `2 × 2` array, in `constant` mode the border rule leaves it where it is, and
the zero shift / unit zoom coordinates of that position are the position itself (over ℚ) -/
example : inside [2, 2] [1, 0] = true ∧ specPos .constant [2, 2] [1, 0] = some [1, 0] ∧
    coordsOf [2, 2] [1, 0] (([2, 2].map fun _ => (0 : ℚ)).map fun s => some (-s)) (([2, 2].map fun _ => (0 : ℚ)).map fun _ => none)
      = [1, 0] ∧
    coordsOf [2, 2] [1, 0] ([2, 2].map fun _ => (none : Option ℚ))
      (([2, 2].zip [2, 2]).map fun io => some (zoomFactor io.1 io.2 : ℚ)) = [1, 0] := by
  refine ⟨by decide, by decide, ?_, ?_⟩
  · have := coordsOf_zero_shift (K := ℚ) [2, 2] [2, 2] [1, 0] (by decide) rfl
    simpa using this
  · have := coordsOf_unit_zoom (K := ℚ) [2, 2] [1, 0] (by decide)
    simpa using this
