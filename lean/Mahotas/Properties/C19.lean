/-
C19 — property theorems (statements only; helper lemmas live in `Proofs/C19*.lean`).
Direction and factorial tables are the ones `translator/tables.py` extracts on every run.
-/
import Mahotas.Proofs.C19Cooc
import Mahotas.Proofs.C19CoocModel
import Mahotas.Proofs.C19Lbp
import Mahotas.Proofs.C19LbpHist
import Mahotas.Proofs.C19Integral
import Mahotas.Proofs.C19Haralick
import Mahotas.Proofs.C19Zernike
import Mahotas.Proofs.C19Necklace
import Mahotas.Proofs.C19Burnside
import Mahotas.Proofs.C19HaralickFeat
import Mahotas.Proofs.C19CoocData
import Mahotas.Proofs.C19Entropy
import Mahotas.Proofs.C19IntegralRing
import Mahotas.Proofs.C19Machine
import Mahotas.Proofs.C19Tas
import Mahotas.Proofs.C19TasNorm
import Mahotas.Proofs.C19HaralickQ
import Mahotas.Proofs.C19LbpSample
import Mahotas.Proofs.C19HaralickMean
import Mathlib.Data.ZMod.Basic
namespace Mahotas.C19
open Mahotas Mahotas.Generated

/-- all vectors of `{-1,0,1}^n` -/
def cube : Nat → List (List Int)
  | 0 => [[]]
  | n + 1 => [-1, 0, 1].flatMap fun (x : Int) => (cube n).map (x :: ·)

/-- the `3^n − 1` neighbours of the origin -/
def neighbours (n : Nat) : List (List Int) := (cube n).filter fun v => v.any (· != 0)

def factN : Nat → Nat
  | 0 => 1
  | n + 1 => (n + 1) * factN n

/-- direction permutation induced by swapping the first two axes (2-D: transposition) -/
def perm2d : List Nat := [2, 1, 0, 3]
def perm3d : List Nat := [2, 1, 0, 3, 4, 6, 5, 7, 12, 10, 9, 11, 8]

/-- `swap01 (table[i])` is `± table[perm[i]]` for every row `i` -/
def permutesUpToSign (table : List (List Int)) (perm : List Nat) : Bool :=
  (List.range table.length).all fun i =>
    let v := swap01 (table.getD i [])
    let w := table.getD (perm.getD i 0) []
    v == w || v == negPos w

end Mahotas.C19

open Mahotas Mahotas.C19 Mahotas.Generated

/-- **C19 (direction tables).** `_2d_deltas` / `_3d_deltas` contain exactly one representative of each
`±` pair of the 8 / 26 neighbours: the table together with its negation is a permutation of all
neighbours (4 + 4 = 8, 13 + 13 = 26, no repetition, nothing missing). -/
theorem C19_direction_tables :
    (deltas2d ++ deltas2d.map negPos).Perm (neighbours 2) ∧
    (deltas3d ++ deltas3d.map negPos).Perm (neighbours 3) ∧
    deltas2d.length = 4 ∧ deltas3d.length = 13 := by
  refine ⟨?_, ?_, rfl, rfl⟩ <;> decide

/-- **C19 (transposition permutes directions).** Swapping the first two axes maps direction `i` of the
table to direction `perm[i]` up to sign (2-D: `0↔2`, `1`, `3` fixed), and `perm` is an involution. -/
theorem C19_swap_permutes_directions :
    permutesUpToSign deltas2d perm2d = true ∧ permutesUpToSign deltas3d perm3d = true ∧
    (∀ i < 4, perm2d.getD (perm2d.getD i 0) 0 = i) ∧ (∀ i < 13, perm3d.getD (perm3d.getD i 0) 0 = i) := by
  refine ⟨by decide, by decide, by decide, by decide⟩

/-- **C19 (Zernike factorial table).** `_factorialtable[i] = i!` for every entry (13 entries: 0!..12!). -/
theorem C19_factorial_table :
    factorialTable.length = 13 ∧ ∀ i < factorialTable.length, factorialTable.getD i 0 = factN i := by
  refine ⟨rfl, ?_⟩
  decide

/-- **C19-T1 (co-occurrence counts).** For every image of any rank whose values lie in `[0, m)` and every
offset `d`, the model of `_texture.cpp: cooccurence` (scan in C order, `++res[f p][f (p+d)]` wherever the
neighbour lies inside the image) yields exactly the matrix of counts
`C[a][b] = #{p | p inside, p+d inside, f p = a, f (p+d) = b}`, and with the symmetric fold exactly `C + Cᵀ`
— the whole `m×m` matrices the driver prints as `model` and `spec` are equal. -/
theorem C19_cooc_counts (m : Nat) (im : Img Int) (d : List Int)
    (hv : ∀ p, 0 ≤ im.getD p 0 ∧ im.getD p 0 < (m : Int)) :
    (coocModel m im d).toList = coocSpecMat m im d false ∧
    (symFold m (coocModel m im d)).toList = coocSpecMat m im d true ∧
    ∀ a b : Nat, a < m → b < m →
      (coocModel m im d).getD (a * m + b) 0 = coocCount im.shape (fun p => im.getD p 0) d a b ∧
      (symFold m (coocModel m im d)).getD (a * m + b) 0 = coocSym im.shape (fun p => im.getD p 0) d a b :=
  ⟨coocModel_toList m im d hv, coocModel_sym_toList m im d hv,
   fun a b ha hb => ⟨coocModel_eq_count m im d hv a b ha hb, coocModel_sym_eq m im d hv a b ha hb⟩⟩

/-- **C19-T2 (180° rotation).** For every shape (any rank), image `f`, direction `d` of matching rank and
grey levels `a, b`: the co-occurrence count of the image rotated by 180° (`p ↦ shape−1−p`) is the
transposed count, hence the symmetric matrix (`C + Cᵀ`, what `haralick` uses) is *equal*. -/
theorem C19_cooc_rot180 (s : List Nat) (f : List Int → Int) (d : List Int) (a b : Int)
    (hd : d.length = s.length) :
    coocCount s (fun p => f (revPos s p)) d a b = coocCount s f d b a ∧
    coocSym s (fun p => f (revPos s p)) d a b = coocSym s f d a b :=
  ⟨coocCount_rot180 s f d a b hd, coocSym_rot180 s f d a b hd⟩

/-- **C19-T2 (transposition).** Swapping the first two axes of the image and of the direction leaves
every count unchanged; negating a direction transposes the matrix, so it leaves the symmetric matrix
unchanged. With `C19_swap_permutes_directions` (`swap01 dᵢ = ± d_{perm i}`): the symmetric matrix of the
transposed image in direction `perm i` equals that of the image in direction `i`. -/
theorem C19_cooc_transpose (s : List Nat) (f : List Int → Int) (d : List Int) (a b : Int)
    (hd : d.length = s.length) :
    coocCount (swap01 s) (fun p => f (swap01 p)) (swap01 d) a b = coocCount s f d a b ∧
    coocCount s f (negPos d) a b = coocCount s f d b a ∧
    coocSym s f (negPos d) a b = coocSym s f d a b ∧
    coocSym (swap01 s) (fun p => f (swap01 p)) (swap01 d) a b = coocSym s f d a b :=
  ⟨coocCount_swap01 s f d a b hd, coocCount_neg s f d a b hd, coocSym_neg s f d a b hd,
   coocSym_swap01 s f d a b hd⟩

/-- **C19 (haralick invariance, bit for bit).** `haralick` is a function `F` of the symmetric matrices.
Whatever `F` is (in particular the Float functions `haralick13` the driver runs), its value on the
180°-rotated image equals its value on the image, and its value on the axis-swapped image with the
swapped direction equals its value on the image — exact equality, no tolerance. -/
theorem C19_haralick_invariance {β : Type} (F : (Int → Int → Nat) → β) (s : List Nat) (f : List Int → Int)
    (d : List Int) (hd : d.length = s.length) :
    F (coocSym s (fun p => f (revPos s p)) d) = F (coocSym s f d) ∧
    F (coocSym (swap01 s) (fun p => f (swap01 p)) (swap01 d)) = F (coocSym s f d) ∧
    F (coocSym s f (negPos d)) = F (coocSym s f d) := by
  refine ⟨congrArg F ?_, congrArg F ?_, congrArg F ?_⟩ <;> funext a b
  · exact coocSym_rot180 s f d a b hd
  · exact coocSym_swap01 s f d a b hd
  · exact coocSym_neg s f d a b hd

/-- **C19-T3 (LBP code mapping).** For every number of points `P ≥ 1` (no upper bound) and every `P`-bit code
`v`, the model of `_lbp.cpp: map` (transliterated: `roll_right`, running minimum over `P` rotations)
returns the minimum of the rotation orbit: it is below every rotation of `v` and is one of them;
rotating the code does not change it (codes that are cyclic rotations of one another share a bin);
it is idempotent (bins are class representatives) and stays a `P`-bit code. General proof over `Nat`
bit arithmetic, not an enumeration. -/
theorem C19_lbp_map (P v : Nat) (hP : 1 ≤ P) (hv : v < 2 ^ P) :
    (∀ k, lbpMap P v ≤ iter (rollRight P) k v) ∧
    (∃ k, k < P ∧ lbpMap P v = iter (rollRight P) k v) ∧
    lbpMap P (rollRight P v) = lbpMap P v ∧
    (∀ k, lbpMap P (iter (rollRight P) k v) = lbpMap P v) ∧
    lbpMap P (lbpMap P v) = lbpMap P v ∧
    lbpMap P v < 2 ^ P ∧
    iter (rollRight P) P v = v :=
  ⟨lbpMap_le_orbit P v hP hv, lbpMap_mem_orbit P v hP hv, lbpMap_rollRight P v hP hv,
   fun k => lbpMap_iter P v k hP hv, lbpMap_idem P v hP hv, lbpMap_lt P v hP hv,
   iter_rollRight_period P v hP hv⟩

/-- **C19-T3 (LBP histogram).** For every `P ≥ 1` and every list of `P`-bit pixel codes, the compressed
histogram `lbp` returns (one bin per *pivot* `c = map c`, i.e. one bin per rotation class of `P`-bit
codes) sums to the number of pixels considered, and the bin of every non-pivot code is empty — nothing
is lost by the compression. -/
theorem C19_lbp_histogram (P : Nat) (hP : 1 ≤ P) (codes : List Nat) (hc : ∀ v ∈ codes, v < 2 ^ P) :
    (lbpCompress P (codes.map (lbpMap P))).sum = codes.length ∧
    ∀ c, lbpMap P c ≠ c → (codes.map (lbpMap P)).count c = 0 :=
  ⟨lbpCompress_sum P hP codes hc, fun c hnp => count_nonpivot_zero P hP codes hc c hnp⟩

/-- **C19-T4 (integral image).** For every rectangular integer image the model of `_surf.cpp: integral`
(the in-place recurrence `a(i,j) += a(i−1,j) + a(i,j−1) − a(i−1,j−1)`, first row and column
included) is the two-dimensional prefix sum `Σ_{a ≤ i} Σ_{b ≤ j} f[a][b]` at every pixel, and the
result has the shape of the input. -/
theorem C19_integral_prefix (w : Nat) (rows : List (List Int)) (hw : ∀ r ∈ rows, r.length = w) :
    (integral w rows).length = rows.length ∧ (∀ r ∈ integral w rows, r.length = w) ∧
    ∀ i j, i < rows.length → j < w → ((integral w rows).getD i []).getD j 0 = prefix2 rows i j :=
  ⟨integral_length w rows, integral_row_length w rows hw,
   fun i j hi hj => integral_eq_prefix2 w rows hw i j hi hj⟩

/-- **C19-T5 (moments).** The model of `moments` (two successive dot products with the power vectors)
equals the defining double sum `Σ_i Σ_j img[i][j] (i − c0)^p0 (j − c1)^p1` for every integer image,
all natural powers and every integer centre. -/
theorem C19_moments_def (rows : List (List Int)) (p0 p1 : Nat) (c0 c1 : Int) :
    moments (fun n => (n : Int)) rows p0 p1 c0 c1 = momentsSpec (fun n => (n : Int)) rows p0 p1 c0 c1 :=
  moments_eq_spec rows p0 p1 c0 c1

/-- **C19-T7 (haralick sanity: the normalised matrix and its marginals).** Over any ordered field, for
every `m × m` count matrix `c` (row-major) with a non-zero total — the generic definitions `normMat`,
`matAt`, `asmG`, `pplusG`, `pminusG` are the ones `haralick13` (the model the driver runs) uses at `Float`:
`p = c / Σc` sums to 1; the angular second moment `Σ p(i,j)²` lies in `[0, 1]`; entry `k` of `p_{x+y}`
is the fold `Σ_{i+j=k} p(i,j)` and entry `k` of `p_{x−y}` is the fold `Σ_{|i−j|=k} p(i,j)` over all
index pairs; `p_{x+y}` has `2m` entries, `p_{x−y}` has `m`, and each sums to 1. -/
theorem C19_haralick_sanity {α : Type} [Field α] [LinearOrder α] [IsStrictOrderedRing α]
    (m : Nat) (c : List Nat) (hlen : c.length = m * m) (hT : c.sum ≠ 0) :
    let p := normMat (Nat.cast : Nat → α) c
    let P := matAt (0 : α) m p
    gsum 0 p.toList = 1 ∧
    (0 ≤ asmG 0 m P ∧ asmG 0 m P ≤ 1) ∧
    (∀ k, k < 2 * m → (pplusG 0 m P).getD k 0 =
      gsum 0 ((allPairs m).map fun (ij : Nat × Nat) => if ij.1 + ij.2 = k then P ij.1 ij.2 else 0)) ∧
    (∀ k, k < m → (pminusG 0 m P).getD k 0 =
      gsum 0 ((allPairs m).map fun (ij : Nat × Nat) => if absDiff ij.1 ij.2 = k then P ij.1 ij.2 else 0)) ∧
    ((pplusG 0 m P).length = 2 * m ∧ gsum 0 (pplusG 0 m P) = 1) ∧
    ((pminusG 0 m P).length = m ∧ gsum 0 (pminusG 0 m P) = 1) := by
  intro p P
  refine ⟨normMat_sum c hT, asm_bounds m c hlen hT, fun k hk => pplus_getD m P k hk,
    fun k hk => pminus_getD m P k hk, ⟨by simp [pplusG], ?_⟩, ⟨by simp [pminusG], ?_⟩⟩
  · rw [pplus_sum]; exact matAt_total m c hlen hT
  · rw [pminus_sum]; exact matAt_total m c hlen hT

/-- **C19-T6 (Zernike: the pixel weights do not depend on the intensity scale).** `zernikeFrac` is the
transliteration of the normalisation step of `zernike_moments` (`k = (Dn <= 1) & (P > 0)`,
`frac_center = P[k] / P[k].sum()`), generic in the scalar type (the driver runs it at `Float`; the
check feeds its output to the real `_zernike.znl`). Over any ordered field, multiplying every pixel
by `s > 0` changes neither the selection nor the normalised weights — hence no Zernike magnitude —
and the weights sum to 1 as soon as some pixel inside the disc is positive. -/
theorem C19_zernike_scale_invariance {α : Type} [Field α] [LinearOrder α] [IsStrictOrderedRing α]
    (inDisc : List Bool) (P : List α) (s : α) (hs : 0 < s) :
    zernikeFrac 0 inDisc (P.map (s * ·)) = zernikeFrac 0 inDisc P ∧
    ((∃ dv ∈ inDisc.zip P, dv.1 = true ∧ 0 < dv.2) → gsum 0 (zernikeFrac 0 inDisc P) = 1) :=
  ⟨zernikeFrac_scale inDisc P s hs, zernikeFrac_sum_of_exists inDisc P⟩

/-- **C19-T6 (Zernike: rotation by 90° about the chosen centre).** `zernikeZ` is the transliteration of
`zernike_moments` up to `abs` — grid `Yn = (y − c0)/radius`, `Xn = (x − c1)/radius`, `Dn = max(sqrt(Xn² + Yn²), eps)`,
selection `(Dn <= 1) & (P > 0)`, weights `P[k]/P[k].sum()`, angles `An ** l` with `An = (Xn + i·Yn)/Dn`, then the
kernel `_zernike.znl` (`znlG`: radial coefficients from the extracted factorial table, `Vnl = Σ_m g_m · pow(d, n−2m) · a`,
`v = Σ p · conj(Vnl)`, `v *= (n+1)/π`) — generic in the scalar type; the driver runs it at `Float` and the check compares
it with the real `_zernike.znl` and `zernike_moments`. Over **any field with a decidable linear order**, for **arbitrary**
functions `sqrt` and `pow` and arbitrary `eps`, `π`, every image size, image, centre, radius, `n` and `l`:
the moment of the image rotated by 90° (`rot[i][j] = im[j][C−1−i]`, i.e. `np.rot90`, centre moved with it to
`(C−1−c1, c0)`) is `i^l` times the moment of the image; `|i^l|² = 1`, hence `|z_nl|²` is unchanged, and the whole vector
returned by `zernike_moments` (`sqrt |z_nl|²` for every `(n, l)` through any degree) is *equal*. (Rotation permutes the
selected pixels, keeps `Dn`, the value and the weight of each, and multiplies its angle `An` by `−i`.) -/
theorem C19_zernike_rot90 {α : Type} [Field α] [LinearOrder α] (sqrt : α → α) (pow : α → ℕ → α) (eps pi : α)
    (R C : ℕ) (im : ℕ → ℕ → α) (c0 c1 radius : α) :
    let rot := fun (i j : ℕ) => im j (C - 1 - i)
    (∀ n l, zernikeZ 0 1 Nat.cast sqrt pow eps pi C R rot ((C : α) - 1 - c1) c0 radius n l =
      cxMul (cxPow 0 1 (0, 1) l) (zernikeZ 0 1 Nat.cast sqrt pow eps pi R C im c0 c1 radius n l)) ∧
    (∀ l, cxNormSq (cxPow 0 1 ((0 : α), 1) l) = 1) ∧
    (∀ n l, cxNormSq (zernikeZ 0 1 Nat.cast sqrt pow eps pi C R rot ((C : α) - 1 - c1) c0 radius n l) =
      cxNormSq (zernikeZ 0 1 Nat.cast sqrt pow eps pi R C im c0 c1 radius n l)) ∧
    (∀ degree, zernikeAbs 0 1 Nat.cast sqrt pow eps pi C R rot ((C : α) - 1 - c1) c0 radius degree =
      zernikeAbs 0 1 Nat.cast sqrt pow eps pi R C im c0 c1 radius degree) := by
  intro rot
  refine ⟨fun n l => zernikeZ_rot90 sqrt pow eps pi R C im c0 c1 radius n l, cxNormSq_pow_i,
    fun n l => zernikeZ_rot90_normSq sqrt pow eps pi R C im c0 c1 radius n l, fun degree => ?_⟩
  unfold zernikeAbs
  refine List.map_congr_left fun nl _ => ?_
  rw [zernikeZ_rot90_normSq]

/-- **C19-T3 (LBP: the bins are the rotation classes — binary necklaces).** `pivots P` are the codes `c = map c`
among all `2^P` codes; the compressed histogram `lbpCompress` has exactly one bin per pivot, whatever the pixel codes.
For **every** `P ≥ 1` (no bound): two `P`-bit codes are mapped to the same bin iff they are cyclic rotations of one
another (`RotEq`); the pivots are pairwise distinct and every rotation class contains exactly one pivot (a system of
distinct representatives); hence the number of bins equals the number of rotation classes of `P`-bit codes
(`Nat.card` of the quotient of `{v // v < 2^P}` by rotation — the equivalence `classEquiv` is `⟦v⟧ ↦ map v`).
And for **every** `P ≥ 1` this number times `P` equals the closed form `Σ_{d ∣ P} φ(d) · 2^{P/d}` (Mathlib's
`Nat.divisors`, `Nat.totient`) — the number of binary necklaces of length `P`: 2, 3, 4, 6, 8, 14, 20, 36, 60, 108, 188,
352, … bins. Proof (`Proofs/C19Burnside.lean`): `ZMod P` acts on the codes by `k +ᵥ v = rollRight^k v`, its orbits are
the rotation classes, a rotation by `k` fixes exactly the `2^gcd(P,k)` codes whose bit pattern is `gcd(P,k)`-periodic
(Bézout in `ZMod P`), Burnside's lemma, and `#{k < P | gcd(P,k) = d} = φ(P/d)`; for `P ≤ 12` the closed form is also
confirmed by kernel evaluation of the model's `lbpMap` on all `2^P` codes (`pivots_closed_form`). -/
theorem C19_lbp_bins_count :
    (∀ P mapped, (lbpCompress P mapped).length = (pivots P).length) ∧
    (∀ P v w, 1 ≤ P → v < 2 ^ P → w < 2 ^ P → (lbpMap P v = lbpMap P w ↔ RotEq P v w)) ∧
    (∀ P, (pivots P).Nodup) ∧
    (∀ P v, 1 ≤ P → v < 2 ^ P → ∃! c, c ∈ pivots P ∧ RotEq P v c) ∧
    (∀ P (hP : 1 ≤ P), Nat.card (Quotient (rotSetoid P hP)) = (pivots P).length) ∧
    (∀ P, 1 ≤ P → (pivots P).length * P = ∑ d ∈ P.divisors, Nat.totient d * 2 ^ (P / d)) :=
  ⟨lbpCompress_length, fun P v w hP hv hw => lbpMap_eq_iff P v w hP hv hw, pivots_nodup,
   fun P v hP hv => pivot_unique P v hP hv, card_classes,
   pivots_burnside⟩

/-- **C19-T7 (the Haralick features without logarithms are their textbook formulas).** `haralick13` (the model the
driver runs at `Float`, compared with the real `haralick` at 1e-9) is assembled from generic definitions — first part:
f2, f3, f4, f5, f6, f7, f10 of the returned list *are* `contrastG`, `covG / (sqrt vx · sqrt vy)`, `varG`, `idmG`, `sumAvgG`,
`sumVarG`, `diffVarG` at `Float` (by `rfl`). Over **any ordered field**, for every `m × m` count matrix `c` with non-zero
total, `p = c / Σc`, marginals `p_x = p.sum(0)`, `p_y = p.sum(1)`, `p_{x+y}`, `p_{x−y}`:
* contrast `Σ_k k² p_{x−y}(k) = Σ_{i,j} (i − j)² p(i,j)`;
* sum average `Σ_k k p_{x+y}(k) = Σ_{i,j} (i + j) p(i,j) = μ_y + μ_x`;
* inverse difference moment `Σ p(i,j)/(1 + (i−j)²) ∈ [0, 1]`;
* the variances `Σ k² p_x(k) − μ_x²` (f4) and `Σ k² p_y(k) − μ_y²` are `≥ 0` and equal the centred textbook forms
  `Σ_{i,j} (j − μ_x)² p(i,j)`, `Σ_{i,j} (i − μ_y)² p(i,j)`; sum variance `= Σ_{i,j} (i + j − f6)² p(i,j)`, which also equals the
  form `texture.py` evaluates, `np.dot(tk2, px_plus_y) − feats[5]**2` (the model uses the centred form: same real number);
* covariance² `(Σ i j p(i,j) − μ_x μ_y)² ≤ var_x · var_y` (weighted Cauchy–Schwarz, no square roots), hence with any
  positive square roots `s_x² = var_x`, `s_y² = var_y` the correlation `cov/(s_x s_y)` lies in `[−1, 1]` (where a
  variance vanishes the textbook formula is 0/0 and the check does not compare f3);
* sum variance `Σ_k (k − f6)² p_{x+y}(k) ≥ 0`, difference variance `≥ 0`, and the alternative difference variance of
  the option `use_x_minus_y_variance`, `VAR[|x−y|] = Σ k² p_{x−y}(k) − (Σ k p_{x−y}(k))² ≥ 0`.
The entropies f8, f9, f11 and the information measures f12, f13 are the textbook `−Σ q log₂ q` formulas of the model at
`Float` (`entropy`); no identity about them is proved. -/
theorem C19_haralick_features_def :
    (∀ (m : ℕ) (c : List ℕ),
      let P := matAt 0.0 m (normMat Float.ofNat c)
      let px := colSumG 0.0 m P
      let py := rowSumG 0.0 m P
      let h := haralick13 m c
      h.getD 1 0.0 = contrastG 0.0 Float.ofNat m (pminusG 0.0 m P) ∧
      h.getD 2 0.0 = covG 0.0 Float.ofNat m P (meanG 0.0 Float.ofNat px m) (meanG 0.0 Float.ofNat py m) /
        (Float.sqrt (varG 0.0 Float.ofNat px m) * Float.sqrt (varG 0.0 Float.ofNat py m)) ∧
      h.getD 3 0.0 = varG 0.0 Float.ofNat px m ∧
      h.getD 4 0.0 = idmG 0.0 1.0 Float.ofNat m P ∧
      h.getD 5 0.0 = sumAvgG 0.0 Float.ofNat m (pplusG 0.0 m P) ∧
      h.getD 6 0.0 = sumVarG 0.0 Float.ofNat m (pplusG 0.0 m P) (sumAvgG 0.0 Float.ofNat m (pplusG 0.0 m P)) ∧
      h.getD 9 0.0 = diffVarG 0.0 Float.ofNat m (pminusG 0.0 m P)) ∧
    (∀ {α : Type} [Field α] [LinearOrder α] [IsStrictOrderedRing α]
      (m : ℕ) (c : List ℕ), c.length = m * m → c.sum ≠ 0 →
      let P := matAt (0 : α) m (normMat (Nat.cast : ℕ → α) c)
      let px := colSumG 0 m P
      let py := rowSumG 0 m P
      let ux := meanG 0 Nat.cast px m
      let uy := meanG 0 Nat.cast py m
      let vx := varG 0 Nat.cast px m
      let vy := varG 0 Nat.cast py m
      let cov := covG 0 Nat.cast m P ux uy
      let f6 := sumAvgG 0 Nat.cast m (pplusG 0 m P)
      contrastG 0 Nat.cast m (pminusG 0 m P) =
        ∑ i ∈ Finset.range m, ∑ j ∈ Finset.range m, ((i : α) - (j : α)) ^ 2 * P i j ∧
      f6 = ∑ i ∈ Finset.range m, ∑ j ∈ Finset.range m, ((i : α) + (j : α)) * P i j ∧
      f6 = uy + ux ∧
      (0 ≤ idmG 0 1 Nat.cast m P ∧ idmG 0 1 Nat.cast m P ≤ 1) ∧
      (0 ≤ vx ∧ 0 ≤ vy) ∧
      (vx = ∑ i ∈ Finset.range m, ∑ j ∈ Finset.range m, P i j * ((j : α) - ux) ^ 2 ∧
       vy = ∑ i ∈ Finset.range m, ∑ j ∈ Finset.range m, P i j * ((i : α) - uy) ^ 2) ∧
      sumVarG 0 Nat.cast m (pplusG 0 m P) f6 =
        ∑ i ∈ Finset.range m, ∑ j ∈ Finset.range m, ((i : α) + (j : α) - f6) ^ 2 * P i j ∧
      sumVarG 0 Nat.cast m (pplusG 0 m P) f6 =
        gsum 0 ((List.range (2 * m)).map fun k => ((k * k : ℕ) : α) * (pplusG 0 m P).getD k 0) - f6 * f6 ∧
      cov ^ 2 ≤ vx * vy ∧
      (∀ sx sy : α, sx ^ 2 = vx → sy ^ 2 = vy → 0 < sx → 0 < sy →
        -1 ≤ cov / (sx * sy) ∧ cov / (sx * sy) ≤ 1) ∧
      0 ≤ sumVarG 0 Nat.cast m (pplusG 0 m P) f6 ∧
      0 ≤ diffVarG 0 Nat.cast m (pminusG 0 m P) ∧
      0 ≤ varG 0 Nat.cast (pminusG 0 m P) m) := by
  refine ⟨fun m c => ⟨rfl, rfl, rfl, rfl, rfl, rfl, rfl⟩, ?_⟩
  intro α _ _ _ m c hlen hT P px py ux uy vx vy cov f6
  have h0 : ∀ i j, 0 ≤ P i j := fun i j => matAt_nonneg m c i j
  have h1 : ∑ i ∈ Finset.range m, ∑ j ∈ Finset.range m, P i j = 1 := matAt_total m c hlen hT
  exact ⟨contrast_eq m P, sumAvg_eq m P, sumAvg_eq_means m P, idm_bounds m P h0 h1, var_nonneg m P h0 h1,
    var_centered m P h1, sumVar_eq m P f6, sumVar_code_form m P h1, cov_sq_le m P h0 h1,
    fun sx sy hx hy px' py' => corr_bounds cov vx vy sx sy (cov_sq_le m P h0 h1) hx hy px' py',
    sumVar_nonneg m P h0 f6, diffVar_nonneg m _, diffVarAlt_nonneg m P h0 h1⟩

/-- **C19-T2 on the data arrays (what `f[::-1, ::-1, …]` and `swapaxes(0,1)` do to the driver's input).**
`C19_cooc_rot180` / `C19_cooc_transpose` speak about index maps; this theorem is about the arrays the model receives.
For every image of any rank with a full C-order data array and values in `[0, m)`, every direction of matching rank:
the image whose **data array is reversed** reads, at every inside position `p`, the value at the mirrored position
`shape − 1 − p`, and the symmetric co-occurrence matrix the model computes from it (`symFold ∘ coocModel`, what the
driver prints and `haralick13` consumes) is the **same array**; the C-contiguous copy of the axis swap (`swapImg`,
element `p` = element `swap01 p`) with the swapped direction gives the same array too; hence every feature vector
`haralick13` computes is identical (exact equality of `Float` lists). -/
theorem C19_cooc_invariance_on_data (m : Nat) (im : Img Int) (d : List Int)
    (hsz : im.data.size = shapeSize im.shape) (hd : d.length = im.shape.length)
    (hv : ∀ p, 0 ≤ im.getD p 0 ∧ im.getD p 0 < (m : Int)) :
    let rev : Img Int := { shape := im.shape, data := im.data.reverse }
    (∀ p, inside im.shape p = true → rev.getD p 0 = im.getD (revPos im.shape p) 0) ∧
    symFold m (coocModel m rev d) = symFold m (coocModel m im d) ∧
    (∀ p, inside (swap01 im.shape) p = true → (swapImg im).getD p 0 = im.getD (swap01 p) 0) ∧
    symFold m (coocModel m (swapImg im) (swap01 d)) = symFold m (coocModel m im d) ∧
    haralick13 m (symFold m (coocModel m rev d)).toList = haralick13 m (symFold m (coocModel m im d)).toList ∧
    haralick13 m (symFold m (coocModel m (swapImg im) (swap01 d))).toList =
      haralick13 m (symFold m (coocModel m im d)).toList := by
  intro rev
  have h1 := symFold_reverse m im d hsz hd hv
  have h2 := symFold_swap m im d hd hv
  exact ⟨fun p hp => getD_reverse_img im hsz p hp, h1, fun p hp => swapImg_getD im p hp, h2,
    by rw [h1], by rw [h2]⟩

/-- **C19-T6 (Zernike: intensity scaling, on the full model).** For the same generic model `zernikeZ` / `zernikeAbs` of
`zernike_moments` as in `C19_zernike_rot90` (the one the driver runs at `Float`), over any ordered field and for arbitrary
`sqrt`, `pow`, `eps`, `π`: multiplying every pixel by `s > 0` changes no `z_nl` (the selection `P > 0` is unchanged and the
weights `P[k]/ΣP[k]` are scale-free), hence not the returned vector. -/
theorem C19_zernike_scale_full {α : Type} [Field α] [LinearOrder α] [IsStrictOrderedRing α]
    (sqrt : α → α) (pow : α → ℕ → α) (eps pi : α) (R C : ℕ) (im : ℕ → ℕ → α) (c0 c1 radius s : α) (hs : 0 < s) :
    (∀ n l, zernikeZ 0 1 Nat.cast sqrt pow eps pi R C (fun y x => s * im y x) c0 c1 radius n l =
      zernikeZ 0 1 Nat.cast sqrt pow eps pi R C im c0 c1 radius n l) ∧
    (∀ degree, zernikeAbs 0 1 Nat.cast sqrt pow eps pi R C (fun y x => s * im y x) c0 c1 radius degree =
      zernikeAbs 0 1 Nat.cast sqrt pow eps pi R C im c0 c1 radius degree) := by
  refine ⟨fun n l => zernikeZ_scale sqrt pow eps pi R C im c0 c1 radius s hs n l, fun degree => ?_⟩
  unfold zernikeAbs
  refine List.map_congr_left fun nl _ => ?_
  rw [zernikeZ_scale sqrt pow eps pi R C im c0 c1 radius s hs]

/-- **C19-T6 (Zernike: rotation by 180°).** Two quarter turns: the image `im[R−1−i][C−1−j]` with centre
`(R−1−c0, C−1−c1)` has `z_nl = i^l · i^l · z_nl(im)`, the same `|z_nl|²` and the same returned vector (a third
application of `C19_zernike_rot90` gives 270°). -/
theorem C19_zernike_rot180 {α : Type} [Field α] [LinearOrder α] (sqrt : α → α) (pow : α → ℕ → α) (eps pi : α)
    (R C : ℕ) (im : ℕ → ℕ → α) (c0 c1 radius : α) :
    let rot := fun (i j : ℕ) => im (R - 1 - i) (C - 1 - j)
    (∀ n l, zernikeZ 0 1 Nat.cast sqrt pow eps pi R C rot ((R : α) - 1 - c0) ((C : α) - 1 - c1) radius n l =
      cxMul (cxPow 0 1 (0, 1) l) (cxMul (cxPow 0 1 (0, 1) l)
        (zernikeZ 0 1 Nat.cast sqrt pow eps pi R C im c0 c1 radius n l))) ∧
    (∀ degree, zernikeAbs 0 1 Nat.cast sqrt pow eps pi R C rot ((R : α) - 1 - c0) ((C : α) - 1 - c1) radius degree =
      zernikeAbs 0 1 Nat.cast sqrt pow eps pi R C im c0 c1 radius degree) := by
  intro rot
  refine ⟨fun n l => zernikeZ_rot180 sqrt pow eps pi R C im c0 c1 radius n l, fun degree => ?_⟩
  unfold zernikeAbs
  refine List.map_congr_left fun nl _ => ?_
  rw [zernikeZ_rot180, cxNormSq_cxMul, cxNormSq_cxMul, cxNormSq_pow_i, one_mul, one_mul]

/-- **C19-T7 (the entropy features and information measures, over the reals).** `entropyG`, `hxy1G`, `hxy2G` are generic
definitions; f8, f9, f11 and HX, HY, HXY1, HXY2 inside `haralick13` are these at `Float` with `Float.log2` (first part, by
`rfl` for the returned entries f8, f9, f11, HX, HY). Instantiated at `ℝ` with `log₂ = Real.logb 2`, for every `m × m` count
matrix with non-zero total: the five entropies (sum entropy f8, entropy f9, difference entropy f11, `HX`, `HY`) are `≥ 0`;
**Gibbs' inequality** `f9 = HXY ≤ HXY1`, so the numerator `f9 − HXY1` of the information measure f12 is `≤ 0`;
`HXY1 = HXY2 = HX + HY` exactly (the marginals of `p` are exact); hence the argument of f13,
`1 − exp(−2 (HXY2 − f9))`, lies in `[0, 1)` and the clamp `max(0, ·)` of the code never acts in exact arithmetic.
(Nothing relates `Float.log2`/`Float.exp` to the real functions: the Float values are compared with the real `haralick`
at 1e-9.) -/
theorem C19_haralick_entropies :
    (∀ (m : ℕ) (c : List ℕ),
      let P := matAt 0.0 m (normMat Float.ofNat c)
      let h := haralick13 m c
      h.getD 7 0.0 = entropyG 0.0 Float.log2 (pplusG 0.0 m P) ∧
      h.getD 8 0.0 = entropyG 0.0 Float.log2 (normMat Float.ofNat c).toList ∧
      h.getD 10 0.0 = entropyG 0.0 Float.log2 (pminusG 0.0 m P) ∧
      h.getD 15 0.0 = entropyG 0.0 Float.log2 (colSumG 0.0 m P) ∧
      h.getD 16 0.0 = entropyG 0.0 Float.log2 (rowSumG 0.0 m P)) ∧
    (∀ (m : ℕ) (c : List ℕ), c.length = m * m → c.sum ≠ 0 →
      let P := matAt (0 : ℝ) m (normMat Nat.cast c)
      let px := colSumG 0 m P
      let py := rowSumG 0 m P
      let f9 := entropyG 0 log2R (normMat (Nat.cast : ℕ → ℝ) c).toList
      let hx := entropyG 0 log2R px
      let hy := entropyG 0 log2R py
      let hxy1 := hxy1G 0 log2R m P px py
      let hxy2 := hxy2G 0 log2R m P px py
      (0 ≤ entropyG 0 log2R (pplusG 0 m P) ∧ 0 ≤ f9 ∧ 0 ≤ entropyG 0 log2R (pminusG 0 m P) ∧ 0 ≤ hx ∧ 0 ≤ hy) ∧
      f9 ≤ hxy1 ∧ f9 - hxy1 ≤ 0 ∧
      hxy1 = hx + hy ∧ hxy2 = hx + hy ∧
      (0 ≤ 1 - Real.exp (-2 * (hxy2 - f9)) ∧ 1 - Real.exp (-2 * (hxy2 - f9)) < 1)) := by
  refine ⟨fun m c => ⟨rfl, rfl, rfl, rfl, rfl⟩, ?_⟩
  intro m c hlen hT P px py f9 hx hy hxy1 hxy2
  have h0 : ∀ i j, 0 ≤ P i j := fun i j => matAt_nonneg m c i j
  have h1 : ∑ i ∈ Finset.range m, ∑ j ∈ Finset.range m, P i j = 1 := matAt_total m c hlen hT
  have hg : f9 ≤ hxy1 := entropy_le_hxy1 m c hlen hT
  obtain ⟨e1, e2⟩ := hxy_eq_hx_add_hy m P h0 h1
  have hg2 : f9 ≤ hxy2 := by
    show f9 ≤ hxy2G 0 log2R m P px py
    rw [e2, ← e1]; exact hg
  exact ⟨entropies_nonneg m c hlen hT, hg, by linarith, e1, e2, f13_arg_bounds hxy2 f9 hg2⟩

/-- **C19-T4 (integral image, any additive commutative group — in particular wrap-around integers).** The same
statement as `C19_integral_prefix` for the generic model `integral` (the C++ template `integral<T>`) over **every**
`[AddCommGroup α]`: the in-place recurrence is the two-dimensional prefix sum at every pixel and keeps the shape.
At `α = ZMod (2^bits)` this is the arithmetic of the integer dtypes (unsigned, and signed with `-fno-strict-overflow`):
the recurrence evaluated *with* wrap-around equals the prefix sum taken modulo `2^bits` — what the check compares the
real output with (`wrapTo` of the exact sum). -/
theorem C19_integral_prefix_any_group {α : Type} [AddCommGroup α] (w : Nat) (rows : List (List α))
    (hw : ∀ r ∈ rows, r.length = w) :
    (integral w rows).length = rows.length ∧ (∀ r ∈ integral w rows, r.length = w) ∧
    ∀ i j, i < rows.length → j < w → ((integral w rows).getD i []).getD j 0 = prefix2 rows i j :=
  ⟨Gen.integral_length w rows, Gen.integral_row_length w rows hw,
   fun i j hi hj => Gen.integral_eq_prefix2 w rows hw i j hi hj⟩

/-- **C19-T5 (moments, any commutative ring).** `C19_moments_def` for the generic model over every commutative ring,
every embedding `cast` of the indices and every centre — e.g. `ℚ` or `ℝ` with the (non-integer) centre of mass. -/
theorem C19_moments_def_any_ring {R : Type} [CommRing R] (cast : Nat → R) (rows : List (List R)) (p0 p1 : Nat)
    (c0 c1 : R) : moments cast rows p0 p1 c0 c1 = momentsSpec cast rows p0 p1 c0 c1 :=
  Gen.moments_eq_spec cast rows p0 p1 c0 c1

/-! ## Round 4 (integer dtypes of `integral`, `moments` options, radial polynomial) -/

/-- **C19-T4 (integral image in the dtype's own arithmetic).** `integralMachine bits signed` is the C++ template
`integral<T>` for an integer `T` of `bits ≥ 1` bits run on machine integers (`MInt`: **every** `+` and `-` of the in-place
recurrence is reduced into the dtype's range — unsigned modulo `2^bits`, signed two's complement). For every rectangular
image of integers (each first converted to the dtype, as `astype` does): the shape is kept, every entry is the **exact**
two-dimensional prefix sum `Σ_{a≤i} Σ_{b≤j} f[a][b]` (taken in `ℤ`) reduced once into the range — intermediate overflows
leave no trace — and the entries lie in `[0, 2^bits)` resp. `[-2^(bits-1), 2^(bits-1))`. This is what the driver prints as
`machine=` and the check compares the real `surf.integral(f, dtype=<integer dtype>)` with. -/
theorem C19_integral_machine_arithmetic (bits : Nat) (signed : Bool) (hb : 0 < bits) (w : Nat)
    (rows : List (List Int)) (hw : ∀ r ∈ rows, r.length = w) :
    integralMachine bits signed w rows = (integral w rows).map (fun r => r.map (wrapTo bits signed)) ∧
    (integralMachine bits signed w rows).length = rows.length ∧
    (∀ i j, i < rows.length → j < w →
      ((integralMachine bits signed w rows).getD i []).getD j 0 = wrapTo bits signed (prefix2 rows i j)) ∧
    (∀ x : Int, 0 ≤ wrapTo bits false x ∧ wrapTo bits false x < 2 ^ bits) ∧
    (∀ x : Int, -(2 ^ (bits - 1)) ≤ wrapTo bits true x ∧ wrapTo bits true x < 2 ^ (bits - 1)) ∧
    (∀ x y : Int, x % 2 ^ bits = y % 2 ^ bits → wrapTo bits signed x = wrapTo bits signed y) ∧
    (∀ x : Int, wrapTo bits signed x % 2 ^ bits = x % 2 ^ bits) := by
  refine ⟨Machine.integralMachine_eq bits signed hb w rows, ?_,
    fun i j hi hj => Machine.integralMachine_getD bits signed hb w rows hw i j hi hj,
    Machine.wrapTo_range_unsigned bits, Machine.wrapTo_range_signed bits hb,
    fun x y h => Machine.wrapTo_congr bits signed h, Machine.wrapTo_emod bits signed⟩
  rw [Machine.integralMachine_eq bits signed hb, List.length_map]
  exact Gen.integral_length w rows

/-- `uint8`: 200 + 100 + 100 + 200 = 600 ↦ 88, through the intermediate 300 ↦ 44; `int8`: 100 + 100 ↦ −56 -/
example : integralMachine 8 false 2 [[200, 100], [100, 200]] = [[200, 44], [44, 88]] ∧
    integralMachine 8 true 2 [[100, 100], [-128, -1]] = [[100, -56], [-28, 71]] ∧
    wrapTo 8 false 600 = 88 := by decide

/-- **C19-T5 (moments: `normalize=True`, `cm=None`).** `momentsFull` transliterates `moments.py` with its options: the two
weight vectors `p = (arange(n) − c)**pw` (nothing subtracted for `cm=None`), each divided by its sum when `normalize`, then
`np.dot(np.dot(img, p_cols), p_rows)`. Over every field, every `R×C` image and every centre: (i) without `normalize` it is
the round-1 model `moments`, hence the defining double sum `momentsSpec`; (ii) `cm=None` is `cm=(0,0)`; (iii) with
`normalize` the result is the plain moment divided by `(Σ_j (j−c1)^p1)·(Σ_i (i−c0)^p0)` — "normalised to the size of the
image": for `p0 = p1 = 0` the divisor is `C·R` — with the convention `x/0 = 0` of fields where numpy gives `inf`/`nan`. -/
theorem C19_moments_options {α : Type} [Field α] (cast : Nat → α) (R C : Nat) (rows : List (List α)) (p0 p1 : Nat)
    (c0 c1 : α) (hR : rows.length = R) (hC : ∀ r ∈ rows, r.length = C) :
    momentsFull cast R C rows p0 p1 (some (c0, c1)) false = momentsSpec cast rows p0 p1 c0 c1 ∧
    (∀ nz, momentsFull cast R C rows p0 p1 none nz = momentsFull cast R C rows p0 p1 (some (0, 0)) nz) ∧
    momentsFull cast R C rows p0 p1 (some (c0, c1)) true =
      momentsSpec cast rows p0 p1 c0 c1 /
        (gsum 0 (Machine.rawWeights cast C p1 c1) * gsum 0 (Machine.rawWeights cast R p0 c0)) := by
  have h1 := Machine.momentsFull_eq_moments cast R C rows p0 p1 c0 c1 hR hC
  rw [Gen.moments_eq_spec] at h1
  refine ⟨h1, fun nz => Machine.momentsFull_none cast R C rows p0 p1 nz, ?_⟩
  rw [Machine.momentsFull_normalize, h1]

/-- `[[1,2],[3,4]]`, powers (1,1), centre (0,0): plain 4; normalised 4/((0+1)(0+1)) = 4; powers (0,0): mean 10/4;
    powers (2,0) about (1/2, 0): 5/2 divided by (1/4+1/4)·2 = 1 -/
example : momentsFull (fun n => (n : Rat)) 2 2 [[1, 2], [3, 4]] 1 1 none true = 4 ∧
    momentsFull (fun n => (n : Rat)) 2 2 [[1, 2], [3, 4]] 0 0 none true = 5 / 2 ∧
    momentsFull (fun n => (n : Rat)) 2 2 [[1, 2], [3, 4]] 2 0 (some (1 / 2, 0)) true = 5 / 2 ∧
    momentsFull (fun n => (n : Rat)) 2 2 [[1, 2], [3, 4]] 2 0 (some (1 / 2, 0)) false = 5 / 2 := by decide +kernel

/-- **C19-T5 (central moments are translation invariant).** Over every commutative ring, for the model of `moments`
(= the defining sum, `C19_moments_def_any_ring`): putting a row of zeros on top of the image and moving the centre down by
one, or a column of zeros to its left and moving the centre right by one, leaves every moment `(p0, p1)` unchanged — so
moments about the centre of mass do not depend on where the object sits in the frame (iterate for any integer shift). -/
theorem C19_moments_translation {R : Type} [CommRing R] (rows : List (List R)) (n p0 p1 : Nat) (c0 c1 : R) :
    momentsSpec (Nat.cast : Nat → R) (List.replicate n 0 :: rows) p0 p1 (c0 + 1) c1 =
      momentsSpec Nat.cast rows p0 p1 c0 c1 ∧
    momentsSpec (Nat.cast : Nat → R) (rows.map fun r => (0 : R) :: r) p0 p1 c0 (c1 + 1) =
      momentsSpec Nat.cast rows p0 p1 c0 c1 := by
  rw [← Gen.moments_eq_spec, ← Gen.moments_eq_spec, ← Gen.moments_eq_spec]
  exact ⟨Machine.moments_shift_rows rows n p0 p1 c0 c1, Machine.moments_shift_cols rows p0 p1 c0 c1⟩

example : momentsSpec (Nat.cast : Nat → Int) [[0, 0], [1, 2], [3, 4]] 2 1 (1 + 1) 0 = 2 ∧
    momentsSpec (Nat.cast : Nat → Int) [[1, 2], [3, 4]] 2 1 1 0 = 2 ∧
    momentsSpec (Nat.cast : Nat → Int) [[0, 1, 2], [0, 3, 4]] 2 1 1 (0 + 1) = 2 := by decide

/-- **C19-T6 (Zernike radial polynomial = textbook formula).** Over every field: `fact(n)` of `_zernike.cpp` (the extracted
table below 13, the recursion `n·fact(n−1)` beyond) is `n!` for **every** `n`; the coefficient `g_m[m]` that `znl` tabulates
is the textbook coefficient `(−1)^m (n−m)! / (m! ((n+l)/2 − m)! ((n−l)/2 − m)!)` of `ρ^(n−2m)` for every `m ≤ (n−l)/2`; the
inner loop of `znl` at one pixel is `R_n^l(d)·a` with `zRadial n l d = Σ_{m ≤ (n−l)/2} g_m · pow(d, n−2m)` (any `pow`);
in characteristic 0, `R_n^n(d) = pow(d, n)`. -/
theorem C19_zernike_radial_textbook {α : Type} [Field α] :
    (∀ n : Nat, zfact (Nat.cast : Nat → α) n = ((n.factorial : Nat) : α)) ∧
    (∀ n l m : Nat, 2 * m + l ≤ n →
      zcoef (1 : α) Nat.cast n l m =
        (-1) ^ m * ((n - m).factorial : α) /
          ((m.factorial : α) * (((n + l) / 2 - m).factorial : α) * (((n - l) / 2 - m).factorial : α))) ∧
    (∀ (pow : α → Nat → α) (n l : Nat) (d : α) (a : α × α),
      zVnl 0 1 Nat.cast pow n l d a = cxScale (zRadial 0 1 Nat.cast pow n l d) a) ∧
    (∀ (pow : α → Nat → α) (n l : Nat) (d : α),
      zRadial 0 1 Nat.cast pow n l d =
        ((List.range ((n - l) / 2 + 1)).map fun m => zcoef 1 Nat.cast n l m * pow d (n - 2 * m)).sum) ∧
    (CharZero α → ∀ (pow : α → Nat → α) (n : Nat) (d : α), zRadial 0 1 Nat.cast pow n n d = pow d n) :=
  ⟨Machine.zfact_eq_factorial, Machine.zcoef_textbook, Machine.zVnl_eq_zRadial, Machine.zRadial_eq_sum,
   fun _ pow n d => Machine.zRadial_diag pow n d⟩

/-- **C19-T6 (radial polynomials at the rim).** For every degree the factorial table covers (`n ≤ 12`, every admissible `l`):
`R_n^l(1) = 1` over ℚ — the normalisation of the Zernike basis (`decide +kernel` on the model's `zRadial`). -/
theorem C19_zernike_radial_at_one : ∀ n ∈ List.range 13, ∀ l ∈ List.range (n + 1), (n - l) % 2 = 0 →
    zRadial (0 : Rat) 1 Nat.cast (fun d k => d ^ k) n l 1 = 1 := by decide +kernel

/-- `R_4^2(ρ) = 4ρ⁴ − 3ρ²` at `ρ = 1/2`; `13! = 6227020800` comes from the recursion, not from the table -/
example : zRadial (0 : Rat) 1 Nat.cast (fun d k => d ^ k) 4 2 (1 / 2) = 4 * (1 / 2) ^ 4 - 3 * (1 / 2) ^ 2 ∧
    zfact (Nat.cast : Nat → Rat) 13 = 6227020800 ∧ zcoef (1 : Rat) Nat.cast 4 2 1 = -3 := by decide +kernel

/-! non-vacuity -/
example : coocCount [2, 3] (fun p => ([0, 1, 1, 1, 0, 1].getD (ravelI [2, 3] p) 0)) [0, 1] 1 1 = 1 ∧
    coocSym [2, 3] (fun p => ([0, 1, 1, 1, 0, 1].getD (ravelI [2, 3] p) 0)) [0, 1] 0 1 = 3 := by decide
example : lbpMap 4 0b0110 = 0b0011 ∧ lbpMap 4 0b1100 = 0b0011 ∧ (1 : Nat) ≤ 4 ∧ 0b0110 < 2 ^ 4 := by decide
example : lbpCompress 3 ([1, 2, 4, 7, 5].map (lbpMap 3)) = [0, 3, 1, 1] := by decide
example : integral 3 [[1, 2, 3], [4, 5, 6]] = [[1, 3, 6], [5, 12, 21]] := by decide
example : moments (fun n => (n : Int)) [[1, 2], [3, 4]] 1 1 0 0 = 4 := by decide
example : zernikeFrac (0 : Rat) [true, false, true, true] [2, 5, 0, 6] = [1 / 4, 3 / 4] ∧
    zernikeFrac (0 : Rat) [true, false, true, true] [20, 50, 0, 60] = [1 / 4, 3 / 4] := by decide +kernel
example : (normMat (Nat.cast : Nat → Rat) [1, 2, 2, 3]).toList = [1 / 8, 1 / 4, 1 / 4, 3 / 8] ∧
    pplusG (0 : Rat) 2 (matAt 0 2 (normMat (Nat.cast : Nat → Rat) [1, 2, 2, 3])) = [1 / 8, 1 / 2, 3 / 8, 0] ∧
    pminusG (0 : Rat) 2 (matAt 0 2 (normMat (Nat.cast : Nat → Rat) [1, 2, 2, 3])) = [1 / 2, 1 / 2] := by
  decide +kernel
/-- a 2×3 image, centre (1/2, 1), radius 2 (with `sqrt := id`, a legitimate instance of the arbitrary function):
    `z_11 = −1/8 − i/24`, and the rotated image gives `i · z_11 = 1/24 − i/8` -/
example :
    let im : Nat → Nat → Rat := fun y x => ([1, 2, 0, 3, 1, 1] : List Rat).getD (y * 3 + x) 0
    zernikeZ (0 : Rat) 1 Nat.cast (fun x => x) (fun d k => d ^ k) (1 / 1000000000) 3 2 3 im (1 / 2) 1 2 1 1
      = (-1 / 8, -1 / 24) ∧
    zernikeZ (0 : Rat) 1 Nat.cast (fun x => x) (fun d k => d ^ k) (1 / 1000000000) 3 3 2
      (fun i j => im j (3 - 1 - i)) (3 - 1 - 1) (1 / 2) 2 1 1 = (1 / 24, -1 / 8) := by
  decide +kernel
example : pivots 4 = [0, 1, 3, 5, 7, 15] ∧ (pivots 8).length = 36 ∧ RotEq 4 0b0110 0b0011 := by
  refine ⟨by decide +kernel, by decide +kernel, ⟨1, by decide⟩⟩
/-- the count matrix `[[1,2],[2,3]]`: contrast 1/2, sum average 5/4, IDM 3/4, variances 15/64, covariance −1/64 -/
example :
    let P := matAt (0 : Rat) 2 (normMat (Nat.cast : Nat → Rat) [1, 2, 2, 3])
    contrastG 0 Nat.cast 2 (pminusG 0 2 P) = 1 / 2 ∧ sumAvgG 0 Nat.cast 2 (pplusG 0 2 P) = 5 / 4 ∧
    idmG 0 1 Nat.cast 2 P = 3 / 4 ∧ varG 0 Nat.cast (colSumG 0 2 P) 2 = 15 / 64 ∧
    covG 0 Nat.cast 2 P (meanG 0 Nat.cast (colSumG 0 2 P) 2) (meanG 0 Nat.cast (rowSumG 0 2 P) 2) = -1 / 64 := by
  decide +kernel
/-- a 2×3 image with levels 0..2, direction (0,1): reversed data and swapped axes give the same symmetric matrix -/
example :
    let im : Img Int := { shape := [2, 3], data := #[0, 1, 2, 2, 1, 1] }
    symFold 3 (coocModel 3 { shape := [2, 3], data := im.data.reverse } [0, 1]) = #[0, 1, 0, 1, 2, 2, 0, 2, 0] ∧
    symFold 3 (coocModel 3 im [0, 1]) = #[0, 1, 0, 1, 2, 2, 0, 2, 0] ∧
    (swapImg im).data = #[0, 2, 1, 1, 2, 1] ∧
    symFold 3 (coocModel 3 (swapImg im) [1, 0]) = #[0, 1, 0, 1, 2, 2, 0, 2, 0] := by
  decide +kernel
example :
    let im : Nat → Nat → Rat := fun y x => ([1, 2, 0, 3, 1, 1] : List Rat).getD (y * 3 + x) 0
    zernikeZ (0 : Rat) 1 Nat.cast (fun x => x) (fun d k => d ^ k) (1 / 1000000000) 3 2 3 (fun y x => 7 * im y x)
      (1 / 2) 1 2 1 1 = (-1 / 8, -1 / 24) ∧
    zernikeZ (0 : Rat) 1 Nat.cast (fun x => x) (fun d k => d ^ k) (1 / 1000000000) 3 2 3
      (fun i j => im (2 - 1 - i) (3 - 1 - j)) (2 - 1 - 1 / 2) (3 - 1 - 1) 2 1 1 = (1 / 8, 1 / 24) := by
  decide +kernel
/-- the entropy hypotheses are satisfiable (count matrix `[[1,2],[2,3]]`), and a fair coin has one bit -/
example : 0 ≤ entropyG 0 log2R (normMat (Nat.cast : ℕ → ℝ) [1, 2, 2, 3]).toList :=
  (C19_haralick_entropies.2 2 [1, 2, 2, 3] rfl (by decide)).1.2.1
example : entropyG 0 log2R [1 / 2, 1 / 2] = 1 := by
  rw [entropyG_eq]
  have h : Real.logb 2 (1 / 2) = -1 := by
    rw [one_div, Real.logb_inv, Real.logb_self_eq_one (by norm_num)]
  simp only [List.map_cons, List.map_nil, List.sum_cons, List.sum_nil, xlog, log2R, h]
  norm_num
/-- `uint8` arithmetic: 200 + 100 wraps to 44 -/
example : integral 2 ([[200, 100], [100, 200]] : List (List (ZMod 256))) = [[200, 44], [44, 88]] := by decide
example : moments (fun n => (n : Rat)) [[1, 2], [3, 4]] 2 0 (1 / 2) 0 = 5 / 2 := by decide +kernel

/-! ## Round 4 (tas / haralick options / lbp sampling) -/

/-- **TAS, model = counting definition.** For every image shape of rank 2 (rank 3) and every binarisation `b`, the
integer part of `tas.py: _ctas` — `np.histogram(convolve(b.astype(uint8), M), bins)[0][:saved]` with the kernel of
ones whose centre is 10 (28), border mode `reflect`, `bins = arange(11)` (`arange(28)`, last bin closed),
`saved = 9` (`27`) — is, bin by bin, the number of pixels that are **not** selected by `b` and have exactly `k` selected
pixels among their 8 (26) neighbours (`k = 0 … 8`, `0 … 26`; a neighbour outside the image is the reflected pixel).
At every pixel the convolution value is `centre·[b p] + #selected neighbours`. -/
theorem C19_tas_counts (s : List Nat) (b : List Int → Bool) :
    (s.length = 2 → C19Tas.ctasCounts s b = (List.range 9).map (C19Tas.tasCount s b)) ∧
    (s.length = 3 → C19Tas.ctasCounts s b = (List.range 27).map (C19Tas.tasCount s b)) ∧
    (∀ w0 p, p ∈ C19Tas.boxPos s →
      C19Tas.convAt s w0 b p = w0 * C19Tas.bit (b p) + C19Tas.nbCount s b p) :=
  ⟨fun h => C19Tas.ctasCounts_2d s h b, fun h => C19Tas.ctasCounts_3d s h b,
   fun w0 p hp => C19Tas.convAt_eq s w0 b p hp⟩

/-- **TAS, the kept bins partition the unselected pixels**: the 9 (27) counts of `_ctas` add up to the number of pixels
not selected by `b` (`values.sum()`, the normalisation constant of `_ctas`). -/
theorem C19_tas_total (s : List Nat) (b : List Int → Bool) (h : s.length = 2 ∨ s.length = 3) :
    (C19Tas.ctasCounts s b).sum = C19Tas.offCount s b := by
  rcases h with h | h
  · rw [C19Tas.ctasCounts_2d s h b]
    exact C19Tas.tasCount_sum s b 8 (by rw [h]; exact C19Tas.nb_len2)
  · rw [C19Tas.ctasCounts_3d s h b]
    exact C19Tas.tasCount_sum s b 26 (by rw [h]; exact C19Tas.nb_len3)

/-- **TAS, normalisation** (`values / float(s)` when `s > 0`): over any ordered field every entry of `_ctas` lies in
`[0, 1]`; the entries sum to 1 when some pixel is not selected; when every pixel is selected all entries are 0. The
model's `ctas` is this definition at the scalar type (the driver runs it at `Float`). -/
theorem C19_tas_normalised {α : Type} [Field α] [LinearOrder α] [IsStrictOrderedRing α]
    (s : List Nat) (b : List Int → Bool) (h : s.length = 2 ∨ s.length = 3) :
    (∀ x ∈ C19Tas.ctas (Nat.cast : Nat → α) s b, 0 ≤ x ∧ x ≤ 1) ∧
    (0 < C19Tas.offCount s b → (C19Tas.ctas (Nat.cast : Nat → α) s b).sum = 1) ∧
    (C19Tas.offCount s b = 0 → ∀ x ∈ C19Tas.ctas (Nat.cast : Nat → α) s b, x = 0) := by
  have ht := C19_tas_total s b h
  refine ⟨fun x hx => C19Tas.normalise_mem _ x hx, fun hpos => ?_, fun hz x hx => ?_⟩
  · exact C19Tas.normalise_sum _ (by rw [ht]; exact hpos)
  · exact C19Tas.normalise_zero _ (by rw [ht]; exact hz) x hx

/-- **TAS, the complement half is Hamilton's statistic.** `_tas` also evaluates `_ctas` on `~b`. Bin `k` of that half
is the number of pixels **selected** by `b` that have exactly `N − k` selected neighbours (`N = 8`, `26`): the
threshold adjacency statistic of Hamilton et al. with the bin order reversed. (The half computed on `b` itself counts
the unselected pixels by selected neighbours — theorem `C19_tas_counts`.) -/
theorem C19_tas_complement (s : List Nat) (b : List Int → Bool) :
    (s.length = 2 → C19Tas.ctasCounts s (fun p => !b p)
        = (List.range 9).map fun k => C19Tas.hamiltonCount s b (8 - k)) ∧
    (s.length = 3 → C19Tas.ctasCounts s (fun p => !b p)
        = (List.range 27).map fun k => C19Tas.hamiltonCount s b (26 - k)) := by
  constructor
  · intro h
    rw [C19Tas.ctasCounts_2d s h]
    apply List.map_congr_left
    intro k hk
    have hk9 : k < 9 := by simpa using hk
    exact C19Tas.tasCount_not s b 8 k (by rw [h]; exact C19Tas.nb_len2) (by omega)
  · intro h
    rw [C19Tas.ctasCounts_3d s h]
    apply List.map_congr_left
    intro k hk
    have hk27 : k < 27 := by simpa using hk
    exact C19Tas.tasCount_not s b 26 k (by rw [h]; exact C19Tas.nb_len3) (by omega)

/-- a 2×3 image with one selected pixel in a corner: the corner sees itself three times through the reflecting border -/
example :
    let b : List Int → Bool := fun p => p == [0, 0]
    C19Tas.ctasCounts [2, 3] b = [2, 1, 2, 0, 0, 0, 0, 0, 0] ∧
    C19Tas.ctasCounts [2, 3] (fun p => !b p) = [0, 0, 0, 0, 0, 1, 0, 0, 0] ∧
    C19Tas.hamiltonCount [2, 3] b 3 = 1 ∧ C19Tas.offCount [2, 3] b = 5 ∧
    C19Tas.ctas (Nat.cast : Nat → Rat) [2, 3] b = [2 / 5, 1 / 5, 2 / 5, 0, 0, 0, 0, 0, 0] := by
  decide +kernel
example : (C19Tas.ctasCounts [2, 2, 2] (fun p => p == [0, 0, 0])).sum = 7 := by decide +kernel

/-- **haralick options `ignore_zeros`, `distance`, 3-D directions on the count matrix.** For every image (rank 2 or 3
or any other) with values in `[0, m)`, every direction index `dir`, every `distance` and all levels `a, b < m`: the matrix
the driver normalises for `haralick(f, ignore_zeros=True, distance=dist)` — `stripZeros` (`cmat[0] = 0; cmat[:,0] = 0`)
of the symmetric fold of the `_texture.cpp` scan with the offset `direction nd dir dist` — has entry `(a, b)` equal to
0 when `a = 0` or `b = 0`, and otherwise to the number of ordered pixel pairs `(p, p ± dist·δ_dir)` inside the image
with values `(a, b)`: the co-occurrence matrix with row and column 0 removed, of the direction vector scaled by the
distance (`δ_dir` = row `dir` of the extracted `_2d_deltas` / `_3d_deltas`, 4 / 13 rows). -/
theorem C19_haralick_ignore_zeros_distance (m : Nat) (im : Img Int) (dir : Nat) (dist : Int)
    (hv : ∀ p, 0 ≤ im.getD p 0 ∧ im.getD p 0 < (m : Int)) (a b : Nat) (ha : a < m) (hb : b < m) :
    direction im.shape.length dir dist
      = ((if im.shape.length == 2 then deltas2d else deltas3d).getD dir []).map (· * dist) ∧
    (stripZeros m (symFold m (coocModel m im (direction im.shape.length dir dist))).toList).getD (a * m + b) 0
      = (if a = 0 ∨ b = 0 then 0
         else coocSym im.shape (fun p => im.getD p 0) (direction im.shape.length dir dist) a b) ∧
    deltas2d.length = 4 ∧ deltas3d.length = 13 := by
  refine ⟨rfl, ?_, by decide, by decide⟩
  rw [stripZeros_getD m _ a b ha hb]
  split
  · rfl
  · rw [← (C19_cooc_counts m im _ hv).2.2 a b ha hb |>.2, Array.getD_eq_getD_getElem?, List.getD_eq_getElem?_getD,
      Array.getElem?_toList]

/-- **haralick, 14th feature: Haralick's matrix `Q`.** Over any ordered field, for every `m × m` count matrix with a
non-zero total and `p = c/Σc`: the model's `Q(i,j) = Σ_k p(i,k) p(j,k) / (p_x(i) p_y(k))` (terms of empty rows/columns
dropped; the driver evaluates the same definition at `Float`) has non-negative entries; every row `i` whose marginal
`p_x(i)` is not zero sums to 1 — `Q·1 = 1` on the occupied levels, so 1 is an eigenvalue of `Q` (of a non-negative
row-stochastic matrix: the largest one, which is why feature 14 takes the *second* largest); and `Q` is reversible with
respect to the row marginal, `p_x(i)·Q(i,j) = p_x(j)·Q(j,i)`, i.e. `Q` is similar to the symmetric matrix whose
eigenvalues `texture.py` computes, so its eigenvalues are real. (No eigenvalue algorithm is modelled: the square root of
the second largest eigenvalue of the model's `Q` is taken numerically by the harness and compared with the real output.) -/
theorem C19_haralick_Q {α : Type} [Field α] [LinearOrder α] [IsStrictOrderedRing α]
    (m : Nat) (c : List Nat) (hlen : c.length = m * m) (hT : c.sum ≠ 0) :
    let P := matAt (0 : α) m (normMat (Nat.cast : Nat → α) c)
    (∀ i < m, ∀ j < m, 0 ≤ qMatG (0 : α) m P i j) ∧
    (∀ i < m, (∑ l ∈ Finset.range m, P i l) ≠ 0 → ∑ j ∈ Finset.range m, qMatG (0 : α) m P i j = 1) ∧
    (∀ i < m, ∀ j < m, (∑ l ∈ Finset.range m, P i l) * qMatG (0 : α) m P i j
        = (∑ l ∈ Finset.range m, P j l) * qMatG (0 : α) m P j i) ∧
    (∀ i < m, (rowSumG (0 : α) m P).getD i 0 = ∑ l ∈ Finset.range m, P i l) := by
  intro P
  have hP : ∀ i < m, ∀ j < m, 0 ≤ P i j := fun i _ j _ => normMat_nonneg c _
  have _ := hlen; have _ := hT
  exact ⟨fun i hi j hj => qMat_nonneg m P hP i j hi hj, fun i hi hr => qMat_row_sum m P hP i hi hr,
    fun i hi j hj => qMat_reversible m P hP i j hi hj, fun i hi => rowSum_getD m P i hi⟩

/-- the count matrix `[[1,2],[2,3]]`: `Q = [[17/45, 28/45], [28/75, 47/75]]` (rows sum to 1, `3·(28/45) = 5·(28/75)`);
    a matrix with an empty level keeps a zero row -/
example :
    let P := matAt (0 : Rat) 2 (normMat (Nat.cast : Nat → Rat) [1, 2, 2, 3])
    (allPairs 2).map (fun ij => qMatG (0 : Rat) 2 P ij.1 ij.2) = [17 / 45, 28 / 45, 28 / 75, 47 / 75] := by
  decide +kernel
example :
    let P := matAt (0 : Rat) 2 (normMat (Nat.cast : Nat → Rat) [0, 0, 0, 3])
    (allPairs 2).map (fun ij => qMatG (0 : Rat) 2 P ij.1 ij.2) = [0, 0, 0, 1] := by
  decide +kernel
example : stripZeros 2 [5, 1, 1, 3] = [0, 0, 0, 3] ∧ direction 2 3 2 = [2, -2] ∧ direction 3 12 3 = [3, -3, -3] := by
  decide +kernel

/-- **LBP sampling (`lbp_transform`).** Over any ordered field with a floor function, for every 2-D image, radius, list
of `(sin, cos)` pairs (any number `P` of points) and every pixel `p` of the image, with the model of C18 for
`interpolate.shift(image, [radius·dy, radius·dx], order=1)` (mode `constant`, `cval = 0`):
(1) the raw code `Σ_i [sample_i(p) > image(p)]·2^i` is a `P`-bit number;
(2) its bit `i` is set exactly when the `i`-th shifted image is brighter at `p` than the centre pixel, the shifted image
    being the order-1 `zoom_shift` pixel of C18 at the coordinate `p − radius·(dy_i, dx_i)`;
(3) wherever that coordinate lies inside the image the sample is the bilinear interpolation of the four surrounding
    pixels (`C18.multilinear`, theorem `C18_fractional_order1_is_linear_nd`);
(4) turning the sampling pattern by one angular step (first sample moved to the end) rotates the raw code
    (`roll_right`), hence the code `_lbp.map` returns — the one `lbp_transform` outputs and `lbp` counts — is unchanged. -/
theorem C19_lbp_sampling {K : Type} [Field K] [LinearOrder K] [IsStrictOrderedRing K]
    {fl : K → Int} (h : C18.IsFloor fl) (im : Img K) (r : K) (dydx : List (K × K)) (p : List Int)
    (hp : inside im.shape p = true) (hs : im.shape.length = 2) :
    let bits := C19Lbp.bitsAt im (dydx.map (C19Lbp.sample fl im r)) p
    C19Lbp.codeOfBits bits < 2 ^ dydx.length ∧
    (∀ i (hi : i < dydx.length), (C19Lbp.codeOfBits bits).testBit i
        = decide (im.getD p 0 < C18.pixel fl 1 .constant 0 im
            [some (-(r * dydx[i].1)), some (-(r * dydx[i].2))] [none, none] p)) ∧
    (∀ d : K × K,
      C18.InRange im.shape (List.zipWith (fun (kk : Int) (s : K) => (kk : K) - s) p [r * d.1, r * d.2]) →
      C18.pixel fl 1 .constant 0 im [some (-(r * d.1)), some (-(r * d.2))] [none, none] p
        = C18.multilinear fl (fun pos => im.getD pos 0) im.shape
            (List.zipWith (fun (kk : Int) (s : K) => (kk : K) - s) p [r * d.1, r * d.2])) ∧
    (∀ b rest, bits = b :: rest →
      lbpMap dydx.length (C19Lbp.codeOfBits (rest ++ [b])) = lbpMap dydx.length (C19Lbp.codeOfBits bits)) := by
  intro bits
  have hlen : bits.length = dydx.length := by simp [bits, C19Lbp.bitsAt]
  refine ⟨by rw [← hlen]; exact C19Lbp.codeOfBits_lt bits, ?_, ?_, ?_⟩
  · intro i hi
    rw [C19Lbp.testBit_codeOfBits, C19Lbp.bitsAt_getD im _ p i (by simpa using hi)]
    rw [List.getD_eq_getElem?_getD, List.getElem?_map, List.getElem?_eq_getElem hi]
    simp only [Option.map_some, Option.getD_some, C19Lbp.sample_getD fl im r _ p hp]
  · intro d hr
    have hpl : p.length = 2 := by rw [inside_length hp, hs]
    have hc := (C18_shift_coordinate_map fl 1 .constant 0 im [r * d.1, r * d.2] p
      (C19Lbp.inside_nonneg _ _ hp) (by rw [hs, hpl]) (by rw [hpl]; rfl)).2
    have hmap : ([r * d.1, r * d.2].map fun s => some (-s)) = [some (-(r * d.1)), some (-(r * d.2))] := rfl
    have hnone : ([r * d.1, r * d.2].map fun _ => (none : Option K)) = [none, none] := rfl
    rw [hmap, hnone] at hc
    rw [← hc] at hr ⊢
    exact C18_fractional_order1_is_linear_nd h .constant 0 im _ _ p hr
  · intro b rest hb
    have hl : dydx.length = rest.length + 1 := by rw [← hlen, hb]; rfl
    rw [hb, hl]
    exact C19Lbp.lbpMap_rotate b rest

/-- a 3×3 ramp, radius 1, the four axis directions with exact sines/cosines: the centre pixel sees its four neighbours
    (`image[p − (dy, dx)]`, 0 outside the image), the brighter ones set their bit; rotating the pattern keeps the mapped code -/
example :
    let im : Img Rat := { shape := [3, 3], data := #[1, 2, 3, 4, 5, 6, 7, 8, 9] }
    let dydx : List (Rat × Rat) := [(0, 1), (1, 0), (0, -1), (-1, 0)]
    C19Lbp.rawCodes (fun x => x.floor) im 1 dydx false = [12, 12, 8, 12, 12, 8, 4, 4, 0] ∧
    C19Lbp.rawCodes (fun x => x.floor) im (1 / 2) dydx false = [12, 12, 8, 12, 12, 8, 4, 4, 0] ∧
    (C19Lbp.rawCodes (fun x => x.floor) im 1 dydx false).map (lbpMap 4) = [3, 3, 1, 3, 3, 1, 1, 1, 0] := by
  decide +kernel

/-- **haralick `return_mean` / `return_mean_ptp`.** Over any ordered field, for every non-empty feature matrix (one row
per direction, all rows of width `w`) and every column `j < w`: the model of `features.mean(axis=0)` (rows added in
order, one division by the number of rows; the driver runs it at `Float` on the real feature matrix and must reproduce
the real output bit for bit) is the arithmetic mean of the column; the model of `np.ptp(features, axis=0)` is
`hi − lo` for two entries `hi`, `lo` of the column that bound every entry; hence `lo ≤ mean ≤ hi`, `ptp ≥ 0`, and
`ptp = 0` exactly when the feature takes the same value in every direction (then that value is the mean). -/
theorem C19_haralick_mean_ptp {α : Type} [Field α] [LinearOrder α] [IsStrictOrderedRing α]
    (w : Nat) (r0 : List α) (rest : List (List α)) (h0 : r0.length = w) (hr : ∀ r ∈ rest, r.length = w)
    (j : Nat) (hj : j < w) :
    let rows := r0 :: rest
    let col := rows.map (·.getD j 0)
    let mean := (colMeanG (Nat.cast : Nat → α) rows).getD j 0
    let ptp := (colPtpG rows).getD j 0
    mean = col.sum / (rows.length : α) ∧
    ∃ hi ∈ col, ∃ lo ∈ col, (∀ x ∈ col, lo ≤ x ∧ x ≤ hi) ∧ ptp = hi - lo ∧ lo ≤ mean ∧ mean ≤ hi ∧ 0 ≤ ptp ∧
      (ptp = 0 → ∀ x ∈ col, x = mean) :=
  col_mean_ptp w r0 rest h0 hr j hj

/-- **haralick marginals.** Over any ordered field, for every `m × m` count matrix with a non-zero total: the marginals
`p_x = p.sum(0)` and `p_y = p.sum(1)` of `haralick13` (`colSumG`, `rowSumG` of the normalised matrix) are probability
vectors — entries in `[0, 1]`, each summing to 1. -/
theorem C19_haralick_marginals {α : Type} [Field α] [LinearOrder α] [IsStrictOrderedRing α]
    (m : Nat) (c : List Nat) (hlen : c.length = m * m) (hT : c.sum ≠ 0) :
    let P := matAt (0 : α) m (normMat (Nat.cast : Nat → α) c)
    ∑ k ∈ Finset.range m, (rowSumG (0 : α) m P).getD k 0 = 1 ∧ ∑ k ∈ Finset.range m, (colSumG (0 : α) m P).getD k 0 = 1 ∧
    (∀ k < m, 0 ≤ (rowSumG (0 : α) m P).getD k 0 ∧ (rowSumG (0 : α) m P).getD k 0 ≤ 1) ∧
    (∀ k < m, 0 ≤ (colSumG (0 : α) m P).getD k 0 ∧ (colSumG (0 : α) m P).getD k 0 ≤ 1) :=
  marginals_sum m c hlen hT

example : colMeanG (Nat.cast : Nat → Rat) [[1, 5], [3, 5], [8, 5]] = [4, 5] ∧
    colPtpG ([[1, 5], [3, 5], [8, 5]] : List (List Rat)) = [7, 0] := by decide +kernel
example :
    let P := matAt (0 : Rat) 2 (normMat (Nat.cast : Nat → Rat) [1, 2, 2, 3])
    rowSumG (0 : Rat) 2 P = [3 / 8, 5 / 8] ∧ colSumG (0 : Rat) 2 P = [3 / 8, 5 / 8] := by decide +kernel

/-- **haralick, 14th feature: `Q` has no negative eigenvalue.** Over any ordered field, for every count matrix with a
non-zero total, `p = c/Σc` and every vector `x`: the quadratic form of `Q` weighted by the row marginal is a sum of
squares, `Σ_i Σ_j p_x(i) Q(i,j) x_i x_j = Σ_k (Σ_i p(i,k) x_i)² / p_y(k) ≥ 0` (`k` over the occupied columns). Together
with `C19_haralick_Q` (reversible, row-stochastic, non-negative): every eigenvalue of `Q` is real and `≥ 0`, so the
square root `texture.py` takes of the second largest one is defined (the `max(0, ·)` guard only absorbs rounding). -/
theorem C19_haralick_Q_psd {α : Type} [Field α] [LinearOrder α] [IsStrictOrderedRing α]
    (m : Nat) (c : List Nat) (x : Nat → α) :
    let P := matAt (0 : α) m (normMat (Nat.cast : Nat → α) c)
    ∑ i ∈ Finset.range m, ∑ j ∈ Finset.range m, (∑ l ∈ Finset.range m, P i l) * qMatG (0 : α) m P i j * (x i * x j)
      = ∑ k ∈ Finset.range m, (if (∑ l ∈ Finset.range m, P l k) = 0 then 0
          else (∑ i ∈ Finset.range m, P i k * x i) ^ 2 / (∑ l ∈ Finset.range m, P l k)) ∧
    0 ≤ ∑ i ∈ Finset.range m, ∑ j ∈ Finset.range m, (∑ l ∈ Finset.range m, P i l) * qMatG (0 : α) m P i j * (x i * x j) := by
  intro P
  exact qMat_psd m P (fun i _ j _ => normMat_nonneg c _) x

/-- the count matrix `[[1,2],[2,3]]` and `x = (1, −1)`: `3/8·(17/45 − 28/45) + 5/8·(47/75 − 28/75) = 1/15 = (1/8−2/8)²/(3/8) + (2/8−3/8)²/(5/8)` -/
example :
    let P := matAt (0 : Rat) 2 (normMat (Nat.cast : Nat → Rat) [1, 2, 2, 3])
    let x : Nat → Rat := fun i => if i = 0 then 1 else -1
    ∑ i ∈ Finset.range 2, ∑ j ∈ Finset.range 2, (∑ l ∈ Finset.range 2, P i l) * qMatG (0 : Rat) 2 P i j * (x i * x j) = 1 / 15 := by
  decide +kernel

/-- **TAS, the border rule is `fix_offset(ExtendReflect)`.** The model of `_ctas` folds a window position one step outside
an axis of length `n ≥ 1` with `reflect1` (`−1 ↦ 0`, `n ↦ n−1`); for every index the 3-wide window can produce
(`−1 ≤ i ≤ n`) this is exactly what the shared transliteration of `_filters.cpp: fix_offset` returns for the mode
`reflect` that `convolve` uses by default (`Model/Border.lean: fixOffset`, the border model of C01–C03). -/
theorem C19_tas_border_is_reflect (n : Nat) (hn : 1 ≤ n) (i : Int) (h0 : -1 ≤ i) (h1 : i ≤ n) :
    fixOffset .reflect i n = some (C19Tas.reflect1 n i) :=
  C19Tas.reflect1_eq_fixOffset n hn i h0 h1

example : C19Tas.reflect1 5 (-1) = 0 ∧ C19Tas.reflect1 5 5 = 4 ∧ C19Tas.reflect1 5 3 = 3 ∧ C19Tas.reflect1 1 1 = 0 ∧
    fixOffset .reflect 5 5 = some 4 := by decide

/-- **haralick, 14th feature: the spectrum of `Q` lies in `[0, 1]`.** Over any ordered field, for every count matrix,
`p = c/Σc`: the Rayleigh quotient of `Q` in the inner product weighted by the row marginal is at most 1,
`Σ_i Σ_j p_x(i) Q(i,j) x_i x_j ≤ Σ_i p_x(i) x_i²` (weighted Cauchy–Schwarz per column), and therefore every eigenvalue
`λ` of `Q` (`Q x = λ x` with an eigenvector not supported on empty levels only) satisfies `0 ≤ λ ≤ 1`. Together with
`C19_haralick_Q` (`Q·1 = 1`): 1 is the largest eigenvalue and the maximal correlation coefficient — the square root of
the second largest — lies in `[0, 1]` (the value 1.2247 returned before fix `73cd2a6` was impossible). -/
theorem C19_haralick_Q_spectrum {α : Type} [Field α] [LinearOrder α] [IsStrictOrderedRing α]
    (m : Nat) (c : List Nat) (x : Nat → α) :
    let P := matAt (0 : α) m (normMat (Nat.cast : Nat → α) c)
    (∑ i ∈ Finset.range m, ∑ j ∈ Finset.range m, (∑ l ∈ Finset.range m, P i l) * qMatG (0 : α) m P i j * (x i * x j)
      ≤ ∑ i ∈ Finset.range m, (∑ l ∈ Finset.range m, P i l) * x i ^ 2) ∧
    (∀ lam : α, (∀ i < m, ∑ j ∈ Finset.range m, qMatG (0 : α) m P i j * x j = lam * x i) →
      0 < ∑ i ∈ Finset.range m, (∑ l ∈ Finset.range m, P i l) * x i ^ 2 → 0 ≤ lam ∧ lam ≤ 1) := by
  intro P
  have hP : ∀ i < m, ∀ j < m, 0 ≤ P i j := fun i _ j _ => normMat_nonneg c _
  exact ⟨qMat_le_one m P hP x, fun lam hx hS => qMat_eigenvalue_bounds m P hP x lam hx hS⟩

/-- the count matrix `[[1,2],[2,3]]`: `x = (5, −3)` is an eigenvector of `Q` with eigenvalue `1/225` (and `(1,1)` with 1) -/
example :
    let P := matAt (0 : Rat) 2 (normMat (Nat.cast : Nat → Rat) [1, 2, 2, 3])
    let x : Nat → Rat := fun i => if i = 0 then 5 else -3
    (∀ i < 2, ∑ j ∈ Finset.range 2, qMatG (0 : Rat) 2 P i j * x j = 1 / 225 * x i) ∧
    (∀ i < 2, ∑ j ∈ Finset.range 2, qMatG (0 : Rat) 2 P i j * 1 = 1) := by
  decide +kernel
