/-
C20 — property theorems (statements only; helper lemmas live in `Proofs/C20.lean`).
The tables are the ones `translator/tables.py` extracts from `colors.py` on every run.
-/
import Mahotas.Proofs.C20
namespace Mahotas.C20
open Mahotas Mahotas.Generated

/-- absolute value without Mathlib's lattice machinery -/
def absQ (q : Rat) : Rat := if q < 0 then -q else q

/-- row-wise sums of absolute deviations of `xyz2rgb · rgb2xyz` from the identity -/
def inverseDefect : List Rat :=
  let prod := matMul xyz2rgbMQ rgb2xyzMQ
  (List.range 3).map fun i =>
    ((List.range 3).map fun j => absQ ((prod.getD i []).getD j 0 - (if i = j then 1 else 0))).foldl (· + ·) 0

end Mahotas.C20

open Mahotas Mahotas.C20 Mahotas.Generated

/-- **C20-T0 (the code's numbers are the standard's).** The matrices and constants extracted from
`colors.py` are the sRGB (IEC 61966-2-1, 4-digit matrix) and CIE L*a*b* (D65 white point, `δ = 6/29`,
threshold `δ³`) numbers, and every `np.choose` takes the *linear* alternative where its test
(`value ≤ knee`) holds. -/
theorem C20_tables_are_the_standard :
    rgb2xyzMQ = [[0.4124, 0.3576, 0.1805], [0.2126, 0.7152, 0.0722], [0.0193, 0.1192, 0.9505]] ∧
    xyz2rgbMQ = [[3.2406, -1.5372, -0.4986], [-0.9689, 1.8758, 0.0415], [0.0557, -0.2040, 1.0570]] ∧
    labWhiteQ = [0.95047, 1, 1.08883] ∧
    srgbAQ = 0.055 ∧ srgbAInvQ = 0.055 ∧ srgbGammaQ = 2.4 ∧ srgbSlopeQ = 12.92 ∧ srgbSlopeInvQ = 12.92 ∧
    srgbScaleQ = 255 ∧ srgbKneeQ = 0.04045 ∧ srgbKneeInvQ = 0.0031308 ∧
    labDeltaNumQ = 6 ∧ labDeltaDenQ = 29 ∧ labKneeExp = 3 ∧
    fwdLowWhenBelow = true ∧ invLowWhenBelow = true ∧ labSmallWhenBelow = true := by
  refine ⟨?_, ?_, ?_, ?_, ?_, ?_, ?_, ?_, ?_, ?_, ?_, ?_, ?_, ?_, ?_, ?_, ?_⟩ <;>
    first
      | rfl
      | norm_num [rgb2xyzMQ, xyz2rgbMQ, labWhiteQ, srgbAQ, srgbAInvQ, srgbGammaQ, srgbSlopeQ, srgbSlopeInvQ,
          srgbScaleQ, srgbKneeQ, srgbKneeInvQ, labDeltaNumQ, labDeltaDenQ]

/-- **C20 (model = standard).** With the selections as extracted from the source, the executable model
of `rgb2xyz`, `xyz2rgb` and `rgb2lab` (Float) *is* the specification (linear segment below the knee,
power law above; cube root above `(6/29)³`), which is written with the standards' own literal numbers: the functions the driver prints as `xyz`/`xyzspec`, `lab`/`labspec` coincide on every input. On the tree before
the repair the extracted flags were `false` and this theorem did not hold. -/
theorem C20_model_is_standard (rgb xyz : List Float) :
    rgb2xyz rgb = rgb2xyzSpec rgb ∧ xyz2rgb xyz = xyz2rgbSpec xyz ∧ rgb2lab rgb = rgb2labSpec rgb := by
  have h1 : ∀ c, srgbToLinearWith fwdLowWhenBelow c = srgbToLinearStd c := fun c => by
    simp [srgbToLinearWith, srgbToLinearStd, fwdLowWhenBelow, srgbScaleF, srgbAF, srgbGammaF, srgbSlopeF, srgbKneeF]
  have h2 : ∀ v, linearToSrgbWith invLowWhenBelow v = linearToSrgbStd v := fun v => by
    simp [linearToSrgbWith, linearToSrgbStd, invLowWhenBelow, srgbAInvF, srgbSlopeInvF, srgbKneeInvF]
  have h3 : ∀ t, labFWith labSmallWhenBelow labKneeExp t = labFStd t := fun t => by
    simp [labFWith, labFStd, labSmallWhenBelow, labKneeExp, labDeltaNumF, labDeltaDenF]
  have e1 : ∀ l, rgb2xyz l = rgb2xyzSpec l := fun l => by
    simp only [rgb2xyz, rgb2xyzWith, rgb2xyzSpec, funext h1]; rfl
  have e3 : ∀ l, xyz2lab l = xyz2labSpec l := fun l => by
    rcases l with _ | ⟨x, _ | ⟨y, _ | ⟨z, _ | ⟨w, t⟩⟩⟩⟩ <;>
      simp [xyz2lab, xyz2labWith, xyz2labSpec, labWhiteF, h3]
  refine ⟨e1 rgb, ?_, ?_⟩
  · simp only [xyz2rgb, xyz2rgbWith, xyz2rgbSpec, funext h2]; rfl
  · simp only [rgb2lab, rgb2labSpec, e1, e3]

/-- **C20-T1 (white and black).** In exact arithmetic the matrix maps linear white `(1,1,1)` to the
D65 white point `(0.9505, 1, 1.089)` — the `Y` row sums to 1 exactly — and black to 0. -/
theorem C20_white_black :
    matVec rgb2xyzMQ [1, 1, 1] = [(9505 : Rat) / 10000, 1, (1089 : Rat) / 1000] ∧
    matVec rgb2xyzMQ [0, 0, 0] = [0, 0, 0] :=
  ⟨white_point, black_point⟩

/-- **C20-T2 (linear part monotone).** Every entry of the forward matrix is positive, hence every XYZ
output is non-decreasing in each linear channel (exact arithmetic). Together with the monotonicity of
the transfer function (validated numerically, see the evidence) this is the statement's
"each output is non-decreasing in each channel". -/
theorem C20_matrix_monotone (r g b r' g' b' : Rat) (hr : r ≤ r') (hg : g ≤ g') (hb : b ≤ b') :
    List.Forall₂ (· ≤ ·) (matVec rgb2xyzMQ [r, g, b]) (matVec rgb2xyzMQ [r', g', b']) := by
  rw [matVec_rgb2xyz, matVec_rgb2xyz]
  refine List.Forall₂.cons ?_ (List.Forall₂.cons ?_ (List.Forall₂.cons ?_ List.Forall₂.nil)) <;> linarith

/-- **C20-T4 (inverse matrix).** `xyz2rgb`'s matrix inverts `rgb2xyz`'s up to the 4-digit rounding of the
standard: every row of `M⁻¹·M − I` has absolute sum at most `7·10⁻⁵`. With the slope `12.92·255` of
the encoding this bounds the round-trip error by 0.231 8-bit units — "to within rounding". -/
theorem C20_inverse_matrix : ∀ e ∈ inverseDefect, e ≤ (7 : Rat) / 100000 := by
  decide +kernel

/-- **C20-T5 (grey is the documented linear map).** `rgb2grey = 0.30 r + 0.59 g + 0.11 b`; the weights sum
to 1, so a grey `(v,v,v)` maps to `v`. -/
theorem C20_grey_linear (r g b v : Rat) :
    grey greyWQ r g b = (3 : Rat) / 10 * r + (59 : Rat) / 100 * g + (11 : Rat) / 100 * b ∧
    grey greyWQ v v v = v := by
  constructor <;> simp [grey, dot, greyWQ] <;> ring

/-- **C20-T5 (sepia).** The sepia weights are the documented matrix and the specification clips to
`[0,255]` before truncating: every output channel lies in `0..255`. -/
theorem C20_sepia_clipped (r g b : Int) :
    sepiaMQ = [[0.393, 0.769, 0.189], [0.349, 0.686, 0.168], [0.272, 0.534, 0.131]] ∧
    ∀ v ∈ sepiaSpecQ r g b, 0 ≤ v ∧ v ≤ 255 := by
  constructor
  · norm_num [sepiaMQ]
  · intro v hv
    simp only [sepiaSpecQ, List.mem_map] at hv
    obtain ⟨q, _, rfl⟩ := hv
    constructor
    · apply Rat.le_floor_iff.mpr
      have : (0 : Rat) ≤ (if (if q < 255 then q else 255) < 0 then 0 else (if q < 255 then q else 255)) := by
        split <;> split <;> simp_all
      exact_mod_cast this
    · have : (if (if q < 255 then q else 255) < 0 then 0 else (if q < 255 then q else 255)) ≤ (255 : Rat) := by
        (split <;> split <;> simp_all); all_goals linarith
      have h2 := Rat.floor_le (if (if q < 255 then q else 255) < 0 then 0 else (if q < 255 then q else 255))
      have : ((Rat.floor (if (if q < 255 then q else 255) < 0 then 0 else (if q < 255 then q else 255)) : Int) : Rat) ≤ 255 := by
        linarith
      exact_mod_cast this

/-- **C20-T6 (stretch is a monotone range map).** Over the rationals, for every image (list of pixels)
and every request `lo ≤ hi`, `stretch` (before the final cast, including the cap at `hi`) is `map g` for a non-decreasing `g`
that sends every pixel into `[lo, hi]` and every minimal pixel to `lo` — for constant images too
(all pixels ↦ `lo`). The Float instance of the same definition is what the driver runs. -/
theorem C20_stretch_spec (xs : List Rat) (lo hi : Rat) (h : lo ≤ hi) :
    ∃ g : Rat → Rat, (∀ x y, x ≤ y → g x ≤ g y) ∧ stretchList xs lo hi = xs.map g ∧
      (∀ x ∈ xs, lo ≤ g x ∧ g x ≤ hi) ∧ (∀ m ∈ xs, (∀ x ∈ xs, m ≤ x) → g m = lo) :=
  stretchList_spec xs lo hi h

/-! non-vacuity -/
example : stretchList [(3 : Rat), 7, 5, 3] (-5) 100 = [-5, 100, 95 / 2, -5] := by
  norm_num [stretchList, minL, maxL, stretchCore, capHi]
example : sepiaSpecQ 255 255 255 = [255, 255, 238] := by decide +kernel
example : inverseDefect ≠ [] := by decide +kernel
