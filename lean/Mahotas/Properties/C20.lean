/-
C20 — property theorems (statements only; helper lemmas live in `Proofs/C20.lean`).
The tables are the ones `translator/tables.py` extracts from `colors.py` on every run.
-/
import Mahotas.Proofs.C20
import Mahotas.Proofs.C20Real
import Mahotas.Proofs.C20Cast
import Mahotas.Proofs.C20RoundTrip
import Mahotas.Proofs.C20Stretch
import Mahotas.Proofs.C20Rounded
namespace Mahotas.C20
open Mahotas Mahotas.Generated

/-- absolute value without Mathlib's lattice machinery -/
def absQ (q : Rat) : Rat := if q < 0 then -q else q

/-- row-wise sums of absolute deviations of `xyz2rgb · rgb2xyz` from the identity -/
def inverseDefect : List Rat :=
  let prod := matMul xyz2rgbMQ rgb2xyzMQ
  (List.range 3).map fun i =>
    ((List.range 3).map fun j => absQ ((prod.getD i []).getD j 0 - (if i = j then 1 else 0))).foldl (· + ·) 0

end Mahotas.C20

open Mahotas Mahotas.C20 Mahotas.Generated

/-- **C20-T0 (the code's numbers are the standard's).** The matrices and constants extracted from
`colors.py` are the sRGB (IEC 61966-2-1, 4-digit matrix) and CIE L*a*b* (D65 white point, `δ = 6/29`,
threshold `δ³`) numbers, and every `np.choose` takes the *linear* alternative where its test
(`value ≤ knee`) holds. -/
theorem C20_tables_are_the_standard :
    rgb2xyzMQ = [[0.4124, 0.3576, 0.1805], [0.2126, 0.7152, 0.0722], [0.0193, 0.1192, 0.9505]] ∧
    xyz2rgbMQ = [[3.2406, -1.5372, -0.4986], [-0.9689, 1.8758, 0.0415], [0.0557, -0.2040, 1.0570]] ∧
    labWhiteQ = [0.95047, 1, 1.08883] ∧
    srgbAQ = 0.055 ∧ srgbAInvQ = 0.055 ∧ srgbGammaQ = 2.4 ∧ srgbSlopeQ = 12.92 ∧ srgbSlopeInvQ = 12.92 ∧
    srgbScaleQ = 255 ∧ srgbKneeQ = 0.04045 ∧ srgbKneeInvQ = 0.0031308 ∧
    labDeltaNumQ = 6 ∧ labDeltaDenQ = 29 ∧ labKneeExp = 3 ∧
    fwdLowWhenBelow = true ∧ invLowWhenBelow = true ∧ labSmallWhenBelow = true := by
  refine ⟨?_, ?_, ?_, ?_, ?_, ?_, ?_, ?_, ?_, ?_, ?_, ?_, ?_, ?_, ?_, ?_, ?_⟩ <;>
    first
      | rfl
      | norm_num [rgb2xyzMQ, xyz2rgbMQ, labWhiteQ, srgbAQ, srgbAInvQ, srgbGammaQ, srgbSlopeQ, srgbSlopeInvQ,
          srgbScaleQ, srgbKneeQ, srgbKneeInvQ, labDeltaNumQ, labDeltaDenQ]

/-- **C20 (model = standard).** With the selections as extracted from the source, the executable model
of `rgb2xyz`, `xyz2rgb` and `rgb2lab` (Float) *is* the specification (linear segment below the knee,
power law above; cube root above `(6/29)³`), which is written with the standards' own literal numbers: the functions the driver prints as `xyz`/`xyzspec`, `lab`/`labspec` coincide on every input. On the tree before
the repair the extracted flags were `false` and this theorem did not hold. -/
theorem C20_model_is_standard (rgb xyz : List Float) :
    rgb2xyz rgb = rgb2xyzSpec rgb ∧ xyz2rgb xyz = xyz2rgbSpec xyz ∧ rgb2lab rgb = rgb2labSpec rgb := by
  have h1 : ∀ c, srgbToLinearWith fwdLowWhenBelow c = srgbToLinearStd c := fun c => by
    simp [srgbToLinearWith, srgbToLinearG, litsF, srgbToLinearStd, fwdLowWhenBelow, srgbScaleF, srgbAF, srgbGammaF,
      srgbSlopeF, srgbKneeF]
  have h2 : ∀ v, linearToSrgbWith invLowWhenBelow v = linearToSrgbStd v := fun v => by
    simp [linearToSrgbWith, linearToSrgbG, linearToSrgbStd, invLowWhenBelow, srgbAInvF, srgbSlopeInvF,
      srgbKneeInvF, srgbOneInvF, srgbGammaInvF, srgbScaleInvF]
  have h3 : ∀ t, labFWith labSmallWhenBelow labKneeExp t = labFStd t := fun t => by
    simp [labFWith, labFG, litsF, labFStd, labSmallWhenBelow, labKneeExp, labDeltaNumF, labDeltaDenF]
  have e1 : ∀ l, rgb2xyz l = rgb2xyzSpec l := fun l => by
    simp only [rgb2xyz, rgb2xyzWith, rgb2xyzG, rgb2xyzSpec, funext h1]; rfl
  have e3 : ∀ l, xyz2lab l = xyz2labSpec l := fun l => by
    rcases l with _ | ⟨x, _ | ⟨y, _ | ⟨z, _ | ⟨w, t⟩⟩⟩⟩ <;>
      simp [xyz2lab, xyz2labWith, xyz2labG, litsF, xyz2labSpec, labWhiteF, funext h3]
  refine ⟨e1 rgb, ?_, ?_⟩
  · simp only [xyz2rgb, xyz2rgbWith, xyz2rgbG, xyz2rgbSpec, funext h2]; rfl
  · simp only [rgb2lab, rgb2labSpec, e1, e3]

/-- **C20-T1 (white and black).** In exact arithmetic the matrix maps linear white `(1,1,1)` to the
D65 white point `(0.9505, 1, 1.089)` — the `Y` row sums to 1 exactly — and black to 0. -/
theorem C20_white_black :
    matVec rgb2xyzMQ [1, 1, 1] = [(9505 : Rat) / 10000, 1, (1089 : Rat) / 1000] ∧
    matVec rgb2xyzMQ [0, 0, 0] = [0, 0, 0] :=
  ⟨white_point, black_point⟩

/-- **C20-T2 (linear part monotone).** Every entry of the forward matrix is positive, hence every XYZ
output is non-decreasing in each linear channel (exact arithmetic). Together with the monotonicity of
the transfer function (`C20_transfer_monotone`, over the reals) this is the statement's
"each output is non-decreasing in each channel" (`C20_rgb2xyz_monotone`). -/
theorem C20_matrix_monotone (r g b r' g' b' : Rat) (hr : r ≤ r') (hg : g ≤ g') (hb : b ≤ b') :
    List.Forall₂ (· ≤ ·) (matVec rgb2xyzMQ [r, g, b]) (matVec rgb2xyzMQ [r', g', b']) := by
  rw [matVec_rgb2xyz, matVec_rgb2xyz]
  refine List.Forall₂.cons ?_ (List.Forall₂.cons ?_ (List.Forall₂.cons ?_ List.Forall₂.nil)) <;> linarith

/-- **C20-T4 (inverse matrix).** `xyz2rgb`'s matrix inverts `rgb2xyz`'s up to the 4-digit rounding of the
standard: every row of `M⁻¹·M − I` has absolute sum at most `7·10⁻⁵`. With the slope `12.92·255` of
the encoding this bounds the round-trip error by 0.231 8-bit units — "to within rounding". -/
theorem C20_inverse_matrix : ∀ e ∈ inverseDefect, e ≤ (7 : Rat) / 100000 := by
  decide +kernel

/-- **C20-T5 (grey is the documented linear map).** `rgb2grey = 0.30 r + 0.59 g + 0.11 b`; the weights sum
to 1, so a grey `(v,v,v)` maps to `v`. -/
theorem C20_grey_linear (r g b v : Rat) :
    grey greyWQ r g b = (3 : Rat) / 10 * r + (59 : Rat) / 100 * g + (11 : Rat) / 100 * b ∧
    grey greyWQ v v v = v := by
  constructor <;> simp [grey, dot, greyWQ] <;> ring

/-- **C20-T5 (sepia).** The sepia weights are the documented matrix and the specification clips to
`[0,255]` before truncating: every output channel lies in `0..255`. -/
theorem C20_sepia_clipped (r g b : Int) :
    sepiaMQ = [[0.393, 0.769, 0.189], [0.349, 0.686, 0.168], [0.272, 0.534, 0.131]] ∧
    ∀ v ∈ sepiaSpecQ r g b, 0 ≤ v ∧ v ≤ 255 := by
  constructor
  · norm_num [sepiaMQ]
  · intro v hv
    simp only [sepiaSpecQ, List.mem_map] at hv
    obtain ⟨q, _, rfl⟩ := hv
    constructor
    · apply Rat.le_floor_iff.mpr
      have : (0 : Rat) ≤ (if (if q < 255 then q else 255) < 0 then 0 else (if q < 255 then q else 255)) := by
        split <;> split <;> simp_all
      exact_mod_cast this
    · have : (if (if q < 255 then q else 255) < 0 then 0 else (if q < 255 then q else 255)) ≤ (255 : Rat) := by
        (split <;> split <;> simp_all); all_goals linarith
      have h2 := Rat.floor_le (if (if q < 255 then q else 255) < 0 then 0 else (if q < 255 then q else 255))
      have : ((Rat.floor (if (if q < 255 then q else 255) < 0 then 0 else (if q < 255 then q else 255)) : Int) : Rat) ≤ 255 := by
        linarith
      exact_mod_cast this

/-- **C20-T6 (stretch is a monotone range map).** Over the rationals, for every image (list of pixels)
and every request `lo ≤ hi`, `stretch` (before the final cast, including the cap at `hi`) is `map g` for a non-decreasing `g`
that sends every pixel into `[lo, hi]` and every minimal pixel to `lo` — for constant images too
(all pixels ↦ `lo`). The Float instance of the same definition is what the driver runs. -/
theorem C20_stretch_spec (xs : List Rat) (lo hi : Rat) (h : lo ≤ hi) :
    ∃ g : Rat → Rat, (∀ x y, x ≤ y → g x ≤ g y) ∧ stretchList xs lo hi = xs.map g ∧
      (∀ x ∈ xs, lo ≤ g x ∧ g x ≤ hi) ∧ (∀ m ∈ xs, (∀ x ∈ xs, m ≤ x) → g m = lo) :=
  stretchList_spec xs lo hi h

/-- **C20-T3 (the sRGB transfer function is increasing — over the reals).** `srgbR` is the model's decoding
`srgbToLinearG` (the generic definition the driver runs at `Float` with `Float.pow`) instantiated at `ℝ`
with `Real.rpow`, the extracted selection flag and the exact rationals of the extracted constants:
`T(c) = x/12.92` where `x = c/255 ≤ 0.04045`, `((x+0.055)/1.055)^2.4` elsewhere. The linear segment is
strictly increasing, the power-law segment is strictly increasing, and across the knee
`0.04045/12.92 ≤ ((0.04045+0.055)/1.055)^2.4` (from the rational inequality `q⁵ ≤ b¹²`), so `T` is
strictly increasing on the whole real line; in particular it is non-decreasing on the 8-bit lattice
`k = 0..255` including `T(10) ≤ T(11)` (the knee lies between `10/255` and `11/255`), with `T(0) = 0`
and `T(255) = 1`. -/
theorem C20_transfer_monotone :
    (∀ c, srgbR c = if c / 255 ≤ 809 / 20000 then c / 255 / (323 / 25)
        else ((c / 255 + 11 / 200) / (1 + 11 / 200)) ^ ((12 : ℝ) / 5)) ∧
    (∀ c c' : ℝ, c < c' → c' / 255 ≤ 809 / 20000 → srgbR c < srgbR c') ∧
    (∀ c c' : ℝ, c < c' → 809 / 20000 < c / 255 → srgbR c < srgbR c') ∧
    StrictMono srgbR ∧
    (∀ k k' : Nat, k ≤ k' → srgbR (k : ℝ) ≤ srgbR (k' : ℝ)) ∧
    ((10 : ℝ) / 255 ≤ 809 / 20000 ∧ (809 : ℝ) / 20000 < 11 / 255 ∧ srgbR 10 < srgbR 11) ∧
    srgbR 0 = 0 ∧ srgbR 255 = 1 :=
  ⟨srgbR_eq, fun _ _ h hk => srgbR_low_strict h hk, fun _ _ h hk => srgbR_high_strict h hk, srgbR_strictMono,
   fun _ _ h => srgbR_strictMono.monotone (by exact_mod_cast h),
   ⟨by norm_num, by norm_num, srgbR_strictMono (by norm_num)⟩, srgbR_zero, srgbR_255⟩

/-- **C20 (rgb2xyz is non-decreasing in each channel — over the reals).** `rgb2xyzR` is the model's
`rgb2xyzG` (transfer function on each channel, then the extracted matrix) at `ℝ`. Every XYZ output is
non-decreasing in each channel value (all real channel values, hence all 8-bit ones), black maps to 0
and white `(255,255,255)` to `(0.9505, 1, 1.089)` with `Y = 1` exactly. -/
theorem C20_rgb2xyz_monotone :
    (∀ r g b r' g' b' : ℝ, r ≤ r' → g ≤ g' → b ≤ b' →
      List.Forall₂ (· ≤ ·) (rgb2xyzR [r, g, b]) (rgb2xyzR [r', g', b'])) ∧
    rgb2xyzR [0, 0, 0] = [0, 0, 0] ∧
    rgb2xyzR [255, 255, 255] = [(9505 : ℝ) / 10000, 1, (1089 : ℝ) / 1000] := by
  refine ⟨fun _ _ _ _ _ _ hr hg hb => rgb2xyzR_mono hr hg hb, ?_, ?_⟩
  · rw [rgb2xyzR_eq, srgbR_zero]; norm_num
  · rw [rgb2xyzR_eq, srgbR_255]; norm_num

/-- **C20 (the L*a*b* helper `f` is non-decreasing — over the reals).** `labFR` is the model's `labFG`
(run by the driver at `Float`) at `ℝ` with the extracted `δ = 6/29`, exponent 3 and selection:
`f(t) = t/(3δ²) + 4/29` where `t ≤ δ³`, `t^(1/3)` elsewhere. The linear branch at the knee equals `δ`,
which is the cube root of the knee (continuity, exact), both branches increase, so `f` is non-decreasing
on the whole real line; hence `L* = 116 f(Y/Yn) − 16` (first output of the model's `xyz2labG` at `ℝ`) is
non-decreasing in `Y`. -/
theorem C20_lab_f_monotone :
    (∀ t, labFR t = if t ≤ (6 / 29 : ℝ) ^ 3 then (1 / 3 * (29 / 6) * (29 / 6)) * t + 4 / 29 else t ^ ((3 : ℝ)⁻¹)) ∧
    (1 / 3 * (29 / 6) * (29 / 6)) * (6 / 29 : ℝ) ^ 3 + 4 / 29 = 6 / 29 ∧
    ((6 / 29 : ℝ) ^ 3) ^ ((3 : ℝ)⁻¹) = 6 / 29 ∧
    Monotone labFR ∧
    (∀ x y z x' y' z' : ℝ, y ≤ y' → (xyz2labR [x, y, z]).getD 0 0 ≤ (xyz2labR [x', y', z']).getD 0 0) := by
  refine ⟨labFR_eq, lab_knee_linear, lab_knee_root, labFR_mono, ?_⟩
  intro x y z x' y' z' h
  rw [xyz2labR_eq, xyz2labR_eq]
  have := labFR_mono (show y / 1 ≤ y' / 1 by linarith)
  simp only [List.getD_cons_zero]
  linarith

/-- **C20 (white ↦ L* = 100, a* = b* = 0).** `f(1) = 1`, hence the model's `xyz2lab` over the reals maps the
white point it uses (`X/Xn = Y/Yn = Z/Zn = 1`) to `(100, 0, 0)`. -/
theorem C20_lab_white :
    labFR 1 = 1 ∧ xyz2labR (labWhiteQ.map (fun q => (q : ℝ))) = [100, 0, 0] := by
  refine ⟨labFR_one, ?_⟩
  have e : labWhiteQ.map (fun q => (q : ℝ)) = [(95047 : ℝ) / 100000, 1, (108883 : ℝ) / 100000] := by
    simp [labWhiteQ]
  rw [e, xyz2labR_eq]
  have e1 : (95047 : ℝ) / 100000 / (95047 / 100000) = 1 := by norm_num
  have e2 : (108883 : ℝ) / 100000 / (108883 / 100000) = 1 := by norm_num
  rw [e1, e2, div_one, labFR_one]
  norm_num

/-- **C20 (every grey has a* = b* = 0 if the white point is consistent).** For the model's generic
`xyz2labG` over the reals, *any* helper `f`, any 3×3 matrix and any white point with non-zero entries:
if each matrix row sums to the corresponding white-point coordinate, a grey of linear level `s`
(`matVec M [s,s,s]`) maps to `(116 f(s) − 16, 0, 0)`. -/
theorem C20_lab_grey_zero_if_white_point_consistent (f : ℝ → ℝ)
    (m11 m12 m13 m21 m22 m23 m31 m32 m33 xn yn zn s : ℝ)
    (hx : m11 + m12 + m13 = xn) (hy : m21 + m22 + m23 = yn) (hz : m31 + m32 + m33 = zn)
    (hxn : xn ≠ 0) (hyn : yn ≠ 0) (hzn : zn ≠ 0) :
    xyz2labG f litsR [xn, yn, zn] (matVec [[m11, m12, m13], [m21, m22, m23], [m31, m32, m33]] [s, s, s]) =
      [116 * f s - 16, 0, 0] :=
  xyz2labG_grey f m11 m12 m13 m21 m22 m23 m31 m32 m33 xn yn zn s hx hy hz hxn hyn hzn

/-- **C20 (greys with the code's actual constants: the mismatch, exactly).** The extracted 4-digit
matrix has row sums `(0.9505, 1, 1.089)` while `xyz2lab` divides by the 5-digit white point
`(0.95047, 1, 1.08883)`: `X/Xn = s·(1 + 3/95047)`, `Y/Yn = s`, `Z/Zn = s·(1 + 17/108883)` for a grey of
linear level `s`. For every `0 ≤ s ≤ 1` (every grey: `s = T(v)`, `T(0) = 0`, `T(255) = 1`, `T` increasing)
the model over the reals gives `L* = 116 f(s) − 16`, `0 ≤ a* ≤ 500/95047 < 0.00527` and
`−0.01041 < −3400/326649 ≤ b* ≤ 0` (from `0 ≤ f(s(1+ε)) − f(s) ≤ ε/3`). These are the tolerances
`|a*| ≤ 0.006`, `|b*| ≤ 0.011` of the check, now proved; the bound is attained up to `O(ε²)` at white. -/
theorem C20_lab_grey_bound (s : ℝ) (hs0 : 0 ≤ s) (hs1 : s ≤ 1) :
    (((9505 : ℝ) / 10000) / (95047 / 100000) = 1 + 3 / 95047 ∧
     ((1089 : ℝ) / 1000) / (108883 / 100000) = 1 + 17 / 108883) ∧
    (∃ a b : ℝ, xyz2labR (matVec (castM rgb2xyzMQ) [s, s, s]) = [116 * labFR s - 16, a, b] ∧
      0 ≤ a ∧ a ≤ 500 / 95047 ∧ -(3400 / 326649) ≤ b ∧ b ≤ 0) ∧
    ((500 : ℝ) / 95047 < 527 / 100000 ∧ (3400 : ℝ) / 326649 < 1041 / 100000) ∧
    (∀ v : ℝ, 0 ≤ v → v ≤ 255 → 0 ≤ srgbR v ∧ srgbR v ≤ 1) := by
  refine ⟨white_mismatch, lab_grey_bound hs0 hs1, ⟨by norm_num, by norm_num⟩, fun v h0 h1 => ⟨?_, ?_⟩⟩
  · rw [← srgbR_zero]; exact srgbR_strictMono.monotone h0
  · rw [← srgbR_255]; exact srgbR_strictMono.monotone h1

/-- **C20 (rgb2lab of a grey pixel, end to end over the reals).** For every grey `(v, v, v)` with
`0 ≤ v ≤ 255` (real, in particular every 8-bit value) the model's `rgb2lab = xyz2lab ∘ rgb2xyz` over the
reals returns `L* = 116 f(T(v)) − 16`, `0 ≤ a* ≤ 500/95047` and `−3400/326649 ≤ b* ≤ 0`; at white
`T(255) = 1`, `f(1) = 1`, so `L* = 100`. -/
theorem C20_rgb2lab_grey (v : ℝ) (h0 : 0 ≤ v) (h1 : v ≤ 255) :
    (∃ a b : ℝ, xyz2labR (rgb2xyzR [v, v, v]) = [116 * labFR (srgbR v) - 16, a, b] ∧
      0 ≤ a ∧ a ≤ 500 / 95047 ∧ -(3400 / 326649) ≤ b ∧ b ≤ 0) ∧
    116 * labFR (srgbR 255) - 16 = 100 := by
  have hs0 : 0 ≤ srgbR v := by rw [← srgbR_zero]; exact srgbR_strictMono.monotone h0
  have hs1 : srgbR v ≤ 1 := by rw [← srgbR_255]; exact srgbR_strictMono.monotone h1
  refine ⟨lab_grey_bound hs0 hs1, ?_⟩
  rw [srgbR_255, labFR_one]; norm_num

/-! non-vacuity -/
example : stretchList [(3 : Rat), 7, 5, 3] (-5) 100 = [-5, 100, 95 / 2, -5] := by
  norm_num [stretchList, minL, maxL, stretchCore, capHi]
example : sepiaSpecQ 255 255 255 = [255, 255, 238] := by decide +kernel
example : inverseDefect ≠ [] := by decide +kernel
example : srgbR 0 = 0 ∧ srgbR 255 = 1 ∧ srgbR 10 < srgbR 11 :=
  ⟨srgbR_zero, srgbR_255, srgbR_strictMono (by norm_num)⟩
example : labFR 1 = 1 := labFR_one
example : xyz2labG (fun t => t) litsR [1, 1, 1] (matVec [[1, 0, 0], [0, 1, 0], [0, 0, 1]] [(2 : ℝ), 2, 2]) =
    [116 * 2 - 16, 0, 0] :=
  xyz2labG_grey _ 1 0 0 0 1 0 0 0 1 1 1 1 2 (by norm_num) (by norm_num) (by norm_num) one_ne_zero one_ne_zero
    one_ne_zero

/-! ## Round 3: the integer cast of `stretch`, and `xyz2rgb ∘ rgb2xyz` over the reals -/

/-- **C20 (stretch with an integer output dtype: the final cast).** `truncQ` is the exact counterpart of the
driver's `truncF` (the C conversion double → integer that numpy's `astype` performs): it discards the
fractional part, i.e. rounds **towards zero** — `floor` for non-negative values, `ceil` for negative ones,
*not* `floor` throughout (`truncQ (-5/2) = -2`). Over the rationals, for every image (list of pixels) and
every request with integer bounds `lo ≤ hi`, the integer image `stretch(img, lo, hi, dtype=int…)`
(`stretchList` — which already caps at `hi` — followed by the truncation) is `map G` for a non-decreasing
`G : ℚ → ℤ`, every output lies in `[lo, hi]` as an integer, and every minimal pixel maps to exactly `lo`.
It rests on: truncation towards zero is non-decreasing on ℚ and fixes the integers. The `Float` instance that
the driver runs (and the check compares bit for bit with the real code) differs from the rational one only
by the roundings *before* the cast (that these roundings never carry a value out of `[lo, hi]` is what the
cap at `hi` of the repair ensures and what the check validates on the real outputs). -/
theorem C20_stretch_int_cast (xs : List Rat) (lo hi : Int) (h : lo ≤ hi) :
    (∃ G : Rat → Int, (∀ x y, x ≤ y → G x ≤ G y) ∧
      (stretchList xs (lo : Rat) (hi : Rat)).map truncQ = xs.map G ∧
      (∀ x ∈ xs, lo ≤ G x ∧ G x ≤ hi) ∧ (∀ m ∈ xs, (∀ x ∈ xs, m ≤ x) → G m = lo)) ∧
    (∀ x y : Rat, x ≤ y → truncQ x ≤ truncQ y) ∧ (∀ n : Int, truncQ (n : Rat) = n) :=
  ⟨stretch_int_cast xs lo hi h, fun _ _ hxy => truncQ_mono hxy, truncQ_intCast⟩

/-- **C20 (the sRGB encoder of `xyz2rgb` against the decoder of `rgb2xyz` — over the reals).** `encR` is the
model's `linearToSrgbG` (the generic definition the driver runs at `Float` with `Float.pow`) at `ℝ` with
`Real.rpow`, the extracted selection flag and the exact rationals of the extracted constants:
`E(v) = 255·12.92·v` where `v ≤ 0.0031308`, `255·(1.055·v^(5/12) − 0.055)` elsewhere. With the standard's
constants `E` is **not** an exact inverse of the decoder `T` everywhere, and this theorem says exactly where
it is: `E(T(c)) = c` for every real `c` with `c/255 ≤ 12.92·0.0031308` (both on their linear segments) and
for every `c` with `c/255 > 0.04045` (both on their power segments; `T(c) > 0.0031308` there). Between the
two knees, `10.31473368 < c ≤ 10.31475`, decoder and encoder use different segments; the interval contains no
integer (`12.92·0.0031308·255 > 10`, `0.04045·255 < 11`), so `E(T(k)) = k` for every natural `k` (the whole
8-bit lattice, and any wider integer range). At its knee the encoder's power segment (`encHigh`, the `else`
branch of the closed form as a function on all of `ℝ`) lies *below* its linear
segment (the encoder steps down there), by at most `1.02·10⁻⁵` 8-bit units. Slopes: the linear segment has
slope exactly `3294.6 = 12.92·255`, the power segment is increasing with slope at most `3294.6` above the
knee (Bernoulli's inequality for the exponent `5/12` and `1 ≤ (31008/1055)¹²·0.0031308⁷`). -/
theorem C20_encoder_inverts_decoder :
    (∀ v : ℝ, encR v = (if v ≤ 7827 / 2500000 then 323 / 25 * v
        else (1 + 11 / 200) * v ^ ((5 : ℝ) / 12) - 11 / 200) * 255) ∧
    (∀ c : ℝ, c / 255 ≤ 323 / 25 * (7827 / 2500000) → encR (srgbR c) = c) ∧
    (∀ c : ℝ, 809 / 20000 < c / 255 → 7827 / 2500000 < srgbR c ∧ encR (srgbR c) = c) ∧
    ((10 : ℝ) / 255 ≤ 323 / 25 * (7827 / 2500000) ∧ (323 / 25 * (7827 / 2500000) : ℝ) < 809 / 20000 ∧
      (809 : ℝ) / 20000 < 11 / 255) ∧
    (∀ k : Nat, encR (srgbR (k : ℝ)) = (k : ℝ)) ∧
    (16473 / 5 * (7827 / 2500000 : ℝ) - 102 / 10000000 ≤ encHigh (7827 / 2500000) ∧
      encHigh (7827 / 2500000) ≤ 16473 / 5 * (7827 / 2500000 : ℝ)) ∧
    (∀ x y : ℝ, x ≤ 7827 / 2500000 → y ≤ 7827 / 2500000 → |encR x - encR y| = 16473 / 5 * |x - y|) ∧
    (∀ x y : ℝ, 7827 / 2500000 < x → 7827 / 2500000 < y → |encR x - encR y| ≤ 16473 / 5 * |x - y|) ∧
    (∀ x y : ℝ, 7827 / 2500000 < x → x ≤ y → encR x ≤ encR y) :=
  ⟨encR_eq, fun _ h => encR_srgbR_low h, fun _ h => ⟨srgbR_above_knee h, encR_srgbR_high h⟩,
   ⟨by norm_num, by norm_num, by norm_num⟩, encR_srgbR_nat, encHigh_knee,
   fun _ _ hx hy => encR_low_lip hx hy, fun _ _ hx hy => encR_high_lip hx hy,
   fun x y hx hxy => by
     rw [encR_high' hx, encR_high' (lt_of_lt_of_le hx hxy)]
     exact (encHigh_lip (le_of_lt hx) hxy).1⟩

/-- **C20 (round trip with any encoder).** The matrix part of the round trip is exact arithmetic on the
extracted 4-digit matrices: `M⁻¹(M s) = s + D s` where the absolute row sums of `D = M⁻¹M − I` are the
entries of `inverseDefect` (`3.142·10⁻⁵, 6.993·10⁻⁵, 1.585·10⁻⁵`, all `≤ 7·10⁻⁵`: `C20_inverse_matrix`), and the
decoded channels lie in `[0,1]`. Hence for **any** encoder `enc` that is `L`-Lipschitz on an interval
`[lo, hi]`, and any pixel in `[0,255]³` whose decoded channels `T(c)` lie at least `7·10⁻⁵` inside `[lo, hi]`
and are inverted by `enc`, every channel of `xyz2rgbG M⁻¹ enc (rgb2xyz pixel)` is within `L` times the
corresponding row sum of the original channel. -/
theorem C20_roundtrip_any_encoder (enc : ℝ → ℝ) (L lo hi : ℝ)
    (hlip : ∀ x y : ℝ, lo ≤ x → x ≤ hi → lo ≤ y → y ≤ hi → |enc x - enc y| ≤ L * |x - y|)
    (r g b : ℝ) (hr : 0 ≤ r ∧ r ≤ 255) (hg : 0 ≤ g ∧ g ≤ 255) (hb : 0 ≤ b ∧ b ≤ 255)
    (ir : enc (srgbR r) = r ∧ lo + 7 / 100000 ≤ srgbR r ∧ srgbR r + 7 / 100000 ≤ hi)
    (ig : enc (srgbR g) = g ∧ lo + 7 / 100000 ≤ srgbR g ∧ srgbR g + 7 / 100000 ≤ hi)
    (ib : enc (srgbR b) = b ∧ lo + 7 / 100000 ≤ srgbR b ∧ srgbR b + 7 / 100000 ≤ hi) :
    inverseDefect = [1571 / 50000000, 6993 / 100000000, 317 / 20000000] ∧
    ∃ r' g' b' : ℝ, xyz2rgbG (castM xyz2rgbMQ) enc (rgb2xyzR [r, g, b]) = [r', g', b'] ∧
      |r' - r| ≤ L * (1571 / 50000000) ∧ |g' - g| ≤ L * (6993 / 100000000) ∧
      |b' - b| ≤ L * (317 / 20000000) :=
  ⟨by decide +kernel, roundTrip_any_encoder enc L lo hi hlip hr hg hb ir ig ib⟩

/-- **C20 (`xyz2rgb` inverts `rgb2xyz` to within rounding — over the reals, every pixel).** `xyz2rgbR` is the
model's `xyz2rgbG` (extracted inverse matrix, then the encoder `encR`) and `rgb2xyzR` the model's `rgb2xyzG`
(decoder `srgbR`, then the extracted matrix), both the generic definitions the driver runs at `Float`, here
at `ℝ` with `Real.rpow`. For **every** real pixel `(r,g,b) ∈ [0,255]³` each channel of
`xyz2rgb(rgb2xyz(r,g,b))` differs from the original by at most `3294.6` (the slope `12.92·255` of the encoder)
times the absolute row sum of `M⁻¹M − I` for that channel (`inverseDefect`): `0.1036`, `0.2304`, `0.0523`
8-bit units for R, G, B — all below `3294.6·7·10⁻⁵ = 0.230622`, the figure announced by `C20_inverse_matrix`
and inside the tolerance `0.25` of the check (measured maximum on the lattice: 0.0763). Nothing is assumed
about the knees: where the perturbed linear value and `T(c)` fall on different segments of the encoder
(only possible for `c` near 10.3147) the step of the encoder at its knee (`≤ 1.02·10⁻⁵`) and the gap between the
two knees (`255·(0.04045 − 12.92·0.0031308) = 1.632·10⁻⁵`) are far smaller than the bound. The statement is
about real arithmetic; the `Float` instance differs by rounding and by libm's `pow` (validated at 1e-9). -/
theorem C20_xyz2rgb_roundtrip (r g b : ℝ) (hr : 0 ≤ r ∧ r ≤ 255) (hg : 0 ≤ g ∧ g ≤ 255) (hb : 0 ≤ b ∧ b ≤ 255) :
    inverseDefect = [1571 / 50000000, 6993 / 100000000, 317 / 20000000] ∧
    (16473 / 5 : ℝ) = 323 / 25 * 255 ∧ (16473 / 5 : ℝ) * (7 / 100000) = 115311 / 500000 ∧
    ∃ r' g' b' : ℝ, xyz2rgbR (rgb2xyzR [r, g, b]) = [r', g', b'] ∧
      |r' - r| ≤ 16473 / 5 * (1571 / 50000000) ∧ |g' - g| ≤ 16473 / 5 * (6993 / 100000000) ∧
      |b' - b| ≤ 16473 / 5 * (317 / 20000000) ∧
      |r' - r| ≤ 115311 / 500000 ∧ |g' - g| ≤ 115311 / 500000 ∧ |b' - b| ≤ 115311 / 500000 := by
  refine ⟨by decide +kernel, by norm_num, by norm_num, ?_⟩
  obtain ⟨r', g', b', e, b1, b2, b3⟩ := roundTrip_encR_all hr hg hb
  refine ⟨r', g', b', e, b1, b2, b3, ?_, ?_, ?_⟩
  · exact le_trans b1 (by norm_num)
  · exact le_trans b2 (by norm_num)
  · exact le_trans b3 (by norm_num)

/-! non-vacuity (round 3) -/
example : truncQ (-5 / 2) = -2 ∧ truncQ (5 / 2) = 2 ∧ (-5 / 2 : Rat).floor = -3 := by decide +kernel
example : (stretchList [(3 : Rat), 7, 5, 3] ((-5 : Int) : Rat) ((100 : Int) : Rat)).map truncQ = [-5, 100, 47, -5] := by
  decide +kernel
example : (stretchList [(0 : Rat), 1, 3] ((-10 : Int) : Rat) ((-5 : Int) : Rat)).map truncQ = [-10, -8, -5] := by
  decide +kernel
example : encR (srgbR 200) = 200 ∧ encR (srgbR 3) = 3 :=
  ⟨by simpa using encR_srgbR_nat 200, by simpa using encR_srgbR_nat 3⟩
/-- the hypotheses of `C20_roundtrip_any_encoder` are satisfiable: the model's own encoder on a dark pixel
    (everything stays on the linear segment, slope `3294.6`) -/
example : ∃ r' g' b' : ℝ, xyz2rgbG (castM xyz2rgbMQ) encR (rgb2xyzR [3, 7, 10]) = [r', g', b'] ∧
    |r' - 3| ≤ 16473 / 5 * (1571 / 50000000) ∧ |g' - 7| ≤ 16473 / 5 * (6993 / 100000000) ∧
    |b' - 10| ≤ 16473 / 5 * (317 / 20000000) := by
  have dark : ∀ c : ℝ, 0 ≤ c → c ≤ 10 →
      encR (srgbR c) = c ∧ (-1 : ℝ) + 7 / 100000 ≤ srgbR c ∧ srgbR c + 7 / 100000 ≤ 7827 / 2500000 := by
    intro c h0 h1
    have hk : c / 255 ≤ 809 / 20000 := by rw [div_le_iff₀ (by norm_num)]; linarith
    refine ⟨encR_srgbR_low (by rw [div_le_iff₀ (by norm_num)]; linarith), ?_, ?_⟩
    · have := (srgbR_unit h0 (by linarith)).1; linarith
    · rw [srgbR_eq, if_pos hk]
      have : c / 255 / (323 / 25) ≤ 10 / 255 / (323 / 25) := by
        apply div_le_div_of_nonneg_right _ (by norm_num)
        apply div_le_div_of_nonneg_right h1 (by norm_num)
      have e : (10 : ℝ) / 255 / (323 / 25) + 7 / 100000 ≤ 7827 / 2500000 := by norm_num
      linarith
  exact (C20_roundtrip_any_encoder encR (16473 / 5) (-1) (7827 / 2500000)
    (fun x y _ hx _ hy => le_of_eq (encR_low_lip hx hy)) 3 7 10 (by norm_num) (by norm_num) (by norm_num)
    (dark 3 (by norm_num) (by norm_num)) (dark 7 (by norm_num) (by norm_num))
    (dark 10 (by norm_num) (by norm_num))).2
example : ∃ r' g' b' : ℝ, xyz2rgbR (rgb2xyzR [0, 255, 255]) = [r', g', b'] ∧ |r' - 0| ≤ 115311 / 500000 := by
  obtain ⟨_, _, _, r', g', b', e, _, _, _, h, _, _⟩ :=
    C20_xyz2rgb_roundtrip 0 255 255 (by norm_num) (by norm_num) (by norm_num)
  exact ⟨r', g', b', e, h⟩


/-! # Round 4 -/

/-- **C20 (the literals of the encoder of `xyz2rgb`).** The three literals of `xyz2rgb` that round 3 left inside the
model are extracted from the source on every run as well: the exponent `1./2.4` (numerator and denominator), the `1`
of `(1 + a)` and the output scale of `srgb *= 255.`. They are the standard's, the encoder uses the *same* constants
as the decoder of `rgb2xyz` (γ, a, slope, scale — as rationals and as `Float` literals), and the numerator of the
exponent equals the `1` of `(1 + a)` (the model passes one `one` for both). A mutation of `2.4` or `255.` in
`xyz2rgb` alone now breaks this theorem (and `C20_model_is_standard`), not only the correspondence check. -/
theorem C20_tables_xyz2rgb_literals :
    srgbGammaInvQ = 2.4 ∧ srgbGammaInvNumQ = 1 ∧ srgbOneInvQ = 1 ∧ srgbScaleInvQ = 255 ∧
    srgbGammaInvNumQ = srgbOneInvQ ∧
    srgbGammaInvQ = srgbGammaQ ∧ srgbScaleInvQ = srgbScaleQ ∧ srgbAInvQ = srgbAQ ∧ srgbSlopeInvQ = srgbSlopeQ ∧
    srgbGammaInvF = srgbGammaF ∧ srgbScaleInvF = srgbScaleF ∧ srgbAInvF = srgbAF ∧ srgbSlopeInvF = srgbSlopeF ∧
    srgbGammaInvNumF = srgbOneInvF := by
  refine ⟨?_, ?_, ?_, ?_, ?_, ?_, ?_, ?_, ?_, rfl, rfl, rfl, rfl, rfl⟩ <;>
    norm_num [srgbGammaInvQ, srgbGammaInvNumQ, srgbOneInvQ, srgbScaleInvQ, srgbGammaQ, srgbScaleQ, srgbAInvQ, srgbAQ,
      srgbSlopeInvQ, srgbSlopeQ]

/-- **C20 (the call `stretch(img, arg0, arg1, dtype)` for every integer dtype — decoding and cast).**
`decodeArgs` is the `if arg0 is None … elif arg1 is None … else` of the source: no argument ⇒ `(0, 255)` (also when
only `arg1` is given), one ⇒ `(0, arg0)`, two ⇒ `(arg0, arg1)`. For **every** integer dtype `dt` (any width, signed or
unsigned: `dtU bits` = `[0, 2^bits − 1]`, `dtI bits` = `[−2^(bits−1), 2^(bits−1) − 1]`) and every request whose decoded
range `lo ≤ hi` lies inside the dtype's range, the model of the whole call over ℚ — `stretchList`, the C truncation
`truncQ`, then the dtype's two's-complement reduction `DT.wrap` — is `map G` for a `G : ℚ → ℤ` that is non-decreasing
on all of ℚ, takes values in `[lo, hi]` (hence inside the dtype) everywhere, and maps every minimal pixel to `lo`;
the reduction never acts (the result equals the un-reduced truncation). `stretchIntG` is the generic definition the
driver instantiates at `Float` (`stretchInt`, kind `stretchcall`, compared bit for bit with the real outputs of
every dtype). -/
theorem C20_stretch_dtype_cast (dt : DT) (hb : dt.isBool = false) (xs : List Rat) (arg0 arg1 : Option Int)
    (lo hi : Int) (hd : decodeArgs arg0 arg1 = (lo, hi)) (h : lo ≤ hi) (hlo : dt.lo ≤ lo) (hhi : hi ≤ dt.hi) :
    (∃ G : Rat → Int, (∀ x y, x ≤ y → G x ≤ G y) ∧
      stretchIntG (fun n : Int => (n : Rat)) truncQ dt xs arg0 arg1 = xs.map G ∧
      stretchIntG (fun n : Int => (n : Rat)) truncQ dt xs arg0 arg1 = (stretchList xs (lo : Rat) (hi : Rat)).map truncQ ∧
      (∀ x, lo ≤ G x ∧ G x ≤ hi) ∧ (∀ x, dt.lo ≤ G x ∧ G x ≤ dt.hi) ∧
      (∀ m ∈ xs, (∀ x ∈ xs, m ≤ x) → G m = lo)) ∧
    (∀ a1 : Option Int, decodeArgs none a1 = (0, 255)) ∧ (∀ a : Int, decodeArgs (some a) none = (0, a)) ∧
    (∀ a b : Int, decodeArgs (some a) (some b) = (a, b)) ∧
    (∀ bits : Nat, (dtU bits).isBool = false ∧ (dtU bits).lo = 0 ∧ (dtU bits).hi = 2 ^ bits - 1) ∧
    (∀ bits : Nat, (dtI bits).isBool = false ∧ (dtI bits).lo = -(2 ^ (bits - 1)) ∧ (dtI bits).hi = 2 ^ (bits - 1) - 1) :=
  ⟨stretchIntG_int dt hb xs lo hi h hlo hhi arg0 arg1 hd, fun _ => rfl, fun _ => rfl, fun _ _ => rfl,
    fun _ => ⟨rfl, rfl, rfl⟩, fun _ => ⟨rfl, rfl, rfl⟩⟩

/-- **C20 (`dtype=bool`).** For a request inside the bool range (`0 ≤ lo ≤ hi ≤ 1`) the call over ℚ is `map G` with `G`
non-decreasing, every pixel in `[lo, hi]`, minimal pixels ↦ `lo`. `astype(bool)` is "non-zero", not truncation: with
`(lo, hi) = (0, 1)` the minimal pixels are `False` and every other pixel is `True`. (On the tree before `3e5c576`
the real code raised for constant images with `lo = 1`.) -/
theorem C20_stretch_bool (xs : List Rat) (arg0 arg1 : Option Int) (lo hi : Int) (hd : decodeArgs arg0 arg1 = (lo, hi))
    (h : lo ≤ hi) (h0 : 0 ≤ lo) (h1 : hi ≤ 1) :
    ∃ G : Rat → Int, (∀ x y, x ≤ y → G x ≤ G y) ∧
      stretchIntG (fun n : Int => (n : Rat)) truncQ dtBool xs arg0 arg1 = xs.map G ∧
      (∀ x ∈ xs, lo ≤ G x ∧ G x ≤ hi) ∧ (∀ m ∈ xs, (∀ x ∈ xs, m ≤ x) → G m = lo) :=
  stretchIntG_bool xs lo hi h h0 h1 arg0 arg1 hd

/-- **C20 (`stretch` in rounded arithmetic — the `Float`-level statement that is provable).** Lean's `Float` is
opaque, so nothing can be proved about the `Float` instance itself. What *is* proved: instantiate the very same
polymorphic `stretchList` at `RQ r` — ℚ in which **every** operation (`−`, `·`, `/`, `+`) returns `r` of the exact
result, the comparisons being exact — for an arbitrary rounding function `r`. IF `r` is monotone and fixes `0`,
`lo` and `hi` (`Rounding r lo hi`; IEEE round-to-nearest-even, and every other IEEE rounding mode, is monotone and
fixes the representable numbers, and integer bounds below `2^53` are representable), THEN the rounded pipeline is
still `map g` with `g` non-decreasing, every pixel in `[lo, hi]` (the cap at `hi` is what makes the upper bound
survive the roundings), every minimal pixel ↦ exactly `lo`; and with the truncating cast behind it (integer bounds)
the integer image is non-decreasing in the pixel, within `[lo, hi]`, min ↦ `lo`. What is *not* proved is that the
hardware's `double` operations are such an `r` (that is the IEEE-754 contract, checked bit for bit against the
Lean `Float` instance by the harness). The hypotheses are satisfiable: exact arithmetic (`r = id`) and rounding down to
any binary fixed-point grid `2^-k` are roundings for all integer bounds. -/
theorem C20_stretch_rounded (r : Rat → Rat) (xs : List Rat) :
    (∀ lo hi : Rat, lo ≤ hi → Rounding r lo hi →
      ∃ g : Rat → Rat, (∀ x y, x ≤ y → g x ≤ g y) ∧
        (@stretchList (RQ r) _ _ _ _ _ _ _ xs lo hi : List Rat) = xs.map g ∧
        (∀ x ∈ xs, lo ≤ g x ∧ g x ≤ hi) ∧ (∀ m ∈ xs, (∀ x ∈ xs, m ≤ x) → g m = lo)) ∧
    (∀ lo hi : Int, lo ≤ hi → Rounding r (lo : Rat) (hi : Rat) →
      ∃ G : Rat → Int, (∀ x y, x ≤ y → G x ≤ G y) ∧
        (@stretchList (RQ r) _ _ _ _ _ _ _ xs (lo : Rat) (hi : Rat) : List Rat).map truncQ = xs.map G ∧
        (∀ x ∈ xs, lo ≤ G x ∧ G x ≤ hi) ∧ (∀ m ∈ xs, (∀ x ∈ xs, m ≤ x) → G m = lo)) ∧
    (∀ lo hi : Rat, Rounding id lo hi) ∧
    (∀ (k : Nat) (lo hi : Int), Rounding (fun q => ((q * 2 ^ k).floor : Rat) / 2 ^ k) (lo : Rat) (hi : Rat)) :=
  ⟨fun lo hi h R => stretchList_rounded r xs lo hi h R, fun lo hi h R => stretch_rounded_int_cast r xs lo hi h R,
    rounding_id, rounding_floor_grid⟩

/-- **C20 (`stretch_rgb` is `stretch` on every channel, independently).** Generic in the scalar type — so this is a
statement about the `Float` instance the driver runs (`stretchRgb`, kind `stretchrgb`) as much as about ℚ: for a 3-D
image `(h, w, d)` the call succeeds, returns `h·w·d` values, and the value at pixel `p`, channel `i` is element `p`
of `stretch(img[:,:,i], arg0, arg1, dtype)` — each channel with its own minimum and range (`channel 0 d i xs` is the
raveled `img[:,:,i]`: its element `p` is element `p·d + i` of the image); a 2-D image is passed to `stretch` itself;
1-D and 4-D images are a `ValueError`. Hence every statement about `stretch` (`C20_stretch_spec`,
`C20_stretch_dtype_cast`) holds per channel. -/
theorem C20_stretch_rgb_per_channel {α : Type} [Add α] [Sub α] [Mul α] [Div α] [LT α] [DecidableLT α] [OfNat α 0]
    (ofInt : Int → α) (trunc : α → Int) (dt : DT) (xs : List α) (arg0 arg1 : Option Int) :
    (∀ h w d : Nat, ∃ data, stretchRgbG ofInt trunc dt [h, w, d] xs arg0 arg1 = .ok data ∧ data.length = h * w * d ∧
      ∀ p < h * w, ∀ i < d,
        data.getD (p * d + i) 0 = (stretchIntG ofInt trunc dt (channel 0 d i xs) arg0 arg1).getD p 0) ∧
    (∀ h w : Nat, stretchRgbG ofInt trunc dt [h, w] xs arg0 arg1 = .ok (stretchIntG ofInt trunc dt xs arg0 arg1)) ∧
    (∀ n : Nat, ∃ e, stretchRgbG ofInt trunc dt [n] xs arg0 arg1 = .error e) ∧
    (∀ a b c e : Nat, ∃ msg, stretchRgbG ofInt trunc dt [a, b, c, e] xs arg0 arg1 = .error msg) ∧
    (∀ (β : Type) (dflt : β) (d i : Nat) (ys : List β), (channel dflt d i ys).length = ys.length / d ∧
      ∀ p < ys.length / d, (channel dflt d i ys).getD p dflt = ys.getD (p * d + i) dflt) :=
  ⟨fun h w d => stretchRgbG_channels ofInt trunc dt h w d xs arg0 arg1, fun _ _ => rfl, fun _ => ⟨_, rfl⟩,
    fun _ _ _ _ => ⟨_, rfl⟩, fun _ dflt d i ys => ⟨channel_length dflt d i ys, fun _ hp => channel_get dflt d i ys hp⟩⟩

/-- **C20 (`as_rgb`).** `asRgbG` is the model of `mahotas.as_rgb` (which argument fixes the shape, the `ValueError`s,
`None` / number / array channels, `np.dstack`); the driver runs its `Float` instance (kind `asrgb`, compared with the
real call: shape, every byte, and the exceptions). Part 1 is generic in the scalar type (so it holds for the `Float`
instance): when the first array argument has shape `(h, w)` and every array argument has that shape, the call
succeeds with shape `(h, w, 3)` and `3hw` bytes, byte `(p, k)` being element `p` of `s(c_k)`, where `s(None)` is all
`0`, `s(number)` is the number reduced to `uint8` everywhere, and `s(array) = stretch(array)` with the defaults
(`0, 255, uint8`) — each channel stretched on its own. Part 2, over ℚ: that `stretch(array)` is `map G` for a `G`
non-decreasing on all of ℚ with values in `0..255` and minimal pixels ↦ `0`; a number `v` gives `v mod 256`.
Part 3: no array argument at all (only `None`s and numbers) is the `ValueError` "Not all arguments can be None". -/
theorem C20_as_rgb :
    (∀ {α : Type} [Add α] [Sub α] [Mul α] [Div α] [LT α] [DecidableLT α] [OfNat α 0]
      (ofInt : Int → α) (trunc : α → Int) (h w : Nat) (r g b : Chan α),
      firstShape [r, g, b] = some [h, w] →
      (∀ s d, r = .arr s d → s = [h, w]) → (∀ s d, g = .arr s d → s = [h, w]) → (∀ s d, b = .arr s d → s = [h, w]) →
      ∃ cr cg cb data, asRgbG ofInt trunc r g b = .ok ([h, w, 3], data) ∧ data.length = h * w * 3 ∧
        (∀ p < h * w, data.getD (p * 3) 0 = cr.getD p 0 ∧ data.getD (p * 3 + 1) 0 = cg.getD p 0 ∧
          data.getD (p * 3 + 2) 0 = cb.getD p 0) ∧
        (∀ c vals, (c, vals) ∈ [(r, cr), (g, cg), (b, cb)] →
          (c = .none → vals = List.replicate (h * w) 0) ∧
          (∀ v, c = .scalar v → vals = List.replicate (h * w) ((dtU 8).wrap v)) ∧
          (∀ s d, c = .arr s d → vals = stretchIntG ofInt trunc (dtU 8) d none none))) ∧
    (∀ (d : List Rat) (v : Int),
      (∃ G : Rat → Int, (∀ x y, x ≤ y → G x ≤ G y) ∧
        stretchIntG (fun n : Int => (n : Rat)) truncQ (dtU 8) d none none = d.map G ∧
        (∀ x, 0 ≤ G x ∧ G x ≤ 255) ∧ (∀ m ∈ d, (∀ x ∈ d, m ≤ x) → G m = 0)) ∧
      (dtU 8).wrap v = v % 256 ∧ 0 ≤ (dtU 8).wrap v ∧ (dtU 8).wrap v ≤ 255) ∧
    (∀ {α : Type} [Add α] [Sub α] [Mul α] [Div α] [LT α] [DecidableLT α] [OfNat α 0]
      (ofInt : Int → α) (trunc : α → Int) (r g b : Chan α),
      (∀ s d, r ≠ .arr s d) → (∀ s d, g ≠ .arr s d) → (∀ s d, b ≠ .arr s d) →
      asRgbG ofInt trunc r g b = .error "ValueError: mahotas.as_rgb: Not all arguments can be None") := by
  refine ⟨?_, ?_, ?_⟩
  · intro α _ _ _ _ _ _ _ ofInt trunc h w r g b hs hr hg hb
    obtain ⟨cr, cg, cb, data, e, hl, er, eg, eb, hget⟩ := asRgbG_image ofInt trunc h w r g b hs hr hg hb
    refine ⟨cr, cg, cb, data, e, hl, hget, ?_⟩
    have hsz : shapeSize [h, w] = h * w := by simp [shapeSize]
    intro c vals hmem
    simp only [List.mem_cons, Prod.mk.injEq, List.mem_nil_iff, or_false] at hmem
    rcases hmem with ⟨rfl, rfl⟩ | ⟨rfl, rfl⟩ | ⟨rfl, rfl⟩
    · obtain ⟨v, ev, p1, p2, p3⟩ := asRgbChan_ok ofInt trunc [h, w] (by simp) (c.isScalar || g.isScalar || b.isScalar) c hr
      rw [er] at ev; cases ev; rw [hsz] at p1 p2; exact ⟨p1, p2, p3⟩
    · obtain ⟨v, ev, p1, p2, p3⟩ := asRgbChan_ok ofInt trunc [h, w] (by simp) (r.isScalar || c.isScalar || b.isScalar) c hg
      rw [eg] at ev; cases ev; rw [hsz] at p1 p2; exact ⟨p1, p2, p3⟩
    · obtain ⟨v, ev, p1, p2, p3⟩ := asRgbChan_ok ofInt trunc [h, w] (by simp) (r.isScalar || g.isScalar || c.isScalar) c hb
      rw [eb] at ev; cases ev; rw [hsz] at p1 p2; exact ⟨p1, p2, p3⟩
  · intro d v
    obtain ⟨G, gm, ge, _, gr, _, gmin⟩ := stretchIntG_int (dtU 8) rfl d 0 255 (by norm_num) (by simp [dtU]) (by simp [dtU])
      none none rfl
    have hw : (dtU 8).wrap v = v % 256 := by simp [DT.wrap, DT.card, dtU]
    refine ⟨⟨G, gm, ge, gr, gmin⟩, hw, ?_, ?_⟩ <;> rw [hw] <;> omega
  · intro α _ _ _ _ _ _ _ ofInt trunc r g b hr hg hb
    have hs : firstShape [r, g, b] = none := by
      cases r with
      | arr s d => exact absurd rfl (hr s d)
      | none | scalar _ =>
        cases g with
        | arr s d => exact absurd rfl (hg s d)
        | none | scalar _ =>
          cases b with
          | arr s d => exact absurd rfl (hb s d)
          | none | scalar _ => rfl
    unfold asRgbG
    rw [hs]

/-- **C20 (round trip, sharpened by the sign structure of the defect matrix).** `M⁻¹M = I + D` exactly (extracted
4-digit matrices); over the box of linear values `[0,1]³` the deviation `Σ_j D_ij s_j` lies between the sum of the
negative and the sum of the positive entries of row `i`: `[−8.26·10⁻⁶, 2.316·10⁻⁵]` (R), `[−7.94·10⁻⁶, 6.199·10⁻⁵]` (G),
`[0, 1.585·10⁻⁵]` (B) — for R and G less than the absolute row sums that `C20_xyz2rgb_roundtrip` uses. Hence for
every real pixel in `[0,255]³` the channels of `xyz2rgb(rgb2xyz(p))` return within `3294.6` times these:
`0.07631` (R), `0.20424` (G), `0.05223` (B) 8-bit units. The R bound is **attained**: the pixel `(0, 255, 255)` comes
back with `R = 3294.6·579/25000000 = 0.0763…` exactly — the maximum the check measures on the lattice (0.0763 at
`(0,255,255)`), so for R no better constant exists. (For G the bound is not tight: the dominant term of the deviation is
proportional to the channel itself, where the encoder is much flatter than `3294.6`; measured maximum 0.0715.) -/
theorem C20_xyz2rgb_roundtrip_sharp (r g b : ℝ) (hr : 0 ≤ r ∧ r ≤ 255) (hg : 0 ≤ g ∧ g ≤ 255) (hb : 0 ≤ b ∧ b ≤ 255) :
    (∃ r' g' b' : ℝ, xyz2rgbR (rgb2xyzR [r, g, b]) = [r', g', b'] ∧
      |r' - r| ≤ 16473 / 5 * (579 / 25000000) ∧ |g' - g| ≤ 16473 / 5 * (6199 / 100000000) ∧
      |b' - b| ≤ 16473 / 5 * (317 / 20000000) ∧
      |r' - r| ≤ 7631 / 100000 ∧ |g' - g| ≤ 20424 / 100000 ∧ |b' - b| ≤ 5223 / 100000) ∧
    (∃ g' b' : ℝ, xyz2rgbR (rgb2xyzR [0, 255, 255]) = [16473 / 5 * (579 / 25000000), g', b']) := by
  obtain ⟨r', g', b', e, b1, b2, b3⟩ := roundTrip_encR_sharp hr hg hb
  exact ⟨⟨r', g', b', e, b1, b2, b3, le_trans b1 (by norm_num), le_trans b2 (by norm_num), le_trans b3 (by norm_num)⟩,
    roundTrip_cyan_red⟩

/-- **C20 (dtype handling of the colour conversions).** An integer image is converted to `double` before anything
else (`rgb/255.` is true division, `np.dot` and `x/xn` promote): the model of a conversion of an integer image
(`rgb2xyzInt`, `rgb2labInt`, `roundTripInt` — the driver's kind `rgbint`, which receives the *integers*) is the
standard specification evaluated at the converted values, for every list of integers. A `dtype=` request is
`astype(dtype)` of the `float64` result (`castOutInt`: C truncation `truncF`, then the dtype's reduction), and for
every integer dtype the reduction is the identity wherever the truncated value lies in the dtype's range — e.g.
XYZ in `[0, 1.09]`, L* in `[0, 100]`, a*, b* in `[−128, 127]` for `int8` and wider, round-tripped RGB in `[0, 255]` for
`uint8` and wider. (The harness checks the other half on the real code for 9 input dtypes × 12 requests: integer
input ≡ `astype(float64)` input bit for bit; `f(x, dtype=d) ≡ f(x).astype(d)`; the requested dtype is returned —
which `xyz2rgb` did not do before `cdb5840`.) -/
theorem C20_dtype_handling (rgb : List Int) (dt : DT) (v : List Float) :
    rgb2xyzInt rgb = rgb2xyzSpec (rgb.map Float.ofInt) ∧ rgb2labInt rgb = rgb2labSpec (rgb.map Float.ofInt) ∧
    roundTripInt rgb = xyz2rgbSpec (rgb2xyzSpec (rgb.map Float.ofInt)) ∧
    castOutInt dt v = v.map (fun y => dt.wrap (truncF y)) ∧
    ((∀ y ∈ v, dt.lo ≤ truncF y ∧ truncF y ≤ dt.hi) → castOutInt dt v = v.map truncF) := by
  have h := C20_model_is_standard (rgb.map Float.ofInt) (rgb2xyzSpec (rgb.map Float.ofInt))
  refine ⟨h.1, h.2.2, ?_, rfl, ?_⟩
  · unfold roundTripInt rgb2xyzInt
    rw [h.1]; exact h.2.1
  · intro hr
    unfold castOutInt
    apply List.map_congr_left
    intro y hy
    exact DT.wrap_of_mem dt (hr y hy).1 (hr y hy).2

/-- **C20 (the argument decoding of `stretch` is the source's).** `stretchDecodeGen` is generated by the translator on
every run from the `if arg0 is None: … elif arg1 is None: … else: …` chain of `stretch.py` (tests `argN is None`,
assignments of integer literals or `arg0`/`arg1` to `min` and `max`; any other construct is a translation error), and
`stretchDefaultDtype` from the signature's `dtype=np.uint8`. The model's `decodeArgs` — the function `stretchIntG`,
`stretchRgbG` and `asRgbG` run — coincides with it on all arguments, and the default dtype is the `uint8` that
`stretchU8G` (the `stretch(c)` of `as_rgb`) uses. -/
theorem C20_stretch_decode_extracted (arg0 arg1 : Option Int) :
    decodeArgs arg0 arg1 = stretchDecodeGen arg0 arg1 ∧ stretchDefaultDtype = "uint8" ∧
    DT.ofName "u8" = dtU 8 := by
  refine ⟨?_, rfl, rfl⟩
  cases arg0 <;> cases arg1 <;> rfl

/-! non-vacuity (round 4) -/
example : stretchDecodeGen none (some 7) = (0, 255) ∧ stretchDecodeGen (some 9) none = (0, 9) ∧
    stretchDecodeGen (some (-3)) (some 4) = (-3, 4) := by decide
example : castOutInt (dtU 8) [] = [] ∧ (dtI 8).wrap 127 = 127 ∧ (dtI 8).wrap 199 = -57 := by decide +kernel
example : stretchIntG (fun n : Int => (n : Rat)) truncQ (dtI 8) [3, 7, 5, 3] (some (-128)) (some (-25)) = [-128, -25, -76, -128] := by
  decide +kernel
example : stretchIntG (fun n : Int => (n : Rat)) truncQ (dtU 8) [3, 7, 5, 3] none (some 9) = [0, 255, 127, 0] := by decide +kernel
example : stretchIntG (fun n : Int => (n : Rat)) truncQ dtBool [3, 7, 5, 3] (some 1) none = [0, 1, 1, 0] := by decide +kernel
example : stretchRgbG (fun n : Int => (n : Rat)) truncQ (dtU 8) [1, 2, 2] [0, 10, 4, 30] none none = .ok [0, 0, 255, 255] := by
  decide +kernel
example : asRgbG (fun n : Int => (n : Rat)) truncQ (.arr [1, 2] [5, 6]) .none (.scalar 300) = .ok ([1, 2, 3], [0, 0, 44, 255, 0, 44]) := by
  decide +kernel
example : asRgbG (fun n : Int => (n : Rat)) truncQ (.arr [1, 2] [5, 6]) (.arr [2, 1] [5, 6]) (.scalar 3) =
    .error "AttributeError: 'int' object has no attribute 'shape'" := by decide +kernel
/-- rounding down to sixteenths: still monotone, min ↦ `lo`, inside `[lo, hi]` — but the maximal pixel falls short of
    `hi` (`159/16 < 10`): the statement claims `≤ hi` only, for this reason -/
example : stretchRounded (fun q => ((q * 2 ^ 4).floor : Rat) / 2 ^ 4) [0, 1, 3] 0 10 = [0, 53 / 16, 159 / 16] := by
  decide +kernel
