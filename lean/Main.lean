import Mahotas.Model.C01
open Mahotas

def dispatch (a : Args) : String :=
  match a.op with
  | "c01" => C01.handle a
  | "ping" => "pong"
  | op => s!"error=unknown-op-{op}"

partial def loop (hin : IO.FS.Stream) (hout : IO.FS.Stream) : IO Unit := do
  let line ← hin.getLine
  if line.isEmpty then return ()
  if line.trimAscii.toString.isEmpty then
    hout.putStrLn ""
  else
    hout.putStrLn (dispatch (parseLine line))
  loop hin hout

def main : IO Unit := do
  let hin ← IO.getStdin
  let hout ← IO.getStdout
  loop hin hout
  hout.flush
