import Mahotas.Model.C01
import Mahotas.Model.C02
import Mahotas.Model.C03
import Mahotas.Model.C04
import Mahotas.Model.C05
import Mahotas.Model.C06
import Mahotas.Model.C07
import Mahotas.Model.C08
import Mahotas.Model.C09
import Mahotas.Model.C10
import Mahotas.Model.C11
import Mahotas.Model.C12
import Mahotas.Model.C13
import Mahotas.Model.C14
import Mahotas.Model.C15
import Mahotas.Model.C16
import Mahotas.Model.C17
import Mahotas.Model.C18
import Mahotas.Model.C19
import Mahotas.Model.C20
import Mahotas.Model.FilterIter
import Mahotas.Generated.CScalar
open Mahotas

def dispatch (a : Args) : String :=
  match a.op with
  | "c01" => C01.handle a
  | "c02" => C02.handle a
  | "c03" => C03.handle a
  | "c04" => C04.handle a
  | "c05" => C05.handle a
  | "c06" => C06.handle a
  | "c07" => C07.handle a
  | "c08" => C08.handle a
  | "c09" => C09.handle a
  | "c10" => C10.handle a
  | "c11" => C11.handle a
  | "c12" => C12.handle a
  | "c13" => C13.handle a
  | "c14" => C14.handle a
  | "c15" => C15.handle a
  | "c16" => C16.handle a
  | "c17" => C17.handle a
  | "c18" => C18.handle a
  | "c19" => C19.handle a
  | "c20" => C20.handle a
  | "f6" => filterIterHandle a
  | "cs" => Generated.C.handle a
  | "ping" => "pong"
  | op => s!"error=unknown-op-{op}"

partial def loop (hin : IO.FS.Stream) (hout : IO.FS.Stream) : IO Unit := do
  let line ← hin.getLine
  if line.isEmpty then return ()
  if line.trimAscii.toString.isEmpty then
    hout.putStrLn ""
  else
    hout.putStrLn (dispatch (parseLine line))
  loop hin hout

def main : IO Unit := do
  let hin ← IO.getStdin
  let hout ← IO.getStdout
  loop hin hout
  hout.flush
