import Mahotas.Properties.C06
import Mahotas.Proofs.FilterIter
#print axioms C06_convolve_eq_spec
#print axioms C06_fast_columns_once
#print axioms C06_fast_interior_in_range
#print axioms C06_fast_eq_spec
#print axioms C06_normAxis
#print axioms C06_convolve1d_axis
#print axioms C06_convolve1d_paths_agree
#print axioms C06_gauss_weights
#print axioms C06_gauss_constant
#print axioms C06_gaussian_filter_is_fold
#print axioms C06_gaussian_filter_constant
#print axioms C06_gauss_ramp_response
#print axioms C06_laplacian_weights_sum_zero
#print axioms C06_lineThrough_is_transpose_reshape
#print axioms C06_convolve1d_via_transpose
#print axioms C06_convolve1d_last_axis_branch
#print axioms C06_gaussian_separable
#print axioms C06_mode_codes_agree
#print axioms Mahotas.filterIter_refines
#print axioms Mahotas.filterIter_refines_walk
#print axioms Mahotas.filterIter_position
#print axioms Mahotas.filterIter_refines_elemOffset
