#!/bin/bash
# MANIFEST.setup_cmd: regenerate the translator output from /repo's current sources, then build models, proofs, driver.
# (The Generated/*.lean files are committed for reading, but a check run against another tree rewrites them; setup
#  therefore never relies on their committed text.)
cd "$(dirname "$0")" || exit 2
/venv/bin/python - <<'P' || exit 2
from harness import core
g = core.run_translator()
if g.get('_failed'):
    print('translator blocks not recognised (kept at last text):', g['_failed'])
P
cd lean && lake build
