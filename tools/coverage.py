#!/usr/bin/env python3
"""Which lines of the anchored C++ does a property's correspondence run actually execute?

usage: /venv/bin/python tools/coverage.py C01 [C02 ...] [--tier quick]

Builds a gcov-instrumented copy of /repo's working tree (g++ --coverage, cached under /var/tmp/mahotas-verif/cov-<hash>),
runs the property's ordinary check (same generators, same seed) against that build with the worker processes made to
leave through libc's exit() so that the counters are flushed, and reports per anchored file and per anchored line range
(properties.jsonl `mechanism[].where`) the executed / executable lines and the line numbers never executed.
Writes design-notes/coverage/<id>.json and prints a summary. This is *evidence about the generators* (input-distribution
quality), not a decision procedure: nothing here can raise or hide a VIOLATION.
"""
from __future__ import annotations
import ctypes, json, os, re, shutil, subprocess, sys, time, tempfile
from pathlib import Path

V = Path(__file__).resolve().parent.parent
sys.path.insert(0, str(V))
from harness import core, engine  # noqa: E402

PY = '/venv/bin/python'


def cov_build() -> Path:
    core.CACHE.mkdir(parents=True, exist_ok=True)
    d = core.CACHE / ('cov-' + core.tree_hash())
    if not (d / '.ok').exists():
        shutil.rmtree(d, ignore_errors=True)
        (d / 'src').mkdir(parents=True)
        subprocess.run(['rsync', '-a', '--exclude', '.git', '--exclude', '*.so', '--exclude', 'build', '--exclude',
                        '__pycache__', '--exclude', 'docs', str(core.REPO) + '/', str(d / 'src')], check=True)
        env = dict(os.environ, CC='gcc --coverage', CXX='g++ --coverage', LDSHARED='g++ -shared --coverage')
        with open(d / 'build.log', 'w') as lf:
            r = subprocess.run([PY, 'setup.py', 'build_ext', '--inplace'], cwd=d / 'src', stdout=lf,
                               stderr=subprocess.STDOUT, env=env)
        if r.returncode != 0:
            raise SystemExit('coverage build failed:\n' + (d / 'build.log').read_text()[-2000:])
        (d / '.ok').write_text('ok')
    return d / 'src'


def reset(src: Path):
    for p in (src / 'build').rglob('*.gcda'):
        p.unlink()


def collect(src: Path) -> dict:
    """{source file relative to the tree: {line: count}} merged over all objects"""
    out: dict[str, dict[int, int]] = {}
    for gcda in sorted((src / 'build').rglob('*.gcda')):
        with tempfile.TemporaryDirectory(dir=core.CACHE) as td:
            # gcov resolves the (relative) source names against its working directory: run it in the tree, move the reports out
            subprocess.run(['gcov', '-p', '-o', str(gcda.parent), str(gcda)], cwd=src, stdout=subprocess.DEVNULL,
                           stderr=subprocess.DEVNULL)
            for g in src.glob('*.gcov'):
                shutil.move(str(g), td)
            for g in Path(td).glob('*.gcov'):
                lines = g.read_text(errors='replace').splitlines()
                m = re.match(r'\s*-:\s*0:Source:(.*)', lines[0]) if lines else None
                if not m:
                    continue
                sf = m.group(1)
                if '/usr/' in sf or 'site-packages' in sf:
                    continue
                sf = sf[sf.index('mahotas/'):] if 'mahotas/' in sf else sf
                tbl = out.setdefault(sf, {})
                for ln in lines[1:]:
                    mm = re.match(r'\s*([^:]+):\s*(\d+):', ln)
                    if not mm:
                        continue
                    c, no = mm.group(1).strip(), int(mm.group(2))
                    if c == '-':
                        continue
                    n = 0 if c.startswith(('#', '=')) else int(re.sub(r'\D', '', c) or 0)
                    tbl[no] = tbl.get(no, 0) + n
    return out


def py_monitor(src: Path) -> set:
    """record (file relative to the tree, line) of every line of the staged mahotas Python sources that executes in this
    process and in the workers forked from it (sys.monitoring, each location reported once)"""
    mon = sys.monitoring
    tool = mon.COVERAGE_ID
    mon.use_tool_id(tool, 'verif-coverage')
    hits: set = set()
    root = str(src.resolve()) + '/'

    def on_line(code, line):
        fn = code.co_filename
        if fn.startswith(root):
            hits.add((fn[len(root):], line))
        return mon.DISABLE
    mon.register_callback(tool, mon.events.LINE, on_line)
    mon.set_events(tool, mon.events.LINE)
    return hits


def py_executable(path: Path) -> set:
    """line numbers carrying code in a Python source (docstrings and def/class header lines excluded where possible)"""
    import types
    out = set()
    todo = [compile(path.read_text(), str(path), 'exec')]
    while todo:
        co = todo.pop()
        for _, _, ln in co.co_lines():
            if ln is not None and ln > 0:
                out.add(ln)
        todo += [c for c in co.co_consts if isinstance(c, types.CodeType)]
    return out


def ranges_of(where: str) -> list[tuple[str, int, int]]:
    res = []
    cur = None
    for part in re.split(r'[;,]\s*', where):
        part = part.strip()
        m = re.match(r'(\S+?):(\d+)(?:-(\d+))?$', part)
        if m:
            cur = m.group(1)
            res.append((cur, int(m.group(2)), int(m.group(3) or m.group(2))))
            continue
        m = re.match(r'(\d+)(?:-(\d+))?$', part)
        if m and cur:
            res.append((cur, int(m.group(1)), int(m.group(2) or m.group(1))))
    return res


def compress(nums):
    nums = sorted(nums)
    out, i = [], 0
    while i < len(nums):
        j = i
        while j + 1 < len(nums) and nums[j + 1] == nums[j] + 1:
            j += 1
        out.append(str(nums[i]) if i == j else f'{nums[i]}-{nums[j]}')
        i = j + 1
    return out


def main():
    ids = [a for a in sys.argv[1:] if re.match(r'C\d\d$', a)]
    tier = sys.argv[sys.argv.index('--tier') + 1] if '--tier' in sys.argv else 'quick'
    props = {json.loads(l)['id']: json.loads(l) for l in (V / 'properties.jsonl').read_text().splitlines() if l.strip()}
    src = cov_build()
    core.stage_build = lambda asan=False: src if not asan else _orig_stage(asan)     # plain workers use the instrumented build
    libc = ctypes.CDLL(None)
    pydir = core.CACHE / f'cov-py-{os.getpid()}'
    pydir.mkdir(parents=True, exist_ok=True)
    hits = py_monitor(src)

    def _leave(code=0):
        # forked workers: write the Python lines this process executed, then run the C destructors (gcov flush)
        try:
            (pydir / f'{os.getpid()}.json').write_text(json.dumps(sorted(hits)))
        except Exception:
            pass
        libc.exit(int(code))
    os._exit = _leave
    os.environ['VERIF_EVIDENCE_DIR'] = str(core.CACHE / 'cov-evidence')
    outdir = V / 'design-notes' / 'coverage'
    outdir.mkdir(parents=True, exist_ok=True)
    for pid in ids:
        reset(src)
        t0 = time.time()
        rc = engine.run_property(f'harness.props.{pid.lower()}', tier, int(os.environ.get('VERIF_SEED', '0')))
        cov = collect(src)
        pyhits = set(map(tuple, hits))
        for f in pydir.glob('*.json'):
            pyhits |= set(map(tuple, json.loads(f.read_text())))
            f.unlink()
        hits.clear()
        for f in {x for x in props[pid]['anchors']['files'] if x.endswith('.py')}:
            exe = py_executable(src / f)
            got = {ln for fn, ln in pyhits if fn == f}
            cov[f] = {ln: (1 if ln in got else 0) for ln in exe}
        p = props[pid]
        rep = dict(property=pid, tier=tier, check_exit=rc, wall_s=round(time.time() - t0, 1), files={}, anchors=[])
        for f in p['anchors']['files']:
            t = cov.get(f, {})
            ex = [n for n, c in t.items() if c > 0]
            never = [n for n, c in t.items() if c == 0]
            rep['files'][f] = dict(executable=len(t), executed=len(ex), never=compress(never))
        for mech in p['anchors']['mechanism']:
            for f, a, b in ranges_of(mech['where']):
                if f.endswith('.rst'):
                    continue
                t = {n: c for n, c in cov.get(f, {}).items() if a <= n <= b}
                rep['anchors'].append(dict(name=mech['name'], file=f, lines=f'{a}-{b}', executable=len(t),
                                           executed=sum(1 for c in t.values() if c > 0),
                                           never=compress([n for n, c in t.items() if c == 0])))
        (outdir / f'{pid}.json').write_text(json.dumps(rep, indent=1) + '\n')
        print(f'== {pid} exit={rc} {rep["wall_s"]}s')
        for f, r in rep['files'].items():
            print(f'   {f}: {r["executed"]}/{r["executable"]} lines')
        for a in rep['anchors']:
            print(f'   anchor {a["file"]}:{a["lines"]} {a["executed"]}/{a["executable"]} never={",".join(a["never"][:12])}  ({a["name"][:50]})')


_orig_stage = core.stage_build
if __name__ == '__main__':
    main()
