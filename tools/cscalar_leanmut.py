"""Lean-level mutation table: edit one C++ function in $W/repo, re-run the translator, rebuild its tie; restore."""
import subprocess, sys, re
from pathlib import Path
import os
VERIF = Path(__file__).resolve().parent.parent
if not os.environ.get('MAHOTAS_REPO') or Path(os.environ['MAHOTAS_REPO']).resolve() == Path('/repo'):
    sys.exit('set MAHOTAS_REPO to a scratch worktree of /repo: this tool edits the tree and restores it with `git checkout`')
REPO = Path(os.environ['MAHOTAS_REPO'])
if subprocess.run(['git', 'status', '--short'], cwd=REPO, stdout=subprocess.PIPE, text=True).stdout.strip():
    sys.exit(f'{REPO} has uncommitted changes')
sys.path.insert(0, str(VERIF))
from translator import cscalar
G = VERIF / 'lean' / 'Mahotas' / 'Generated'
T = 'Mahotas.Proofs.CScalarTies.'
CASES = [
  # label, file, (old, new), tie, expected ('break' | 'pass')
  ('fix_offset mirror: -cc -> -cc - 1', 'mahotas/_filters.h', ('return cc <= 1 - len ? cc + sz2 : -cc;', 'return cc <= 1 - len ? cc + sz2 : -cc - 1;'), 'FixOffset', 'break'),
  ('fix_offset mirror: cc <= 1-len -> cc < 1-len (equivalent)', 'mahotas/_filters.h', ('return cc <= 1 - len ? cc + sz2 : -cc;', 'return cc < 1 - len ? cc + sz2 : -cc;'), 'FixOffset', 'pass'),
  ('fix_offset reflect: cc < -len -> cc <= -len', 'mahotas/_filters.h', ('cc = cc < -len ? cc + sz2 : -cc - 1;', 'cc = cc <= -len ? cc + sz2 : -cc - 1;'), 'FixOffset', 'break'),
  ('fix_offset wrap: len <= 1 -> len < 1', 'mahotas/_filters.h', ('npy_intp sz = len;\n                cc += sz', 'npy_intp sz = len + 0;\n                cc += sz'), 'FixOffset', 'pass'),
  ('fix_offset nearest: len - 1 -> len', 'mahotas/_filters.h', ('if (cc >= len) return len - 1;', 'if (cc >= len) return len;'), 'FixOffset', 'break'),
  ('fix_offset constant: cc >= len -> cc > len', 'mahotas/_filters.h', ('if (cc < 0 || cc >= len)', 'if (cc < 0 || cc > len)'), 'FixOffset', 'break'),
  ('fix_offset: while loop added (outside the subset)', 'mahotas/_filters.h', ('case ExtendNearest:\n        if (cc < 0) return 0;', 'case ExtendNearest:\n        while (cc < 0) cc += len;\n        if (cc < 0) return 0;'), 'FixOffset', 'untranslatable'),
  ('erode_sub: b > a -> b >= a', 'mahotas/_morph.cpp', ('if (!std::numeric_limits<T>::is_signed && (b > a)) return T(0);', 'if (!std::numeric_limits<T>::is_signed && (b >= a)) return T(0);'), 'ErodeSub', 'break'),   # equal for real dtypes (0 in range); the tie holds for arbitrary (lo, hi): conservative
  ('erode_sub: r > a -> r >= a', 'mahotas/_morph.cpp', ('if ( std::numeric_limits<T>::is_signed && (r > a)) return', 'if ( std::numeric_limits<T>::is_signed && (r >= a)) return'), 'ErodeSub', 'break'),
  ('erode_sub: the two early returns swapped', 'mahotas/_morph.cpp', ('    if (b == std::numeric_limits<T>::min()) return std::numeric_limits<T>::max();\n    if (!std::numeric_limits<T>::is_signed && (b > a)) return T(0);', '    if (!std::numeric_limits<T>::is_signed && (b > a) && b != std::numeric_limits<T>::min()) return T(0);\n    if (b == std::numeric_limits<T>::min()) return std::numeric_limits<T>::max();'), 'ErodeSub', 'pass'),
  ('dilate_add: r < a -> r <= a', 'mahotas/_morph.cpp', ('if (b >= 0 && r < a) return', 'if (b >= 0 && r <= a) return'), 'DilateAdd', 'break'),
  ('dilate_add: the two minimum tests swapped', 'mahotas/_morph.cpp', ('    if (a == std::numeric_limits<T>::min()) return a;\n    if (b == std::numeric_limits<T>::min()) return b;', '    if (b == std::numeric_limits<T>::min()) return b;\n    if (a == std::numeric_limits<T>::min()) return a;'), 'DilateAdd', 'pass'),
  ('dilate_add<bool>: && -> ||', 'mahotas/_morph.cpp', ('bool dilate_add(bool a, bool b) {\n    return a && b;', 'bool dilate_add(bool a, bool b) {\n    return a || b;'), 'DilateAdd', 'break'),
  ('subm: val <= *ita -> val < *ita', 'mahotas/_morph.cpp', ('if (*itb >= 0 && (val <= *ita)) *ita = val;', 'if (*itb >= 0 && (val < *ita)) *ita = val;'), 'SubmElem', 'break'),
  ('subm: *ita -= *itb -> *ita = *ita - *itb', 'mahotas/_morph.cpp', ('else *ita -= *itb;', 'else *ita = *ita - *itb;'), 'SubmElem', 'pass'),
  ('margin_of: - 1 dropped', 'mahotas/_morph.cpp', ('const numpy::index_type rmargin = ref.dim(d) - position[d] - 1;', 'const numpy::index_type rmargin = ref.dim(d) - position[d];'), 'MarginOf', 'break'),
  ('margin_of: local renamed, comparison flipped', 'mahotas/_morph.cpp', ('        const numpy::index_type rmargin = ref.dim(d) - position[d] - 1;\n        if (rmargin < margin) margin = rmargin;', '        const numpy::index_type right = ref.dim(d) - 1 - position[d];\n        if (margin > right) margin = right;'), 'MarginOf', 'pass'),
  ('t_abs: >= -> >', 'mahotas/_morph.cpp', ('return (val >= 0 ? val : -val);', 'return (val > 0 ? val : -val);'), 'TAbs', 'pass'),
  ('t_abs: -val -> val', 'mahotas/_morph.cpp', ('return (val >= 0 ? val : -val);', 'return (val >= 0 ? val : val);'), 'TAbs', 'break'),
  ('isLeft: operands of the second product swapped (commutes)', 'mahotas/_convex.cpp', ('(p2.y-p0.y)*(p1.x-p0.x)', '(p1.x-p0.x)*(p2.y-p0.y)'), 'Convex', 'pass'),
  ('isLeft: p2.x -> p2.y', 'mahotas/_convex.cpp', ('(p1.y-p0.y)*(p2.x-p0.x)', '(p1.y-p0.y)*(p2.y-p0.x)'), 'Convex', 'break'),
  ('forward_cmp: < -> <=', 'mahotas/_convex.cpp', ('if (a.y == b.y) return a.x < b.x;\n\treturn a.y < b.y;', 'if (a.y == b.y) return a.x <= b.x;\n\treturn a.y < b.y;'), 'Convex', 'break'),
  ('at_flat: p /= dim(d) -> p /= dim(d-1) (the pinned defect)', 'mahotas/numpypp/array.hpp', ('                int c = (p % this->dim(d));\n                p /= this->dim(d);\n                base +=', '                int c = (p % this->dim(d));\n                p /= this->dim(d-1);\n                base +='), 'AtFlat', 'break'),
  ('at_flat: loop from ndims()-1 down to 1 only', 'mahotas/numpypp/array.hpp', ('for (int d = this->ndims() - 1; d >= 0; --d) {\n                int c = (p %', 'for (int d = this->ndims() - 1; d > 0; --d) {\n                int c = (p %'), 'AtFlat', 'break'),
  ('pos_to_flat: cummul *= before res +=', 'mahotas/numpypp/array.hpp', ('                res += pos.position_[d] * cummul;\n                cummul *= this->dim(d);', '                cummul *= this->dim(d);\n                res += pos.position_[d] * cummul;'), 'PosToFlat', 'break'),
  ('flat_to_pos: carry into axis 0 dropped', 'mahotas/numpypp/array.hpp', ('if (p) res.position_[0] += p * this->dim(0);', 'if (p) res.position_[0] += p;'), 'FlatToPos', 'break'),
  ('sum_rect: upper clamp of y1 dropped', 'mahotas/features/_surf.cpp', ('y1 = std::min<int>(std::max<int>(y1-1, 0), N0 - 1);', 'y1 = std::max<int>(y1-1, 0);'), 'Surf', 'break'),
  ('sum_rect: min/max nesting exchanged (equal for N0 >= 1)', 'mahotas/features/_surf.cpp', ('y0 = std::min<int>(std::max<int>(y0-1, 0), N0 - 1);', 'y0 = std::max<int>(std::min<int>(y0-1, N0 - 1), 0);'), 'Surf', 'pass'),
  ('haar_x: window width w -> w - 1 on the right half', 'mahotas/features/_surf.cpp', ('const double right = sum_rect(integral, y - w/2,        x, (y - w/2) + w, (x - w/2) + w);', 'const double right = sum_rect(integral, y - w/2,        x, (y - w/2) + w, (x - w/2) + w - 1);'), 'Surf', 'break'),
  ('roll_right: points-1 -> points', 'mahotas/features/_lbp.cpp', ('return (v >> 1) | ((v & 1) << (points-1));', 'return (v >> 1) | ((v & 1) << (points));'), 'Lbp', 'break'),
  ('dilate_add: b >= 0 test dropped (the pre-repair behaviour on negative heights)', 'mahotas/_morph.cpp', ('if (b >= 0 && r < a) return', 'if (r < a) return'), 'DilateAdd', 'break'),
  ('dilate_add: b >= 0 -> b > 0', 'mahotas/_morph.cpp', ('if (b >= 0 && r < a) return', 'if (b > 0 && r < a) return'), 'DilateAdd', 'break'),   # equal for values of the dtype (r = a when b = 0); the tie holds for ALL integers a: conservative
  ('find2d: y + Nt0 <= N0 -> y + Nt0 < N0 (last row of corners lost: the defect repaired in round 1)', 'mahotas/_convolve.cpp', ('y < N0 && y + Nt0 <= N0;', 'y < N0 && y + Nt0 < N0;'), 'Find2d', 'break'),
  ('find2d: x + Nt1 <= N1 dropped (reads past the right edge)', 'mahotas/_convolve.cpp', ('x < N1 && x + Nt1 <= N1;', 'x < N1;'), 'Find2dAcc', 'break'),
  ('find2d: x + Nt1 <= N1 dropped (marks corners where the template does not fit)', 'mahotas/_convolve.cpp', ('x < N1 && x + Nt1 <= N1;', 'x < N1;'), 'Find2d', 'break'),
  ('find2d: sy < Nt0 -> sy < Nt0 - 1 (last template row never compared)', 'mahotas/_convolve.cpp', ('for (npy_intp sy = 0; sy < Nt0; ++sy) {', 'for (npy_intp sy = 0; sy < Nt0 - 1; ++sy) {'), 'Find2d', 'break'),
  ('find2d: array.at(y + sy, x + sx) -> array.at(y + sy, x) (column offset lost)', 'mahotas/_convolve.cpp', ('array.at(y + sy,x + sx) != target.at(sy,sx)', 'array.at(y + sy,x) != target.at(sy,sx)'), 'Find2d', 'break'),
  ('find2d: goto replaced by nothing (every fitting corner marked)', 'mahotas/_convolve.cpp', ('                        goto next_pos;\n', '                        ;\n'), 'Find2d', 'untranslatable'),   # find2d_accesses: a statement under an element comparison that is not a jump
  ('find2d: conjuncts of the loop conditions exchanged, != for < on the simple bound', 'mahotas/_convolve.cpp', ('for (npy_intp y = 0; y < N0 && y + Nt0 <= N0; ++y) {', 'for (npy_intp y = 0; y + Nt0 <= N0 && y != N0; ++y) {'), 'Find2d', 'pass'),
  ('find2d: out.at(y, x) -> out.at(x, y)', 'mahotas/_convolve.cpp', ('out.at(y, x) = true;', 'out.at(x, y) = true;'), 'Find2d', 'break'),
  ('find2d: `continue` instead of goto (only the innermost loop is left)', 'mahotas/_convolve.cpp', ('                        goto next_pos;\n', '                        continue;\n'), 'Find2d', 'break'),
  ('spline order 3: (y - 2.0) * 3.0 -> 3.0 * (y - 2.0) (same real value, different rounding sequence)', 'mahotas/_interpolate.cpp', ('(y * y * (y - 2.0) * 3.0 + 4.0) / 6.0;', '(3.0 * (y - 2.0) * y * y + 4.0) / 6.0;'), 'Spline', 'break'),
  ('spline order 4: constant 0.625 -> 0.0625', 'mahotas/_interpolate.cpp', ('y * (y * 0.25 - 0.625) + 115.0 / 192.0;', 'y * (y * 0.25 - 0.0625) + 115.0 / 192.0;'), 'Spline', 'break'),
  ('spline order 2: threshold y < 1.5 -> y < 2.5', 'mahotas/_interpolate.cpp', ('            } else if (y < 1.5) {\n                y = 1.5 - y;\n                result[hh] = 0.5 * y * y;', '            } else if (y < 2.5) {\n                y = 1.5 - y;\n                result[hh] = 0.5 * y * y;'), 'Spline', 'break'),
  ('spline order 5: local f renamed, 0.55 written 11.0 / 20.0', 'mahotas/_interpolate.cpp', ('                const FT f = y * y;\n                result[hh] = f * (f * (0.25 - y / 12.0) - 0.5) + 0.55;', '                const FT ysq = y * y;\n                result[hh] = ysq * (ysq * (0.25 - y / 12.0) - 0.5) + 11.0 / 20.0;'), 'Spline', 'pass'),
  ('currank: n * rank/double(N2) -> n * (rank/double(N2)) (product no longer exact)', 'mahotas/_convolve.cpp', ('currank = npy_intp(n * rank/double(N2));', 'currank = npy_intp(n * (rank/double(N2)));'), 'CurRank', 'untranslatable'),   # `n * <floating>`: the generated text needs a multiplication the configured arithmetic does not have -> does not type-check -> reported like an untranslatable block
  ('currank: n != N2 -> n < N2 (same for n <= N2; the tie is for all n)', 'mahotas/_convolve.cpp', ('if (n != N2) {\n            currank', 'if (n < N2) {\n            currank'), 'CurRank', 'break'),
  ('dt: / 2. / (q-v[k]) -> / (2. * (q-v[k])) (same rational, other rounding: the tie at Rat passes)', 'mahotas/_distance.cpp', ('/ 2./ (q-v[k]);', '/ (2. * (q-v[k]));'), 'DtIntersect', 'pass'),
  ('dt: square(BaseType(q)) -> BaseType(q)', 'mahotas/_distance.cpp', ('(f[q*stride] + square(BaseType(q)))', '(f[q*stride] + BaseType(q))'), 'DtIntersect', 'break'),
  ('fast positions: dx < -Nx clamp dropped', 'mahotas/_morph.cpp', ('            if (dx < -Nx) dx = -Nx;\n', ''), 'FastPositions', 'break'),
  ('fast positions: dx > Nx -> dx >= Nx (equivalent)', 'mahotas/_morph.cpp', ('if (dx > Nx) dx = Nx;', 'if (dx >= Nx) dx = Nx;'), 'FastPositions', 'pass'),
  ('fast positions: Cy = By/2 -> (By-1)/2 (centre of an even element moves)', 'mahotas/_morph.cpp', ('const numpy::index_type Cy = By/2;', 'const numpy::index_type Cy = (By-1)/2;'), 'FastPositions', 'break'),
  ('fast positions: continue replaced by an if around the rest', 'mahotas/_morph.cpp', ('            if (!Bc.at(y,x)) continue;\n            const numpy::index_type dy = y-Cy;\n            numpy::index_type dx = x-Cx;\n            // offsets reaching beyond the image read the replicated edge (dy is clamped per row below)\n            if (dx > Nx) dx = Nx;\n            if (dx < -Nx) dx = -Nx;\n            if (dy || dx) {\n                positions.push_back(dy);\n                positions.push_back(dx);\n            }\n', '            if (Bc.at(y,x)) {\n            const numpy::index_type dy = y-Cy;\n            numpy::index_type dx = x-Cx;\n            if (dx > Nx) dx = Nx;\n            if (dx < -Nx) dx = -Nx;\n            if (dy || dx) {\n                positions.push_back(dy);\n                positions.push_back(dx);\n            }\n            }\n'), 'FastPositions', 'pass'),
  ('find: compression loop stops one node early (data[i] != root -> data[data[i]] != root): same buffer', 'mahotas/_labeled.cpp', ('while (data[i] != root) {', 'while (data[i] != root && data[data[i]] != root) {'), 'UnionFind', 'break'),
  ('find: path halving instead of full compression (data[i] = root -> data[i] = data[next])', 'mahotas/_labeled.cpp', ('        data[i] = root;\n        i = next;', '        data[i] = data[next];\n        i = next;'), 'UnionFind', 'break'),
  ('join: data[i] = j -> data[j] = i (union direction)', 'mahotas/_labeled.cpp', ('    assert(j >= 0);\n    data[i] = j;', '    assert(j >= 0);\n    data[j] = i;'), 'UnionFind', 'break'),
  ('join: second find on the original j moved first', 'mahotas/_labeled.cpp', ('    i = find(data, i);\n    j = find(data, j);', '    j = find(data, j);\n    i = find(data, i);'), 'UnionFind', 'break'),
  ('fast path row clamp: (y + dy) >= Ny -> (y + dy) > Ny (row Ny read)', 'mahotas/_morph.cpp', ('if ((y + dy) >= Ny) {', 'if ((y + dy) > Ny) {'), 'FastRow', 'break'),
  ('fast path row clamp: dy = -y+(Ny-1) -> dy = Ny-1-y (same value)', 'mahotas/_morph.cpp', ('dy = -y+(Ny-1);', 'dy = Ny-1-y;'), 'FastRow', 'pass'),
  ('fast path: n = Nx - t_abs(dx) -> Nx - dx (wrong for dx < 0)', 'mahotas/_morph.cpp', ('numpy::index_type n = Nx - t_abs(dx);', 'numpy::index_type n = Nx - dx;'), 'FastRow', 'break'),
  ('lbp map: v < min -> v <= min (equivalent)', 'mahotas/features/_lbp.cpp', ('if (v < min) min = v;', 'if (v <= min) min = v;'), 'Lbp', 'pass'),
]
only = sys.argv[1:] 
rows = []
for label, file, (old, new), tie, expect in CASES:
    if only and not any(o in label for o in only):
        continue
    p = REPO / file
    src = p.read_text()
    if src.count(old) != 1:
        rows.append((label, 'EDIT-NOT-APPLICABLE', '', expect)); continue
    try:
        p.write_text(src.replace(old, new))
        out = cscalar.generate(REPO, G)
        failed = out['_failed']
        r = subprocess.run(['lake', 'build', T + tie], cwd=VERIF / 'lean', stdout=subprocess.PIPE, stderr=subprocess.STDOUT, text=True)
        errs = [l.strip() for l in r.stdout.splitlines() if 'error:' in l and 'Lean exited' not in l and 'build failed' not in l][:2]
        got = 'untranslatable' if failed else ('pass' if r.returncode == 0 else 'break')
        rows.append((label, got, (list(failed.values()) or errs or [''])[0][:150], expect))
    finally:
        p.write_text(src)
cscalar.generate(REPO, G)
subprocess.run(['lake', 'build', 'Mahotas.Proofs.CScalarTies'], cwd=VERIF / 'lean', stdout=subprocess.DEVNULL, stderr=subprocess.DEVNULL)
for label, got, info, expect in rows:
    print(f'{"OK " if got == expect else "???"} {got:15s} (expected {expect:14s}) {label}  {info}')
