"""apply each benign / seeded patch to $W/repo, re-run the translator, rebuild every tie; restore. Lean level only."""
import subprocess, sys
from pathlib import Path
import os
VERIF = Path(__file__).resolve().parent.parent; REPO = Path(os.environ.get('MAHOTAS_REPO', '/repo'))   # run against a scratch WORKTREE of /repo only: the tree is edited and restored
sys.path.insert(0, str(VERIF))
from translator import cscalar
G = VERIF / 'lean' / 'Mahotas' / 'Generated'
FILES = ('_filters.h', '_morph.cpp', 'array.hpp', '_convex.cpp', '_surf.cpp', '_lbp.cpp')
kind = sys.argv[1]
for d in sorted((VERIF / kind).iterdir()):
    pf = d / 'patch.diff'
    if not pf.exists() or not any(f in pf.read_text() for f in FILES):
        continue
    r = subprocess.run(['git', 'apply', '--check', str(pf)], cwd=REPO, stdout=subprocess.PIPE, stderr=subprocess.STDOUT, text=True)
    if r.returncode != 0:
        print(f'{d.name}: patch does not apply to this tree ({r.stdout.strip().splitlines()[0][:80]})'); continue
    subprocess.run(['git', 'apply', str(pf)], cwd=REPO, check=True)
    try:
        before = (G / 'CScalar.lean').read_text()
        out = cscalar.generate(REPO, G)
        changed = sorted(k for k in out['_names'] if cscalar._stale_block(before, k) != cscalar._stale_block((G / 'CScalar.lean').read_text(), k))
        b = subprocess.run(['lake', 'build', 'Mahotas.Proofs.CScalarTies'], cwd=VERIF / 'lean', stdout=subprocess.PIPE, stderr=subprocess.STDOUT, text=True)
        errs = sorted({l.split('Proofs/CScalarTies/')[1].split('.lean')[0] for l in b.stdout.splitlines() if 'error:' in l and 'Proofs/CScalarTies/' in l})
        import random, collections, importlib, os
        os.environ['MAHOTAS_REPO'] = str(REPO)
        from harness.foundation import cscalar as F
        F._LIB.clear(); F._SRCS = None; F._CURRENT = None
        subprocess.run(['lake', 'build', 'driver'], cwd=VERIF / 'lean', stdout=subprocess.DEVNULL, stderr=subprocess.DEVNULL)
        cs = F.cases(random.Random(1), 'quick')
        res = F.evaluate(cs)
        diff = collections.Counter(f['key'] for r in res for f in r['findings'])
        first = [str(f['detail'])[:300] for r in res for f in r['findings']][:1]
        print(f'{d.name}: translator_failed={list(out["_failed"])} blocks_changed={changed} ties_broken={errs} differential={dict(diff)} {first}')
    finally:
        subprocess.run(['git', 'checkout', '-q', '--', '.'], cwd=REPO, check=True)
        cscalar.generate(REPO, G)
subprocess.run(['lake', 'build', 'Mahotas.Proofs.CScalarTies', 'driver'], cwd=VERIF / 'lean', stdout=subprocess.DEVNULL, stderr=subprocess.DEVNULL)
