"""apply each benign / seeded patch to $W/repo, re-run the translator, rebuild every tie; restore. Lean level only."""
import subprocess, sys
from pathlib import Path
import os
VERIF = Path(__file__).resolve().parent.parent
if not os.environ.get('MAHOTAS_REPO') or Path(os.environ['MAHOTAS_REPO']).resolve() == Path('/repo'):
    sys.exit('set MAHOTAS_REPO to a scratch worktree of /repo: this tool edits the tree and restores it with `git checkout`')
REPO = Path(os.environ['MAHOTAS_REPO'])
if subprocess.run(['git', 'status', '--short'], cwd=REPO, stdout=subprocess.PIPE, text=True).stdout.strip():
    sys.exit(f'{REPO} has uncommitted changes')
sys.path.insert(0, str(VERIF))
from translator import cscalar
G = VERIF / 'lean' / 'Mahotas' / 'Generated'
FILES = ('_filters.h', '_morph.cpp', 'array.hpp', '_convex.cpp', '_surf.cpp', '_lbp.cpp')
kind = sys.argv[1]
for d in sorted((VERIF / kind).iterdir()):
    pf = d / 'patch.diff'
    if not pf.exists() or not any(f in pf.read_text() for f in FILES):
        continue
    r = subprocess.run(['git', 'apply', '--check', str(pf)], cwd=REPO, stdout=subprocess.PIPE, stderr=subprocess.STDOUT, text=True)
    if r.returncode != 0:
        print(f'{d.name}: patch does not apply to this tree ({r.stdout.strip().splitlines()[0][:80]})'); continue
    subprocess.run(['git', 'apply', str(pf)], cwd=REPO, check=True)
    try:
        before = (G / 'CScalar.lean').read_text()
        out = cscalar.generate(REPO, G)
        changed = sorted(k for k in out['_names'] if cscalar._stale_block(before, k) != cscalar._stale_block((G / 'CScalar.lean').read_text(), k))
        b = subprocess.run(['lake', 'build', 'Mahotas.Proofs.CScalarTies'], cwd=VERIF / 'lean', stdout=subprocess.PIPE, stderr=subprocess.STDOUT, text=True)
        errs = sorted({l.split('Proofs/CScalarTies/')[1].split('.lean')[0] for l in b.stdout.splitlines() if 'error:' in l and 'Proofs/CScalarTies/' in l})
        # the differential runs compiled C++ text: in a child process, so that a crash of that text (a seeded division by zero)
        # cannot keep this script from restoring the tree
        import random, collections, json
        rfd, wfd = os.pipe()
        pid = os.fork()
        if pid == 0:
            try:
                from harness.foundation import cscalar as F
                subprocess.run(['lake', 'build', 'driver'], cwd=VERIF / 'lean', stdout=subprocess.DEVNULL, stderr=subprocess.DEVNULL)
                cs = F.cases(random.Random(1), 'quick')
                res = F.evaluate(cs)
                msg = dict(diff=dict(collections.Counter(f['key'] for r in res for f in r['findings'])),
                           first=[str(f['detail'])[:300] for r in res for f in r['findings']][:1])
                os.write(wfd, json.dumps(msg).encode())
            finally:
                os._exit(0)
        os.close(wfd)
        blob = b''
        while True:
            b_ = os.read(rfd, 65536)
            if not b_:
                break
            blob += b_
        _, status = os.waitpid(pid, 0)
        msg = json.loads(blob) if blob else dict(diff={'<the compiled text crashed>': status}, first=[])
        diff, first = msg['diff'], msg['first']
        print(f'{d.name}: translator_failed={list(out["_failed"])} blocks_changed={changed} ties_broken={errs} differential={diff} {first}')
    finally:
        subprocess.run(['git', 'checkout', '-q', '--', '.'], cwd=REPO, check=True)
        cscalar.generate(REPO, G)
subprocess.run(['lake', 'build', 'Mahotas.Proofs.CScalarTies', 'driver'], cwd=VERIF / 'lean', stdout=subprocess.DEVNULL, stderr=subprocess.DEVNULL)
