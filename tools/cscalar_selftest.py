"""Self-test of the C-subset front end of translator/cscalar.py on synthetic snippets: constructs outside the subset must
raise TranslationError (never be skipped silently), constructs inside it must translate. Run: /venv/bin/python tools/cscalar_selftest.py"""
import sys, tempfile
from pathlib import Path
sys.path.insert(0, str(Path(__file__).resolve().parent.parent))
from translator import cscalar as C
from translator.tables import TranslationError


def translate(src: str, tg: dict) -> str:
    with tempfile.TemporaryDirectory(dir='/var/tmp') as d:
        (Path(d) / 'f.cpp').write_text(src)
        tg = dict(dict(key='f', file='f.cpp', func='f', pick='plain', lean='f', ret_kind='int'), **tg)
        return '\n'.join(C.translate_target(Path(d), tg, {})['lines'])


INT2 = dict(params=[('a', 'int'), ('b', 'int')])
T2 = dict(params=[('a', 'T'), ('b', 'T')], ret_kind='T', tparams=['T'], pick='generic')
REJECT = [
    ('fall-through between case groups', 'int f(int a, int b) { switch (a) { case 0: b = 1; case 1: return b; } return 0; }', INT2),
    ('while loop', 'int f(int a, int b) { while (a < b) ++a; return a; }', INT2),
    ('goto', 'int f(int a, int b) { goto out; out: return a; }', INT2),
    ('return inside a loop', 'int f(int a, int b) { for (int i = 0; i != b; ++i) { if (i == a) return i; } return 0; }', INT2),
    ('loop body assigns its bound', 'int f(int a, int b) { for (int i = 0; i < b; ++i) { b -= 1; a += 1; } return a; }', INT2),
    ('loop body assigns its index', 'int f(int a, int b) { for (int i = 0; i < b; ++i) { i += 1; a += 1; } return a; }', INT2),
    ('loop step i += 2', 'int f(int a, int b) { for (int i = 0; i < b; i += 2) { a += 1; } return a; }', INT2),
    ('unsigned literal', 'int f(int a, int b) { return a + 1u; }', INT2),
    ('unsigned declaration', 'int f(int a, int b) { unsigned c = a; return c; }', INT2),
    ('floating-point literal', 'int f(int a, int b) { return a * 0.5; }', INT2),
    ('declaration without initialiser', 'int f(int a, int b) { int c; c = a; return c; }', INT2),
    ('shadowing declaration in an inner block', 'int f(int a, int b) { if (a < b) { int a = b; b = a; } return b; }', INT2),
    ('unknown identifier', 'int f(int a, int b) { return a + c; }', INT2),
    ('call of an unknown function', 'int f(int a, int b) { return g(a, b); }', INT2),
    ('assignment inside an expression', 'int f(int a, int b) { return (a = b) + 1; }', INT2),
    ('post-increment inside an expression', 'int f(int a, int b) { return a++ + b; }', INT2),
    ('array write that is not configured', 'int f(int a, int b) { int c = a; p[c] = b; return c; }', INT2),
    ('control reaches the end without return', 'int f(int a, int b) { if (a < b) return a; }', INT2),
    ('comparison of an unreduced T result (promotion visible)', 'template <typename T> T f(T a, T b) { if (a - b > a) return a; return b; }', T2),
    ('mixed T / index arithmetic', 'template <typename T> T f(T a, T b) { int n = 3; const T r = a + n; return r; }', T2),
    ('T compared with a literal other than 0/1', 'template <typename T> T f(T a, T b) { if (a > 5) return a; return b; }', T2),
    ('division in T', 'template <typename T> T f(T a, T b) { const T r = a / b; return r; }', T2),
    ('parameter count changed', 'int f(int a) { return a; }', INT2),
    ('renamed parameter clashes with a local of the old name', 'int f(int a, int c) { int b = a; return b + c; }', INT2),
    ('recursive helper', 'int g(int x) { return g(x); }\nint f(int a, int b) { return g(a); }', INT2),
    ('template helper', 'template <typename U> U g(U x) { return x; }\nint f(int a, int b) { return g(a); }', INT2),
    ('parameter type changed', 'int f(int a, double b) { return a; }', INT2),
    ('two definitions of the function', 'int f(int a, int b) { return a; }\nint f(int a, int b) { return b; }', INT2),
    ('bit operation on an index', 'int f(int a, int b) { return a & b; }', INT2),
    ('goto to a label that is not at the end of a block', 'int f(int a, int b) { for (int i = 0; i < a; ++i) { if (i == b) goto out; b += 1; } out: b += 2; return b; }', INT2),
    ('continue outside a for loop', 'int f(int a, int b) { if (a < b) continue; return a; }', INT2),
    ('general while loop without fuel configured', 'int f(int a, int b) { while (a != b) a = a + 1; return a; }', INT2),
    ('loop condition without a simple bound on the index', 'int f(int a, int b) { int s = 0; for (int i = 0; i * i < a && s < b; ++i) s += i; return s; }', INT2),
    ('floating literal in an integer function', 'int f(int a, int b) { double c = 0.5; return a; }', INT2),
    ('<= on floating values without a configured order', 'double f(double y, int n) { if (y <= 1.0) return y; return y * n; }', dict(params=[('y', 'F'), ('n', 'int')], ret_kind='F', float=['double'], raw_params=True, c_param_names=['y', 'n'])),
    ('state-passing call nested in an expression', 'template<typename It> int g(It d, int i) { while (d[i] != i) i = d[i]; return i; }\ntemplate<typename It> int f(It d, int i) { return g(d, i) + 1; }',
     dict(params=[('d', 'arr'), ('i', 'int')], raw_params=True, c_param_names=['d', 'i'], pick='generic', tparams=['It'], arr_state='d', while_fuel=True)),
]
ACCEPT = [
    ('if/else chains, ternary, compound assignment, cast', 'int f(int a, int b) { int c = (int)(a / b); if (c < 0) c = -c; else if (c == 0) { c += b; } c *= 2; return c > 3 ? c : b; }', INT2,
     ['Int.tdiv a b', 'let c : Int']),
    ('switch with break and default', 'int f(int a, int b) { switch (a) { case 0: b = 1; break; case 1: case 2: return 7; default: b = 2; break; } return b; }', INT2,
     ['a = 1 ∨ a = 2']),
    ('ascending and descending loops', 'int f(int a, int b) { int s = 0; for (int i = 0; i < a; ++i) { s += i; } for (int j = b - 1; j >= 0; --j) s -= j; return s; }', INT2,
     ['List.range', 'foldl']),
    ('T arithmetic under a store, limits', 'template <typename T> T f(T a, T b) { if (b == std::numeric_limits<T>::min()) return std::numeric_limits<T>::max(); const T r = a - b; return r; }', T2,
     ['dt.wrap', 'dt.lo', 'dt.hi']),
    ('parameters renamed (bound by position), helper of the same file as a local function, file-scope constant',
     'const int LIMIT = 7;\nnamespace detail { inline int twice(int v) { return 2 * v; } }\nint f(int x, int y) { if (x > LIMIT) return detail::twice(y); return x; }', INT2,
     ['let twice := fun (v : Int) =>', '(a > 7)', 'twice b']),
    ('compound loop condition (alive flag), goto to the end of the loop body, continue',
     'int f(int a, int b) { int s = 0; for (int i = 0; i < a && i + b <= a; ++i) { for (int j = 0; j != b; ++j) { if (j == i) goto next; if (j > 3) continue; s += j; } s += 100; next: ; } return s; }', INT2,
     ['go_i = true ∧', 'brk_next', 'brk_continue_j']),
    ('floating arithmetic, polymorphic in the scalar type', 'double f(double y, int n) { double z = 1.5 - y; if (y < 0.25) { z *= z; } return z * y / 6.0 + n; }',
     dict(params=[('y', 'F'), ('n', 'int')], ret_kind='F', float=['double'], raw_params=True, c_param_names=['y', 'n']),
     ['{α : Type}', '(((3 : Nat) : α) / ((2 : Nat) : α))', '((n : Int) : α)', '((6 : Nat) : α)']),
    ('array state, while loop with fuel', 'template<typename It> int f(It d, int i) { while (d[i] != i) { const int p = d[i]; d[i] = d[p]; i = p; } return i; }',
     dict(params=[('d', 'arr'), ('i', 'int')], raw_params=True, c_param_names=['d', 'i'], pick='generic', tparams=['It'], arr_state='d', while_fuel=True),
     ['whileFuel fuel', 'setIfInBounds', '(fuel : Nat)', 'Array Int × Int']),
    ('assert is ignored and recorded', 'int f(int a, int b) { assert(a < b); return std::max(a, b) + std::min<int>(a, b); }', INT2,
     ['ignored `assert`s', 'max a b']),
]


def main() -> int:
    bad = 0
    for what, src, tg in REJECT:
        try:
            out = translate(src, tg)
            print(f'FAIL (accepted): {what}\n{out}')
            bad += 1
        except TranslationError as e:
            print(f'ok   rejected: {what}: {str(e)[:110]}')
    for what, src, tg, needles in ACCEPT:
        try:
            out = translate(src, tg)
            miss = [n for n in needles if n not in out]
            if miss:
                print(f'FAIL (missing {miss}): {what}\n{out}')
                bad += 1
            else:
                print(f'ok   translated: {what}')
        except TranslationError as e:
            print(f'FAIL (rejected): {what}: {e}')
            bad += 1
    print('self-test:', 'FAILED' if bad else 'passed', f'({len(REJECT)} rejections, {len(ACCEPT)} translations)')
    return 1 if bad else 0


if __name__ == '__main__':
    sys.exit(main())
