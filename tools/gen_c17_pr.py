"""generate Lean proofs of row-wise perfect reconstruction for n-tap filters with symbolic coefficients"""
import sys

def gen(n):
    p = n // 2
    cs = [f'c{i}' for i in range(n)]
    csl = '[' + ', '.join(cs) + ']'
    cargs = ' '.join(cs)
    und = ' '.join('_' for _ in cs)
    L = []
    A = L.append
    rng = '[' + ', '.join(str(i) for i in range(n)) + ']'
    A(f'/-! ### {n} taps -/\n')
    A(f'theorem range{n} : List.range {n} = {rng} := rfl\n')
    # low
    low = ' + '.join(f'{cs[n-1-j]} * ext N f (2 * m + {j})' if j else f'{cs[n-1]} * ext N f (2 * m)' for j in range(n))
    A(f'theorem wavelet{n}_low ({cargs} : K) (N : Nat) (f : Nat → K) (m : Nat) (hm : m < N / 2) :\n'
      f'    waveletRow {csl} N f m\n      = {low} := by\n'
      f'  simp [waveletRow, hm, range{n}, ext]\n  try ring\n')
    hi_terms = []
    for j in range(n):
        pos = f'ext N f (2 * m + {j})' if j else 'ext N f (2 * m)'
        hi_terms.append((f'-{cs[j]}' if j % 2 == 0 else cs[j]) + ' * ' + pos)
    high = ' + '.join(hi_terms)
    A(f'theorem wavelet{n}_high ({cargs} : K) (N : Nat) (f : Nat → K) (m : Nat) (hm : m < N / 2) :\n'
      f'    waveletRow {csl} N f (N / 2 + m)\n      = {high} := by\n'
      f'  have h1 : ¬ (N / 2 + m < N / 2) := by omega\n'
      f'  have h2 : N / 2 + m < 2 * (N / 2) := by omega\n'
      f'  have h3 : N / 2 + m - N / 2 = m := by omega\n'
      f'  simp [waveletRow, h1, h2, h3, range{n}, ext]\n  try ring\n')
    # synthesis; x = 2*u + (n-1) (odd, taps even) or x = 2*u + (n-2) (even, taps odd)
    for par, xoff in (('odd', n - 1), ('even', n - 2)):
        taps = [ci for ci in range(n) if (xoff + ci) % 2 == 1]
        assert len(taps) == p
        lterms = ' + '.join(f'{cs[ci]} * g (u + {a})' if a else f'{cs[ci]} * g u' for a, ci in enumerate(taps))
        hterms = ' + '.join(((f'{cs[n-1-ci]}' if ci % 2 == 0 else f'-{cs[n-1-ci]}') + (f' * g (N / 2 + (u + {a}))' if a else ' * g (N / 2 + u)'))
                            for a, ci in enumerate(taps))
        xs = f'2 * u + {xoff}' if xoff else '2 * u'
        A(f'theorem iwavelet{n}_{par} ({cargs} : K) (N : Nat) (hN : N % 2 = 0) (g : Nat → K) (u : Nat) (hx : {xs} < N) :\n'
          f'    iwaveletRow {csl} N g ({xs})\n      = (({lterms}) + ({hterms})) / 2 := by')
        for a in range(p):
            A(f'  have b{a} : u + {a} < N / 2 := by omega')
        A(f'  have b0\' : u < N / 2 := by omega')
        for ci in range(n):
            if ci in taps:
                A(f'  have p{ci} : (((({xs} + {ci} : Nat) : Int) - (({n} : Nat) : Int) + 2) % 2 ≠ 0) :=\n'
                  f'    (tapOdd u {xoff} {ci} {n}).mpr (by decide)')
            else:
                A(f'  have p{ci} : ¬ (((({xs} + {ci} : Nat) : Int) - (({n} : Nat) : Int) + 2) % 2 ≠ 0) :=\n'
                  f'    fun hh => absurd ((tapOdd u {xoff} {ci} {n}).mp hh) (by decide)')
        for a, ci in enumerate(taps):
            A(f'  have m{ci} : (((({xs} + {ci} : Nat) : Int) - (({n} : Nat) : Int) + 2)).tdiv 2 = ((u + {a} : Nat) : Int) :=\n'
              f'    tapMap u {xoff} {ci} {n} {a} (by decide)')
        A(f'  have hl : {csl}.length = {n} := rfl')
        A(f'  have hf : (List.range {n}).filter\n'
          f'      (fun ci => decide (((({xs} + ci : Nat) : Int) - (({n} : Nat) : Int) + 2) % 2 ≠ 0)) = '
          f'[{", ".join(map(str, taps))}] := by\n'
          f'    rw [range{n}]\n'
          f'    simp only [List.filter_cons, List.filter_nil, decide_eq_true_eq]\n'
          f'    rw [' + ', '.join((f'if_pos p{ci}' if ci in taps else f'if_neg p{ci}') for ci in range(n)) + ']')
        A(f'  simp only [iwaveletRow, hl, hf, List.foldl_cons, List.foldl_nil, '
          + ', '.join(f'm{ci}' for ci in taps) + ', access_natCast, '
          + ', '.join(f'b{a}' for a in range(p)) + ', if_true]')
        A('  simp\n  try ring\n')
    # QMF hypotheses
    def qmf(s):
        terms = ' + '.join(f'{cs[k]} * {cs[k + 2 * s]}' for k in range(n - 2 * s))
        return f'{terms} = {2 if s == 0 else 0}'
    hyps = ' '.join(f'(q{s} : {qmf(s)})' for s in range(p))
    A(f'/-- perfect reconstruction of a row by `iwavelet` after `wavelet`, {n} taps with the quadrature-mirror '
      f'identities, at every position `x ≥ {n}-2` -/')
    A(f'theorem pr_row{n} (h2 : (2 : K) ≠ 0) ({cargs} : K)\n    {hyps}\n'
      f'    (N : Nat) (hN : N % 2 = 0) (f : Nat → K) (x : Nat) (hx : {n} ≤ x + 2) (hxN : x < N) :\n'
      f'    iwaveletRow {csl} N (waveletRow {csl} N f) x = f x := by')
    A('  have hfx : f x = ext N f x := by simp [ext, access_natCast, hxN]')
    A('  rcases Nat.even_or_odd\' x with ⟨t, rfl | rfl⟩')
    for par, xoff in (('even', n - 2), ('odd', n - 1)):
        taps = [ci for ci in range(n) if (xoff + ci) % 2 == 1]
        toff = (n - 2) // 2
        xs = f'2 * u + {xoff}' if xoff else '2 * u'
        A(f'  · obtain ⟨u, rfl⟩ : ∃ u, t = u + {toff} := ⟨t - {toff}, by omega⟩')
        told = f'2 * (u + {toff})' + (' + 1' if par == 'odd' else '')
        A(f'    have ex : {told} = {xs} := by ring')
        A(f'    rw [ex] at hfx hxN ⊢')
        A(f'    rw [iwavelet{n}_{par} {cargs} N hN _ u hxN]')
        rws = []
        for a in range(p):
            m = f'(u + {a})' if a else 'u'
            rws.append(f'wavelet{n}_low {und} N f {m} (by omega)')
        for a in range(p):
            m = f'(u + {a})' if a else 'u'
            rws.append(f'wavelet{n}_high {und} N f {m} (by omega)')
        A('    rw [' + ',\n      '.join(rws) + ', hfx]')
        A('    simp only [Nat.mul_add, Nat.add_assoc, Nat.reduceMul, Nat.reduceAdd]')
        A('    rw [div_eq_iff h2]')
        r = 0 if par == 'odd' else 1
        comb = []
        for q in range(0, 2 * n - 2):
            D = n - 1 - r - q
            if D % 2 == 0 and abs(D) // 2 < p:
                pos = f'ext N f (2 * u + {q})' if q else 'ext N f (2 * u)'
                comb.append(f'{pos} * q{abs(D) // 2}')
        A('    linear_combination ' + ' + '.join(comb))
    A('')
    # glue: any list of this length with the generic QMF predicate
    A(f'theorem pr_list{n} (h2 : (2 : K) ≠ 0) (cs : List K) (hl : cs.length = {n}) (hq : qmfExact cs)\n'
      f'    (N : Nat) (hN : N % 2 = 0) (f : Nat → K) (x : Nat) (hx : {n} ≤ x + 2) (hxN : x < N) :\n'
      f'    iwaveletRow cs N (waveletRow cs N f) x = f x := by')
    A(f'  match cs, hl, hq with')
    A(f'  | {csl}, _, hq =>')
    A(f'    refine pr_row{n} h2 {cargs} ' + ' '.join('?_' for _ in range(p)) + ' N hN f x hx hxN')
    for s_ in range(p):
        A(f'    · have := hq {s_} (by simp)')
        A(f'      simp [List.range_succ] at this')
        A(f'      linear_combination this')
    A('')
    return '\n'.join(L)

if __name__ == '__main__':
    ns = [int(a) for a in sys.argv[1:]]
    out = ['/-', 'C17 — GENERATED by tools/gen_c17_pr.py (python3 tools/gen_c17_pr.py 4 6 8 10 12 14 16 18 20): row-wise perfect reconstruction of',
           '`iwaveletRow ∘ waveletRow` for filters with 2 … 20 symbolic taps satisfying the quadrature-mirror identities.', '-/',
           'import Mahotas.Proofs.C17', 'import Mathlib.Tactic.LinearCombination', 'namespace Mahotas.C17', 'open Mahotas', '',
           'variable {K : Type} [Field K]', '',
           '/-- the zero-extended row -/',
           'def ext (N : Nat) (f : Nat → K) (p : Nat) : K := access N f ((p : Nat) : Int)', '',
           '/-- the quadrature-mirror (double-shift orthogonality) identities, exactly: `Σ_k c_k c_{k+2s} = 2·δ_s` -/',
           'def qmfExact (cs : List K) : Prop :=',
           '  ∀ s, s < cs.length / 2 →',
           '    ((List.range (cs.length - 2 * s)).map fun k => cs.getD k 0 * cs.getD (k + 2 * s) 0).sum = if s = 0 then 2 else 0', '',
           '/-- which taps of `iwavelet` are used at position `2u + a` (`b` = tap index, `n` = number of taps) -/',
           'theorem tapOdd (u a b n : Nat) :',
           '    ((((2 * u + a + b : Nat) : Int) - ((n : Nat) : Int) + 2) % 2 ≠ 0) ↔ (a + b + n) % 2 = 1 := by omega', '',
           '/-- and which low/high sample they read (no truncation towards zero happens for `x ≥ n − 2`) -/',
           'theorem tapMap (u a b n k : Nat) (h : a + b + 2 = n + 2 * k + 1) :',
           '    ((((2 * u + a + b : Nat) : Int) - ((n : Nat) : Int) + 2)).tdiv 2 = ((u + k : Nat) : Int) := by',
           '  rw [Int.tdiv_eq_ediv_of_nonneg (by omega)]; omega', '']
    for n in ns:
        out.append(gen(n))
    # dispatcher over the lengths
    out.append('/-- the lengths of the Daubechies filters `D4 … D20` -/')
    out.append('def prLengths : List Nat := [' + ', '.join(map(str, ns)) + ']')
    out.append('')
    out.append('/-- row-wise perfect reconstruction for every filter length in `prLengths` -/')
    out.append('theorem pr_list (h2 : (2 : K) ≠ 0) (cs : List K) (hl : cs.length ∈ prLengths) (hq : qmfExact cs)')
    out.append('    (N : Nat) (hN : N % 2 = 0) (f : Nat → K) (x : Nat) (hx : cs.length ≤ x + 2) (hxN : x < N) :')
    out.append('    iwaveletRow cs N (waveletRow cs N f) x = f x := by')
    out.append('  simp only [prLengths, List.mem_cons, List.not_mem_nil, or_false] at hl')
    out.append('  rcases hl with ' + ' | '.join('hl' for _ in ns))
    for n in ns:
        out.append(f'  · exact pr_list{n} h2 cs hl hq N hN f x (by omega) hxN')
    out.append('')
    out.append('end Mahotas.C17')
    print('\n'.join(out))
