#!/usr/bin/env python3
"""Regenerates MANIFEST.json from the table below (kept in one place so it stays valid)."""
import json, subprocess
from pathlib import Path
V = Path(__file__).resolve().parent.parent

def load_checks():
    out = {}
    for f in sorted((V / 'harness' / 'props' / 'meta').glob('C*.json')):
        d = json.loads(f.read_text())
        out[f.stem] = (d['category'], d['technique'], d['text'], d['note'], d.get('design_ref', 'DESIGN.md section 5 ' + f.stem))
    return out

CHECKS = load_checks()
PENDING = json.loads((V / 'harness' / 'props' / 'meta' / 'not_applicable.json').read_text()) if (V / 'harness' / 'props' / 'meta' / 'not_applicable.json').exists() else {}

def main():
    props = [json.loads(l) for l in (V / 'properties.jsonl').read_text().splitlines() if l.strip()]
    fixes = subprocess.run(['git', '-C', '/repo', 'log', '--format=%h %s', 'eba297e..HEAD'], capture_output=True, text=True).stdout
    hooks = [l.split()[0] for l in fixes.splitlines() if l.split(' ', 1)[1].startswith('verif-hook')]
    m = dict(version=1,
             setup_cmd='./setup.sh',
             hooks=dict(guard='MAHOTAS_VERIF', enable='MAHOTAS_VERIF=1 in the environment of the harness (hooks are compiled in and inert otherwise)',
                        baseline_off_cmd='cd /repo && /venv/bin/python setup.py build_ext --inplace -j16 >/dev/null 2>&1; env -u MAHOTAS_VERIF /venv/bin/python -m pytest -ra -q -p no:cacheprovider --timeout=900 --continue-on-collection-errors',
                        source_commits=hooks, add_only=True),
             engines=[dict(name='lean4+correspondence', path='lean/ harness/ translator/',
                           serves_properties=sorted(CHECKS), kind_free_text='Lean 4 proofs about executable models; translator-generated tables; differential correspondence with the rebuilt implementation through a native Lean driver')],
             checks=[], not_applicable=[],
             notes='See DESIGN.md. ./check <id> --tier quick|thorough; exit 0 held, 1 violation, 2 infrastructure.')
    for p in props:
        pid = p['id']
        if pid in CHECKS:
            cat, tech, text, note, ref = CHECKS[pid]
            m['checks'].append(dict(property_id=pid, quick_cmd=f'./check {pid} --tier quick',
                                    thorough_cmd=f'./check {pid} --tier thorough',
                                    evidence_file=f'evidence/{pid}.json',
                                    replay_cmd_template=f'./check {pid} --replay {{path}}',
                                    engine='lean4+correspondence',
                                    level_claimed=dict(category=cat, text=text, design_ref=ref),
                                    level_note=note, technique=tech))
        else:
            m['not_applicable'].append(dict(property_id=pid, reason=PENDING.get(pid, 'check not built yet at this commit (work in progress; see DESIGN.md section 5 for the plan)')))
    (V / 'MANIFEST.json').write_text(json.dumps(m, indent=1) + '\n')

main()
