#!/usr/bin/env python3
"""After cherry-picking fix commits from agent branches into /repo main the hashes change:
rewrite the `commit` fields (and the hash inside `what`) of known_findings*.json to the hash on main."""
import json, subprocess, sys
from pathlib import Path
V = Path(__file__).resolve().parent.parent

def git(*a):
    return subprocess.run(['git', '-C', '/repo'] + list(a), capture_output=True, text=True).stdout.strip()

main = {}
for line in git('log', '--format=%h\t%s', 'eba297e..HEAD').splitlines():
    h, s = line.split('\t', 1)
    main[s] = h
on_main = set(main.values())
files = [V / 'known_findings.json'] + sorted((V / 'known_findings.d').glob('*.json'))
for f in files:
    d = json.loads(f.read_text())
    ch = False
    for e in d.get('findings', []):
        c = e.get('commit')
        if not c:
            continue
        if any(m.startswith(c[:7]) or c.startswith(m) for m in on_main):
            continue
        subj = git('log', '-1', '--format=%s', c)
        if subj in main:
            new = main[subj]
            e['what'] = e['what'].replace(c, new).replace(c[:7], new)
            e['commit'] = new
            ch = True
        else:
            print('unmapped:', f.name, c, subj)
    if ch:
        f.write_text(json.dumps(d, indent=1) + '\n')
        print('updated', f.name)
