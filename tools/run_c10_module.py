"""Run the cases of ONE round-4 C10 harness module (harness/props/c10_<name>.py) without a whole `./check`:
`lake build driver`, stage the plain (and, with --asan, the ASan) build of $MAHOTAS_REPO, generate the module's
`model_cases` / `real_cases` from the seed, evaluate them in-process exactly as `c10.evaluate` would, print the findings.

usage (from the verif tree):  MAHOTAS_REPO=... /venv/bin/python tools/run_c10_module.py flood [--seed 0] [--n 300] [--nreal 100] [--asan] [--c11]
exit status 0 = no finding, 1 = findings, 2 = infrastructure
"""
import argparse, importlib, json, random, subprocess, sys
from pathlib import Path

V = Path(__file__).resolve().parents[1]
sys.path.insert(0, str(V))


def main():
    ap = argparse.ArgumentParser()
    ap.add_argument('name')
    ap.add_argument('--seed', type=int, default=0)
    ap.add_argument('--n', type=int, default=300)
    ap.add_argument('--nreal', type=int, default=100)
    ap.add_argument('--asan', action='store_true')
    ap.add_argument('--nobuild', action='store_true')
    a = ap.parse_args()
    from harness import core
    if not a.nobuild:
        r = subprocess.run(['lake', 'build', 'driver'], cwd=V / 'lean', stdout=subprocess.PIPE, stderr=subprocess.STDOUT, text=True)
        if r.returncode != 0:
            print(r.stdout[-3000:])
            return 2
    src = core.stage_build()
    core.use_impl(src)
    from harness.props import c10
    c10.SRC['plain'] = src
    if a.asan:
        c10.SRC['asan'] = core.stage_build(asan=True)
    mod = importlib.import_module(f'harness.props.c10_{a.name}')
    rng = random.Random(a.seed * 1000003 + 17)
    cases = list(mod.model_cases(rng, a.n)) + list(mod.real_cases(rng, a.nreal))
    res = c10.evaluate(cases)
    nf, tags = 0, {}
    for c, r in zip(cases, res):
        t = r.get('tags', {})
        k = (t.get('kind'), t.get('which'), t.get('ok', t.get('outcome')), t.get('domain'))
        tags[k] = tags.get(k, 0) + 1
        for f in r['findings']:
            nf += 1
            if nf <= 8:
                print('FINDING', f['kind'], f['key'], json.dumps(f.get('detail'), default=str)[:1500])
    for k in sorted(tags, key=str):
        print(k, tags[k])
    print(f'{len(cases)} cases, {nf} findings, {sum(1 for r in res if r.get("nontrivial"))} non-trivial')
    return 1 if nf else 0


if __name__ == '__main__':
    sys.exit(main())
