#!/usr/bin/env python3
"""Run every registered check (quick tier) with several seeds on the unchanged tree; validate evidence.
usage: selftest.py [--seeds 0,1] [--only C01,C02] [--tier quick] [--jobs 3]"""
import json, os, subprocess, sys, time, concurrent.futures as cf
from pathlib import Path
V = Path(__file__).resolve().parent.parent


def arg(name, default):
    return sys.argv[sys.argv.index(name) + 1] if name in sys.argv else default


def run(check, seed, tier):
    evd = f'/var/tmp/selftest-ev/{check["property_id"]}-{seed}'
    env = dict(os.environ, VERIF_SEED=str(seed), VERIF_EVIDENCE_DIR=evd, VERIF_TIER=tier)
    cmd = check['quick_cmd'] if tier == 'quick' else check.get('thorough_cmd', check['quick_cmd'])
    t0 = time.time()
    r = subprocess.run(cmd, shell=True, cwd=V, env=env, stdout=subprocess.PIPE, stderr=subprocess.STDOUT, text=True)
    wall = time.time() - t0
    lines = [l for l in r.stdout.splitlines() if l.startswith(('VIOLATION', 'KNOWN-FINDING', 'INFRA'))]
    ev_ok = 'missing'
    p = Path(evd) / f'{check["property_id"]}.json'
    if p.exists():
        v = subprocess.run(['python3-vt', '-c', 'import json,jsonschema,sys; jsonschema.validate(json.load(open(sys.argv[1])), json.load(open("/root/.vp/EVIDENCE.schema.json")))', str(p)],
                           capture_output=True, text=True)
        ev_ok = 'valid' if v.returncode == 0 else 'INVALID: ' + v.stderr.strip().splitlines()[-1][:200]
    return check['property_id'], seed, r.returncode, round(wall, 1), ev_ok, lines, r.stdout[-1500:] if r.returncode not in (0,) else ''


def main():
    m = json.loads((V / 'MANIFEST.json').read_text())
    seeds = [int(s) for s in arg('--seeds', '0').split(',')]
    only = arg('--only', '')
    tier = arg('--tier', 'quick')
    jobs = int(arg('--jobs', '3'))
    checks = [c for c in m['checks'] if not only or c['property_id'] in only.split(',')]
    bad = 0
    with cf.ThreadPoolExecutor(jobs) as ex:
        futs = [ex.submit(run, c, s, tier) for c in checks for s in seeds]
        for f in cf.as_completed(futs):
            pid, seed, rc, wall, ev_ok, lines, tail = f.result()
            flag = 'ok ' if rc == 0 and ev_ok == 'valid' else 'BAD'
            if flag == 'BAD':
                bad += 1
            print(f'{flag} {pid} seed={seed} exit={rc} {wall}s evidence={ev_ok} {" | ".join(lines[:3])}', flush=True)
            if tail and rc == 2:
                print(tail)
    print('selftest:', 'all good' if not bad else f'{bad} problem(s)')
    sys.exit(1 if bad else 0)


main()
