#!/bin/bash
# usage: verify_batch.sh <jobs> <prop:dir:name[:checks]>...
jobs=$1; shift
printf '%s\n' "$@" | xargs -P "$jobs" -I{} bash -c 'IFS=: read p d n c <<< "{}"; if [ -n "$c" ]; then python3 /verif/tools/verify_mutant.py $p $d $n --checks $c; else python3 /verif/tools/verify_mutant.py $p $d $n; fi > /var/tmp/mv-$n.log 2>&1; tail -1 /var/tmp/mv-$n.log'
