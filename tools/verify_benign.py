#!/usr/bin/env python3
"""Run our checks against a behaviour-preserving change (they must stay quiet).

usage: verify_benign.py <dir with patch.diff[, notes.txt]> <name> [--checks C01,C02,...] [--tier quick]

In a scratch worktree of /repo (outside /repo and /verif): the patch applies, the tree builds, the pinned suite
passes; then every named check (default: all twenty) is run against the patched tree (MAHOTAS_REPO=<worktree>,
evidence to a scratch directory). Writes /verif/benign/<name>/{patch.diff,notes.txt,meta.json}; the worktree is removed."""
import json, os, re, shutil, subprocess, sys, time
from pathlib import Path
from concurrent.futures import ThreadPoolExecutor

V = Path(__file__).resolve().parent.parent
PY = '/venv/bin/python'
ALL = ['C%02d' % i for i in range(1, 21)]


def sh(cmd, cwd=None, env=None, timeout=7200):
    r = subprocess.run(cmd, cwd=cwd, env=env, shell=isinstance(cmd, str), stdout=subprocess.PIPE,
                       stderr=subprocess.STDOUT, text=True, timeout=timeout)
    return r.returncode, r.stdout


def main():
    src, name = Path(sys.argv[1]), sys.argv[2]
    checks, tier, jobs = ALL, 'quick', 4
    for i, a in enumerate(sys.argv):
        if a == '--checks':
            checks = sys.argv[i + 1].split(',')
        if a == '--tier':
            tier = sys.argv[i + 1]
        if a == '--jobs':
            jobs = int(sys.argv[i + 1])
    wt = Path(f'/var/tmp/mv/{name}')
    wt.parent.mkdir(parents=True, exist_ok=True)
    sh(['git', '-C', '/repo', 'worktree', 'remove', '--force', str(wt)])
    rc, out = sh(['git', '-C', '/repo', 'worktree', 'add', '--detach', str(wt)])
    assert rc == 0, out
    meta = dict(name=name, kind='behaviour-preserving', base=sh(['git', '-C', '/repo', 'rev-parse', 'HEAD'])[1].strip(),
                tier=tier, results={})
    ev = Path(f'/var/tmp/mv/ev-{name}')
    try:
        rc, out = sh(['git', 'apply', '--exclude=out/*', str((src / 'patch.diff').resolve())], cwd=wt)
        meta['patch_applies'] = (rc == 0)
        if rc != 0:
            meta['error'] = out[-800:]
            raise SystemExit
        rc, out = sh(f'{PY} setup.py build_ext --inplace --force -j8', cwd=wt)
        shutil.rmtree(wt / 'build', ignore_errors=True)
        meta['build'] = rc
        rc, out = sh(f'{PY} -m pytest -q -p no:cacheprovider --timeout=900 2>&1 | tail -3', cwd=wt)
        m = re.search(r'(\d+) passed', out)
        meta['suite_passed'] = int(m.group(1)) if m else None
        meta['suite_failed'] = bool(re.search(r'\d+ (failed|error)', out))
        ev.mkdir(parents=True, exist_ok=True)

        def one(cid):
            env = dict(os.environ, MAHOTAS_REPO=str(wt), VERIF_EVIDENCE_DIR=str(ev), VERIF_SEED='0', VERIF_NPROC='6')
            t = time.time()
            rc, out = sh([str(V / 'check'), cid, '--tier', tier], cwd=V, env=env)
            lines = [l for l in out.splitlines() if l.startswith(('VIOLATION', 'KNOWN-FINDING'))]
            detail = []
            for l in lines:
                mm = re.search(r'replay=(\S+)', l)
                if mm and Path(mm.group(1)).exists():
                    try:
                        d = json.loads(Path(mm.group(1)).read_text())
                        detail.append(dict(line=l, key=d.get('key'), broken=d.get('broken'),
                                           first=json.dumps(d.get('first_disagreement') or d.get('finding') or {}, default=str)[:1500]))
                    except Exception as e:  # noqa
                        detail.append(dict(line=l, err=str(e)))
            return cid, dict(exit=rc, wall=round(time.time() - t, 1), lines=lines, detail=detail, tail=out[-600:] if rc not in (0,) else '')
        with ThreadPoolExecutor(jobs) as ex:
            for cid, r in ex.map(one, checks):
                meta['results'][cid] = r
        meta['quiet'] = all(r['exit'] == 0 for r in meta['results'].values())
        meta['alarms'] = sorted(c for c, r in meta['results'].items() if r['exit'] != 0)
    except SystemExit:
        pass
    finally:
        sh(['git', '-C', '/repo', 'worktree', 'remove', '--force', str(wt)])
        shutil.rmtree(wt, ignore_errors=True)
        shutil.rmtree(ev, ignore_errors=True)
        sh(['git', '-C', '/repo', 'worktree', 'prune'])
    dst = V / 'benign' / name
    dst.mkdir(parents=True, exist_ok=True)
    shutil.copy(src / 'patch.diff', dst / 'patch.diff')
    if (src / 'notes.txt').exists():
        shutil.copy(src / 'notes.txt', dst / 'notes.txt')
    (dst / 'meta.json').write_text(json.dumps(meta, indent=1))
    print(json.dumps(dict(name=name, applies=meta.get('patch_applies'), suite=meta.get('suite_passed'), quiet=meta.get('quiet'),
                          alarms=meta.get('alarms'))))


main()
