#!/usr/bin/env python3
"""Confirm a seeded change and run our checks against it.

usage: verify_mutant.py <property-id> <dir with patch.diff, demo.py[, notes.txt]> <name> [--checks C01,C08] [--tier quick]

In a scratch worktree of /repo (outside /repo and /verif): demo passes unpatched; with the patch the tree still
builds, the pinned suite still passes and the demo fails; then ./check <id> is run against the patched tree
(MAHOTAS_REPO=<worktree>). Writes /verif/seeded/<name>/{patch.diff,demo.py,meta.json}. The worktree is removed."""
import json, os, re, shutil, subprocess, sys, time
from pathlib import Path

V = Path(__file__).resolve().parent.parent
PY = '/venv/bin/python'


def sh(cmd, cwd=None, env=None, timeout=3600):
    r = subprocess.run(cmd, cwd=cwd, env=env, shell=isinstance(cmd, str), stdout=subprocess.PIPE,
                       stderr=subprocess.STDOUT, text=True, timeout=timeout)
    return r.returncode, r.stdout


def build(wt):
    rc, out = sh(f'{PY} setup.py build_ext --inplace --force -j8', cwd=wt)
    shutil.rmtree(Path(wt) / 'build', ignore_errors=True)
    return rc, out[-1500:]


def main():
    pid, src, name = sys.argv[1], Path(sys.argv[2]), sys.argv[3]
    checks = [pid]
    tier = 'quick'
    for i, a in enumerate(sys.argv):
        if a == '--checks':
            checks = sys.argv[i + 1].split(',')
        if a == '--tier':
            tier = sys.argv[i + 1]
    wt = Path(f'/var/tmp/mv/{name}')
    wt.parent.mkdir(parents=True, exist_ok=True)
    sh(['git', '-C', '/repo', 'worktree', 'remove', '--force', str(wt)])
    rc, out = sh(['git', '-C', '/repo', 'worktree', 'add', '--detach', str(wt)])
    assert rc == 0, out
    meta = dict(property=pid, name=name, base=sh(['git', '-C', '/repo', 'rev-parse', 'HEAD'])[1].strip(), ran=[])
    try:
        # demos locate the tree as cwd, as ../.. of their own location, or through MAHOTAS_ROOT: satisfy all three
        (wt / 'out' / 'mx').mkdir(parents=True, exist_ok=True)
        demo = wt / 'out' / 'mx' / 'demo.py'
        shutil.copy(src / 'demo.py', demo)
        denv = dict(os.environ, MAHOTAS_ROOT=str(wt), PYTHONPATH=str(wt))
        rc, out = build(wt)
        meta['build_unpatched'] = rc
        rc0, out0 = sh([PY, str(demo)], cwd=wt, env=denv)
        meta['demo_unpatched_exit'] = rc0
        meta['ran'].append(f'demo.py on the unpatched tree: exit {rc0}')
        rc, out = sh(['git', 'apply', '--exclude=out/*', str((src / 'patch.diff').resolve())], cwd=wt)
        meta['patch_applies'] = (rc == 0)
        if rc != 0:
            meta['error'] = out[-800:]
            raise SystemExit
        rc, out = build(wt)
        meta['build_patched'] = rc
        rc, out = sh(f'{PY} -m pytest -q -p no:cacheprovider --timeout=900 2>&1 | tail -3', cwd=wt)
        m = re.search(r'(\d+) passed', out)
        f = re.search(r'(\d+) failed', out)
        meta['suite_passed'] = int(m.group(1)) if m else 0
        meta['suite_failed'] = int(f.group(1)) if f else 0
        meta['ran'].append(f'pinned suite with the patch: {out.strip().splitlines()[-1] if out.strip() else out}')
        rc1, out1 = sh([PY, str(demo)], cwd=wt, env=denv)
        meta['demo_patched_exit'] = rc1
        meta['demo_patched_output'] = out1[-600:]
        meta['ran'].append(f'demo.py with the patch: exit {rc1}')
        meta['confirmed'] = (rc0 == 0 and rc1 != 0 and meta['suite_passed'] >= 298 and meta['suite_failed'] == 0)
        meta['checks'] = {}
        for c in checks:
            env = dict(os.environ, MAHOTAS_REPO=str(wt), VERIF_EVIDENCE_DIR=f'/var/tmp/mv/evidence-{name}')
            t0 = time.time()
            rc, out = sh([str(V / 'check'), c, '--tier', tier], cwd=V, env=env)
            lines = [l for l in out.splitlines() if l.startswith(('VIOLATION', 'KNOWN-FINDING'))]
            meta['checks'][c] = dict(exit=rc, lines=lines[:6], wall_s=round(time.time() - t0, 1), tier=tier)
            if rc not in (0, 1):
                meta['checks'][c]['tail'] = out[-1500:]
            meta['ran'].append(f'MAHOTAS_REPO=<patched tree> ./check {c} --tier {tier}: exit {rc}')
        meta['detected_by'] = [c for c, r in meta['checks'].items() if r['exit'] == 1]
    except SystemExit:
        pass
    finally:
        sh(['git', '-C', '/repo', 'worktree', 'remove', '--force', str(wt)])
        shutil.rmtree(wt, ignore_errors=True)
        shutil.rmtree(f'/var/tmp/mv/evidence-{name}', ignore_errors=True)
        # the check regenerated lean/Mahotas/Generated from the patched tree: put back the text generated from /repo
        import fcntl
        with open(V / 'lean' / '.lake' / 'verif.lock', 'w') as lk:      # same lock as harness/core.py: no build is running
            fcntl.flock(lk, fcntl.LOCK_EX)
            sh(['git', '-C', str(V), 'checkout', '--', 'lean/Mahotas/Generated'])
    dst = V / 'seeded' / name
    dst.mkdir(parents=True, exist_ok=True)
    if meta.get('patch_applies') and not meta.get('confirmed') and (dst / 'meta.json').exists():
        # a re-verification against a later /repo on which the change no longer breaks the property (its demonstration passes
        # with the patch applied: a repair made since then absorbs it): keep the earlier record and say so
        old = json.loads((dst / 'meta.json').read_text())
        if old.get('confirmed'):
            old['note_reverify'] = (f"at /repo {meta['base'][:10]} the demonstration no longer fails with the patch applied (demo exit "
                                    f"{meta.get('demo_patched_exit')}, suite {meta.get('suite_passed')} passed): a later repair absorbs the change; "
                                    f"record kept from base {old.get('base', '?')[:10]}; checks on the later tree: "
                                    + ', '.join(f"{c} exit {r['exit']}" for c, r in (meta.get('checks') or {}).items()))
            (dst / 'meta.json').write_text(json.dumps(old, indent=1) + '\n')
            print(json.dumps(dict(name=name, kept_old_record=True, no_longer_a_violation=True, detected_by=old.get('detected_by'))))
            return
    if meta.get('patch_applies') is False and (dst / 'meta.json').exists():
        # a re-verification against a later /repo on which the patch no longer applies: keep the earlier record
        old = json.loads((dst / 'meta.json').read_text())
        if old.get('confirmed'):
            old['note_reverify'] = f"patch no longer applies to /repo at {meta['base'][:10]}; record kept from base {old.get('base', '?')[:10]}"
            (dst / 'meta.json').write_text(json.dumps(old, indent=1) + '\n')
            print(json.dumps(dict(name=name, kept_old_record=True, detected_by=old.get('detected_by'))))
            return
    for fn in ('patch.diff', 'demo.py', 'notes.txt'):
        if (src / fn).exists() and (src / fn).resolve() != (dst / fn).resolve():
            shutil.copy(src / fn, dst / fn)
    if (src / 'notes.txt').exists():
        meta['needs'] = (src / 'notes.txt').read_text()[:1500]
    (dst / 'meta.json').write_text(json.dumps(meta, indent=1) + '\n')
    print(json.dumps({k: meta.get(k) for k in ('name', 'confirmed', 'suite_passed', 'demo_unpatched_exit',
                                               'demo_patched_exit', 'detected_by')}))


main()
