"""C10 (round 4) — every place where the package obtains memory that is NOT initialised by the allocation itself.

The property says a native kernel "never forms its result from memory it did not initialise".  This module enumerates,
from the current sources, every allocation site whose memory starts out undefined:

  C++     `PyArray_SimpleNew`, `PyArray_EMPTY`, `PyArray_NewLikeArray`, `PyArray_New`, `PyArray_Empty`,
          `numpy::new_array<T>(…)`, `numpy::array_like(…)`, raw `new T[n]` / `new(std::nothrow) T[n]` / `operator new(n)` / `malloc`
          (`PyArray_ZEROS`, `PyArray_Zeros`, `calloc` and `std::vector<T> v(n)` initialise and are not listed);
  Python  `np.empty`, `np.empty_like`, `np.ndarray(shape…)` (calls, found with `ast`: text in docstrings does not count)
          and every call of `internal._get_output` (it returns `np.empty(array.shape, dtype)` when `out is None`).

Each site is `(file, enclosing function, variable it is stored in, kind)`.  `Generated.allocSiteTable` lists them;
`Properties/C10.lean` has a hand-written cover (site ↦ the theorems showing every cell is written before it is read or
returned) and `C10_alloc_sites_covered` decides that EVERY generated site is in the cover: a new uninitialised result
buffer without a covering theorem breaks the build.  Called from `translator/guards.py: generate` (output appended to
`Generated/Guards.lean`).
"""
from __future__ import annotations
import ast, re, warnings
from pathlib import Path


class TranslationError(Exception):
    pass


CPP_PATTERNS = [
    ('SimpleNew', r'\bPyArray_SimpleNew\s*\('),
    ('EMPTY', r'\bPyArray_EMPTY\s*\('),
    ('Empty', r'\bPyArray_Empty\s*\('),
    ('NewLikeArray', r'\bPyArray_NewLikeArray\s*\('),
    ('New', r'\bPyArray_New\s*\('),
    ('new_array', r'\bnew_array\s*<[^<>]*>\s*\('),
    ('array_like', r'\barray_like\s*\('),
    ('newArray', r'\bnew\s*(?:\(\s*std::nothrow\s*\)\s*)?[\w:]+(?:\s*<[^<>;]*>)?\s*\['),
    ('operatorNew', r'\boperator\s+new\s*\('),
    ('malloc', r'\b(?:malloc|realloc|alloca)\s*\('),
]
PY_ALLOC = {'empty': 'np.empty', 'empty_like': 'np.empty_like', 'ndarray': 'np.ndarray'}

# sites the theorems / the cover refer to: their disappearance means the cover (and the report) is stale -> broken tie
REQUIRED = [('_bbox.cpp', 'py_bbox'), ('_center_of_mass.cpp', 'py_center_of_mass'), ('_convex.cpp', 'convexhull'),
            ('_convolve.cpp', 'py_convolve'), ('_morph.cpp', 'py_close_holes'), ('internal.py', '_get_output'),
            ('convolve.py', 'find'), ('labeled.py', 'labeled_sum'), ('labeled.py', 'bbox'), ('thin.py', 'thin')]


def _strip_cpp_comments(src: str) -> str:
    src = re.sub(r'/\*.*?\*/', lambda m: re.sub(r'[^\n]', ' ', m.group(0)), src, flags=re.S)
    return re.sub(r'//[^\n]*', '', src)


def _match_brace(src: str, i: int) -> int:
    """index after the `}` matching the `{` at src[i]"""
    depth = 0
    for k in range(i, len(src)):
        c = src[k]
        if c == '{':
            depth += 1
        elif c == '}':
            depth -= 1
            if depth == 0:
                return k + 1
    raise TranslationError('unbalanced braces')


def _cpp_functions(src: str):
    """[(name, start, end)] of the function bodies (outermost definitions with a body; namespaces/structs are entered)"""
    out = []
    for m in re.finditer(r'\b([A-Za-z_]\w*)\s*\(([^;{}()]|\([^()]*\))*\)\s*(?:const\s*)?(?::[^{};]*)?\{', src):
        name = m.group(1)
        if name in ('if', 'for', 'while', 'switch', 'catch', 'return', 'sizeof', 'defined'):
            continue
        try:
            end = _match_brace(src, m.end() - 1)
        except TranslationError:
            continue
        out.append((name, m.end(), end))
    return out


def _enclosing(funcs, pos):
    best = None
    for name, a, b in funcs:
        if a <= pos < b and (best is None or a < best[1]):          # the OUTERMOST definition containing the position
            best = (name, a, b)
    return best[0] if best else '<file scope>'


def _cpp_target(src: str, pos: int) -> str:
    """the variable the allocation is stored in: `x = …alloc`, `T x = …`, `T x(… alloc …)`, `.push_back(alloc)`, `return alloc`"""
    start = max(src.rfind(';', 0, pos), src.rfind('{', 0, pos), src.rfind('}', 0, pos)) + 1
    stmt = src[start:pos]
    m = re.search(r'([A-Za-z_]\w*)\s*(?:\.push_back\s*\(|=(?!=))[^=]*$', stmt)
    if m:
        return m.group(1)
    if re.search(r'\breturn\b', stmt):
        return 'return'
    m = re.search(r'([A-Za-z_]\w*)\s*\([^()]*$', stmt)
    return m.group(1) if m else '?'


def extract_cpp(repo: Path):
    files = (sorted((repo / 'mahotas').glob('_*.cpp')) + sorted((repo / 'mahotas' / 'features').glob('_*.cpp'))
             + sorted((repo / 'mahotas').glob('*.h')) + sorted((repo / 'mahotas').glob('*.hpp'))
             + sorted((repo / 'mahotas' / 'numpypp').glob('*.hpp')))
    if not files:
        raise TranslationError('no C++ sources found')
    sites = []
    for p in files:
        src = _strip_cpp_comments(p.read_text())
        funcs = _cpp_functions(src)
        for kind, pat in CPP_PATTERNS:
            for m in re.finditer(pat, src):
                fn = _enclosing(funcs, m.start())
                if kind in ('array_like', 'new_array') and fn in ('array_like', 'new_array', '<file scope>'):
                    continue                                  # the helpers' own definitions / forwarding overloads
                if kind == 'newArray' and re.match(r'new\s+[\w:]+(?:\s*<[^<>;]*>)?\s*\[', m.group(0)) is None and 'nothrow' not in m.group(0):
                    continue
                sites.append((p.name, fn, _cpp_target(src, m.start()), kind))
    return sites


class _PyVisitor(ast.NodeVisitor):
    def __init__(self, rel):
        self.rel, self.stack, self.sites = rel, [], []

    def visit_FunctionDef(self, node):
        self.stack.append(node.name)
        self.generic_visit(node)
        self.stack.pop()

    visit_AsyncFunctionDef = visit_FunctionDef

    def _target(self, node):
        par = getattr(node, '_parent', None)
        while par is not None and not isinstance(par, (ast.Assign, ast.AnnAssign, ast.AugAssign, ast.Return, ast.Expr, ast.keyword)):
            par = getattr(par, '_parent', None)
        if isinstance(par, ast.Assign) and isinstance(par.targets[0], ast.Name):
            return par.targets[0].id
        if isinstance(par, ast.Assign) and isinstance(par.targets[0], ast.Tuple):
            return '_'.join(t.id for t in par.targets[0].elts if isinstance(t, ast.Name)) or '?'
        if isinstance(par, ast.Return):
            return 'return'
        if isinstance(par, ast.keyword):
            return str(par.arg)
        return '?'

    def visit_Call(self, node):
        f = node.func
        kind = None
        if isinstance(f, ast.Attribute) and f.attr in PY_ALLOC and isinstance(f.value, ast.Name) and f.value.id in ('np', 'numpy'):
            if f.attr != 'ndarray' or node.args:
                kind = PY_ALLOC[f.attr]
        elif (isinstance(f, ast.Name) and f.id == '_get_output') or (isinstance(f, ast.Attribute) and f.attr == '_get_output'):
            kind = 'get_output'
        if kind:
            self.sites.append((self.rel, self.stack[0] if self.stack else '<module>', self._target(node), kind))
        self.generic_visit(node)


def extract_py(repo: Path):
    sites = []
    pk = repo / 'mahotas'
    files = [p for p in sorted(pk.rglob('*.py')) if 'tests' not in p.parts and 'demos' not in p.parts]
    if not files:
        raise TranslationError('no Python sources found')
    for p in files:
        with warnings.catch_warnings():
            warnings.simplefilter('ignore', SyntaxWarning)
            tree = ast.parse(p.read_text())
        for n in ast.walk(tree):
            for c in ast.iter_child_nodes(n):
                c._parent = n
        v = _PyVisitor(str(p.relative_to(pk)))
        v.visit(tree)
        sites += v.sites
    return sites


def extract(repo: Path):
    sites = extract_cpp(repo) + extract_py(repo)
    have = {(f, fn) for f, fn, _, _ in sites}
    for r in REQUIRED:
        if r not in have:
            raise TranslationError(f'allocation site {r[0]}:{r[1]} no longer recognised')
    # stable order, duplicates (two sites of one kind stored in one variable of one function) numbered
    out, seen = [], {}
    for s in sites:
        k = seen.get(s, 0)
        seen[s] = k + 1
        out.append(s + (k,))
    return out


def _q(s: str) -> str:
    return '"' + s.replace('\\', '\\\\').replace('"', '\\"') + '"'


def lean_lines(sites) -> list[str]:
    lines = ['', '/-! ## allocation sites whose memory starts out uninitialised (translator/allocs.py) -/', '',
             '/-- (file, enclosing function, variable the buffer is stored in, kind, ordinal among equal rows) for every allocation of',
             '    uninitialised memory in the current sources: `PyArray_SimpleNew`/`EMPTY`/`new_array`/`array_like`/`new T[n]` in C++,',
             '    `np.empty`/`np.empty_like`/`np.ndarray(shape)` calls and calls of `_get_output` in Python -/',
             'def allocSiteTable : List (String × String × String × String × Nat) := [']
    lines.append(',\n'.join(f'  ({_q(f)}, {_q(fn)}, {_q(v)}, {_q(k)}, {n})' for f, fn, v, k, n in sites))
    lines.append(']')
    return lines


if __name__ == '__main__':
    import sys
    for s in extract(Path(sys.argv[1] if len(sys.argv) > 1 else '/repo')):
        print(s)
