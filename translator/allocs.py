"""C10 (round 4) — every place where the package obtains memory that is NOT initialised by the allocation itself.

The property says a native kernel "never forms its result from memory it did not initialise".  This module enumerates,
from the current sources, every allocation site whose memory starts out undefined:

  C++     `PyArray_SimpleNew`, `PyArray_EMPTY`, `PyArray_NewLikeArray`, `PyArray_New`, `PyArray_Empty`,
          `numpy::new_array<T>(…)`, `numpy::array_like(…)`, raw `new T[n]` / `new(std::nothrow) T[n]` / `operator new(n)` / `malloc`
          (`PyArray_ZEROS`, `PyArray_Zeros`, `calloc` and `std::vector<T> v(n)` initialise and are not listed);
  Python  `np.empty`, `np.empty_like`, `np.ndarray(shape…)` (calls, found with `ast`: text in docstrings does not count)
          and every call of `internal._get_output` (it returns `np.empty(array.shape, dtype)` when `out is None`).

Each site is `(file, enclosing function, variable it is stored in, kind)`.  `Generated.allocSiteTable` lists them;
`Properties/C10.lean` has a hand-written cover (site ↦ the theorems showing every cell is written before it is read or
returned) and `C10_alloc_sites_covered` decides that EVERY generated site is in the cover: a new uninitialised result
buffer without a covering theorem breaks the build.  Called from `translator/guards.py: generate` (output appended to
`Generated/Guards.lean`).
"""
from __future__ import annotations
import ast, re, warnings
from pathlib import Path


class TranslationError(Exception):
    pass


CPP_PATTERNS = [
    ('SimpleNew', r'\bPyArray_SimpleNew\s*\('),
    ('EMPTY', r'\bPyArray_EMPTY\s*\('),
    ('Empty', r'\bPyArray_Empty\s*\('),
    ('NewLikeArray', r'\bPyArray_NewLikeArray\s*\('),
    ('New', r'\bPyArray_New\s*\('),
    ('new_array', r'\bnew_array\s*<[^<>]*>\s*\('),
    ('array_like', r'\barray_like\s*\('),
    ('newArray', r'\bnew\s*(?:\(\s*std::nothrow\s*\)\s*)?[\w:]+(?:\s*<[^<>;]*>)?\s*\['),
    ('operatorNew', r'\boperator\s+new\s*\('),
    ('malloc', r'\b(?:malloc|realloc|alloca)\s*\('),
]
PY_ALLOC = {'empty': 'np.empty', 'empty_like': 'np.empty_like', 'ndarray': 'np.ndarray'}

# sites the theorems / the cover refer to: their disappearance means the cover (and the report) is stale -> broken tie
REQUIRED = [('_bbox.cpp', 'py_bbox'), ('_center_of_mass.cpp', 'py_center_of_mass'), ('_convex.cpp', 'convexhull'),
            ('_convolve.cpp', 'py_convolve'), ('_morph.cpp', 'py_close_holes'), ('internal.py', '_get_output'),
            ('convolve.py', 'find'), ('labeled.py', 'labeled_sum'), ('labeled.py', 'bbox'), ('thin.py', 'thin')]


def _strip_cpp_comments(src: str) -> str:
    src = re.sub(r'/\*.*?\*/', lambda m: re.sub(r'[^\n]', ' ', m.group(0)), src, flags=re.S)
    return re.sub(r'//[^\n]*', '', src)


def _match_brace(src: str, i: int) -> int:
    """index after the `}` matching the `{` at src[i]"""
    depth = 0
    for k in range(i, len(src)):
        c = src[k]
        if c == '{':
            depth += 1
        elif c == '}':
            depth -= 1
            if depth == 0:
                return k + 1
    raise TranslationError('unbalanced braces')


def _cpp_functions(src: str):
    """[(name, start, end)] of the function bodies (outermost definitions with a body; namespaces/structs are entered)"""
    out = []
    for m in re.finditer(r'\b([A-Za-z_]\w*)\s*\(([^;{}()]|\([^()]*\))*\)\s*(?:const\s*)?(?::[^{};]*)?\{', src):
        name = m.group(1)
        if name in ('if', 'for', 'while', 'switch', 'catch', 'return', 'sizeof', 'defined'):
            continue
        try:
            end = _match_brace(src, m.end() - 1)
        except TranslationError:
            continue
        out.append((name, m.end(), end))
    return out


def _enclosing(funcs, pos):
    best = None
    for name, a, b in funcs:
        if a <= pos < b and (best is None or a < best[1]):          # the OUTERMOST definition containing the position
            best = (name, a, b)
    return best[0] if best else '<file scope>'


def _cpp_target(src: str, pos: int) -> str:
    """the variable the allocation is stored in: `x = …alloc`, `T x = …`, `T x(… alloc …)`, `.push_back(alloc)`, `return alloc`"""
    start = max(src.rfind(';', 0, pos), src.rfind('{', 0, pos), src.rfind('}', 0, pos)) + 1
    stmt = src[start:pos]
    m = re.search(r'([A-Za-z_]\w*)\s*(?:\.push_back\s*\(|=(?!=))[^=]*$', stmt)
    if m:
        return m.group(1)
    if re.search(r'\breturn\b', stmt):
        return 'return'
    m = re.search(r'([A-Za-z_]\w*)\s*\([^()]*$', stmt)
    return m.group(1) if m else '?'


def extract_cpp(repo: Path):
    files = (sorted((repo / 'mahotas').glob('_*.cpp')) + sorted((repo / 'mahotas' / 'features').glob('_*.cpp'))
             + sorted((repo / 'mahotas').glob('*.h')) + sorted((repo / 'mahotas').glob('*.hpp'))
             + sorted((repo / 'mahotas' / 'numpypp').glob('*.hpp')))
    if not files:
        raise TranslationError('no C++ sources found')
    sites = []
    for p in files:
        src = _strip_cpp_comments(p.read_text())
        funcs = _cpp_functions(src)
        for kind, pat in CPP_PATTERNS:
            for m in re.finditer(pat, src):
                fn = _enclosing(funcs, m.start())
                if kind in ('array_like', 'new_array') and fn in ('array_like', 'new_array', '<file scope>'):
                    continue                                  # the helpers' own definitions / forwarding overloads
                if kind == 'newArray' and re.match(r'new\s+[\w:]+(?:\s*<[^<>;]*>)?\s*\[', m.group(0)) is None and 'nothrow' not in m.group(0):
                    continue
                sites.append((p.name, fn, _cpp_target(src, m.start()), kind))
    return sites


class _PyVisitor(ast.NodeVisitor):
    def __init__(self, rel):
        self.rel, self.stack, self.sites = rel, [], []

    def visit_FunctionDef(self, node):
        self.stack.append(node.name)
        self.generic_visit(node)
        self.stack.pop()

    visit_AsyncFunctionDef = visit_FunctionDef

    def _target(self, node):
        par = getattr(node, '_parent', None)
        while par is not None and not isinstance(par, (ast.Assign, ast.AnnAssign, ast.AugAssign, ast.Return, ast.Expr, ast.keyword)):
            par = getattr(par, '_parent', None)
        if isinstance(par, ast.Assign) and isinstance(par.targets[0], ast.Name):
            return par.targets[0].id
        if isinstance(par, ast.Assign) and isinstance(par.targets[0], ast.Tuple):
            return '_'.join(t.id for t in par.targets[0].elts if isinstance(t, ast.Name)) or '?'
        if isinstance(par, ast.Return):
            return 'return'
        if isinstance(par, ast.keyword):
            return str(par.arg)
        return '?'

    def visit_Call(self, node):
        f = node.func
        kind = None
        if isinstance(f, ast.Attribute) and f.attr in PY_ALLOC and isinstance(f.value, ast.Name) and f.value.id in ('np', 'numpy'):
            if f.attr != 'ndarray' or node.args:
                kind = PY_ALLOC[f.attr]
        elif (isinstance(f, ast.Name) and f.id == '_get_output') or (isinstance(f, ast.Attribute) and f.attr == '_get_output'):
            kind = 'get_output'
        if kind:
            self.sites.append((self.rel, self.stack[0] if self.stack else '<module>', self._target(node), kind))
        self.generic_visit(node)


def extract_py(repo: Path):
    sites = []
    pk = repo / 'mahotas'
    files = [p for p in sorted(pk.rglob('*.py')) if 'tests' not in p.parts and 'demos' not in p.parts]
    if not files:
        raise TranslationError('no Python sources found')
    for p in files:
        with warnings.catch_warnings():
            warnings.simplefilter('ignore', SyntaxWarning)
            tree = ast.parse(p.read_text())
        for n in ast.walk(tree):
            for c in ast.iter_child_nodes(n):
                c._parent = n
        v = _PyVisitor(str(p.relative_to(pk)))
        v.visit(tree)
        sites += v.sites
    return sites


def extract(repo: Path):
    sites = extract_cpp(repo) + extract_py(repo)
    have = {(f, fn) for f, fn, _, _ in sites}
    for r in REQUIRED:
        if r not in have:
            raise TranslationError(f'allocation site {r[0]}:{r[1]} no longer recognised')
    # stable order, duplicates (two sites of one kind stored in one variable of one function) numbered
    out, seen = [], {}
    for s in sites:
        k = seen.get(s, 0)
        seen[s] = k + 1
        out.append(s + (k,))
    return out


def _q(s: str) -> str:
    return '"' + s.replace('\\', '\\\\').replace('"', '\\"') + '"'


def lean_lines(sites) -> list[str]:
    lines = ['', '/-! ## allocation sites whose memory starts out uninitialised (translator/allocs.py) -/', '',
             '/-- (file, enclosing function, variable the buffer is stored in, kind, ordinal among equal rows) for every allocation of',
             '    uninitialised memory in the current sources: `PyArray_SimpleNew`/`EMPTY`/`new_array`/`array_like`/`new T[n]` in C++,',
             '    `np.empty`/`np.empty_like`/`np.ndarray(shape)` calls and calls of `_get_output` in Python -/',
             'def allocSiteTable : List (String × String × String × String × Nat) := [']
    lines.append(',\n'.join(f'  ({_q(f)}, {_q(fn)}, {_q(v)}, {_q(k)}, {n})' for f, fn, v, k, n in sites))
    lines.append(']')
    return lines


# ----------------------------------------------------------------------------------------------------------------------
# index guards (round 4, after the seeded changes C11-r4m1 / C11-r4m2): the tests that DOMINATE a value-indexed access inside a
# kernel loop.  The native-guard extraction of guards.py only sees the tests in front of the kernel call in `py_*`; the tests
# inside the loops (`if (label >= 0 && label < maxlabel) result[label] = …`, `if (val < 0 || val2 < 0) throw …; ++res.at(val, val2)`)
# are what keeps a data-dependent index inside its table.  For each target below: the index expressions of the access and, as
# atoms, (a) the conjuncts of every `if (…) {` block that encloses the access, (b) the NEGATED disjuncts of every earlier
# `if (…)` of an enclosing block whose body leaves (throw / return / continue / break).  Atoms: ("geZero", x, ""), ("lt", x, bound),
# ("other", text, "").  `Generated.indexGuardTable` lists them; `C11_labeled_fold_safe` / `C11_cooccurence_index_guarded` decide that
# each index expression has its lower-bound atom (and the fold its upper bound): a kernel that loses the test breaks the build.

INDEX_TARGETS = [
    ('_labeled.cpp', 'labeled_foldl', r'\bresult\s*\[', '[', ']'),
    ('features/_texture.cpp', 'cooccurence', r'\bres\s*\.\s*at\s*\(', '(', ')'),
]


def _norm(e: str) -> str:
    e = re.sub(r'\s+', '', e)
    while e.startswith('(') and _balanced_outer(e):
        e = e[1:-1]
    m = re.fullmatch(r'(?:npy_intp|int|long|size_t|unsigned)\((.*)\)', e)
    if m and _balanced(m.group(1)):
        e = m.group(1)
    return e


def _balanced(e: str) -> bool:
    d = 0
    for c in e:
        d += c == '('
        d -= c == ')'
        if d < 0:
            return False
    return d == 0


def _balanced_outer(e: str) -> bool:
    """e starts with '(' and that parenthesis closes at the very end"""
    d = 0
    for i, c in enumerate(e):
        d += c == '('
        d -= c == ')'
        if d == 0:
            return i == len(e) - 1
    return False


def _split_top(e: str, op: str):
    out, d, cur, i = [], 0, '', 0
    while i < len(e):
        c = e[i]
        if c in '([':
            d += 1
        elif c in ')]':
            d -= 1
        if d == 0 and e.startswith(op, i):
            out.append(cur)
            cur = ''
            i += len(op)
            continue
        cur += c
        i += 1
    out.append(cur)
    return [x for x in out if x.strip()]


def _atom(test: str, negated: bool):
    t = _norm(test)
    m = re.fullmatch(r'(.+?)(>=|<=|<|>|==|!=)(.+)', t)
    if not m:
        return ('other', ('!' if negated else '') + t, '')
    a, op, b = _norm(m.group(1)), m.group(2), _norm(m.group(3))
    if negated:
        op = {'<': '>=', '>=': '<', '>': '<=', '<=': '>', '==': '!=', '!=': '=='}[op]
    if op == '>=' and b == '0':
        return ('geZero', a, '')
    if op == '<=' and a == '0':
        return ('geZero', b, '')
    if op == '<':
        return ('lt', a, b)
    if op == '>':
        return ('lt', b, a)
    return ('other', a + op + b, '')


def _paren_span(src: str, i: int, open_: str, close: str) -> int:
    d = 0
    for k in range(i, len(src)):
        if src[k] == open_:
            d += 1
        elif src[k] == close:
            d -= 1
            if d == 0:
                return k
    raise TranslationError('unbalanced parentheses')


def _resolve_alias(body: str, name: str) -> str:
    """`const int label = *literator;` — an index that is a local initialised once is reported under its own name; the alias target is
    appended so that the table shows what it stands for"""
    m = re.search(r'\b(?:const\s+)?[\w:<>]+\s+' + re.escape(name) + r'\s*=\s*([^;]+);', body)
    return _norm(m.group(1)) if m else ''


def extract_index_guards(repo: Path):
    rows = []
    for rel, fn, pat, op, cl in INDEX_TARGETS:
        p = repo / 'mahotas' / rel
        if not p.exists():
            raise TranslationError(f'{rel} not found')
        src = _strip_cpp_comments(p.read_text())
        bodies = [(a, b) for name, a, b in _cpp_functions(src) if name == fn]
        if not bodies:
            raise TranslationError(f'{rel}: function {fn} not found')
        a, b = bodies[0]
        body = src[a:b]
        m = re.search(pat, body)
        if not m:
            raise TranslationError(f'{rel}:{fn}: the indexed access is no longer recognised')
        pos = m.start()
        end = _paren_span(body, m.end() - 1, op, cl)
        idx = [_norm(x) for x in _split_top(body[m.end():end], ',')]
        atoms = []
        # walk backwards: blocks enclosing `pos`, and the leaving `if`s that precede it inside them
        depth = 0
        k = pos
        block_starts = []
        while k > 0:
            k -= 1
            c = body[k]
            if c == '}':
                depth += 1
            elif c == '{':
                if depth == 0:
                    block_starts.append(k)
                else:
                    depth -= 1
        for bs in block_starts:
            head = body[:bs].rstrip()
            hm = re.search(r'\bif\s*\($', head[:head.rfind('(') + 1]) if head.endswith(')') else None
            if head.endswith(')'):
                # find the matching '(' of the trailing ')'
                d, j = 0, len(head) - 1
                while j >= 0:
                    if head[j] == ')':
                        d += 1
                    elif head[j] == '(':
                        d -= 1
                        if d == 0:
                            break
                    j -= 1
                if re.search(r'\bif\s*$', head[:j]):
                    for t in _split_top(head[j + 1:-1], '&&'):
                        atoms.append(_atom(t, False))
            # leaving ifs between this block start and pos, at the nesting level of the block
            seg = body[bs + 1:pos]
            d = 0
            i = 0
            while i < len(seg):
                c = seg[i]
                if c == '{':
                    d += 1
                elif c == '}':
                    d -= 1
                elif d == 0:
                    im = re.match(r'if\s*\(', seg[i:])
                    if im and (i == 0 or not (seg[i - 1].isalnum() or seg[i - 1] == '_')):
                        ce = _paren_span(seg, i + im.end() - 1, '(', ')')
                        cond = seg[i + im.end():ce]
                        rest = seg[ce + 1:].lstrip()
                        if rest.startswith('{'):
                            try:
                                be = _paren_span(rest, 0, '{', '}')
                            except TranslationError:       # the block is still open at the access: an ENCLOSING if, handled above
                                i = ce + 1
                                continue
                            stmt = rest[:be + 1]
                        else:
                            stmt = rest[:rest.find(';') + 1]
                        if re.search(r'\b(throw|return|continue|break)\b', stmt):
                            for t in _split_top(cond, '||'):
                                atoms.append(_atom(t, True))
                        i = ce
                i += 1
        aliases = [_resolve_alias(body, x) for x in idx]
        rows.append((p.name, fn, idx, aliases, atoms))
    return rows


def index_guard_lines(rows) -> list[str]:
    lines = ['', '/-! ## tests that dominate value-indexed accesses inside kernel loops (translator/allocs.py: extract_index_guards) -/', '',
             '/-- (file, function, index expressions of the guarded access, what each stands for when it is a local alias, atoms that hold at the',
             '    access: `("geZero", x, "")` = `x >= 0`, `("lt", x, b)` = `x < b`, `("other", text, "")`) -/',
             'def indexGuardTable : List (String × String × List String × List String × List (String × String × String)) := [']
    lines.append(',\n'.join(
        f'  ({_q(f)}, {_q(fn)}, [{", ".join(_q(x) for x in idx)}], [{", ".join(_q(x) for x in al)}], '
        f'[{", ".join("(" + _q(a) + ", " + _q(b) + ", " + _q(c) + ")" for a, b, c in atoms)}])'
        for f, fn, idx, al, atoms in rows))
    lines.append(']')
    return lines


if __name__ == '__main__':
    import sys
    for s in extract(Path(sys.argv[1] if len(sys.argv) > 1 else '/repo')):
        print(s)
    for r in extract_index_guards(Path(sys.argv[1] if len(sys.argv) > 1 else '/repo')):
        print(r)
