"""C++ -> Lean translator for the small pure scalar / index helper functions the hand-written models rest on.

On every run the *text* of each target function is read from the current sources, parsed by a small C-subset
front end (tokenizer + recursive-descent parser) and translated to a pure Lean definition in
`lean/Mahotas/Generated/CScalar.lean`. `lean/Mahotas/Proofs/CScalarTies.lean` proves, for all arguments, that each
generated definition equals the hand-written model definition the driver runs. A change to the C++ function changes
the generated text; when the change is not provably harmless the tie theorem stops compiling (broken obligation).

Subset (anything else raises `TranslationError` naming the function and the construct):
  statements   declarations with initialiser, `= += -= *= /= %=`, `++/--` statements, `if/else`, `return`,
               `switch/case` on enum constants (each group must end in `return`/`break`), `assert(...)` (ignored,
               recorded), blocks, `for (T i = a; i != n | i < n | i <= n; ++i)` and `for (T i = a; i >= n | i > n; --i)`
               whose body neither returns nor breaks (translated to a `List.foldl` over `List.range` with the tuple
               of assigned outer variables as the state)
  expressions  integer literals, variables, `+ - * / %`, comparisons, `&& || !`, `?:`, casts `(T)(e)`, `T(e)`,
               `static_cast<T>(e)`, `T()`, `std::min/max` (optionally `<T>`), `std::abs`, `std::numeric_limits<T>::min()/
               max()/is_signed`, calls to other translated functions, configured read-only array accessors
               (`pos[d]`, `ref.dim(d)`, `this->dim(d)`, ...) as `List.getD`.

Translation scheme: continuation style. `if c {A} else {B}; rest` becomes `if c then [A; rest] else [B; rest]` when a
branch can return, otherwise a join `let (x, y) := if c then [A; (x, y)] else [B; (x, y)]; [rest]`; `x = e; rest` becomes
`let x := e; [rest]` (Lean shadowing = C assignment), `return e` becomes `e`.

Integer semantics: `npy_intp` / `int` / `index_type` / `long` values are unbounded `Int` (standing assumption of the
trusted base: sizes < 2^31, no index overflow); `/` and `%` on them are `Int.tdiv` / `Int.tmod`. Values of a template
type `T` are the `Int`s of the dtype `dt : DT`; arithmetic on them is exact *and must be consumed by a store or a cast
to `T`*, which is emitted as `dt.wrap` (two's complement; narrow types are promoted to `int` and reduced by the store,
wide types wrap in the operation: the same value as long as no comparison looks at the unreduced result, which the
translator enforces). `numeric_limits<T>::min()/max()/is_signed` are `dt.lo` / `dt.hi` / `dt.signed`.
"""
from __future__ import annotations
import hashlib, re
from pathlib import Path
from .tables import TranslationError, _write_if_changed, defined_names

# ----------------------------------------------------------------------------------------------
# tokenizer

PUNCT = ['<<=', '>>=', '->*', '...', '::', '->', '++', '--', '<<', '>>', '<=', '>=', '==', '!=', '&&', '||', '+=', '-=',
         '*=', '/=', '%=', '&=', '|=', '^=', '+', '-', '*', '/', '%', '<', '>', '=', '!', '~', '&', '|', '^', '?', ':',
         ';', ',', '.', '(', ')', '[', ']', '{', '}', '#']


class Tok:
    __slots__ = ('kind', 'text', 'line', 'pos', 'end')

    def __init__(self, kind, text, line, pos, end):
        self.kind, self.text, self.line, self.pos, self.end = kind, text, line, pos, end

    def __repr__(self):
        return f'{self.text!r}@{self.line}'


def tokenize(src: str, fname: str = '?') -> list[Tok]:
    toks = []
    i, n, line = 0, len(src), 1
    bol = True                              # only white space since the beginning of the line
    while i < n:
        c = src[i]
        if c == '\n':
            line += 1
            i += 1
            bol = True
            continue
        if c in ' \t\r\f\v':
            i += 1
            continue
        if src.startswith('//', i):
            j = src.find('\n', i)
            i = n if j < 0 else j
            continue
        if src.startswith('/*', i):
            j = src.find('*/', i + 2)
            if j < 0:
                raise TranslationError(f'{fname}: unterminated comment at line {line}')
            line += src.count('\n', i, j + 2)
            i = j + 2
            continue
        if c == '#' and bol:                # preprocessor line (with continuations): one token
            j = i
            while True:
                k = src.find('\n', j)
                k = n if k < 0 else k
                if k > 0 and src[k - 1] == '\\' and k < n:
                    j = k + 1
                    continue
                break
            toks.append(Tok('pp', src[i:k], line, i, k))
            line += src.count('\n', i, k)
            i = k
            continue
        bol = False
        if c == '"' or c == "'":
            j = i + 1
            while j < n and src[j] != c:
                if src[j] == '\\':
                    j += 1
                j += 1
            if j >= n:
                raise TranslationError(f'{fname}: unterminated literal at line {line}')
            toks.append(Tok('str', src[i:j + 1], line, i, j + 1))
            line += src.count('\n', i, j + 1)
            i = j + 1
            continue
        m = re.compile(r'[A-Za-z_]\w*').match(src, i)
        if m:
            toks.append(Tok('id', m.group(0), line, i, m.end()))
            i = m.end()
            continue
        m = re.compile(r'(0[xX][0-9a-fA-F]+|\d+\.?\d*(?:[eE][-+]?\d+)?|\.\d+(?:[eE][-+]?\d+)?)[uUlLfF]*').match(src, i)
        if m:
            toks.append(Tok('num', m.group(0), line, i, m.end()))
            i = m.end()
            continue
        for p in PUNCT:
            if src.startswith(p, i):
                toks.append(Tok('op', p, line, i, i + len(p)))
                i += len(p)
                break
        else:
            raise TranslationError(f'{fname}: unexpected character {c!r} at line {line}')
    return toks


# ----------------------------------------------------------------------------------------------
# locating a function definition in a file

class CFunc:
    """a function definition found in the token stream"""

    def __init__(self, fname, src, toks, i_start, i_name, i_lpar, i_rpar, i_lbrace, i_rbrace, template):
        self.fname, self.src, self.toks = fname, src, toks
        self.i_start, self.i_name, self.i_lpar, self.i_rpar = i_start, i_name, i_lpar, i_rpar
        self.i_lbrace, self.i_rbrace, self.template = i_lbrace, i_rbrace, template
        self.name = toks[i_name].text
        self.line0, self.line1 = toks[i_start].line, toks[i_rbrace].line
        self.text = src[toks[i_start].pos:toks[i_rbrace].end]
        self.hash = hashlib.sha256(' '.join(t.text for t in toks[i_start:i_rbrace + 1]).encode()).hexdigest()[:16]

    @property
    def ret_toks(self):
        a = self.i_start
        if self.template is not None:
            a = self.template[1] + 1
        return [t for t in self.toks[a:self.i_name] if t.text not in ('inline', 'static', 'const', 'constexpr')]

    @property
    def param_toks(self):
        return self.toks[self.i_lpar + 1:self.i_rpar]

    @property
    def body_toks(self):
        return self.toks[self.i_lbrace:self.i_rbrace + 1]


def _match(toks, i, open_, close):
    """index of the token closing the bracket opened at i"""
    depth = 0
    for j in range(i, len(toks)):
        t = toks[j].text
        if toks[j].kind != 'op':
            continue
        if t == open_:
            depth += 1
        elif t == close:
            depth -= 1
            if depth == 0:
                return j
    raise TranslationError(f'unbalanced {open_} at line {toks[i].line}')


def _match_angle(toks, i):
    depth = 0
    for j in range(i, len(toks)):
        t = toks[j]
        if t.kind == 'op' and t.text == '<':
            depth += 1
        elif t.kind == 'op' and t.text == '>':
            depth -= 1
            if depth == 0:
                return j
        elif t.kind == 'op' and t.text == '>>':
            depth -= 2
            if depth <= 0:
                return j
        elif t.kind == 'op' and t.text in (';', '{', '}'):
            break
    raise TranslationError(f'unbalanced < at line {toks[i].line}')


def find_functions(fname: str, src: str, name: str) -> list[CFunc]:
    """all *definitions* `… name [<…>] ( params ) [const] { body }` of the file, in source order"""
    toks = tokenize(src, fname)
    out = []
    for i, t in enumerate(toks):
        if t.kind != 'id' or t.text != name:
            continue
        j = i + 1
        if j < len(toks) and toks[j].text == '<':           # explicit specialisation `name<bool>(`
            try:
                j = _match_angle(toks, j) + 1
            except TranslationError:
                continue
        if j >= len(toks) or toks[j].text != '(':
            continue
        if i > 0 and toks[i - 1].kind == 'op' and toks[i - 1].text in ('.', '->', '::', '(', ',', '=', '!', '&&', '||',
                                                                          '+', '-', '/', '%', '<', '?', ':', 'return'):
            continue
        if i > 0 and toks[i - 1].kind == 'id' and toks[i - 1].text in ('return', 'else', 'case'):
            continue
        try:
            rp = _match(toks, j, '(', ')')
        except TranslationError:
            continue
        k = rp + 1
        if k < len(toks) and toks[k].text == 'const':
            k += 1
        if k >= len(toks) or toks[k].text != '{':
            continue
        rb = _match(toks, k, '{', '}')
        # walk back to the beginning of the declaration
        a = i
        while a > 0:
            p = toks[a - 1]
            if p.kind == 'pp' or (p.kind == 'op' and p.text in (';', '}', '{', ':')):
                break
            a -= 1
        if a == i:
            continue                                            # no return type: a call / constructor
        template = None
        if toks[a].text == 'template':
            if toks[a + 1].text != '<':
                raise TranslationError(f'{fname}:{toks[a].line}: template header not understood')
            template = (a, _match_angle(toks, a + 1))
        out.append(CFunc(fname, src, toks, a, i, j, rp, k, rb, template))
    return out


# ----------------------------------------------------------------------------------------------
# parser (expressions and statements) over a token slice

INT_TYPES = {'npy_intp', 'int', 'long', 'index_type', 'numpy::index_type', 'ssize_t', 'Py_ssize_t', 'ptrdiff_t',
             'std::ptrdiff_t', 'long long'}
U32_TYPES = {'npy_uint32', 'uint32_t', 'std::uint32_t'}
UNSUPPORTED_TYPES = {'unsigned', 'size_t', 'std::size_t', 'npy_uintp', 'char', 'short', 'float', 'double', 'long double'}


class Parser:
    def __init__(self, toks, where, tparams=None, enums=None):
        self.toks, self.i, self.where = toks, 0, where
        self.tparams = dict(tparams or {})          # template parameter name -> kind ('T', or 'int' when instantiated at index types)
        self.enums = enums or {}
        self.allow_float = False
        self.struct_types = set()                   # struct type names whose locals are modelled (configured per target)
        self.ptr_elems = set()                      # element type names `E` such that `E*` is a pointer into the array's data
        self.skip_prefixes = []                     # token prefixes of statements that are ignored (configured per target, recorded)
        self.float_types = set()                    # type names that denote the floating type of a float-polymorphic target (kind 'F')

    # -- helpers
    def err(self, msg):
        ln = self.toks[self.i].line if self.i < len(self.toks) else (self.toks[-1].line if self.toks else 0)
        return TranslationError(f'{self.where}: line {ln}: {msg}')

    def peek(self, k=0):
        j = self.i + k
        return self.toks[j] if j < len(self.toks) else Tok('eof', '<eof>', 0, 0, 0)

    def at(self, text, k=0):
        t = self.peek(k)
        return t.kind in ('op', 'id') and t.text == text

    def eat(self, text):
        if not self.at(text):
            raise self.err(f'{text!r} expected, found {self.peek().text!r}')
        self.i += 1

    def ident(self):
        t = self.peek()
        if t.kind != 'id':
            raise self.err(f'identifier expected, found {t.text!r}')
        self.i += 1
        return t.text

    # -- types
    def try_type(self):
        """parse a type name at the cursor; returns the type kind ('int' | 'T' | 'bool') or None (cursor unchanged)"""
        save = self.i
        while self.at('const') or self.at('typename') or self.at('register'):
            self.i += 1
        t = self.peek()
        if t.kind != 'id':
            self.i = save
            return None
        words = [t.text]
        j = self.i + 1
        while self.peek(j - self.i).text == '::' and self.peek(j - self.i + 1).kind == 'id':
            words.append(self.peek(j - self.i + 1).text)
            j += 2
        name = '::'.join(words)
        if name == 'long' and self.peek(j - self.i).text == 'long':
            j += 1
        kind = None
        if name in self.float_types:
            kind = 'F'
        elif name in INT_TYPES or (len(words) > 1 and words[-1] in ('index_type',)):
            kind = 'int'
        elif name in self.tparams:
            kind = self.tparams[name]
        elif name in U32_TYPES:
            kind = 'u32'
        elif name == 'bool':
            kind = 'bool'
        elif name in self.float_types:
            kind = 'F'
        elif name in UNSUPPORTED_TYPES:
            self.i = save
            return 'unsupported:' + name
        elif name in self.ptr_elems and self.peek(j - self.i).text == '*':
            kind = 'elem'
        if kind is None:
            self.i = save
            return None
        self.i = j
        while self.at('const'):
            self.i += 1
        if self.at('*') and name in self.ptr_elems:
            self.i += 1
            while self.at('const'):
                self.i += 1
            return 'ptr'
        return kind

    # -- expressions (precedence climbing)
    def expr(self):
        return self.ternary()

    def ternary(self):
        c = self.binary(0)
        if self.at('?'):
            self.i += 1
            a = self.expr()
            self.eat(':')
            b = self.ternary()
            return ('cond', c, a, b)
        return c

    LEVELS = [['||'], ['&&'], ['|'], ['^'], ['&'], ['==', '!='], ['<', '<=', '>', '>='], ['<<', '>>'], ['+', '-'],
              ['*', '/', '%']]

    def binary(self, lvl):
        if lvl == len(self.LEVELS):
            return self.unary()
        a = self.binary(lvl + 1)
        while self.peek().kind == 'op' and self.peek().text in self.LEVELS[lvl]:
            op = self.peek().text
            self.i += 1
            b = self.binary(lvl + 1)
            a = ('bin', op, a, b)
        return a

    def unary(self):
        t = self.peek()
        if t.kind == 'op' and t.text in ('-', '+', '!', '~', '*', '&'):
            self.i += 1
            e = self.unary()
            return ('un', t.text, e)
        if t.kind == 'op' and t.text in ('++', '--'):
            self.i += 1
            e = self.unary()
            return ('preinc', t.text, e)
        if t.kind == 'op' and t.text == '(':
            # C cast `(T)(e)` / `(T)e` ?
            save = self.i
            self.i += 1
            k = self.try_type()
            if k is not None and self.at(')'):
                if k.startswith('unsupported:'):
                    raise self.err(f'cast to unsupported type {k[12:]}')
                self.i += 1
                e = self.unary()
                return ('cast', k, e)
            self.i = save
        return self.postfix()

    def args(self):
        self.eat('(')
        out = []
        if not self.at(')'):
            out.append(self.expr())
            while self.at(','):
                self.i += 1
                out.append(self.expr())
        self.eat(')')
        return out

    def primary(self):
        t = self.peek()
        if t.kind == 'num':
            self.i += 1
            txt = t.text.rstrip('uUlL')
            if re.search(r'[uU]', t.text[len(txt):]):
                raise self.err(f'unsigned literal {t.text} (unsigned arithmetic is outside the subset)')
            if re.fullmatch(r'\d+', txt):
                return ('int', int(txt))
            if re.fullmatch(r'0[xX][0-9a-fA-F]+', txt):
                return ('int', int(txt, 16))
            if self.allow_float:
                return ('float', t.text)
            raise self.err(f'floating-point literal {t.text} (outside the subset)')
        if t.kind == 'op' and t.text == '(':
            self.i += 1
            e = self.expr()
            self.eat(')')
            return e
        if t.kind == 'id':
            if t.text in ('true', 'false'):
                self.i += 1
                return ('boollit', t.text == 'true')
            if t.text in ('static_cast', 'const_cast', 'reinterpret_cast', 'dynamic_cast'):
                if t.text != 'static_cast':
                    raise self.err(f'{t.text} (outside the subset)')
                self.i += 1
                self.eat('<')
                k = self.try_type()
                if k is None or k.startswith('unsupported:'):
                    raise self.err('static_cast to a type outside the subset')
                self.eat('>')
                a = self.args()
                if len(a) != 1:
                    raise self.err('static_cast takes one argument')
                return ('cast', k, a[0])
            # functional cast / value initialisation `T(e)` / `T()`
            save = self.i
            k = self.try_type()
            if k is not None and not k.startswith('unsupported:') and self.at('('):
                a = self.args()
                if len(a) == 0:
                    return ('cast', k, ('int', 0))
                if len(a) != 1:
                    raise self.err('functional cast takes one argument')
                return ('cast', k, a[0])
            self.i = save
            # qualified name
            words = [self.ident()]
            targ = None
            while True:
                if self.at('::') and self.peek(1).kind == 'id':
                    self.i += 1
                    words.append(self.ident())
                    continue
                if self.at('<') and '::'.join(words) in ('std::numeric_limits', 'numeric_limits', 'std::min', 'std::max',
                                                          'min', 'max'):
                    self.i += 1
                    targ = self.try_type()
                    if targ is None or targ.startswith('unsupported:'):
                        raise self.err(f'template argument of {"::".join(words)} outside the subset')
                    self.eat('>')
                    continue
                break
            name = '::'.join(words)
            if words[0] in ('std', 'numeric_limits') and 'numeric_limits' in words:
                member = words[-1]
                if member == 'is_signed':
                    return ('limits', targ, 'is_signed')
                if member in ('min', 'max'):
                    a = self.args()
                    if a:
                        raise self.err('numeric_limits::min/max take no arguments')
                    return ('limits', targ, member)
                raise self.err(f'numeric_limits member {member} (outside the subset)')
            if self.at('('):
                a = self.args()
                return ('call', name, targ, a)
            if name == 'this':
                return ('var', 'this')
            if name in self.enums:
                return ('enum', name, self.enums[name])
            return ('var', name)
        raise self.err(f'unexpected token {t.text!r} in an expression')

    def postfix(self):
        e = self.primary()
        while True:
            if self.at('['):
                self.i += 1
                ix = self.expr()
                self.eat(']')
                e = ('index', e, ix)
            elif self.at('.') or self.at('->'):
                self.i += 1
                m = self.ident()
                if self.at('('):
                    e = ('mcall', e, m, self.args())
                else:
                    e = ('member', e, m)
            elif self.at('++') or self.at('--'):
                op = self.peek().text
                self.i += 1
                e = ('postinc', op, e)
            else:
                return e

    # -- statements
    def block(self):
        self.eat('{')
        out = []
        while not self.at('}'):
            out.append(self.stmt())
        self.eat('}')
        return out

    def stmt(self):
        t = self.peek()
        ln = t.line
        for pre in self.skip_prefixes:              # configured statements without effect on the translated value
            if all(self.peek(k).text == w for k, w in enumerate(pre)):
                depth, j = 0, self.i
                while j < len(self.toks) and not (depth == 0 and self.toks[j].text == ';'):
                    depth += self.toks[j].text in ('(', '[', '{')
                    depth -= self.toks[j].text in (')', ']', '}')
                    j += 1
                if j >= len(self.toks):
                    raise self.err('unterminated statement')
                text = ' '.join(x.text for x in self.toks[self.i:j])
                self.i = j + 1
                return ('ignored', text, ln)
        if self.at('{'):
            return ('block', self.block(), ln)
        if t.kind == 'id' and self.at('goto'):
            self.i += 1
            lab = self.ident()
            self.eat(';')
            return ('goto', lab, ln)
        if t.kind == 'id' and self.peek(1).kind == 'op' and self.peek(1).text == ':' and t.text not in ('default', 'case'):
            self.i += 2
            return ('label', t.text, ln)
        if self.at(';'):
            self.i += 1
            return ('block', [], ln)
        if self.at('if'):
            self.i += 1
            self.eat('(')
            c = self.expr()
            self.eat(')')
            a = self.stmt()
            b = None
            if self.at('else'):
                self.i += 1
                b = self.stmt()
            return ('if', c, a, b, ln)
        if self.at('return'):
            self.i += 1
            e = None if self.at(';') else self.expr()
            self.eat(';')
            return ('return', e, ln)
        if self.at('assert'):
            self.i += 1
            a = self.args()
            self.eat(';')
            return ('assert', a, ln)
        if self.at('switch'):
            self.i += 1
            self.eat('(')
            e = self.expr()
            self.eat(')')
            self.eat('{')
            groups = []             # (labels, stmts); label None = default
            while not self.at('}'):
                labels = []
                while self.at('case') or self.at('default'):
                    if self.at('default'):
                        self.i += 1
                        labels.append(None)
                    else:
                        self.i += 1
                        labels.append(self.expr())
                    self.eat(':')
                if not labels:
                    raise self.err('statement before the first case label of a switch')
                body = []
                while not (self.at('case') or self.at('default') or self.at('}')):
                    body.append(self.stmt())
                groups.append((labels, body))
            self.eat('}')
            return ('switch', e, groups, ln)
        if self.at('for'):
            self.i += 1
            self.eat('(')
            k = self.try_type()
            if k is None or k.startswith('unsupported:'):
                raise self.err('for loop: the init clause must declare an integer index variable')
            v = self.ident()
            self.eat('=')
            init = self.expr()
            self.eat(';')
            cond = self.expr()
            self.eat(';')
            steps = [self.expr()]
            while self.at(','):
                self.i += 1
                steps.append(self.expr())
            self.eat(')')
            body = self.stmt()
            return ('for', k, v, init, cond, steps, body, ln)
        if self.at('break'):
            self.i += 1
            self.eat(';')
            return ('break', ln)
        if self.at('while'):
            self.i += 1
            self.eat('(')
            c = self.expr()
            self.eat(')')
            body = self.stmt()
            return ('while', c, body, ln)
        if self.at('continue'):
            self.i += 1
            self.eat(';')
            return ('continue', ln)
        for kw in ('do', 'try', 'throw'):
            if self.at(kw):
                raise self.err(f'`{kw}` statement (outside the subset)')
        # `S name;` for a configured struct type S
        if self.peek().kind == 'id':
            j, words = 1, [self.peek().text]
            while self.peek(j).text == '::' and self.peek(j + 1).kind == 'id':
                words.append(self.peek(j + 1).text)
                j += 2
            if '::'.join(words) in self.struct_types and self.peek(j).kind == 'id' and self.at(';', j + 1):
                v = self.peek(j).text
                self.i += j + 2
                return ('structdecl', '::'.join(words), v, ln)
        # declaration?
        save = self.i
        k = self.try_type()
        if k is not None and k.startswith('unsupported:'):
            raise self.err(f'declaration of type {k[12:]} (outside the subset)')
        if k is not None and self.peek().kind == 'id' and (self.at('=', 1) or self.at(';', 1) or self.at(',', 1)):
            decls = []
            while True:
                v = self.ident()
                if not self.at('='):
                    raise self.err(f'declaration of `{v}` without initialiser (outside the subset)')
                self.i += 1
                decls.append((v, self.expr()))
                if self.at(','):
                    self.i += 1
                    continue
                break
            self.eat(';')
            return ('decl', k, decls, ln)
        self.i = save
        # expression statement: assignment, compound assignment, ++/--
        e = self.expr()
        if self.peek().kind == 'op' and self.peek().text in ('=', '+=', '-=', '*=', '/=', '%='):
            op = self.peek().text
            self.i += 1
            r = self.expr()
            self.eat(';')
            return ('assign', op, e, r, ln)
        self.eat(';')
        if e[0] in ('preinc', 'postinc'):
            return ('assign', '+=' if e[1] == '++' else '-=', e[2], ('int', 1), ln)
        if e[0] == 'mcall' and e[2] == 'push_back' and len(e[3]) == 1:
            return ('push', e, ln)
        if e[0] == 'call':
            return ('callstmt', e, ln)
        raise self.err(f'expression statement without effect in the subset: {e[0]}')


# ----------------------------------------------------------------------------------------------
# translation to Lean

LEAN_KEYWORDS = {'at', 'end', 'from', 'in', 'do', 'then', 'fun', 'let', 'have', 'show', 'open', 'namespace', 'section',
                 'instance', 'class', 'structure', 'def', 'theorem', 'match', 'with', 'if', 'else', 'by', 'local', 'mut',
                 'where', 'Type', 'Prop', 'Sort', 'variable', 'import', 'export', 'private', 'protected', 'macro',
                 'syntax', 'notation', 'deriving', 'extends', 'for', 'return', 'unless', 'break', 'continue', 'try',
                 'catch', 'finally', 'using', 'calc', 'suffices', 'obtain', 'exact', 'dt', 'some', 'none', 'min', 'max'}


def lname(v: str) -> str:
    return v + '_' if v in LEAN_KEYWORDS else v


def _stmts_return(stmts) -> bool:
    """does any statement of the list contain a `return` (or `break`)?"""
    for s in stmts:
        k = s[0]
        if k in ('return', 'break'):
            return True
        if k == 'block' and _stmts_return(s[1]):
            return True
        if k == 'if' and (_stmts_return([s[2]]) or (s[3] is not None and _stmts_return([s[3]]))):
            return True
        if k == 'switch':
            return True
        if k == 'for' and _stmts_return([s[6]]):
            return True
        if k == 'while' and _stmts_return([s[2]]):
            return True
    return False


class Translator:
    """translates ONE function (or a selected statement of it) to a Lean definition"""

    def __init__(self, where, spec, known_funcs):
        self.where = where
        self.spec = spec
        self.known = known_funcs            # C name -> dict(lean=..., params=[kinds], ret=kind, dt=bool)
        self.asserts = []
        self.assumptions = []
        self.uses_dt = False
        self.calls = set()
        self.repo = None                    # set by translate_target: helpers / constants of the same file are looked up there
        self.aux = []                       # [(lean name, lines)] auxiliary definitions (helpers called by the function), in order
        self.aux_info = {}                  # C name -> dict(lean, params, ret)
        self.alias = {}                     # local -> accessor path it was initialised with (and never assigned since)
        self.stack = []                     # helpers being translated (recursion is outside the subset)
        self.enums = {}
        self.ignored = []                   # configured statements without effect on the translated value (recorded in the doc)

    def err(self, ln, msg):
        return TranslationError(f'{self.where}: line {ln}: {msg}')

    # ---- kinds: 'int' | 'T' | 'Tx' (unreduced arithmetic on T values) | 'prop' | 'bool' (a Lean Bool)
    def coerce(self, tk, want, ln, lit=None):
        t, k = tk
        if k == want:
            return t
        if want == 'prop':
            if k in ('int', 'T'):
                return f'({t} ≠ 0)'
            if k == 'bool':
                return f'({t} = true)'
        if want == 'bool':
            return f'decide ({self.coerce(tk, "prop", ln)})'
        if want == 'int':
            if k == 'prop':
                return f'(if {t} then 1 else 0)'
            if k == 'bool':
                return f'(if {t} = true then 1 else 0)'
            if k == 'T':
                return t
        if want == 'F':
            return self.toF(tk, ln)
        if want == 'u32' and k == 'int' and re.fullmatch(r'\d+', t) and int(t) < 2 ** 32:
            return t
        if want == 'prop' and k == 'u32':
            return f'({t} ≠ 0)'
        if want == 'T':
            if k == 'Tx':
                self.uses_dt = True
                return f'dt.wrap ({t})'
            if k == 'int':
                if re.fullmatch(r'[01]', t):      # 0 and 1 are values of every C++ integer type, bool included
                    return t
                self.uses_dt = True
                return f'dt.wrap ({t})'
            if k == 'prop':
                return f'(if {t} then 1 else 0)'
            if k == 'bool':
                return f'(if {t} = true then 1 else 0)'
        raise self.err(ln, f'conversion {k} -> {want} of `{t}` is outside the subset (integer promotion would be visible)')

    def accessor(self, e):
        """configured read-only array / scalar accessors -> (lean text, kind) or None"""
        acc = self.spec.get('accessors') or {}
        key = None
        arg = None
        if e[0] == 'index':
            key, arg = self._path(e[1]) + '[]', e[2]
        elif e[0] == 'mcall' and len(e[3]) == 1:
            key, arg = self._path(e[1]) + '.' + e[2] + '()', e[3][0]
        elif e[0] == 'mcall' and len(e[3]) == 0:
            key = self._path(e[1]) + '.' + e[2] + '()'
        if key is not None and key.startswith('this.'):
            key = key[5:]
        if False:
            pass
        elif e[0] == 'member':
            key = self._path(e)
        if key is None or key not in acc:
            return None, key
        return (acc[key], arg), key

    def _path(self, e):
        if e[0] == 'var':
            return e[1]
        if e[0] == 'mcall' and e[1] == ('var', 'this') and not e[3]:
            return e[2] + '()'
        if e[0] == 'call' and not e[3]:
            return e[1] + '()'
        if e[0] == 'member':
            return self._path(e[1]) + '.' + e[2]
        if e[0] == 'un' and e[1] == '*':
            return '*' + self._path(e[1 + 1])
        return '?'

    # ---- floating values (kind 'F'): the generated definition is polymorphic in the scalar type `α`; every operation is
    # emitted through a template of `spec['fops']` (default: the notation of the operator classes the models are written
    # over), so the rounding sequence of the C++ expression is the operation sequence of the Lean term
    FOPS = dict(natlit='(({n} : Nat) : α)', ofint='(({e} : Int) : α)', add='({a} + {b})', sub='({a} - {b})', mul='({a} * {b})',
                div='({a} / {b})', neg='(-{a})', lt='({a} < {b})', gt='({a} > {b})')

    def fop(self, name, ln, **kw):
        ops = dict(self.FOPS)
        ops.update(self.spec.get('fops') or {})
        if name not in ops:
            raise self.err(ln, f'floating operation `{name}` (outside the subset for this target)')
        return ops[name].format(**kw)

    def flit(self, text, ln):
        from fractions import Fraction
        t = text.rstrip('fFlL')
        try:
            fr = Fraction(t)
        except ValueError:
            raise self.err(ln, f'floating literal {text}')
        if fr < 0:
            raise self.err(ln, f'floating literal {text}')
        if fr.denominator == 1:
            return self.fop('natlit', ln, n=fr.numerator)
        # a decimal constant is the reduced fraction num / den of two small naturals: one correctly rounded division, the
        # same double as the literal as long as num and den are exactly representable and the quotient is the nearest double
        # to the decimal (true for the short decimals of the sources; checked by the differential run)
        if fr.numerator >= 2 ** 24 or fr.denominator >= 2 ** 24:
            raise self.err(ln, f'floating literal {text}: not a short decimal')
        return self.fop('div', ln, a=self.fop('natlit', ln, n=fr.numerator), b=self.fop('natlit', ln, n=fr.denominator))

    def toF(self, tk, ln):
        t, k = tk
        if k == 'F':
            return t
        if k == 'int':
            if re.fullmatch(r'\d+', t):
                return self.fop('natlit', ln, n=t)
            return self.fop('ofint', ln, e=t)
        raise self.err(ln, f'conversion {k} -> floating of `{t}` (outside the subset)')

    def etype(self):
        return (self.spec.get('trace') or {}).get('etype', 'Int × Int')

    def read_key(self, e):
        """trace mode: the key of `e` when it is a configured element read (`recorded` or `silent`), else None"""
        tr = self.spec.get('trace') or {}
        if isinstance(e, tuple) and e and e[0] == 'mcall':
            key = self._path(e[1]) + '.' + e[2] + '()'
            if key in (tr.get('reads') or []) or key in (tr.get('silent_reads') or []):
                return key
        return None

    def event(self, key, table, args, env, ln):
        ix = [self.coerce(self.expr(a, env, ln), 'int', ln) for a in args]
        if isinstance(table, dict):
            ix = [str(table[key])] + ix
        return '[(' + ', '.join(ix) + ')]'

    def reads_in(self, e, out=None):
        """the configured element reads inside expression `e`, in source order"""
        out = [] if out is None else out
        if isinstance(e, tuple):
            if self.read_key(e) is not None:
                out.append(e)
            for x in e[1:]:
                self.reads_in(x, out)
        elif isinstance(e, list):
            for x in e:
                self.reads_in(x, out)
        return out

    def has_events(self, x):
        """trace mode: does the statement / expression `x` append to the trace?"""
        tr = self.spec.get('trace') or {}
        if isinstance(x, tuple):
            if x and x[0] == 'mcall':
                key = self._path(x[1]) + '.' + x[2] + '()'
                if key in (tr.get('reads') or []) or key in (tr.get('writes') or []) or key in (tr.get('pushes') or []):
                    return True
            if x and x[0] == 'call' and x[1].split('::')[-1] in self.known and self.known[x[1].split('::')[-1]].get('trace'):
                return True
            return any(self.has_events(y) for y in x[1:])
        if isinstance(x, list):
            return any(self.has_events(y) for y in x)
        return False

    def trace_reads(self, e, env, ln, out):
        """trace mode: the array reads of expression `e` in source order, as Lean terms of type `List (<event type>)`"""
        if not isinstance(e, tuple):
            return
        tr = self.spec.get('trace') or {}
        if e[0] == 'mcall' and self._path(e[1]) + '.' + e[2] + '()' in (tr.get('reads') or []):
            for a in e[3]:
                self.trace_reads(a, env, ln, out)
            out.append(self.event(self._path(e[1]) + '.' + e[2] + '()', tr['reads'], e[3], env, ln))
            return
        if e[0] == 'call' and e[1].split('::')[-1] in self.known and self.known[e[1].split('::')[-1]].get('trace'):
            f = self.known[e[1].split('::')[-1]]
            args = e[3]
            if len(args) != len(f['params']) or args[0] != ('var', tr.get('array')):
                raise self.err(ln, f'call of {e[1]}: the array argument must be passed through unchanged')
            for a in args[1:]:
                self.trace_reads(a, env, ln, out)
            outs = [self.atom(self.coerce(self.expr(a, env, ln), 'int', ln)) for a in args[1:]]
            self.calls.add(e[1].split('::')[-1])
            out.append(f'({f["lean"]} {tr["dims"]} {" ".join(outs)})')
            return
        for x in e[1:]:
            if isinstance(x, tuple):
                self.trace_reads(x, env, ln, out)
            elif isinstance(x, list):
                for y in x:
                    self.trace_reads(y, env, ln, out)

    def trace_pre(self, exprs, env, ln, pad):
        if not self.spec.get('trace'):
            return ''
        out = []
        for e in exprs:
            self.trace_reads(e, env, ln, out)
        return ''.join(f'{pad}let acc_ : List ({self.etype()}) := acc_ ++ {t}\n' for t in out)

    def expr(self, e, env, ln):
        k = e[0]
        tr = self.spec.get('trace')
        if tr:
            if k == 'float':
                return ('()', 'elem')
            if self.read_key(e) is not None:
                return ('()', 'elem')
            if k == 'call' and e[1].split('::')[-1] in self.known and self.known[e[1].split('::')[-1]].get('trace'):
                return ('()', 'elem')
        if k == 'lean':
            return (e[1], 'prop')
        if k == 'float':
            if not self.spec.get('float'):
                raise self.err(ln, f'floating-point literal {e[1]} (outside the subset)')
            return (self.flit(e[1], ln), 'F')
        if k == 'int':
            return (str(e[1]), 'int')
        if k == 'boollit':
            return ('True' if e[1] else 'False', 'prop')
        if k == 'enum':
            return (str(e[2]), 'int')
        if k == 'var':
            v = e[1]
            if v in env:
                return (lname(v), env[v])
            consts = self.spec.get('consts') or {}
            if v in consts:
                return consts[v]
            if v != self.spec.get('flag_const'):
                c = self.file_const(v, ln)
                if c is not None:
                    return c
            raise self.err(ln, f'unknown identifier `{v}`')
        if k == 'un' and e[1] == '*':
            d = self.spec.get('deref') or {}
            p = self._path(e[2])
            if p in d and d[p] in env:
                return (lname(d[p]), env[d[p]])
            raise self.err(ln, f'dereference of `{p}` (outside the subset)')
        if k == 'index' and self._path(e[1]) in (self.spec.get('list_fields') or {}):
            v = self.spec['list_fields'][self._path(e[1])]
            if env.get(v) != 'list':
                raise self.err(ln, f'`{v}` is not a modelled struct local here')
            a = self.coerce(self.expr(e[2], env, ln), 'int', ln)
            return (f'({lname(v)}.getD (Int.toNat ({a})) 0)', 'int')
        if k == 'index' and e[1][0] == 'var' and env.get(e[1][1]) == 'arr':
            a = self.coerce(self.expr(e[2], env, ln), 'int', ln)
            return (f'({lname(e[1][1])}.getD (Int.toNat ({a})) ({self.spec.get("arr_default", "0")}))', 'int')
        if k in ('index', 'mcall', 'member'):
            hit, key = self.accessor(e)
            if hit is None:
                raise self.err(ln, f'access `{key}` is not a configured read-only accessor (outside the subset)')
            (lean, kind), arg = hit
            if arg is None:
                return (lean, kind)
            a = self.coerce(self.expr(arg, env, ln), 'int', ln)
            return (f'({lean}.getD (Int.toNat ({a})) 0)', kind)
        if k == 'limits':
            if e[1] == 'T' or (e[1] is None):
                self.uses_dt = True
                if e[2] == 'is_signed':
                    return ('dt.signed', 'bool')
                return ('dt.lo' if e[2] == 'min' else 'dt.hi', 'T')
            if e[1] == 'int':
                consts = self.spec.get('int_limits')
                if consts and e[2] in consts:
                    return (consts[e[2]], 'int')
            raise self.err(ln, f'numeric_limits<{e[1]}>::{e[2]} (outside the subset)')
        if k == 'cast':
            want = e[1]
            a = self.expr(e[2], env, ln)
            if want == 'bool':
                return (self.coerce(a, 'prop', ln), 'prop')
            if want == 'F':
                return (self.toF(a, ln), 'F')
            if a[1] == 'F':
                if want != 'int':
                    raise self.err(ln, f'conversion of a floating value to {want} (outside the subset)')
                return (self.fop('trunc', ln, a=a[0]), 'int')
            return (self.coerce(a, want, ln), want)
        if k == 'cond':
            c = self.coerce(self.expr(e[1], env, ln), 'prop', ln)
            a, b = self.expr(e[2], env, ln), self.expr(e[3], env, ln)
            if 'F' in (a[1], b[1]):
                return (f'(if {c} then {self.toF(a, ln)} else {self.toF(b, ln)})', 'F')
            kind = self.join_kind(a[1], b[1], ln)
            if kind == 'prop':
                return (f'(if {c} then decide ({a[0]}) else decide ({b[0]})) = true', 'prop')
            return (f'(if {c} then {self.coerce(a, kind, ln)} else {self.coerce(b, kind, ln)})', kind)
        if k == 'un':
            a = self.expr(e[2], env, ln)
            if e[1] == '!':
                return (f'¬ {self.atom(self.coerce(a, "prop", ln))}', 'prop')
            if e[1] in ('-', '+'):
                if a[1] == 'F':
                    return (self.fop('neg', ln, a=a[0]) if e[1] == '-' else a[0], 'F')
                if a[1] == 'int':
                    return (f'(-{self.atom(a[0])})' if e[1] == '-' else a[0], 'int')
                if a[1] in ('T', 'Tx'):
                    return (f'(-{self.atom(a[0])})' if e[1] == '-' else a[0], 'Tx')
            raise self.err(ln, f'unary `{e[1]}` on a {a[1]} (outside the subset)')
        if k == 'bin':
            op = e[1]
            if op in ('&&', '||'):
                a = self.coerce(self.expr(e[2], env, ln), 'prop', ln)
                b = self.coerce(self.expr(e[3], env, ln), 'prop', ln)
                return (f'({a} {"∧" if op == "&&" else "∨"} {b})', 'prop')
            a, b = self.expr(e[2], env, ln), self.expr(e[3], env, ln)
            if 'F' in (a[1], b[1]):
                x, y = self.toF(a, ln), self.toF(b, ln)
                name = {'+': 'add', '-': 'sub', '*': 'mul', '/': 'div', '<': 'lt', '>': 'gt', '<=': 'le', '>=': 'ge', '==': 'eq',
                        '!=': 'ne'}.get(op)
                if name is None:
                    raise self.err(ln, f'`{op}` on a floating value (outside the subset)')
                return (self.fop(name, ln, a=x, b=y), 'prop' if name in ('lt', 'gt', 'le', 'ge', 'eq', 'ne') else 'F')
            if op in ('==', '!=', '<', '<=', '>', '>='):
                self.check_comparable(a, b, ln)
                lop = {'==': '=', '!=': '≠', '<': '<', '<=': '≤', '>': '>', '>=': '≥'}[op]
                if 'u32' in (a[1], b[1]):
                    x, y = self.coerce(a, 'u32', ln), self.coerce(b, 'u32', ln)
                    return (f'({x} {lop} {y})', 'prop')
                if a[1] in ('prop', 'bool') or b[1] in ('prop', 'bool'):
                    if op not in ('==', '!='):
                        raise self.err(ln, 'ordering of booleans (outside the subset)')
                    x, y = self.coerce(a, 'bool', ln), self.coerce(b, 'bool', ln)
                    return (f'({x} {lop} {y})', 'prop')
                return (f'({a[0]} {lop} {b[0]})', 'prop')
            if op in ('>>', '<<', '&', '|', '^') :
                if a[1] != 'u32':
                    raise self.err(ln, f'`{op}` on a {a[1]} (bit operations are translated for 32-bit unsigned values only)')
                if op in ('&', '|', '^'):
                    y = self.coerce(b, 'u32', ln)
                    lop = {'&': '&&&', '|': '|||', '^': '^^^'}[op]
                    return (f'({a[0]} {lop} {y})', 'u32')
                n = self.coerce(b, 'int', ln)
                cnt = n if re.fullmatch(r'\d+', n) and int(n) < 32 else f'(Int.toNat ({n} % 32))'
                if not re.fullmatch(r'\d+', n):
                    self.assumptions.append(f'line {ln}: shift count `{n}` taken mod 32 (what the x86 shift does; outside [0, 32) it is undefined in C++)')
                if op == '>>':
                    return (f'({a[0]} >>> {cnt})', 'u32')
                return (f'(({a[0]} <<< {cnt}) % 4294967296)', 'u32')
            if op in ('+', '-', '*', '/', '%'):
                if 'u32' in (a[1], b[1]):
                    raise self.err(ln, f'arithmetic `{op}` on a 32-bit unsigned value (outside the subset)')
                kind = self.arith_kind(a, b, ln)
                if kind == 'elem':
                    return ('()', 'elem')          # trace mode: element values are opaque
                x = a[0] if a[1] != 'prop' else self.coerce(a, 'int', ln)
                y = b[0] if b[1] != 'prop' else self.coerce(b, 'int', ln)
                if kind == 'ptr' and op not in ('+', '-'):
                    raise self.err(ln, f'`{op}` on a pointer (outside the subset)')
                if op == '/':
                    if kind != 'int':
                        raise self.err(ln, 'division in a template type (outside the subset)')
                    return (f'(Int.tdiv {self.atom(x)} {self.atom(y)})', 'int')
                if op == '%':
                    if kind != 'int':
                        raise self.err(ln, 'remainder in a template type (outside the subset)')
                    return (f'(Int.tmod {self.atom(x)} {self.atom(y)})', 'int')
                return (f'({x} {op} {y})', kind)
            raise self.err(ln, f'operator `{op}` (outside the subset)')
        if k == 'call':
            name, targ, args = e[1], e[2], e[3]
            base = name.split('::')[-1]
            acc = self.spec.get('accessors') or {}
            if name + '()' in acc and len(args) <= 1:
                lean, kind = acc[name + '()']
                if not args:
                    return (lean, kind)
                a = self.coerce(self.expr(args[0], env, ln), 'int', ln)
                return (f'({lean}.getD (Int.toNat ({a})) 0)', kind)
            if name in ('std::min', 'std::max', 'min', 'max') and len(args) == 2:
                a, b = self.expr(args[0], env, ln), self.expr(args[1], env, ln)
                kind = targ or self.join_kind(a[1], b[1], ln)
                if kind not in ('int', 'T'):
                    raise self.err(ln, f'{name} on {kind} (outside the subset)')
                return (f'({base} {self.atom(self.coerce(a, kind, ln))} {self.atom(self.coerce(b, kind, ln))})', kind)
            if base in ('fabs', 'floor', 'ceil', 'sqrt') and len(args) == 1 and self.spec.get('float'):
                a = self.expr(args[0], env, ln)
                return (self.fop(base, ln, a=self.toF(a, ln)), 'F')
            if name in ('std::abs', 'abs', 'std::labs', 'labs') and len(args) == 1:
                a = self.expr(args[0], env, ln)
                if a[1] != 'int':
                    raise self.err(ln, 'abs on a non-index type (outside the subset)')
                return (f'((Int.natAbs {self.atom(a[0])} : Nat) : Int)', 'int')
            if base in self.known:
                f = self.known[base]
                if len(args) != len(f['params']):
                    raise self.err(ln, f'call of {base} with {len(args)} arguments')
                tkind = None
                if f['dt'] == 'T-as-arg':      # a template instantiated at the argument's type
                    ks = [self.expr(a, env, ln)[1] for a in args]
                    tkind = 'int' if all(x == 'int' for x in ks) else None
                    if tkind is None:
                        raise self.err(ln, f'call of template {base} at a non-index type (outside the subset)')
                outs = []
                for a, pk in zip(args, f['params']):
                    outs.append(self.atom(self.coerce(self.expr(a, env, ln), pk if tkind is None else 'int', ln)))
                self.calls.add(base)
                pre = ''
                if f['dt'] is True:
                    self.uses_dt = True
                    pre = 'dt '
                return (f'({f["lean"]} {pre}{" ".join(outs)})', f['ret'] if tkind is None else 'int')
            h = self.helper(base, ln)
            if len(args) != len(h['params']):
                raise self.err(ln, f'call of {base} with {len(args)} arguments')
            outs = [self.atom(self.coerce(self.expr(a, env, ln), pk, ln)) for a, pk in zip(args, h['params'])]
            return (f'({h["lean"]} {" ".join(outs)})', h['ret'])
        raise self.err(ln, f'expression form `{k}` (outside the subset)')

    def helper(self, base, ln):
        """a plain (non-template) function of the same file called by the function being translated: translated on demand
        into a local function (`let h := fun … => …`) at the top of the generated definition"""
        if base in self.aux_info:
            return self.aux_info[base]
        if self.repo is None or base in self.stack or len(self.stack) >= 4:
            raise self.err(ln, f'call of `{base}` (outside the subset)')
        fname = self.spec['file']
        allf = find_functions(fname, (self.repo / fname).read_text(), base)
        fs = [f for f in allf if f.template is None]
        ftypes = set(self.spec.get('float') or [])
        if not fs and ftypes:           # `template <typename FT> FT h(FT x)` called at the floating type
            for f in allf:
                if f.template is not None and f.template[1] > f.template[0] + 2:
                    names = [t.text for t in f.toks[f.template[0] + 2:f.template[1]] if t.kind == 'id' and t.text not in ('typename', 'class')]
                    if len(names) == 1:
                        fs.append(f)
                        ftypes = ftypes | set(names)
        if len(fs) != 1:
            raise self.err(ln, f'call of `{base}`: {len(fs)} plain definitions in {fname} (outside the subset)')
        f = fs[0]
        where = f'{fname}: {base} (helper of {self.spec["func"]})'

        def kind_of(ty):
            tyn = ''.join(w for w in ty.split() if w not in ('const', '&', 'inline', 'static'))
            if tyn in INT_TYPES or tyn.replace('numpy::', '') in INT_TYPES or tyn in self.spec.get('enum_types', ()):
                return 'int'
            if tyn == 'bool':
                return 'bool'
            if tyn in U32_TYPES:
                return 'u32'
            if tyn in ftypes:
                return 'F'
            raise TranslationError(f'{where}: type `{ty}` (outside the subset)')
        params = []
        for ty, n in c_params(f):
            if n is None:
                raise TranslationError(f'{where}: unnamed parameter')
            params.append((n, kind_of(ty)))
        ret = kind_of(' '.join(t.text for t in f.ret_toks))
        pr = Parser(f.body_toks, where, tparams={}, enums=self.enums)
        pr.float_types, pr.allow_float = set(ftypes), bool(ftypes)
        body = pr.block()
        sub = Translator(where, dict(file=fname, func=base, ret_kind=ret, enum_types=self.spec.get('enum_types', ()),
                                     float=sorted(ftypes), fops=self.spec.get('fops')), self.known)
        sub.repo, sub.aux, sub.aux_info, sub.stack, sub.enums = self.repo, self.aux, self.aux_info, self.stack + [base], self.enums

        def fell(env2, ind2):
            raise TranslationError(f'{where}: control reaches the end of the function without `return`')
        term = sub.stmts(body, {n: kd for n, kd in params}, fell, 3)
        lean = f'{base}_' if base in LEAN_KEYWORDS else base
        binders = ' '.join(f'({lname(n)} : {self.lean_type(kd)})' for n, kd in params)
        # a local function of the generated definition (so that `unfold` + `simp only` in the ties see through it)
        lines = [f'  -- helper `{base}` — {fname} lines {f.line0}–{f.line1}, sha256 of the token text {f.hash}',
                 f'  let {lean} := fun {binders} =>', term]
        self.aux.append((lean, lines))
        self.asserts += sub.asserts
        self.assumptions += sub.assumptions
        self.aux_info[base] = dict(lean=lean, params=[kd for _, kd in params], ret=ret)
        return self.aux_info[base]

    def file_const(self, v, ln):
        """`[static] const <type> v = <expr>;` at file scope of the function's file -> (lean text, kind)"""
        if self.repo is None:
            return None
        fname = self.spec['file']
        toks = tokenize((self.repo / fname).read_text(), fname)
        for i, t in enumerate(toks):
            if t.kind == 'id' and t.text == v and i + 1 < len(toks) and toks[i + 1].text == '=' and i >= 2:
                a = i
                while a > 0 and not (toks[a - 1].kind == 'pp' or (toks[a - 1].kind == 'op' and toks[a - 1].text in (';', '{', '}'))):
                    a -= 1
                head = [x.text for x in toks[a:i]]
                if 'const' not in head or enclosing_namespaces(toks, i, strict=True) is None:
                    continue
                j = i + 2
                while j < len(toks) and toks[j].text != ';':
                    j += 1
                pr = Parser(toks[i + 2:j], f'{fname}: constant {v}', tparams={}, enums=self.enums)
                e = pr.expr()
                if pr.i != len(pr.toks):
                    continue
                val = self.expr(e, {}, ln)
                if val[1] != 'int':
                    raise self.err(ln, f'constant `{v}` is not an integer constant (outside the subset)')
                return val
        return None

    @staticmethod
    def atom(t):
        if re.fullmatch(r'[\w\.]+', t) or (t.startswith('(') and t.endswith(')') and Translator._balanced(t)):
            return t
        return f'({t})'

    @staticmethod
    def _balanced(t):
        d = 0
        for i, c in enumerate(t):
            if c == '(':
                d += 1
            elif c == ')':
                d -= 1
                if d == 0 and i != len(t) - 1:
                    return False
        return d == 0

    def is_small_lit(self, a):
        return a[1] == 'int' and re.fullmatch(r'[01]', a[0]) is not None

    def check_comparable(self, a, b, ln):
        ks = (a[1], b[1])
        if 'Tx' in ks:
            raise self.err(ln, f'comparison of an unreduced arithmetic result in a template type (`{a[0]}` vs `{b[0]}`): '
                               'integer promotion would be visible (outside the subset)')
        if 'T' in ks and ks != ('T', 'T'):
            o = b if a[1] == 'T' else a
            if not self.is_small_lit(o):
                raise self.err(ln, f'comparison between a template-type value and `{o[0]}` (outside the subset)')

    def arith_kind(self, a, b, ln):
        ks = {a[1], b[1]}
        if 'elem' in ks and ks <= {'elem', 'int'}:
            return 'elem'
        if ks <= {'int', 'prop'}:
            return 'int'
        if a[1] == 'ptr' and b[1] == 'int':
            return 'ptr'
        if 'bool' in ks:
            raise self.err(ln, 'arithmetic on a bool variable (outside the subset)')
        if ks & {'T', 'Tx'}:
            for x in (a, b):
                if x[1] == 'int' and not re.fullmatch(r'\d+', x[0]):
                    raise self.err(ln, f'mixed arithmetic between a template-type value and the index expression `{x[0]}` '
                                       '(outside the subset)')
            return 'Tx'
        raise self.err(ln, f'arithmetic on {sorted(ks)} (outside the subset)')

    def join_kind(self, a, b, ln):
        if a == b:
            return 'T' if a == 'Tx' and False else a
        s = {a, b}
        if s <= {'prop', 'bool'}:
            return 'prop'
        if s <= {'T', 'Tx'}:
            return 'Tx'
        if s <= {'int', 'T'} or s <= {'int', 'Tx'}:
            return 'T' if 'T' in s else 'Tx'
        raise self.err(ln, f'branches of different kinds {a} / {b} (outside the subset)')

    # ---- statements (continuation style)
    def lvalue(self, e, env, ln):
        if e[0] == 'var' and e[1] in env:
            return e[1]
        if e[0] == 'index' and self._path(e[1]) in (self.spec.get('list_fields') or {}):
            return self.spec['list_fields'][self._path(e[1])]
        if e[0] == 'index' and e[1][0] == 'var' and env.get(e[1][1]) == 'arr':
            return e[1][1]
        if self._path(e) in (self.spec.get('ignored_assign') or {}):
            return None
        if self.write_key(e) is not None:
            return None
        if e[0] == 'un' and e[1] == '*':
            d = self.spec.get('deref') or {}
            p = self._path(e[2])
            if p in d and d[p] in env:
                return d[p]
        raise self.err(ln, f'assignment to `{self._path(e)}` (outside the subset: only local scalars are assigned)')

    def state_call(self, e):
        """`e` is a direct call of a translated function that takes (and returns) an array state -> its entry, else None"""
        if isinstance(e, tuple) and e and e[0] == 'call':
            f = self.known.get(e[1].split('::')[-1])
            if f is not None and f.get('arr'):
                return f
        return None

    def state_args(self, e, env):
        f = self.state_call(e)
        if f is None:
            return []
        return [a[1] for a, pk in zip(e[3], f['params']) if pk == 'arr' and a[0] == 'var']

    def emit_state_call(self, e, env, ln, target):
        """Lean text binding the results of the state-passing call `e`: the array argument is rebound to the returned state and
        `target` (a variable name or None) to the returned value"""
        f = self.state_call(e)
        if len(e[3]) != len(f['params']):
            raise self.err(ln, f'call of {e[1]} with {len(e[3])} arguments')
        arrs, outs = [], []
        for a, pk in zip(e[3], f['params']):
            if pk == 'arr':
                if a[0] != 'var' or env.get(a[1]) != 'arr':
                    raise self.err(ln, f'call of {e[1]}: the array argument must be an array variable')
                arrs.append(a[1])
                outs.append(lname(a[1]))
            else:
                if self.state_call(a) is not None:
                    raise self.err(ln, 'nested state-passing calls (outside the subset)')
                outs.append(self.atom(self.coerce(self.expr(a, env, ln), pk, ln)))
        if len(arrs) != 1:
            raise self.err(ln, f'call of {e[1]}: exactly one array argument expected')
        self.uses_fuel = True
        self.calls.add(e[1].split('::')[-1])
        call = f'{f["lean"]} fuel {" ".join(outs)}'
        if f['ret'] == 'void':
            if target is not None:
                raise self.err(ln, f'{e[1]} returns nothing')
            return f'let {lname(arrs[0])} : Array Int := {call}'
        if target is None:
            return f'let {lname(arrs[0])} : Array Int := ({call}).1'
        return f'let ({lname(arrs[0])}, {lname(target)}) := {call}'

    uses_fuel = False

    def write_key(self, e):
        """trace mode: the key of the lvalue `e` when it is a configured (recorded) element write"""
        tr = self.spec.get('trace') or {}
        if isinstance(e, tuple) and e and e[0] == 'mcall':
            key = self._path(e[1]) + '.' + e[2] + '()'
            if key in (tr.get('writes') or []):
                return key
        return None

    def assigned(self, stmts, env, acc=None, local=None):
        """outer variables assigned by the statements, in first-assignment order (trace mode: the trace `acc_` is one of them
        when the statements append to it)"""
        acc = [] if acc is None else acc
        local = set() if local is None else local
        for s in stmts:
            k = s[0]
            if self.spec.get('trace') and 'acc_' not in acc and self.has_events(s):
                acc.append('acc_')
            if k == 'assign':
                for w in self.state_args(s[3], {**env, **{x: 'int' for x in local}}):
                    if w not in local and w not in acc:
                        acc.append(w)
                v = self.lvalue(s[2], {**env, **{x: 'int' for x in local}}, s[-1])
                if v is not None and v not in local and v not in acc:
                    acc.append(v)
            elif k == 'decl':
                for v, init in s[2]:
                    for w in self.state_args(init, {**env, **{x: 'int' for x in local}}):
                        if w not in local and w not in acc:
                            acc.append(w)
                    local.add(v)
            elif k == 'callstmt':
                for w in self.state_args(s[1], {**env, **{x: 'int' for x in local}}):
                    if w not in local and w not in acc:
                        acc.append(w)
            elif k == 'structdecl':
                local.add(s[2])
            elif k == 'block':
                self.assigned(s[1], env, acc, set(local))
            elif k == 'if':
                self.assigned([s[2]], env, acc, set(local))
                if s[3] is not None:
                    self.assigned([s[3]], env, acc, set(local))
            elif k == 'for':
                self.assigned([s[6]], env, acc, set(local) | {s[2]})
            elif k == 'while':
                self.assigned([s[2]], env, acc, set(local))
            elif k == 'switch':
                for _, body in s[2]:
                    self.assigned(body, env, acc, set(local))
        return acc

    def tuple_of(self, vs):
        if len(vs) == 1:
            return lname(vs[0])
        return '(' + ', '.join(lname(v) for v in vs) + ')'

    @staticmethod
    def mentions(x, v):
        if isinstance(x, tuple):
            if len(x) >= 2 and x[0] == 'var' and x[1] == v:
                return True
            return any(Translator.mentions(y, v) for y in x)
        if isinstance(x, list):
            return any(Translator.mentions(y, v) for y in x)
        return False

    def countdown(self, s, rest, env):
        """`while (v > c) { --v; BODY }` where BODY does not assign `v` and `v` is not used after the loop is the loop
        `for (v' = v - 1; v' >= c; --v') BODY` (same sequence of values of `v` inside BODY, same number of iterations)"""
        _, cond, body, ln = s
        if not (cond[0] == 'bin' and cond[1] in ('>', '>=') and cond[2][0] == 'var' and env.get(cond[2][1]) == 'int'):
            raise self.err(ln, '`while` loop that is not of the count-down form `while (v > c) { --v; … }` (outside the subset)')
        v = cond[2][1]
        stm = body[1] if body[0] == 'block' else [body]
        first = stm[0] if stm else None
        if not (first is not None and first[0] == 'assign' and first[1] == '-=' and first[2] == ('var', v) and first[3] == ('int', 1)):
            raise self.err(ln, f'`while` loop whose body does not start with `--{v};` (outside the subset)')
        tail = stm[1:]
        if v in self.assigned(tail, env):
            raise self.err(ln, f'`while` loop: `{v}` is assigned again in the body (outside the subset)')
        if self.mentions(rest, v):
            raise self.err(ln, f'`while` loop: the counter `{v}` is used after the loop (outside the subset)')
        if self.mentions(cond[3], v):
            raise self.err(ln, '`while` loop: the bound mentions the counter')
        bound = cond[3] if cond[1] == '>' else ('bin', '-', cond[3], ('int', 1))
        return ('for', 'int', v, ('bin', '-', ('var', v), ('int', 1)), ('bin', '>=', ('var', v), bound),
                [('preinc', '--', ('var', v))], ('block', tail, ln), ln, 'rebind')

    def has_continue(self, s):
        if s[0] == 'continue':
            return True
        if s[0] == 'block':
            return any(self.has_continue(x) for x in s[1])
        if s[0] == 'if':
            return self.has_continue(s[2]) or (s[3] is not None and self.has_continue(s[3]))
        return False                                    # an inner loop owns its own `continue`s

    def subst_continue(self, s, lab):
        if s[0] == 'continue':
            return ('goto', lab, s[-1])
        if s[0] == 'block':
            return ('block', [self.subst_continue(x, lab) for x in s[1]], s[-1])
        if s[0] == 'if':
            return ('if', s[1], self.subst_continue(s[2], lab), None if s[3] is None else self.subst_continue(s[3], lab), s[-1])
        return s

    # -- `goto L` to a label at the END of an enclosing block (`… goto L; … L: ; }` — "leave the rest of this block")
    def may_goto(self, x, lab):
        if isinstance(x, tuple):
            if len(x) == 3 and x[0] == 'goto' and x[1] == lab:
                return True
            return any(self.may_goto(y, lab) for y in x)
        if isinstance(x, list):
            return any(self.may_goto(y, lab) for y in x)
        return False

    def guard_list(self, ss, lab, flag):
        """the statements `ss` with every `goto lab` replaced by `flag = true` and everything that would be executed after
        such a jump (the rest of each enclosing statement list, the remaining iterations of each enclosing loop) put under
        `if (!flag)`: the same effects as the jump to the end of the block"""
        out = []
        for i, s in enumerate(ss):
            out.append(self.guard_stmt(s, lab, flag))
            if self.may_goto(s, lab) and i + 1 < len(ss):
                ln = ss[i + 1][7] if ss[i + 1][0] == 'for' else ss[i + 1][-1]
                rest = self.guard_list(ss[i + 1:], lab, flag)
                out.append(('if', ('un', '!', ('var', flag)), ('block', rest, ln), None, ln))
                break
        return out

    def guard_stmt(self, s, lab, flag):
        k = s[0]
        ln = s[7] if k == 'for' else s[-1]
        if not self.may_goto(s, lab):
            return s
        if k == 'goto':
            return ('assign', '=', ('var', flag), ('boollit', True), ln)
        if k == 'block':
            return ('block', self.guard_list(s[1], lab, flag), ln)
        if k == 'if':
            return ('if', s[1], self.guard_stmt(s[2], lab, flag), None if s[3] is None else self.guard_stmt(s[3], lab, flag), ln)
        if k == 'for':
            body = self.guard_stmt(s[6], lab, flag)
            body = ('block', [('if', ('un', '!', ('var', flag)), body, None, ln)], ln)
            return s[:6] + (body,) + s[7:]
        raise self.err(ln, f'`goto {lab}` inside a `{k}` statement (outside the subset)')

    def label_region(self, ss, env):
        """a statement list that ends in `L: ;` → the list with the jumps to `L` expressed through a flag"""
        idx = next((i for i, s in enumerate(ss) if s[0] == 'label'), None)
        if idx is None:
            return ss
        lab, ln = ss[idx][1], ss[idx][2]
        if any(not (s[0] == 'block' and not s[1]) for s in ss[idx + 1:]):
            raise self.err(ln, f'label `{lab}` is not at the end of its block (outside the subset)')
        region = ss[:idx]
        if any(s[0] == 'label' for s in region):
            raise self.err(ln, 'two labels in one block (outside the subset)')
        if not self.may_goto(region, lab):
            return region
        flag = 'brk_' + lab
        if flag in env or self.mentions(region, flag):
            raise self.err(ln, f'the name `{flag}` is in use')
        return [('decl', 'bool', [(flag, ('boollit', False))], ln)] + self.guard_list(region, lab, flag)

    def stmts(self, ss, env, k, ind):
        if ss and any(s[0] == 'label' for s in ss):
            ss = self.label_region(ss, env)
        if not ss:
            return k(env, ind)
        s, rest = ss[0], ss[1:]
        if s[0] == 'while' and self.spec.get('while_fuel'):
            return self.while_fuel(s, env, lambda env2, ind2: self.stmts(rest, env2, k, ind2), ind)
        if s[0] == 'while':
            s = self.countdown(s, rest, env)
        return self.stmt(s, env, lambda env2, ind2: self.stmts(rest, env2, k, ind2), ind)

    def while_fuel(self, s, env, k, ind):
        """`while (c) BODY` -> `whileFuel fuel (fun st => decide c) (fun st => BODY; st) st` with the variables BODY assigns as
        the state `st`: the loop as long as it ends within `fuel` iterations (then the state after `fuel` iterations)"""
        _, cond, body, ln = s
        pad = '  ' * ind
        if _stmts_return([body]):
            raise self.err(ln, '`return`/`break` inside a `while` body (outside the subset)')
        if self.has_events(cond) or self.reads_in(cond):
            raise self.err(ln, 'array read of a traced array in a loop condition (outside the subset)')
        vs = self.assigned([body], env)
        if not vs:
            raise self.err(ln, '`while` loop whose body assigns nothing (outside the subset)')
        tup = self.tuple_of(vs)
        c = self.coerce(self.expr(cond, env, ln), 'prop', ln)
        was = self.in_loop
        self.in_loop = True
        tb = self.stmts([body], dict(env), lambda env2, ind2: '  ' * ind2 + tup, ind + 2)
        self.in_loop = was
        self.uses_fuel = True
        self.assumptions.append(f'line {ln}: the `while` loop ends within `fuel` iterations (otherwise: the state after `fuel` iterations)')
        return (f'{pad}let {tup} := whileFuel fuel (fun {tup} => decide {c}) (fun {tup} =>\n{tb}) {tup}\n' + k(env, ind))

    def stmt(self, s, env, k, ind):
        """Lean term (text, each line indented by `ind`) for `s; <continuation k>`"""
        kind = s[0]
        ln = s[7] if kind == 'for' else s[-1]
        pad = '  ' * ind
        if kind == 'block':
            outer = dict(env)

            def after(env2, ind2):
                return k({v: kk for v, kk in env2.items() if v in outer}, ind2)
            return self.stmts(s[1], dict(env), after, ind)
        if kind == 'assert':
            self.asserts.append(f'line {ln}')
            return k(env, ind)
        if kind == 'ignored':
            self.ignored.append(f'line {ln} `{s[1]}`')
            return k(env, ind)
        if kind == 'continue':
            raise self.err(ln, '`continue` outside the body of a translated `for` loop (outside the subset)')
        if kind == 'push':
            tr = self.spec.get('trace') or {}
            key = self._path(s[1][1]) + '.push_back()'
            if key not in (tr.get('pushes') or []):
                raise self.err(ln, f'`{key}` is not a configured recorded container (outside the subset)')
            if self.has_events(s[1][3]) or self.reads_in(s[1][3]):
                raise self.err(ln, 'trace mode: a recorded value must read no array')
            val = self.coerce(self.expr(s[1][3][0], env, ln), 'int', ln)
            return f'{pad}let acc_ : List ({self.etype()}) := acc_ ++ [{val}]\n' + k(env, ind)
        if kind == 'goto':
            raise self.err(ln, f'`goto {s[1]}`: the label is not at the end of an enclosing block of the function (outside the subset)')
        if kind == 'label':
            raise self.err(ln, f'label `{s[1]}` in a position that is not the end of a block (outside the subset)')
        if kind == 'return':
            if self.in_loop:
                raise self.err(ln, '`return` inside a loop body (outside the subset)')
            if s[1] is None and self.spec.get('trace') and self.spec.get('void'):
                return pad + 'acc_'
            if s[1] is None:
                raise self.err(ln, '`return;` without a value')
            if self.spec.get('trace'):
                if self.expr(s[1], env, ln)[1] != 'elem':
                    raise self.err(ln, 'trace mode: the function must return an element value')
                return self.trace_pre([s[1]], env, ln, pad) + pad + 'acc_'
            return pad + self.ret(s[1], env, ln)
        if kind == 'decl':
            out = []
            env = dict(env)
            for v, init in s[2]:
                if v in env:
                    raise self.err(ln, f'declaration of `{v}` shadows a variable of an enclosing scope (outside the subset)')
                pre = self.trace_pre([init], env, ln, pad)
                if pre:
                    out.append(pre.rstrip('\n'))
                if self.state_call(init) is not None:
                    if s[1] != 'int':
                        raise self.err(ln, 'result of a state-passing call stored in a non-integer')
                    out.append(pad + self.emit_state_call(init, env, ln, v))
                    env[v] = 'int'
                    continue
                if s[1] == 'elem':
                    if self.expr(init, env, ln)[1] not in ('elem', 'int'):
                        raise self.err(ln, 'initialiser of an element value')
                    env[v] = 'elem'
                    continue
                if self._path(init) != '?':
                    self.alias[v] = self._path(init)
                kd = 'bool' if s[1] == 'bool' and not self.spec.get('bool_as_T') else ('T' if s[1] == 'bool' else s[1])
                if kd == 'elem':
                    raise self.err(ln, 'declaration of an array element value (outside the subset)')
                val = self.coerce(self.expr(init, env, ln), kd, ln)
                env[v] = kd
                out.append(f'{pad}let {lname(v)} : {self.lean_type(kd)} := {val}')
            return ('\n'.join(out) + '\n' if out else '') + k(env, ind)
        if kind == 'structdecl':
            sl = (self.spec.get('struct_locals') or {}).get(s[2])
            if sl is None or sl[0] != s[1]:
                raise self.err(ln, f'local `{s[1]} {s[2]}` is not a configured struct local (outside the subset)')
            if s[2] in env:
                raise self.err(ln, f'declaration of `{s[2]}` shadows a variable (outside the subset)')
            env = dict(env)
            env[s[2]] = 'list'
            return f'{pad}let {lname(s[2])} : List Int := {sl[1]}\n' + k(env, ind)
        if kind == 'callstmt':
            if self.state_call(s[1]) is None:
                raise self.err(ln, f'call statement of `{s[1][1]}` (outside the subset)')
            return pad + self.emit_state_call(s[1], env, ln, None) + '\n' + k(env, ind)
        if kind == 'assign' and self.state_call(s[3]) is not None:
            if s[1] != '=' or s[2][0] != 'var' or env.get(s[2][1]) != 'int':
                raise self.err(ln, 'result of a state-passing call must be assigned to an integer variable')
            return pad + self.emit_state_call(s[3], env, ln, s[2][1]) + '\n' + k(env, ind)
        if kind == 'assign' and s[2][0] == 'index' and s[2][1][0] == 'var' and env.get(s[2][1][1]) == 'arr':
            v = s[2][1][1]
            ix = self.coerce(self.expr(s[2][2], env, ln), 'int', ln)
            rhs = s[3] if s[1] == '=' else ('bin', s[1][0], s[2], s[3])
            val = self.coerce(self.expr(rhs, env, ln), 'int', ln)
            return f'{pad}let {lname(v)} : Array Int := {lname(v)}.setIfInBounds (Int.toNat ({ix})) {self.atom(val)}\n' + k(env, ind)
        if kind == 'assign' and self.write_key(s[2]) is not None:
            if s[1] != '=' or self.has_events(s[3]) or self.reads_in(s[3]) or self.has_events(list(s[2][3])) or self.reads_in(list(s[2][3])):
                raise self.err(ln, 'trace mode: a recorded write must be a plain store of a value that reads no array')
            ev = self.event(self.write_key(s[2]), self.spec['trace']['writes'], s[2][3], env, ln)
            return f'{pad}let acc_ : List ({self.etype()}) := acc_ ++ {ev}\n' + k(env, ind)
        if kind == 'assign':
            if self.trace_pre([s[3]], env, ln, pad):
                raise self.err(ln, 'trace mode: array read in an assignment (outside the subset)')
            tp = self._path(s[2])
            if tp in (self.spec.get('ignored_assign') or {}):
                want = self.spec['ignored_assign'][tp]
                got = self._path(s[3])
                got = self.alias.get(got, got)
                if s[1] != '=' or got != want:
                    raise self.err(ln, f'`{tp}` must be assigned `{want}` (it fixes the length of the modelled list)')
                return k(env, ind)
            if s[2][0] == 'index' and self._path(s[2][1]) in (self.spec.get('list_fields') or {}):
                v = self.spec['list_fields'][self._path(s[2][1])]
                if env.get(v) != 'list':
                    raise self.err(ln, f'`{v}` is not a modelled struct local here')
                ix = self.coerce(self.expr(s[2][2], env, ln), 'int', ln)
                rhs = s[3] if s[1] == '=' else ('bin', s[1][0], s[2], s[3])
                val = self.coerce(self.expr(rhs, env, ln), 'int', ln)
                return f'{pad}let {lname(v)} : List Int := {lname(v)}.set (Int.toNat ({ix})) {self.atom(val)}\n' + k(env, ind)
            v = self.lvalue(s[2], env, ln)
            self.alias.pop(v, None)
            kd = env[v]
            rhs = s[3]
            if s[1] != '=':
                rhs = ('bin', s[1][0], ('var', v), rhs)
            val = self.coerce(self.expr(rhs, env, ln), kd, ln)
            return f'{pad}let {lname(v)} : {self.lean_type(kd)} := {val}\n' + k(env, ind)
        if kind == 'if' and self.spec.get('trace') and self.reads_in(s[1]):
            # a condition on element values (opaque): an oracle parameter decides it, or — `opaque_if='never'` — it is taken to
            # be false and the statement must do nothing but leave a block (the trace is then the longest one: a superset)
            tr = self.spec['trace']
            pre = self.trace_pre([s[1]], env, ln, pad)
            if tr.get('oracle') and tr['oracle'][1] == 'truth':
                name, _, n = tr['oracle']
                c, neg = s[1], False
                while c[0] == 'un' and c[1] == '!':
                    c, neg = c[2], not neg
                if not self.read_key(c) or len(c[3]) != n or self.reads_in(list(c[3])):
                    raise self.err(ln, 'trace mode: a condition on an element value must be `read` / `!read`')
                ix = [self.atom(self.coerce(self.expr(a, env, ln), 'int', ln)) for a in c[3]]
                test = f'({name} {" ".join(ix)} = true)'
                if neg:
                    test = f'¬ {test}'
                return pre + self.stmt(('if', ('lean', test), s[2], s[3], ln), env, k, ind)
            if tr.get('oracle'):
                name, op, n = tr['oracle']
                c = s[1]
                if not (c[0] == 'bin' and c[1] in ('!=', '==') and self.read_key(c[2]) and self.read_key(c[3])):
                    raise self.err(ln, 'trace mode: a condition on element values must be `read != read` / `read == read`')
                ix = [self.atom(self.coerce(self.expr(a, env, ln), 'int', ln)) for r in (c[2], c[3]) for a in r[3]]
                if len(ix) != n or self.reads_in([a for r in (c[2], c[3]) for a in r[3]]):
                    raise self.err(ln, f'trace mode: the element comparison has {len(ix)} index arguments, the oracle takes {n}')
                test = f'({name} {" ".join(ix)} = true)'
                if (c[1] == '==') != (op == '=='):
                    test = f'¬ {test}'
                return pre + self.stmt(('if', ('lean', test), s[2], s[3], ln), env, k, ind)
            if tr.get('opaque_if') == 'never':
                body = s[2][1] if s[2][0] == 'block' else [s[2]]
                if s[3] is not None or not body or any(b[0] != 'assign' or b[2][0] != 'var' or not b[2][1].startswith('brk_') for b in body):
                    raise self.err(ln, 'trace mode: a statement under a condition on element values must only leave a block (`goto`)')
                self.assumptions.append(f'line {ln}: the data-dependent exit is never taken (the trace is the longest one)')
                return pre + k(env, ind)
            raise self.err(ln, 'trace mode: array read in a condition (outside the subset)')
        if kind == 'if':
            if self.trace_pre([s[1]], env, ln, pad):
                raise self.err(ln, 'trace mode: array read in a condition (outside the subset)')
            c = self.coerce(self.expr(s[1], env, ln), 'prop', ln)
            a = [s[2]]
            b = [s[3]] if s[3] is not None else []
            if _stmts_return(a) or _stmts_return(b):
                scoped = lambda env2, ind2: k({v: kk for v, kk in env2.items() if v in env}, ind2)
                ta = self.stmts(a, dict(env), scoped, ind + 1)
                tb = self.stmts(b, dict(env), scoped, ind + 1)
                return f'{pad}if {c} then\n{ta}\n{pad}else\n{tb}'
            vs = self.assigned(a + b, env)
            if not vs:
                # no effect in the subset (asserts only) — the branches are still translated, so that a construct outside
                # the subset in them is reported
                self.stmts(a, dict(env), lambda env2, ind2: '()', ind + 2)
                self.stmts(b, dict(env), lambda env2, ind2: '()', ind + 2)
                return k(env, ind)
            tup = self.tuple_of(vs)
            fin = lambda env2, ind2: '  ' * ind2 + tup
            ta = self.stmts(a, dict(env), fin, ind + 2)
            tb = self.stmts(b, dict(env), fin, ind + 2)
            return (f'{pad}let {tup} :=\n{pad}  if {c} then\n{ta}\n{pad}  else\n{tb}\n' + k(env, ind))
        if kind == 'switch':
            sel = self.coerce(self.expr(s[1], env, ln), 'int', ln)
            out = []
            default = None
            scoped = lambda env2, ind2: k({v: kk for v, kk in env2.items() if v in env}, ind2)

            def fall(env2, ind2):
                raise self.err(ln, 'a case group of the switch falls through into the next one (outside the subset)')
            first = True
            for labels, body in s[2]:
                if body and body[-1][0] == 'break':
                    body, cont = body[:-1], scoped
                else:
                    cont = fall
                if any(_has_break(b) for b in body):
                    raise self.err(ln, '`break` inside a case body other than as its last statement (outside the subset)')
                if None in labels:
                    if len(labels) > 1:
                        raise self.err(ln, '`default:` sharing a group with case labels (outside the subset)')
                    default = (body, cont)
                    continue
                tests = []
                for lab in labels:
                    if lab[0] not in ('enum', 'int'):
                        raise self.err(ln, 'case label that is not an enum constant / integer literal')
                    tests.append(f'{sel} = {lab[2] if lab[0] == "enum" else lab[1]}')
                test = tests[0] if len(tests) == 1 else '(' + ' ∨ '.join(tests) + ')'
                tb = self.stmts(body, dict(env), cont, ind + 1)
                out.append(f'{pad}{"if" if first else "else if"} {test} then\n{tb}')
                first = False
            if default is not None:
                tail = self.stmts(default[0], dict(env), default[1], ind + 1)
            else:
                tail = scoped(env, ind + 1)
            if not out:
                return tail
            return '\n'.join(out) + f'\n{pad}else\n{tail}'
        if kind == 'for':
            return self.for_loop(s, env, k, ind)
        if kind == 'while':
            raise self.err(ln, '`while` loop in a position where the statements after it are not known (outside the subset)')
        if kind == 'break':
            raise self.err(ln, '`break` outside a switch (outside the subset)')
        raise self.err(ln, f'statement form `{kind}` (outside the subset)')

    in_loop = False

    def for_loop(self, s, env, k, ind):
        _, ik, v, init, cond, steps, body, ln = s[:8]
        pad = '  ' * ind
        if ik != 'int':
            raise self.err(ln, 'loop index of a non-index type')
        if v in env and len(s) == 8:
            raise self.err(ln, f'loop index `{v}` shadows a variable (outside the subset)')
        extra = set(self.spec.get('loop_extra_steps') or [])
        up = None
        for st in steps:
            if st[0] in ('preinc', 'postinc') and st[2] == ('var', v):
                if up is not None:
                    raise self.err(ln, 'loop index stepped twice')
                up = st[1] == '++'
            elif st[0] in ('preinc', 'postinc') and self._path(st[2]) in extra:
                pass                              # iterators advanced in step with the index (configured, see spec)
            else:
                raise self.err(ln, 'loop step other than ++i / --i (outside the subset)')
        if up is None:
            raise self.err(ln, 'loop does not step its index')
        # `i <op> bound && G && …`: the simple bound gives the range; the other conjuncts are tested before every iteration
        # and the first failure ends the loop (an `alive` flag in the fold state)
        conj = []

        def flat(c):
            if c[0] == 'bin' and c[1] == '&&':
                flat(c[2])
                flat(c[3])
            else:
                conj.append(c)
        flat(cond)
        okops = ('!=', '<', '<=') if up else ('>=', '>')
        bi = next((i for i, c in enumerate(conj) if c[0] == 'bin' and c[2] == ('var', v) and c[1] in okops
                   and not self.mentions(c[3], v)), None)
        if bi is None:
            raise self.err(ln, 'loop condition is not `i <op> bound` (possibly `&&` further tests)')
        guards = conj[:bi] + conj[bi + 1:]
        cond = conj[bi]
        if guards and (self.has_events(guards) or self.reads_in(guards)):
            raise self.err(ln, 'array read in a loop condition (outside the subset)')
        op = cond[1]
        lo = self.coerce(self.expr(init, env, ln), 'int', ln)
        bound = self.coerce(self.expr(cond[3], env, ln), 'int', ln)
        if up and op in ('!=', '<'):
            count = f'{bound} - {lo}' if lo != '0' else bound
            if op == '!=':
                self.assumptions.append(f'line {ln}: loop `{v} != {bound}` terminates ({lo} ≤ {bound})')
        elif up and op == '<=':
            count = f'{bound} - {lo} + 1' if lo != '0' else f'{bound} + 1'
        elif (not up) and op == '>=':
            count = f'{lo} - {bound} + 1' if bound != '0' else f'{lo} + 1'
        elif (not up) and op == '>':
            count = f'{lo} - {bound}' if bound != '0' else lo
        else:
            raise self.err(ln, f'loop condition `{op}` with step {"++" if up else "--"} (outside the subset)')
        ix = (f'{lo} + (k_ : Int)' if lo != '0' else '(k_ : Int)') if up else f'{lo} - (k_ : Int)'
        if self.has_continue(body):
            # `continue` = jump to the end of the body of the innermost enclosing loop
            lab = 'continue_' + v
            body = ('block', [self.subst_continue(body, lab), ('label', lab, ln)], ln)
        if _stmts_return([body]):
            raise self.err(ln, '`return`/`break` inside a loop body (outside the subset)')
        vs = self.assigned([body], env)
        if v in vs:
            raise self.err(ln, 'loop body assigns the loop index (outside the subset)')
        # the bound must not be assigned in the body
        if not vs:
            return k(env, ind)
        tup = self.tuple_of(vs)
        env_in = dict(env)
        env_in[v] = 'int'
        for w in self.free_in_bound(cond[3]) | self.free_in_bound(init):
            if w in vs:
                raise self.err(ln, f'loop bound `{w}` is assigned in the body (outside the subset)')
        if guards:
            go = 'go_' + v
            if go in env or self.mentions(body, go):
                raise self.err(ln, f'the name `{go}` is in use')
            g = ' ∧ '.join(self.coerce(self.expr(c, env_in, ln), 'prop', ln) for c in guards)
            st_in = '(' + ', '.join([go] + [lname(x) for x in vs]) + ')'
            st = lambda b: '(' + ', '.join([b] + [lname(x) for x in vs]) + ')'
            was = self.in_loop
            self.in_loop = True
            tb = self.stmts([body], env_in, lambda env2, ind2: '  ' * ind2 + st('true'), ind + 3)
            self.in_loop = was
            return (f'{pad}let {st_in} := (List.range (Int.toNat ({count}))).foldl (fun {st_in} (k_ : Nat) =>\n'
                    f'{pad}    let {lname(v)} : Int := {ix}\n'
                    f'{pad}    if {go} = true ∧ {g} then\n{tb}\n'
                    f'{pad}    else\n{pad}      {st("false")}) {st("true")}\n' + k(env, ind))
        was = self.in_loop
        self.in_loop = True
        tb = self.stmts([body], env_in, lambda env2, ind2: '  ' * ind2 + tup, ind + 2)
        self.in_loop = was
        return (f'{pad}let {tup} := (List.range (Int.toNat ({count}))).foldl (fun {tup} (k_ : Nat) =>\n'
                f'{pad}    let {lname(v)} : Int := {ix}\n{tb}) {tup}\n' + k(env, ind))

    def free_in_bound(self, e):
        out = set()

        def walk(x):
            if isinstance(x, tuple):
                if x and x[0] == 'var':
                    out.add(x[1])
                for y in x[1:]:
                    walk(y)
            elif isinstance(x, list):
                for y in x:
                    walk(y)
        walk(e)
        return out

    def lean_type(self, kd):
        return {'int': 'Int', 'T': 'Int', 'bool': 'Bool', 'ptr': 'Int', 'addr': 'Int', 'u32': 'Nat', 'list': 'List Int', 'F': 'α', 'arr': 'Array Int'}[kd]

    def addr_of(self, e, env, ln):
        """the element offset designated by the lvalue `e` (`p[i]` or `*p` with `p` a pointer into the data)"""
        if e[0] == 'index':
            b = self.expr(e[1], env, ln)
            if b[1] == 'ptr':
                i = self.coerce(self.expr(e[2], env, ln), 'int', ln)
                return f'({b[0]} + {i})'
        if e[0] == 'un' and e[1] == '*':
            b = self.expr(e[2], env, ln)
            if b[1] == 'ptr':
                return b[0]
        raise self.err(ln, 'returned reference is not `p[i]` / `*p` for a pointer into the data (outside the subset)')

    def ret(self, e, env, ln):
        rk = self.spec['ret_kind']
        if rk == 'addr':
            return self.addr_of(e, env, ln)
        flag = self.spec.get('flag_const')
        if flag:
            if e == ('var', flag):
                return 'none'
            if e[0] == 'cond':              # `return c ? a : flag;`
                c = self.coerce(self.expr(e[1], env, ln), 'prop', ln)
                return f'(if {c} then {self.ret(e[2], env, ln)} else {self.ret(e[3], env, ln)})'
            val = self.coerce(self.expr(e, env, ln), rk, ln)
            return f'some {self.atom(val)}'
        if self.spec.get('arr_state'):
            return f'({lname(self.spec["arr_state"])}, {self.coerce(self.expr(e, env, ln), rk, ln)})'
        return self.coerce(self.expr(e, env, ln), rk, ln)


def _has_break(s):
    k = s[0]
    if k == 'break':
        return True
    if k == 'block':
        return any(_has_break(x) for x in s[1])
    if k == 'if':
        return _has_break(s[2]) or (s[3] is not None and _has_break(s[3]))
    return False


# ----------------------------------------------------------------------------------------------
# targets

def parse_enum(fname, src, enum_name):
    """`typedef enum { A = 0, B = 1, ... } Name;` -> {A: 0, ...}"""
    toks = tokenize(src, fname)
    for i, t in enumerate(toks):
        if t.text == 'enum' and i + 1 < len(toks):
            j = i + 1
            if toks[j].kind == 'id':
                j += 1
            if toks[j].text != '{':
                continue
            rb = _match(toks, j, '{', '}')
            tag = toks[i + 1].text if toks[i + 1].kind == 'id' else None
            after = toks[rb + 1].text if rb + 1 < len(toks) else None
            if enum_name not in (tag, after):
                continue
            vals, nxt = {}, 0
            k = j + 1
            while k < rb:
                if toks[k].kind != 'id':
                    raise TranslationError(f'{fname}: enum {enum_name}: enumerator expected at line {toks[k].line}')
                nm = toks[k].text
                k += 1
                if toks[k].text == '=':
                    if toks[k + 1].kind != 'num' or not toks[k + 1].text.isdigit():
                        raise TranslationError(f'{fname}: enum {enum_name}: value of {nm} is not an integer literal')
                    nxt = int(toks[k + 1].text)
                    k += 2
                vals[nm] = nxt
                nxt += 1
                if toks[k].text == ',':
                    k += 1
            return vals
    raise TranslationError(f'{fname}: enum {enum_name} not found')


def check_const_def(fname, src, name, expected_tokens):
    """the namespace-scope constant `name` is still defined by the expected token sequence"""
    toks = tokenize(src, fname)
    for i, t in enumerate(toks):
        if t.kind == 'id' and t.text == name and i + 1 < len(toks) and toks[i + 1].text == '=':
            j = i + 2
            got = []
            while j < len(toks) and toks[j].text != ';':
                got.append(toks[j].text)
                j += 1
            if got != expected_tokens:
                raise TranslationError(f'{fname}: `{name}` is defined as `{" ".join(got)}`, expected `{" ".join(expected_tokens)}`')
            return toks[i].line
    raise TranslationError(f'{fname}: definition of `{name}` not found')


IDX_MAX = '9223372036854775807'

# Each target: C file, function name, which definition (`pick`: 'generic' = template<typename T> / plain,
# 'full' = `template<>` specialisation), Lean name, parameter list [(C name, kind, Lean type)], and options.
TARGETS = [
    dict(key='fix_offset', file='mahotas/_filters.h', func='fix_offset', pick='plain', lean='fix_offset', with_deps=True,
         params=[('mode', 'int'), ('cc', 'int'), ('len', 'int')], ret_kind='int', flag_const='border_flag_value',
         enum=('mahotas/_filters.h', 'ExtendMode'),
         const_check=('mahotas/_filters.h', 'border_flag_value', ['std', '::', 'numeric_limits', '<', 'npy_intp', '>', '::', 'max', '(', ')']),
         doc='`return border_flag_value` is `none`, every other `return e` is `some e`; `mode` is the numeric value of the '
             '`ExtendMode` enumerator (values read from the `typedef enum` of the same file)'),
    dict(key='erode_sub', file='mahotas/_morph.cpp', func='erode_sub', pick='generic', lean='erode_sub',
         params=[('a', 'T'), ('b', 'T')], ret_kind='T', tparams=['T']),
    dict(key='erode_sub_bool', file='mahotas/_morph.cpp', func='erode_sub', pick='full', lean='erode_sub_bool',
         params=[('a', 'T'), ('b', 'T')], ret_kind='T', bool_as_T=True,
         doc='`bool` values are the integers 0 / 1 of the dtype `bool`'),
    dict(key='dilate_add', file='mahotas/_morph.cpp', func='dilate_add', pick='generic', lean='dilate_add',
         params=[('a', 'T'), ('b', 'T')], ret_kind='T', tparams=['T']),
    dict(key='dilate_add_bool', file='mahotas/_morph.cpp', func='dilate_add', pick='full', lean='dilate_add_bool',
         params=[('a', 'T'), ('b', 'T')], ret_kind='T', bool_as_T=True,
         doc='`bool` values are the integers 0 / 1 of the dtype `bool`'),
    dict(key='t_abs', file='mahotas/_morph.cpp', func='t_abs', pick='generic', lean='t_abs',
         params=[('val', 'int')], ret_kind='int', tparams=[], t_is_int=True, template_call=True,
         doc='instantiated at the index types (`npy_intp`, `int`) only: every call site passes an index'),
    dict(key='subm_elem', file='mahotas/_morph.cpp', func='subm', pick='generic', lean='subm_elem',
         params=[('a', 'T'), ('b', 'T')], ret_kind='T', tparams=['T'], select='first-for-body',
         deref={'ita': 'a', 'itb': 'b'}, loop_extra_steps=['ita', 'itb'], result='a', raw_params=True,
         c_param_names=['a', 'b'],
         doc='the body of the element loop of `subm`, with `*ita` = `a` (read and written) and `*itb` = `b`; the value is '
             'what the body leaves in `*ita`'),
    dict(key='margin_of', file='mahotas/_morph.cpp', func='margin_of', pick='generic', lean='margin_of',
         params=[('ref_dims', 'list'), ('position', 'list')], ret_kind='int', tparams=['T'], raw_params=True,
         accessors={'position[]': ('position', 'int'), 'ref.dim()': ('ref_dims', 'int'),
                    'ref.ndims()': ('(ref_dims.length : Int)', 'int')},
         int_limits={'max': IDX_MAX},
         doc='`ref.dim(d)` reads the list `ref_dims`, `ref.ndims()` is its length, `position[d]` reads the list `position`; '
             '`numeric_limits<index_type>::max()` is 2^63 - 1'),
    dict(key='isLeft', file='mahotas/_convex.cpp', func='isLeft', pick='plain', lean='isLeft',
         params=[], extra_params=[('p0y', 'int'), ('p0x', 'int'), ('p1y', 'int'), ('p1x', 'int'), ('p2y', 'int'), ('p2x', 'int')],
         ret_kind='int', raw_params=True, c_param_names=['p0', 'p1', 'p2'],
         accessors={'p0.y': ('p0y', 'int'), 'p0.x': ('p0x', 'int'), 'p1.y': ('p1y', 'int'), 'p1.x': ('p1x', 'int'),
                    'p2.y': ('p2y', 'int'), 'p2.x': ('p2x', 'int')},
         doc='`Point` members are `long`; the `double` result is the exact integer (products below 2^53: standing assumption)'),
    dict(key='forward_cmp', file='mahotas/_convex.cpp', func='forward_cmp', pick='plain', lean='forward_cmp',
         params=[], extra_params=[('a_y', 'int'), ('a_x', 'int'), ('b_y', 'int'), ('b_x', 'int')],
         ret_kind='bool', raw_params=True, c_param_names=['a', 'b'],
         accessors={'a.y': ('a_y', 'int'), 'a.x': ('a_x', 'int'), 'b.y': ('b_y', 'int'), 'b.x': ('b_x', 'int')}),
    dict(key='reverse_cmp', file='mahotas/_convex.cpp', func='reverse_cmp', pick='plain', lean='reverse_cmp',
         params=[], extra_params=[('a_y', 'int'), ('a_x', 'int'), ('b_y', 'int'), ('b_x', 'int')],
         ret_kind='bool', raw_params=True, c_param_names=['a', 'b'],
         accessors={'a.y': ('a_y', 'int'), 'a.x': ('a_x', 'int'), 'b.y': ('b_y', 'int'), 'b.x': ('b_x', 'int')}),
    dict(key='at_flat', file='mahotas/numpypp/array.hpp', func='at_flat', pick='plain', lean='at_flat',
         must_contain_any=['for', 'while'], params=[('p', 'int')],
         extra_params=[('carray', 'bool'), ('data', 'ptr'), ('dims', 'list'), ('strides', 'list')],
         ret_kind='addr', ptr_elems=['BaseType'],
         consts={'is_carray_': ('carray', 'bool')},
         accessors={'data()': ('data', 'ptr'), 'dim()': ('dims', 'int'), 'stride()': ('strides', 'int'),
                    'ndims()': ('(dims.length : Int)', 'int')},
         doc='the returned reference is the element offset (in elements) from the array origin: `data()` is the offset `data`, '
             '`dim(d)` / `stride(d)` read the lists `dims` / `strides` (strides in elements), `ndims()` is `dims.length`'),
    dict(key='pos_to_flat', file='mahotas/numpypp/array.hpp', func='pos_to_flat', pick='plain', lean='pos_to_flat',
         params=[], extra_params=[('dims', 'list'), ('pos', 'list')], raw_params=True, c_param_names=['pos'],
         ret_kind='int',
         accessors={'pos.position_[]': ('pos', 'int'), 'dim()': ('dims', 'int'), 'ndims()': ('(dims.length : Int)', 'int')},
         doc='`dim(d)` reads the list `dims`, `pos.position_[d]` the list `pos`; the `int` result is unbounded (no index overflow)'),
    dict(key='sum_rect', file='mahotas/features/_surf.cpp', func='sum_rect', pick='generic', lean='sum_rect', tparams=['T'],
         params=[], extra_params=[('dims', 'list'), ('y0', 'int'), ('x0', 'int'), ('y1', 'int'), ('x1', 'int')],
         raw_params=True, c_param_names=['integral', 'y0', 'x0', 'y1', 'x1'], env_params=['y0', 'x0', 'y1', 'x1'],
         ret_kind='int', trace=dict(array='integral', dims='dims', reads=['integral.at()']),
         accessors={'integral.dim()': ('dims', 'int')},
         doc='TRACE translation: the value is the list of the `(row, column)` pairs `integral.at(r, c)` reads, in source order '
             '(element values are opaque); `integral.dim(k)` reads the list `dims`; `int` arithmetic is unbounded'),
    dict(key='csum_rect', file='mahotas/features/_surf.cpp', func='csum_rect', pick='generic', lean='csum_rect', tparams=['T'],
         params=[], extra_params=[('dims', 'list'), ('y', 'int'), ('x', 'int'), ('dy', 'int'), ('dx', 'int'), ('h', 'int'), ('w', 'int')],
         raw_params=True, c_param_names=['integral', 'y', 'x', 'dy', 'dx', 'h', 'w'], env_params=['y', 'x', 'dy', 'dx', 'h', 'w'],
         ret_kind='int', trace=dict(array='integral', dims='dims', reads=['integral.at()']),
         doc='TRACE translation (see `sum_rect`)'),
    dict(key='haar_x', file='mahotas/features/_surf.cpp', func='haar_x', pick='plain', lean='haar_x',
         params=[], extra_params=[('dims', 'list'), ('y', 'int'), ('x', 'int'), ('w', 'int')],
         raw_params=True, c_param_names=['integral', 'y', 'x', 'w'], env_params=['y', 'x', 'w'],
         ret_kind='int', trace=dict(array='integral', dims='dims', reads=['integral.at()']),
         doc='TRACE translation (see `sum_rect`)'),
    dict(key='haar_y', file='mahotas/features/_surf.cpp', func='haar_y', pick='plain', lean='haar_y',
         params=[], extra_params=[('dims', 'list'), ('y', 'int'), ('x', 'int'), ('w', 'int')],
         raw_params=True, c_param_names=['integral', 'y', 'x', 'w'], env_params=['y', 'x', 'w'],
         ret_kind='int', trace=dict(array='integral', dims='dims', reads=['integral.at()']),
         doc='TRACE translation (see `sum_rect`)'),
    dict(key='roll_right', file='mahotas/features/_lbp.cpp', func='roll_right', pick='plain', lean='roll_right',
         params=[('v', 'u32'), ('points', 'int')], ret_kind='u32',
         doc='`npy_uint32` values are `Nat`s below 2^32; `<<` is reduced mod 2^32'),
    dict(key='lbp_map', file='mahotas/features/_lbp.cpp', func='map', pick='plain', lean='lbp_map',
         params=[('v', 'u32'), ('points', 'int')], ret_kind='u32',
         doc='`npy_uint32` values are `Nat`s below 2^32'),
    dict(key='flat_to_pos', file='mahotas/numpypp/array.hpp', func='flat_to_pos', pick='plain', lean='flat_to_pos',
         params=[('p', 'int')], extra_params=[('dims', 'list')], ret_kind='list',
         struct_types=['numpy::position'], struct_locals={'res': ('numpy::position', '(List.replicate dims.length (0 : Int))')},
         list_fields={'res.position_': 'res'}, ignored_assign={'res.nd_': 'ndims()'},
         accessors={'dim()': ('dims', 'int'), 'ndims()': ('(dims.length : Int)', 'int')},
         doc='the local `numpy::position res` is the list of its first `ndims()` coordinates (`res.nd_ = ndims()`), zero before it is '
             'written (the C++ leaves them uninitialised; every one of them is written by the loop); `dim(d)` reads the list `dims`'),
]


# `_convolve.cpp: find2d` — the whole kernel (four nested loops, compound loop conditions, `goto next_pos`), twice:
#   find2d_marks     the positions `out.at(y, x) = true` is executed for, the element comparison being the oracle `ne_`
#   find2d_accesses  every index pair the kernel can touch (reads of `array` = 0, `target` = 1, writes of `out` = 2), the
#                    data-dependent exit never taken
_FIND2D = dict(file='mahotas/_convolve.cpp', func='find2d', pick='generic', tparams=['T'], params=[], raw_params=True,
               c_param_names=['array', 'target', 'out'], ret_kind='int', void=True,
               extra_params=[('adims', 'list'), ('tdims', 'list')],
               skip_prefixes=[['gil_release'], ['bool', '*'], ['std', '::', 'fill']],
               accessors={'array.dim()': ('adims', 'int'), 'target.dim()': ('tdims', 'int')})
TARGETS += [
    # floating helpers, polymorphic in the scalar type (the operator classes the models are written over)
    dict(key='spline_coeff', file='mahotas/_interpolate.cpp', func='spline_coefficients', pick='generic', tparams=['FT'],
         lean='spline_coeff', params=[], raw_params=True, c_param_names=['x', 'order', 'result'],
         extra_params=[('order', 'int'), ('y', 'F'), ('res_', 'F')], env_kinds={'order': 'int', 'y': 'F', 'res_': 'F'},
         ret_kind='F', select=dict(kind='switch'), result='res_', rename_seq=[(('result', '[', 'hh', ']'), 'res_')],
         float=['FT', 'double'], driver_call='spline_coeff (α := Float) (x 0) (fl_ (x 1)) (fl_ (x 2))',
         doc='the `switch (order)` of `spline_coefficients` (one B-spline weight as a function of the distance `y` to the knot), '
             'polymorphic in the scalar type `α`: every C++ operation is one operation of `α` in the same order (the rounding '
             'sequence); a decimal constant is the quotient of two small naturals; `result[hh]` is the variable `res_` (its old '
             'value is returned for an `order` without a case)'),
    dict(key='dt_intersect', file='mahotas/_distance.cpp', func='dist_transform', pick='generic', tparams=['BaseType'], lean='dt_intersect',
         params=[], raw_params=True, c_param_names=['Df', 'f', 'n', 'stride', 'z', 'v', 'orig', 'ot', 'ostride'],
         extra_params=[('fq', 'F'), ('q', 'int'), ('fv', 'F'), ('vk', 'int'), ('s', 'F')],
         env_kinds={'fq': 'F', 'q': 'int', 'fv': 'F', 'vk': 'int', 's': 'F'},
         ret_kind='F', select=dict(kind='assign-to', var='s'), result='s', float=['BaseType', 'double'],
         rename_seq=[(('v', '[', 'k', ']'), 'vk'), (('f', '[', 'q', '*', 'stride', ']'), 'fq'), (('f', '[', 'vk', '*', 'stride', ']'), 'fv')],
         driver_call='dt_intersect (α := Float) (fl_ (x 0)) (x 1) (fl_ (x 2)) (x 3) (fl_ 0)',
         doc='the assignment `s = ((f[q*stride] + square(BaseType(q))) - (f[v[k]*stride] + square(BaseType(v[k])))) / 2. / (q - v[k]);` of '
             '`dist_transform` (abscissa where the parabolas rooted at `v[k]` and `q` meet), polymorphic in the scalar type; `fq`, `fv` stand '
             'for the two samples `f[q*stride]`, `f[v[k]*stride]`, `vk` for `v[k]`; the last parameter is the old value of `s` (unused)'),
    # `_labeled.cpp`: the union-find on the label buffer. The array `data` is a state (`Array Int`: a read outside the buffer gives
    # -1, a write outside is dropped — the conventions of `Model/C03.lean`; both are undefined behaviour in C++ and never happen
    # in `label`), every function returns the new state (and its value); `while` loops take `fuel`
    dict(key='uf_find', file='mahotas/_labeled.cpp', func='find', pick='generic', tparams=['It'], lean='uf_find', raw_params=True,
         c_param_names=['data', 'i'], params=[('data', 'arr'), ('i', 'int')], ret_kind='int', arr_state='data', arr_default='-1',
         while_fuel=True,
         driver_call='(let v := uf_find (x 0).toNat (a.ints "l0").toArray (x 1); s!"{v.2};{showInts v.1.toList}")',
         doc='`find(data, i)`: the root search loop and the path compression loop; value = (the buffer afterwards, the returned root)'),
    dict(key='uf_compress', file='mahotas/_labeled.cpp', func='compress', pick='generic', tparams=['It'], lean='uf_compress', raw_params=True,
         c_param_names=['data', 'i'], params=[('data', 'arr'), ('i', 'int')], ret_kind='int', void=True, arr_state='data', arr_default='-1',
         while_fuel=True, driver_call='showInts (uf_compress (x 0).toNat (a.ints "l0").toArray (x 1)).toList',
         doc='`compress(data, i)`: value = the buffer afterwards'),
    dict(key='uf_join', file='mahotas/_labeled.cpp', func='join', pick='generic', tparams=['It'], lean='uf_join', raw_params=True,
         c_param_names=['data', 'i', 'j'], params=[('data', 'arr'), ('i', 'int'), ('j', 'int')], ret_kind='int', void=True,
         arr_state='data', arr_default='-1', while_fuel=True,
         driver_call='showInts (uf_join (x 0).toNat (a.ints "l0").toArray (x 1) (x 2)).toList',
         doc='`join(data, i, j)`: value = the buffer afterwards'),
    dict(key='fast_positions', file='mahotas/_morph.cpp', func='fast_binary_dilate_erode_2d', pick='plain', lean='fast_positions',
         params=[], raw_params=True, c_param_names=['res', 'array', 'Bc', 'is_erosion'],
         extra_params=[('Nx', 'int'), ('bdims', 'list')], env_kinds={'Nx': 'int'}, ret_kind='int',
         select=dict(kind='from-decl', var='By', count=6), result='acc_',
         skip_prefixes=[['std', '::', 'vector']], accessors={'Bc.dim()': ('bdims', 'int')},
         trace=dict(reads=[], silent_reads=['Bc.at()'], pushes=['positions.push_back()'], etype='Int', oracle=('bc_', 'truth', 2)),
         driver_call='(let l0 := a.ints "l0"; let l1 := (a.ints "l1").toArray; let b1 := l0.getD 1 0; '
                     'fast_positions (fun i j => decide (l1.getD (Int.toNat (i * b1 + j)) 0 ≠ 0)) (x 0) l0)',
         doc='TRACE translation of the statements of `fast_binary_dilate_erode_2d` that build the offset list (`By`, `Bx`, `Cy`, `Cx` and the '
             'two nested loops): the value is the content of `positions` (`dy`, `dx`, `dy`, `dx`, …) in push order; `bc_ y x` stands for '
             '`Bc.at(y, x)`, `Bc.dim(d)` reads the list `bdims`, `Nx` is `array.dim(1)`; `continue` is a jump to the end of the loop body'),
    # the per-row part of the fast path: the row clamp of `dy` and the length `n` of the main loop
    dict(key='fast_row_dy', file='mahotas/_morph.cpp', func='fast_binary_dilate_erode_2d', pick='plain', lean='fast_row_dy',
         params=[], raw_params=True, c_param_names=['res', 'array', 'Bc', 'is_erosion'],
         extra_params=[('y', 'int'), ('Ny', 'int'), ('pdy', 'int'), ('pdx', 'int')],
         env_kinds={'y': 'int', 'Ny': 'int', 'pdy': 'int', 'pdx': 'int'}, ret_kind='int',
         select=dict(kind='from-decl', var='dy', of=2, nth=1, count=5), result='dy',
         rename_seq=[(('positions', '[', '2', '*', 'j', ']'), 'pdy'), (('positions', '[', '2', '*', 'j', '+', '1', ']'), 'pdx')],
         doc='the statements `dy = positions[2*j]; dx = positions[2*j + 1]; if ((y + dy) < 0) dy = -y; if ((y + dy) >= Ny) dy = -y+(Ny-1);` '
             'of the row loop of `fast_binary_dilate_erode_2d`: the row offset after the clamp (`pdy`, `pdx` stand for the two entries of `positions`)'),
    dict(key='fast_row_n', file='mahotas/_morph.cpp', func='fast_binary_dilate_erode_2d', pick='plain', lean='fast_row_n',
         params=[], raw_params=True, c_param_names=['res', 'array', 'Bc', 'is_erosion'],
         extra_params=[('y', 'int'), ('Ny', 'int'), ('Nx', 'int'), ('pdy', 'int'), ('pdx', 'int')],
         env_kinds={'y': 'int', 'Ny': 'int', 'Nx': 'int', 'pdy': 'int', 'pdx': 'int'}, ret_kind='int',
         select=dict(kind='from-decl', var='dy', of=2, nth=1, count=6), result='n',
         rename_seq=[(('positions', '[', '2', '*', 'j', ']'), 'pdy'), (('positions', '[', '2', '*', 'j', '+', '1', ']'), 'pdx')],
         doc='the same statements and `n = Nx - t_abs(dx);`: the number of iterations of the main loop of a row'),
    dict(key='rank_currank', file='mahotas/_convolve.cpp', func='rank_filter', pick='generic', tparams=['T'], lean='rank_currank',
         params=[], raw_params=True, c_param_names=['res', 'array', 'Bc', 'rank', 'mode', 'cval'],
         extra_params=[('n', 'int'), ('N2', 'int'), ('rank', 'int')], env_kinds={'n': 'int', 'N2': 'int', 'rank': 'int'},
         ret_kind='int', select=dict(kind='from-decl', var='currank', count=2), result='currank', float=['double'],
         fbinders='{α : Type} (ofNat : Nat → α) (div : α → α → α) (trunc : α → Nat)',
         fops=dict(ofint='(ofNat (Int.toNat {e}))', natlit='(ofNat {n})', div='(div {a} {b})', trunc='((trunc {a} : Nat) : Int)'),
         driver_call='rank_currank Float.ofNat (· / ·) (fun v => v.toUInt64.toNat) (x 0) (x 1) (x 2)',
         doc='the statements `npy_intp currank = rank; if (n != N2) { currank = npy_intp(n * rank/double(N2)); }` of `rank_filter`, '
             'polymorphic in the floating type: `ofNat` converts a (non-negative) integer, `div` divides, `trunc` is the conversion '
             'back to `npy_intp`'),
    dict(_FIND2D, key='find2d_marks', lean='find2d_marks',
         trace=dict(reads=[], silent_reads=['array.at()', 'target.at()'], writes=['out.at()'], oracle=('ne_', '!=', 4)),
         driver_call='(let l0 := a.ints "l0"; let l1 := a.ints "l1"; let l2 := (a.ints "l2").toArray; let l3 := (a.ints "l3").toArray; '
                     'let n1 := l0.getD 1 0; let t1 := l1.getD 1 0; '
                     'find2d_marks (fun i j k l => decide (l2.getD (Int.toNat (i * n1 + j)) 0 ≠ l3.getD (Int.toNat (k * t1 + l)) 0)) l0 l1)',
         doc='TRACE translation of the whole kernel: the value is the list of the `(y, x)` for which `out.at(y, x) = true` is executed, '
             'in loop order; `ne_ i j k l` stands for `array.at(i, j) != target.at(k, l)`; `array.dim(d)` / `target.dim(d)` read the '
             'lists `adims` / `tdims`; `goto next_pos` (label at the end of the loop body) is a flag that disables the rest of the body'),
    dict(_FIND2D, key='find2d_accesses', lean='find2d_accesses',
         trace=dict(reads={'array.at()': 0, 'target.at()': 1}, writes={'out.at()': 2}, etype='Int × Int × Int', opaque_if='never'),
         doc='TRACE translation of the whole kernel: the list of `(k, i, j)` = index pair `(i, j)` used on `array` (k = 0, read), `target` '
             '(k = 1, read), `out` (k = 2, write), in source order, when no comparison ever leaves the inner loops (every actual run '
             'touches a subset)'),
]


def pick_function(repo: Path, tg) -> CFunc:
    p = repo / tg['file']
    if not p.exists():
        raise TranslationError(f'{tg["file"]} not found')
    src = p.read_text()
    fs = find_functions(tg['file'], src, tg['func'])
    want = tg['pick']
    sel = []
    for f in fs:
        if want == 'full' and f.template is not None and f.template[1] == f.template[0] + 2:
            sel.append(f)
        elif want == 'generic' and f.template is not None and f.template[1] > f.template[0] + 2:
            sel.append(f)
        elif want == 'plain' and f.template is None:
            sel.append(f)
    if tg.get('must_contain'):
        sel = [f for f in sel if all(any(t.text == w for t in f.body_toks) for w in tg['must_contain'])]
    if tg.get('must_contain_any'):
        sel = [f for f in sel if any(t.text in tg['must_contain_any'] for t in f.body_toks)]
    if len(sel) != 1:
        raise TranslationError(f'{tg["file"]}: {len(sel)} definitions of `{tg["func"]}` ({want}) found, expected exactly one')
    return sel[0]


def c_params(f: CFunc):
    """[(type tokens, name)] of the C parameter list"""
    out, cur, depth = [], [], 0
    for t in f.param_toks:
        if t.text in ('<', '(', '['):
            depth += 1
        if t.text in ('>', ')', ']'):
            depth -= 1
        if t.text == ',' and depth == 0:
            out.append(cur)
            cur = []
        else:
            cur.append(t)
    if cur:
        out.append(cur)
    res = []
    for p in out:
        eq = next((k for k, t in enumerate(p) if t.kind == 'op' and t.text == '='), None)
        if eq is not None:                                   # default argument
            p = p[:eq]
        if p[-1].kind != 'id':
            res.append((' '.join(t.text for t in p), None))          # unnamed parameter
        else:
            res.append((' '.join(t.text for t in p[:-1]), p[-1].text))
    return res


def translate_target(repo: Path, tg, known) -> dict:
    f = pick_function(repo, tg)
    where = f'{tg["file"]}: {tg["func"]}'
    spec = dict(tg)
    tparams = list(tg.get('tparams', []))
    if f.template is not None and f.template[1] > f.template[0] + 2:
        names = [t.text for t in f.toks[f.template[0] + 2:f.template[1]] if t.kind == 'id' and t.text not in ('typename', 'class')]
        if tg.get('t_is_int'):
            INT = set(names)
        else:
            INT = set()
            if sorted(names) != sorted(tparams):
                raise TranslationError(f'{where}: template parameters {names}, expected {tparams}')
    else:
        INT = set()
    enums = {}
    if tg.get('enum'):
        efile, ename = tg['enum']
        enums = parse_enum(efile, (repo / efile).read_text(), ename)
    if tg.get('const_check'):
        cfile, cname, ctoks = tg['const_check']
        check_const_def(cfile, (repo / cfile).read_text(), cname, ctoks)
    # parameters are identified by position; a renamed parameter is renamed back (token-wise) to the configured name
    cps = c_params(f)
    cfg = tg['params']
    ref = tg.get('c_param_names') if tg.get('raw_params') else [n for n, _ in cfg]
    body_toks = f.body_toks
    if ref is not None:
        got = [n for _, n in cps]
        if len(got) != len(ref) or None in got:
            raise TranslationError(f'{where}: parameters {got}, expected {len(ref)} named parameters ({ref})')
        ren = {g: r for g, r in zip(got, ref) if g != r}
        if ren:
            ids = {t.text for t in body_toks if t.kind == 'id'}
            clash = sorted((set(ren.values()) & ids) - set(ren))
            if clash:
                raise TranslationError(f'{where}: parameters renamed to {got} and the body uses {clash} for something else')
            nt = []
            for k, t in enumerate(body_toks):
                prev = body_toks[k - 1].text if k else ''
                if t.kind == 'id' and t.text in ren and prev not in ('.', '->', '::'):
                    t = Tok(t.kind, ren[t.text], t.line, t.pos, t.end)
                nt.append(t)
            body_toks = nt
            cps = [(ty, ren.get(n, n)) for ty, n in cps]
    if not tg.get('raw_params'):
        for (ty, n), (_, kd) in zip(cps, cfg):
            tyw = [w for w in ty.split() if w not in ('const', '&')]
            tyn = ''.join(tyw)
            ok = ((kd == 'int' and (tyn in INT_TYPES or tyn.replace('numpy::', '') in INT_TYPES or tyn in INT or tyn == 'ExtendMode'))
                  or (kd == 'T' and (tyn in tparams or (tyn == 'bool' and tg.get('bool_as_T'))))
                  or (kd == 'bool' and tyn == 'bool') or (kd == 'u32' and tyn in U32_TYPES))
            if not ok:
                raise TranslationError(f'{where}: parameter `{n}` has type `{ty}`, expected a {kd}')
    pr = Parser(body_toks, where, tparams={**{n: 'T' for n in tparams}, **{n: 'int' for n in INT}}, enums=enums)
    pr.ptr_elems = set(tg.get('ptr_elems') or [])
    pr.struct_types = set(tg.get('struct_types') or [])
    pr.skip_prefixes = [tuple(x) for x in (tg.get('skip_prefixes') or [])]
    if tg.get('float'):
        pr.float_types = set(tg['float'])
        pr.allow_float = True
    for seq, name in (tg.get('rename_seq') or []):      # e.g. `result [ hh ]` -> one scalar variable
        nt, k = [], 0
        while k < len(pr.toks):
            if [t.text for t in pr.toks[k:k + len(seq)]] == list(seq):
                t0 = pr.toks[k]
                nt.append(Tok('id', name, t0.line, t0.pos, t0.end))
                k += len(seq)
            else:
                if pr.toks[k].kind == 'id' and pr.toks[k].text == name:
                    raise TranslationError(f'{where}: the name `{name}` is in use')
                nt.append(pr.toks[k])
                k += 1
        pr.toks = nt
    if tg.get('trace'):
        pr.allow_float = True
        pr.tparams.update({n: 'elem' for n in list(tparams) + ['double', 'float']})
    if tg.get('select') == 'first-for-body':
        body = select_first_for(f, pr, where)
    elif isinstance(tg.get('select'), dict):
        body = select_stmts(pr, where, tg['select'])
    else:
        body = pr.block()
        if pr.i != len(pr.toks):
            raise pr.err('tokens after the function body')
    tr = Translator(where, spec, known)
    tr.repo, tr.enums = repo, enums
    if tg.get('enum'):
        spec['enum_types'] = (tg['enum'][1],)
    env = {}
    for n, kd in cfg:
        if kd != 'list':
            env[n] = kd
    for n in tg.get('env_params', []):
        env[n] = 'int'
    env.update(tg.get('env_kinds') or {})
    if tg.get('select'):
        res = tg['result']
        term = tr.stmts(body, env, lambda env2, ind2: '  ' * ind2 + lname(res), 1)
    else:
        def fell(env2, ind2):
            if tg.get('trace') and tg.get('void'):
                return '  ' * ind2 + 'acc_'
            if tg.get('arr_state') and tg.get('void'):
                return '  ' * ind2 + lname(tg['arr_state'])
            raise TranslationError(f'{where}: control reaches the end of the function without `return`')
        term = tr.stmts(body, env, fell, 1)
    if tg.get('trace'):
        term = f'  let acc_ : List ({tr.etype()}) := []\n' + term
    binders = []
    if tg.get('float'):
        binders.append(tg.get('fbinders') or '{α : Type} [Add α] [Sub α] [Mul α] [Div α] [Neg α] [NatCast α] [IntCast α] [LT α] [DecidableLT α]')
    if tr.uses_dt:
        binders.append('(dt : DT)')
    if tr.uses_fuel:
        binders.append('(fuel : Nat)')
    if tg.get('trace') and tg['trace'].get('oracle'):
        oname, _, on = tg['trace']['oracle']
        binders.append(f'({oname} : {"Int → " * on}Bool)')
    for n, kd in cfg:
        binders.append(f'({lname(n)} : {"List Int" if kd == "list" else tr.lean_type(kd)})')
    for n, kd in tg.get('extra_params', []):
        binders.append(f'({lname(n)} : {"List Int" if kd == "list" else tr.lean_type(kd)})')
    rty = 'Option Int' if tg.get('flag_const') else (f'List ({tr.etype()})' if tg.get('trace') else tr.lean_type(tg['ret_kind']))
    if tg.get('arr_state'):
        rty = 'Array Int' if tg.get('void') else f'Array Int × {rty}'
        if not tr.uses_fuel:
            raise TranslationError(f'{where}: an array-state function without a loop or call that consumes fuel is not expected here')
    doc = [f'/-- `{tg["func"]}`{" (" + tg["pick"] + ")" if tg["pick"] != "plain" else ""} — {tg["file"]} lines {f.line0}–{f.line1}, '
           f'sha256 of the token text {f.hash}.']
    if tg.get('doc'):
        doc.append('    ' + tg['doc'] + '.')
    if tr.asserts:
        doc.append('    ignored `assert`s: ' + ', '.join(tr.asserts) + '.')
    if tr.assumptions:
        doc.append('    assumed: ' + '; '.join(dict.fromkeys(tr.assumptions)) + '.')
    if tr.ignored:
        doc.append('    statements without effect on this value (configured, not translated): ' + '; '.join(tr.ignored) + '.')
    doc[-1] += ' -/'
    if tr.aux:
        clash = sorted({a for a, _ in tr.aux} & ({lname(n) for n, _ in cfg} | {lname(n) for n, _ in tg.get('extra_params', [])}))
        if clash:
            raise TranslationError(f'{where}: helper name {clash} clashes with a parameter')
        term = '\n'.join(l for _, ls in tr.aux for l in ls) + '\n' + term
    lines = doc + [f'def {tg["lean"]} {" ".join(binders)} : {rty} :=', term, '']
    info = dict(lean=tg['lean'], params=[kd for _, kd in cfg + list(tg.get('extra_params', []))], ret=tg['ret_kind'],
                dt=('T-as-arg' if tg.get('template_call') else tr.uses_dt))
    return dict(lines=lines, info=info, func=f, calls=sorted(tr.calls))


def select_stmts(pr: Parser, where, sel):
    """statement selection inside a long function that is outside the subset as a whole:
       kind='switch'     the first `switch` statement of the function
       kind='from-decl'  the declaration `<type> var = …;` of the local `var` and the `count - 1` statements after it"""
    toks = pr.toks
    if sel['kind'] == 'switch':
        for i, t in enumerate(toks):
            if t.kind == 'id' and t.text == 'switch':
                pr.i = i
                out = [pr.stmt()]
                pr.sel_span = (toks[i].pos, toks[pr.i - 1].end)
                return out
        raise TranslationError(f'{where}: no `switch` statement found')
    if sel['kind'] == 'from-decl':
        hits = [i for i, t in enumerate(toks) if t.kind == 'id' and t.text == sel['var'] and i + 1 < len(toks) and toks[i + 1].text == '='
                and i > 0 and toks[i - 1].kind == 'id']
        starts = []
        for i in hits:
            a = i
            while a > 0 and not (toks[a - 1].kind == 'op' and toks[a - 1].text in (';', '{', '}')):
                a -= 1
            pr.i = a
            if pr.try_type() is not None and pr.i == i:
                starts.append(a)
        want = sel.get('of', 1)                 # `of` = how many declarations of that name the function has, `nth` = which one
        if len(starts) != want:
            raise TranslationError(f'{where}: {len(starts)} declarations of the local `{sel["var"]}` found, expected exactly {want}')
        st = starts[sel.get('nth', 0)]
        pr.i = st
        out = [pr.stmt() for _ in range(sel['count'])]
        pr.sel_span = (toks[st].pos, toks[pr.i - 1].end)
        return out
    if sel['kind'] == 'assign-to':
        starts = [i for i, t in enumerate(toks) if t.kind == 'id' and t.text == sel['var'] and i + 1 < len(toks) and toks[i + 1].text == '='
                  and i > 0 and toks[i - 1].kind == 'op' and toks[i - 1].text in (';', '{', '}')]
        if len(starts) != 1:
            raise TranslationError(f'{where}: {len(starts)} assignments `{sel["var"]} = …;` found, expected exactly one')
        pr.i = starts[0]
        out = [pr.stmt()]
        pr.sel_span = (toks[starts[0]].pos, toks[pr.i - 1].end)
        return out
    raise TranslationError(f'{where}: unknown selection {sel}')


def select_first_for(f: CFunc, pr: Parser, where):
    """parse only the first `for` statement of the function body (at nesting depth 1) and return its body statements"""
    toks = pr.toks
    depth = 0
    for i, t in enumerate(toks):
        if t.kind == 'op' and t.text == '{':
            depth += 1
        elif t.kind == 'op' and t.text == '}':
            depth -= 1
        elif t.kind == 'id' and t.text == 'for' and depth == 1:
            pr.i = i
            s = pr.stmt()
            return [s[6]]
    raise TranslationError(f'{where}: no `for` statement found in the function body')


HEADER = '''/- GENERATED by translator/cscalar.py from the text of the current /repo sources. Do not edit.

Each definition is the translation of ONE C++ function (file, line range and hash in its doc comment) by the C-subset
front end of translator/cscalar.py; `Mahotas/Proofs/CScalarTies.lean` proves it equal to the hand-written model.

Integer semantics: `npy_intp` / `int` / `index_type` values are unbounded `Int` (standing assumption of the trusted
base: sizes < 2^31, no index overflow); `/` and `%` on them are `Int.tdiv` / `Int.tmod` (a zero divisor is undefined in
C++; the Lean value is then 0 / the dividend). Values of a template type `T` are the `Int`s of the dtype `dt : DT`; a store
or cast to `T` of an arithmetic result is `dt.wrap`; `numeric_limits<T>::min()/max()/is_signed` are `dt.lo` / `dt.hi` /
`dt.signed`. 32-bit unsigned values are `Nat`s below 2^32 (`<<` reduced mod 2^32). Trace translations return the list of
array reads in source order. Loops are `List.foldl` over `List.range` with the assigned variables as state. -/
import Mahotas.Model.Basic
import Mahotas.Model.DType
namespace Mahotas.Generated.C
open Mahotas
set_option linter.unusedVariables false

/-- `while (c) s = f s` as long as it ends within `fuel` iterations (then the state after `fuel` iterations) -/
def whileFuel {σ : Type} (fuel : Nat) (c : σ → Bool) (f : σ → σ) (s : σ) : σ :=
  match fuel with
  | 0 => s
  | n + 1 => if c s then whileFuel n c f (f s) else s
'''


def _stale_block(old: str, name: str):
    m = re.search(r'^-- BEGIN block %s\n(.*?)^-- END block %s$' % (re.escape(name), re.escape(name)), old, re.S | re.M)
    return m.group(1).rstrip('\n').split('\n') if m else None


def enclosing_namespaces(toks, i_start, strict=False):
    """names of the namespaces (outermost first, '' = anonymous) the token at i_start lies in; with `strict`, None when
    the token is inside any other kind of braces (a function body, a class)"""
    stack = []
    i = 0
    while i < i_start:
        t = toks[i]
        if t.kind == 'id' and t.text == 'namespace':
            j = i + 1
            name = ''
            if toks[j].kind == 'id':
                name = toks[j].text
                j += 1
            if toks[j].text == '{':
                stack.append(name)
                i = j + 1
                continue
        if t.kind == 'op' and t.text == '{':
            stack.append(None)
        elif t.kind == 'op' and t.text == '}' and stack:
            stack.pop()
        i += 1
    if strict and None in stack:
        return None
    return [n for n in stack if n is not None]


def dependencies(fname: str, src: str, f: CFunc, seen=None) -> list[str]:
    """C++ text the function needs from its own file to compile stand-alone: the plain helper functions it calls (wrapped
    in their namespaces, callees first) and the file-scope `const` objects it names"""
    seen = set() if seen is None else seen
    out = []
    toks = f.toks
    ids = []
    for k, t in enumerate(f.body_toks):
        if t.kind == 'id' and t.text not in ids:
            ids.append(t.text)
    for name in ids:
        if name in seen or name == f.name:
            continue
        # file-scope constant `const T name = …;`
        for i, t in enumerate(toks):
            if t.kind == 'id' and t.text == name and i + 1 < len(toks) and toks[i + 1].text == '=' and not (f.i_start <= i <= f.i_rbrace):
                a = i
                while a > 0 and not (toks[a - 1].kind == 'pp' or (toks[a - 1].kind == 'op' and toks[a - 1].text in (';', '{', '}'))):
                    a -= 1
                if 'const' in [x.text for x in toks[a:i]] and not any(x.text == '(' for x in toks[a:i]) \
                        and enclosing_namespaces(toks, i, strict=True) is not None:
                    j = i
                    while toks[j].text != ';':
                        j += 1
                    seen.add(name)
                    out.append(src[toks[a].pos:toks[j].end])
                    break
        hs = [h for h in find_functions(fname, src, name) if h.template is None and h.i_start != f.i_start]
        if len(hs) == 1 and name not in seen:
            seen.add(name)
            h = hs[0]
            out += dependencies(fname, src, h, seen)
            ns = enclosing_namespaces(h.toks, h.i_start)
            out.append(''.join(f'namespace {n} {{ ' for n in ns) + h.text + ' }' * len(ns))
    return out


def extracted_sources(repo: Path) -> dict:
    """{target key: dict(text=<C++ text of the function as it stands>, deps=[text it needs from its file], hash=…,
    enum=(name, {enumerator: value}) | None)} — what the differential run of harness/foundation/cscalar.py compiles
    stand-alone; a target that cannot be located is absent"""
    out = {}
    for tg in TARGETS:
        try:
            f = pick_function(repo, tg)
            enum = None
            if tg.get('enum'):
                enum = (tg['enum'][1], parse_enum(tg['enum'][0], (repo / tg['enum'][0]).read_text(), tg['enum'][1]))
            deps = dependencies(tg['file'], f.src, f) if tg.get('with_deps') else []
            ent = dict(text=f.text, deps=deps, hash=f.hash, enum=enum, func=tg['func'], lean=tg['lean'])
            if isinstance(tg.get('select'), dict):          # the selected statements, as they stand in the source
                pr = Parser(f.body_toks, tg['key'], tparams={n: 'T' for n in tg.get('tparams', [])})
                pr.float_types, pr.allow_float = set(tg.get('float') or []), bool(tg.get('float'))
                pr.skip_prefixes = [tuple(x) for x in (tg.get('skip_prefixes') or [])]
                select_stmts(pr, tg['key'], tg['select'])
                ent['slice'] = f.src[pr.sel_span[0]:pr.sel_span[1]]
                helpers = []                                # functions of the same file the selected statements call
                stoks = tokenize(ent['slice'], tg['file'])
                for k, t in enumerate(stoks):
                    if t.kind == 'id' and t.text != f.name and t.text not in [h.name for h in helpers] \
                            and k + 1 < len(stoks) and stoks[k + 1].text == '(' and (k == 0 or stoks[k - 1].text not in ('.', '->', '::')) \
                            and t.text not in ('if', 'for', 'while', 'switch', 'return'):
                        hs = find_functions(tg['file'], f.src, t.text)
                        if len(hs) == 1:
                            helpers.append(hs[0])
                ent['helpers'] = [h.text for h in helpers]
            out[tg['key']] = ent                            # (a target whose statements cannot be selected is absent)
        except TranslationError:
            continue
    return out


def handle_block(entries) -> list[str]:
    """the driver entry point `cs fn=<name> [dt=<dtype>] a=<scalars> l0=<list> l1=<list>`: evaluates a generated definition
    (used by harness/foundation/cscalar.py to compare it with the compiled C++ text)"""
    s = ['local instance : NatCast Float := ⟨Float.ofNat⟩', 'local instance : IntCast Float := ⟨Float.ofInt⟩',
         'private def fl_ (v : Int) : Float := Float.ofBits v.toNat.toUInt64', '',
         '/-- driver op `cs`: `fn` = generated definition, `a` = its scalar arguments in order, `l0, l1, …` = its list',
         '    arguments in order, `dt` = dtype name; answers `r=<value>` (`r=u` for `none`) -/',
         'def handle (a : Args) : String :=',
         '  let xs := a.ints "a"',
         '  let x (i : Nat) : Int := xs.getD i 0',
         '  let dt := DT.ofName (a.str "dt")',
         '  match a.str "fn" with']
    for lean, kinds, uses_dt, opt, *over in entries:
        if over and over[0] == '-':
            continue
        args, si, li = [], 0, 0
        for kd in kinds:
            if kd == 'list':
                args.append(f'(a.ints "l{li}")')
                li += 1
            elif kd == 'bool':
                args.append(f'(decide (x {si} ≠ 0))')
                si += 1
            elif kd == 'u32':
                args.append(f'(x {si}).toNat')
                si += 1
            else:
                args.append(f'(x {si})')
                si += 1
        call = f'{lean} {"dt " if uses_dt else ""}{" ".join(args)}'
        if over and over[0]:
            call = over[0]
        if opt == 'opt':
            s.append(f'  | "{lean}" => match {call} with | some v => s!"r={{v}}" | none => "r=u"')
        elif opt == 'list':
            s.append(f'  | "{lean}" => "r=" ++ showInts ({call})')
        elif opt == 'trace':
            s.append(f'  | "{lean}" => "r=" ++ ";".intercalate (({call}).map fun p => s!"{{p.1}},{{p.2}}")')
        elif opt == 'fbits':
            s.append(f'  | "{lean}" => s!"r={{({call}).toBits.toNat}}"')
        elif opt == 'trace3':
            s.append(f'  | "{lean}" => "r=" ++ ";".intercalate (({call}).map fun p => s!"{{p.1}},{{p.2.1}},{{p.2.2}}")')
        else:
            s.append(f'  | "{lean}" => s!"r={{{call}}}"')
    s += ['  | f => s!"error=unknown-fn-{f}"', '']
    return s


def _typechecks(path: Path):
    """does the generated file elaborate? (True | False, log) — None when it cannot be decided here (no lake project around
    the output directory, or the model modules it imports have not been built yet)"""
    import subprocess
    lean_dir = path.parent.parent.parent
    if not (lean_dir / 'lakefile.toml').exists() and not (lean_dir / 'lakefile.lean').exists():
        return None, ''
    try:
        r = subprocess.run(['lake', 'env', 'lean', str(path)], cwd=lean_dir, stdout=subprocess.PIPE, stderr=subprocess.STDOUT,
                           text=True, timeout=600)
    except Exception as e:  # noqa: lake not installed / not runnable here
        return None, str(e)
    if r.returncode == 0:
        return True, ''
    if 'object file' in r.stdout or 'unknown module prefix' in r.stdout or 'unknown package' in r.stdout:
        return None, r.stdout
    return False, r.stdout


def generate(repo: Path, outdir: Path) -> dict:
    tp = outdir / 'CScalar.lean'
    old = tp.read_text() if tp.exists() else ''
    failed, names, known = {}, {}, {}
    done = 0
    entries, blocks = [], []
    for tg in TARGETS:
        blk = 'cscalar:' + tg['key']
        try:
            r = translate_target(repo, tg, known)
            lines = r['lines']
            done += 1
        except TranslationError as e:
            lines = _stale_block(old, blk)
            if lines is None:
                raise
            failed[blk] = f'TranslationError: {e}'
        uses_dt = '(dt : DT)' in '\n'.join(lines)
        allp = list(tg['params']) + list(tg.get('extra_params', []))
        known[tg['func'] if tg['pick'] != 'full' else tg['key']] = dict(
            lean=tg['lean'], params=[kd for _, kd in allp], ret=('void' if tg.get('void') else tg['ret_kind']),
            dt=('T-as-arg' if tg.get('template_call') else uses_dt), trace=bool(tg.get('trace')), arr=bool(tg.get('arr_state')))
        entries.append((tg['lean'], [kd for _, kd in allp], uses_dt,
                        'opt' if tg.get('flag_const') else ({'Int': 'list', 'Int × Int × Int': 'trace3'}.get(tg['trace'].get('etype'), 'trace') if tg.get('trace')
                                                            else ('list' if tg['ret_kind'] == 'list' else ('fbits' if tg['ret_kind'] == 'F' else ''))),
                        tg.get('driver_call')))
        names[blk] = ['Mahotas.Generated.C.' + n for n in defined_names('\n'.join(lines))]
        blocks.append([blk, list(lines)])

    def render():
        s = [HEADER]
        for blk, lines in blocks:
            s += [f'-- BEGIN block {blk}'] + lines + [f'-- END block {blk}', '']
        return '\n'.join(s + handle_block(entries) + ['end Mahotas.Generated.C', ''])
    text = render()
    changed = text != old
    if changed:
        # The driver imports this file: a definition that does not elaborate would take every property down. Check the new
        # text; a block whose new text does not type-check keeps its last text and is reported like an untranslatable one.
        _write_if_changed(tp, text)
        ok, log = _typechecks(tp)
        if ok is False:
            why = 'the generated definition does not type-check: ' + ' | '.join(l for l in log.splitlines() if 'error' in l)[:300]
            cand = [b for b in blocks if _stale_block(old, b[0]) not in (None, b[1])]
            fixed = False
            for b in cand:                      # usually ONE function was edited: find the block whose last text repairs the file
                new_lines, b[1] = b[1], _stale_block(old, b[0])
                _write_if_changed(tp, render())
                if _typechecks(tp)[0] is not False:
                    failed.setdefault(b[0], why)
                    fixed = True
                    break
                b[1] = new_lines
            if not fixed:                       # several at once: all changed blocks keep their last text
                for b in cand:
                    b[1] = _stale_block(old, b[0])
                    failed.setdefault(b[0], why)
                _write_if_changed(tp, render())
                if _typechecks(tp)[0] is False:
                    if old:
                        _write_if_changed(tp, old)
                    raise TranslationError('Generated/CScalar.lean does not type-check: ' + log[-600:])
    return dict(cscalar_changed=changed, cscalar_functions=done, _failed=failed, _names=names)


if __name__ == '__main__':
    import sys
    repo = Path(sys.argv[1] if len(sys.argv) > 1 else '/repo')
    print(generate(repo, Path(__file__).resolve().parent.parent / 'lean' / 'Mahotas' / 'Generated'))
