"""Translator for C11: extracts the argument GUARDS of the Python wrappers of the public API from the current /repo
sources into lean/Mahotas/Generated/Guards.lean (a small guard DSL, see lean/Mahotas/Model/C11Base.lean).

A guard is a top-level `if <test>: raise …` statement of a public function, or a call of one of the helper checkers of
mahotas/internal.py (`_check_2`, `_check_3`) whose own `if … raise` tests are inlined with the actual argument.
Each disjunct of a test becomes one atom; a test the DSL does not know becomes `Atom.opaque "<source>"` (never rejects
in the model, so it can only weaken what the theorems may assume). A public function that disappears, or a helper that
no longer parses, raises TranslationError: a broken tie."""
from __future__ import annotations
import ast, re
from pathlib import Path
from .tables import TranslationError, _write_if_changed

# module (relative to mahotas/) -> public functions whose guards are extracted
PUBLIC = {
    'segmentation.py': ['slic', 'gvoronoi'],
    'morph.py': ['disk', 'majority_filter', 'close_holes', 'hitmiss', 'cwatershed', 'cdilate', 'cerode', 'subm'],
    'center_of_mass.py': ['center_of_mass'],
    'labeled.py': ['bbox', 'bwperim', 'perimeter', 'remove_bordering', 'labeled_sum', 'is_same_labeling'],
    'convolve.py': ['convolve', 'convolve1d', 'template_match', 'find', 'rank_filter', 'median_filter', 'mean_filter', 'haar', 'daubechies',
                    'gaussian_filter1d', 'gaussian_filter'],
    'distance.py': ['distance'],
    'thin.py': ['thin'],
    'euler.py': ['euler'],
    'polygon.py': ['convexhull', 'fill_polygon'],
    'features/texture.py': ['cooccurence', 'haralick'],
    'features/surf.py': ['surf', 'interest_points', 'descriptors', 'dense'],
    'features/lbp.py': ['lbp'],
    'features/zernike.py': ['zernike_moments'],
    'interpolate.py': ['shift', 'zoom', 'spline_filter1d'],
    'thresholding.py': ['otsu', 'rc', 'bernsen'],
    'resize.py': ['imresize'],
}
HELPERS = ('_check_2', '_check_3')


def _q(s: str) -> str:
    return '"' + s.replace('\\', '\\\\').replace('"', '\\"') + '"'


def _name(n):
    return n.id if isinstance(n, ast.Name) else None


def _attr(n, attr):
    """`x.attr` -> 'x'"""
    if isinstance(n, ast.Attribute) and n.attr == attr and isinstance(n.value, ast.Name):
        return n.value.id
    return None


def _intconst(n):
    if isinstance(n, ast.Constant) and isinstance(n.value, int) and not isinstance(n.value, bool):
        return n.value
    if isinstance(n, ast.UnaryOp) and isinstance(n.op, ast.USub) and isinstance(n.operand, ast.Constant) and isinstance(n.operand.value, int):
        return -n.operand.value
    return None


def atoms_of(test: ast.expr) -> list[str]:
    if isinstance(test, ast.BoolOp) and isinstance(test.op, ast.Or):
        out = []
        for v in test.values:
            out += atoms_of(v)
        return out
    src = ast.unparse(test)
    if isinstance(test, ast.Compare) and len(test.ops) == 1:
        l, op, r = test.left, test.ops[0], test.comparators[0]
        c = _intconst(r)
        if _name(l) and c is not None and isinstance(op, ast.Lt):
            return [f'.intLt {_q(_name(l))} ({c})']
        if _name(l) and c is not None and isinstance(op, ast.LtE):
            return [f'.intLe {_q(_name(l))} ({c})']
        if _attr(l, 'ndim') and c is not None and c >= 0 and isinstance(op, ast.NotEq):
            return [f'.ndimNe {_q(_attr(l, "ndim"))} {c}']
        if _attr(l, 'ndim') and _attr(r, 'ndim') and isinstance(op, ast.NotEq):
            return [f'.ndimsDiffer {_q(_attr(l, "ndim"))} {_q(_attr(r, "ndim"))}']
        if _attr(l, 'shape') and _attr(r, 'shape') and isinstance(op, ast.NotEq):
            return [f'.shapesDiffer {_q(_attr(l, "shape"))} {_q(_attr(r, "shape"))}']
        if (isinstance(l, ast.Subscript) and _attr(l.value, 'shape') and _intconst(l.slice) is not None and _intconst(l.slice) >= 0
                and c is not None and c >= 0 and isinstance(op, ast.NotEq)):
            return [f'.dimNe {_q(_attr(l.value, "shape"))} {_intconst(l.slice)} {c}']
        m = re.fullmatch(r'min\((\w+)\.shape\[:2\]\) <= (\w+) // 2', src)
        if m:
            return [f'.minDim2LeHalf {_q(m.group(1))} {_q(m.group(2))}']
    return [f'.opaque {_q(src)}']


def _raises(body) -> bool:
    return any(isinstance(s, ast.Raise) for s in body)


def _func(tree, name):
    for node in tree.body:
        if isinstance(node, ast.FunctionDef) and node.name == name:
            return node
    return None


def helper_guards(repo: Path) -> dict:
    tree = ast.parse((repo / 'mahotas' / 'internal.py').read_text())
    out = {}
    for h in HELPERS:
        f = _func(tree, h)
        if f is None:
            raise TranslationError(f'internal.py: helper {h} not found')
        param = f.args.args[0].arg
        tests = [s.test for s in f.body if isinstance(s, ast.If) and _raises(s.body)]
        if not tests:
            raise TranslationError(f'internal.py: helper {h} has no `if … raise`')
        out[h] = (param, tests)
    return out


class _Rename(ast.NodeTransformer):
    def __init__(self, a, b):
        self.a, self.b = a, b

    def visit_Name(self, n):
        return ast.copy_location(ast.Name(id=self.b, ctx=n.ctx), n) if n.id == self.a else n


SHAPE_PRESERVING = re.compile(r'^(?:np\.(?:asarray|asanyarray|ascontiguousarray|asfortranarray|array|require)\((\w+)[,)]|int\((\w+)\)$|float\((\w+)\)$)')


def _atom_vars(atom: str) -> list[str]:
    return re.findall(r'"((?:[^"\\]|\\.)*)"', atom) if not atom.startswith('.opaque') else []


def function_guards(f: ast.FunctionDef, helpers) -> list[str]:
    """atoms of the top-level guards of f. An atom is kept only if it speaks about PARAMETERS whose value at the guard is
    the caller's argument up to a rank/shape/value preserving conversion (np.as*array(x…), int(x), float(x));
    otherwise it is recorded as opaque."""
    import copy
    params = {a.arg for a in f.args.args}
    dirty = set()
    atoms = []

    def keep(at_list, src_test):
        out = []
        for a in at_list:
            vs = _atom_vars(a)
            if a.startswith('.opaque') or all(v in params and v not in dirty for v in vs):
                out.append(a)
            else:
                out.append(f'.opaque {_q(ast.unparse(src_test))}')
        return out

    for s in f.body:                      # top-level statements only: guards that every call meets
        if isinstance(s, ast.If) and _raises(s.body) and not s.orelse:
            atoms += keep(atoms_of(s.test), s.test)
        elif isinstance(s, ast.Expr) and isinstance(s.value, ast.Call) and _name(s.value.func) in helpers and s.value.args and _name(s.value.args[0]):
            param, tests = helpers[_name(s.value.func)]
            for t in tests:
                t2 = _Rename(param, _name(s.value.args[0])).visit(copy.deepcopy(t))
                atoms += keep(atoms_of(t2), t2)
        elif isinstance(s, ast.Assign):
            for tgt in s.targets:
                for n in ast.walk(tgt):
                    if isinstance(n, ast.Name):
                        m = SHAPE_PRESERVING.match(ast.unparse(s.value))
                        if not (m and n.id in m.groups()):
                            dirty.add(n.id)
        elif isinstance(s, (ast.AugAssign, ast.For, ast.While, ast.With, ast.Try)) or (isinstance(s, ast.If) and not _raises(s.body)):
            for n in ast.walk(s):
                if isinstance(n, ast.Name) and isinstance(n.ctx, ast.Store):
                    dirty.add(n.id)
    return atoms


def generate(repo: Path, outdir: Path) -> dict:
    helpers = helper_guards(repo)
    lines = ['/- GENERATED by translator/guards.py from the current /repo sources. Do not edit. -/',
             'import Mahotas.Model.C11Base', 'namespace Mahotas.Generated', 'open Mahotas.C11', '']
    table = []
    ninterp = 0
    for rel, names in sorted(PUBLIC.items()):
        p = repo / 'mahotas' / rel
        if not p.exists():
            raise TranslationError(f'{rel} not found')
        tree = ast.parse(p.read_text())
        for name in names:
            f = _func(tree, name)
            if f is None:
                raise TranslationError(f'{rel}: public function {name} not found')
            atoms = function_guards(f, helpers)
            params = [a.arg for a in f.args.args]
            mod = rel[:-3].replace('/', '_')
            ident = f'guards_{mod}_{name}'
            interp = [a for a in atoms if not a.startswith('.opaque')]
            ninterp += len(interp)
            if interp:
                lines.append(f'-- wrapper: {name}')
            lines.append(f'/-- guards of `mahotas/{rel}:{name}({", ".join(params)})` -/')
            lines.append(f'def {ident} : List Atom := [' + ', '.join(atoms) + ']')
            table.append((f'{mod}.{name}', name, ident))
    lines.append('')
    lines.append('/-- (module.function, short name, guards) for every extracted wrapper -/')
    lines.append('def wrapperGuards : List (String × String × List Atom) := [')
    lines.append(',\n'.join(f'  ({_q(full)}, {_q(short)}, {ident})' for full, short, ident in table))
    lines.append(']')
    lines += ['', 'end Mahotas.Generated', '']
    changed = _write_if_changed(outdir / 'Guards.lean', '\n'.join(lines))
    return dict(guards_changed=changed, guard_wrappers=len(table), guard_atoms_interpreted=ninterp)


if __name__ == '__main__':
    import sys
    print(generate(Path(sys.argv[1] if len(sys.argv) > 1 else '/repo'), Path(__file__).resolve().parent.parent / 'lean' / 'Mahotas' / 'Generated'))
