"""Translator for C11: extracts the argument GUARDS of the Python wrappers of the public API from the current /repo
sources into lean/Mahotas/Generated/Guards.lean (a small guard DSL, see lean/Mahotas/Model/C11Base.lean).

A guard is a top-level `if <test>: raise …` statement of a public function, or a call of one of the helper checkers of
mahotas/internal.py (`_check_2`, `_check_3`) whose own `if … raise` tests are inlined with the actual argument.
Each disjunct of a test becomes one atom; a test the DSL does not know becomes `Atom.opaque "<source>"` (never rejects
in the model, so it can only weaken what the theorems may assume). A public function that disappears, or a helper that
no longer parses, raises TranslationError: a broken tie."""
from __future__ import annotations
import ast, re, warnings
from pathlib import Path
from .tables import TranslationError, _write_if_changed

# module (relative to mahotas/) -> public functions whose guards are extracted
PUBLIC = {
    'segmentation.py': ['slic', 'gvoronoi'],
    'morph.py': ['disk', 'majority_filter', 'close_holes', 'hitmiss', 'cwatershed', 'cdilate', 'cerode', 'subm', 'get_structuring_elem'],
    'center_of_mass.py': ['center_of_mass'],
    'labeled.py': ['bbox', 'bwperim', 'perimeter', 'remove_bordering', 'labeled_sum', 'is_same_labeling'],
    'convolve.py': ['convolve', 'convolve1d', 'template_match', 'find', 'rank_filter', 'median_filter', 'mean_filter', 'haar', 'daubechies',
                    'gaussian_filter1d', 'gaussian_filter', '_check_rank'],
    'distance.py': ['distance'],
    'thin.py': ['thin'],
    'euler.py': ['euler'],
    'polygon.py': ['convexhull', 'fill_polygon'],
    'features/texture.py': ['cooccurence', 'haralick'],
    'features/surf.py': ['surf', 'interest_points', 'descriptors', 'dense'],
    'features/lbp.py': ['lbp'],
    'features/zernike.py': ['zernike_moments'],
    'interpolate.py': ['shift', 'zoom', 'spline_filter1d', '_check_interpolate'],
    'thresholding.py': ['otsu', 'rc', 'bernsen'],
    'resize.py': ['imresize'],
}
HELPERS = ('_check_2', '_check_3')


def _q(s: str) -> str:
    return '"' + s.replace('\\', '\\\\').replace('"', '\\"') + '"'


def _name(n):
    return n.id if isinstance(n, ast.Name) else None


def _attr(n, attr):
    """`x.attr` -> 'x'"""
    if isinstance(n, ast.Attribute) and n.attr == attr and isinstance(n.value, ast.Name):
        return n.value.id
    return None


def _intconst(n):
    if isinstance(n, ast.Constant) and isinstance(n.value, int) and not isinstance(n.value, bool):
        return n.value
    if isinstance(n, ast.UnaryOp) and isinstance(n.op, ast.USub) and isinstance(n.operand, ast.Constant) and isinstance(n.operand.value, int):
        return -n.operand.value
    return None


def atoms_of(test: ast.expr) -> list[str]:
    if isinstance(test, ast.BoolOp) and isinstance(test.op, ast.Or):
        out = []
        for v in test.values:
            out += atoms_of(v)
        return out
    src = ast.unparse(test)
    if isinstance(test, ast.Compare) and len(test.ops) == 1:
        l, op, r = test.left, test.ops[0], test.comparators[0]
        c = _intconst(r)
        if _name(l) and c is not None and isinstance(op, ast.Lt):
            return [f'.intLt {_q(_name(l))} ({c})']
        if _name(l) and c is not None and isinstance(op, ast.LtE):
            return [f'.intLe {_q(_name(l))} ({c})']
        if _attr(l, 'ndim') and c is not None and c >= 0 and isinstance(op, ast.NotEq):
            return [f'.ndimNe {_q(_attr(l, "ndim"))} {c}']
        if _attr(l, 'ndim') and _attr(r, 'ndim') and isinstance(op, ast.NotEq):
            return [f'.ndimsDiffer {_q(_attr(l, "ndim"))} {_q(_attr(r, "ndim"))}']
        if _attr(l, 'shape') and _attr(r, 'shape') and isinstance(op, ast.NotEq):
            return [f'.shapesDiffer {_q(_attr(l, "shape"))} {_q(_attr(r, "shape"))}']
        if (isinstance(l, ast.Subscript) and _attr(l.value, 'shape') and _intconst(l.slice) is not None and _intconst(l.slice) >= 0
                and c is not None and c >= 0 and isinstance(op, ast.NotEq)):
            return [f'.dimNe {_q(_attr(l.value, "shape"))} {_intconst(l.slice)} {c}']
        m = re.fullmatch(r'min\((\w+)\.shape\[:2\]\) <= (\w+) // 2', src)
        if m:
            return [f'.minDim2LeHalf {_q(m.group(1))} {_q(m.group(2))}']
        if _attr(l, 'ndim') and c is not None and c >= 0 and isinstance(op, ast.Eq):
            return [f'.ndimEq {_q(_attr(l, "ndim"))} {c}']
        if _attr(l, 'size') and c == 0 and isinstance(op, ast.Eq):
            return [f'.sizeZero {_q(_attr(l, "size"))}']
        m = re.fullmatch(r'(\w+)\.min\(\) < 0', src)
        if m:
            return [f'.minNeg {_q(m.group(1))}']
        m = re.fullmatch(r'len\((\w+)\) != (\w+)\.ndim', src)
        if m:
            return [f'.lenNeNdim {_q(m.group(1))} {_q(m.group(2))}']
        m = re.fullmatch(r'np\.min\((\w+)\.shape\) <= (\w+)\.max\(\)', src)
        if m:
            return [f'.minDimLeMax {_q(m.group(1))} {_q(m.group(2))}']
    m = re.fullmatch(r'not np\.all\(np\.isfinite\((\w+)\)\)', src)
    if m:
        return [f'.notAllFinite {_q(m.group(1))}']
    m = re.fullmatch(r'not (-?\d+) < (\w+) < (-?\d+)', src)
    if m:                                                   # `not a < x < b`  ==  `x <= a or x >= b`
        return [f'.intLe {_q(m.group(2))} ({m.group(1)})', f'.intGe {_q(m.group(2))} ({m.group(3)})']
    m = re.fullmatch(r'not 0 <= (\w+) < (\w+)', src)
    if m and COUNT_ALIAS.get(m.group(2)):
        return [f'.rankOutside {_q(m.group(1))} {_q(COUNT_ALIAS[m.group(2)])}']
    return [f'.opaque {_q(src)}']


COUNT_ALIAS = {}      # local `n = np.count_nonzero(X)` of the function being translated: n -> X


def _raises(body) -> bool:
    return any(isinstance(s, ast.Raise) for s in body)


def _func(tree, name):
    for node in tree.body:
        if isinstance(node, ast.FunctionDef) and node.name == name:
            return node
    return None


def helper_guards(repo: Path) -> dict:
    tree = ast.parse((repo / 'mahotas' / 'internal.py').read_text())
    out = {}
    for h in HELPERS:
        f = _func(tree, h)
        if f is None:
            raise TranslationError(f'internal.py: helper {h} not found')
        param = f.args.args[0].arg
        tests = [s.test for s in f.body if isinstance(s, ast.If) and _raises(s.body)]
        if not tests:
            raise TranslationError(f'internal.py: helper {h} has no `if … raise`')
        out[h] = (param, tests)
    return out


class _Rename(ast.NodeTransformer):
    def __init__(self, a, b):
        self.a, self.b = a, b

    def visit_Name(self, n):
        return ast.copy_location(ast.Name(id=self.b, ctx=n.ctx), n) if n.id == self.a else n


SHAPE_PRESERVING = re.compile(r"""^(?:np\.(?:asarray|asanyarray|ascontiguousarray|asfortranarray|array|require)\((\w+)(?:, ?(?!ndmin)(?:\w+=)?(?:[\w.]+|'[^']*')){0,2}\)$|int\((\w+)\)$|float\((\w+)\)$|(\w+)\.astype\([\w.]+(?:, copy=False)?\)$)""")
# conversions that may change rank and shape but keep every VALUE finite/non-finite as it was
VALUE_PRESERVING = re.compile(r'^np\.(?:asarray|asanyarray|ascontiguousarray|array|atleast_1d|repeat)\((\w+)[,)]')
VALUE_ATOMS = ('.notAllFinite',)


def _atom_vars(atom: str) -> list[str]:
    return re.findall(r'"((?:[^"\\]|\\.)*)"', atom) if not atom.startswith('.opaque') else []


def function_guards(f: ast.FunctionDef, helpers):
    """(atoms, actions) of the guards of f that EVERY call meets. An atom is kept only if it speaks about PARAMETERS whose
    value at the guard is the caller's argument up to a rank/shape/value preserving conversion (np.as*array(x…), int(x),
    float(x), x.astype(…)); otherwise it is recorded as opaque. Guards nested under a branch are extracted only when the
    branch is one every ndarray argument `x` takes (`if x is None: … else:`, `elif type(x) != int:`): `.whenArr x (…)`;
    under any other branch they are opaque. The action is 0 (`raise`) for every wrapper guard."""
    import copy
    params = {a.arg for a in f.args.args}
    dirty, vdirty = set(), set()
    atoms = []
    state = dict(early=False)       # a `return` has been passed: later guards are not met by every call
    COUNT_ALIAS.clear()

    def keep(at_list, src_test, path):
        out = []
        for a in at_list:
            vs = _atom_vars(a)
            bad = vdirty if a.startswith(VALUE_ATOMS) else dirty
            if path is None or state['early']:
                out.append(f'.opaque {_q("(conditional) " + ast.unparse(src_test))}')
            elif a.startswith('.opaque') or all(v in params and v not in bad for v in vs):
                for x in reversed(path):
                    a = f'.whenArr {_q(x)} ({a})'
                out.append(a)
            else:
                out.append(f'.opaque {_q(ast.unparse(src_test))}')
        return out

    def arr_branch(test, positive):
        if state['early']:
            return None
        """the parameter x such that every ndarray x takes this branch (positive: the `if` body; else: the `else` body)"""
        src = ast.unparse(test)
        if positive:
            m = re.fullmatch(r'(\w+) is not None', src) or re.fullmatch(r'type\((\w+)\) != int', src)
        else:
            m = re.fullmatch(r'(\w+) is None', src) or re.fullmatch(r'type\((\w+)\) == int(?: and .*)?', src)
        return m.group(1) if m and m.group(1) in params and m.group(1) not in dirty else None

    def assign(s):
        for tgt in s.targets:
            for n in ast.walk(tgt):
                if isinstance(n, ast.Name):
                    v = ast.unparse(s.value)
                    m = SHAPE_PRESERVING.match(v)
                    if not (m and n.id in m.groups()):
                        dirty.add(n.id)
                        mv = VALUE_PRESERVING.match(v)
                        if not (mv and n.id in mv.groups()):
                            vdirty.add(n.id)
                    mc = re.fullmatch(r'np\.count_nonzero\((\w+)\)', v)
                    if mc and mc.group(1) in params and mc.group(1) not in dirty:
                        COUNT_ALIAS[n.id] = mc.group(1)

    def has_return(node):
        return any(isinstance(n, ast.Return) for n in ast.walk(node))

    def smudge(node):
        for n in ast.walk(node):
            if isinstance(n, ast.Name) and isinstance(n.ctx, ast.Store):
                dirty.add(n.id)
                vdirty.add(n.id)
        if has_return(node):
            state['early'] = True

    def walk(body, path, depth):
        nonlocal dirty, vdirty
        for s in body:
            if isinstance(s, ast.If) and _raises(s.body) and not s.orelse:
                atoms.extend(keep(atoms_of(s.test), s.test, path))
            elif isinstance(s, ast.If):
                if depth >= 3:
                    smudge(s)
                    continue
                # a branching statement: nested guards are conditional; an assignment in one branch does not reach the others
                cur, cur_path = s, path
                d0, v0 = set(dirty), set(vdirty)
                dall, vall = set(dirty), set(vdirty)
                early0, early_any = state['early'], state['early']
                while True:
                    dirty, vdirty = set(d0), set(v0)
                    state['early'] = early0
                    if _raises(cur.body):
                        # `if t: raise … elif/else …`: on the following branches t is false; verdict-equivalent to a plain guard
                        atoms.extend(keep(atoms_of(cur.test), cur.test, cur_path))
                        nxt = cur_path
                    else:
                        x = arr_branch(cur.test, True)
                        y = arr_branch(cur.test, False)
                        inner = None if (cur_path is None or x is None) else (cur_path if x in cur_path else cur_path + [x])
                        nxt = None if (cur_path is None or y is None) else (cur_path if y in cur_path else cur_path + [y])
                        walk(cur.body, inner, depth + 1)
                        dall |= dirty
                        vall |= vdirty
                        early_any = early_any or state['early']
                    if len(cur.orelse) == 1 and isinstance(cur.orelse[0], ast.If):
                        cur, cur_path = cur.orelse[0], nxt
                        continue
                    if cur.orelse:
                        dirty, vdirty = set(d0), set(v0)
                        state['early'] = early0
                        walk(cur.orelse, nxt, depth + 1)
                        dall |= dirty
                        vall |= vdirty
                        early_any = early_any or state['early']
                    break
                dirty, vdirty = dall, vall
                state['early'] = early_any
            elif isinstance(s, ast.Expr) and isinstance(s.value, ast.Call) and _name(s.value.func) in helpers and s.value.args and _name(s.value.args[0]):
                param, tests = helpers[_name(s.value.func)]
                for t in tests:
                    t2 = _Rename(param, _name(s.value.args[0])).visit(copy.deepcopy(t))
                    atoms.extend(keep(atoms_of(t2), t2, path))
            elif isinstance(s, ast.Assign):
                assign(s)
            elif isinstance(s, ast.Return):
                state['early'] = True
            elif isinstance(s, ast.AugAssign):
                for n in ast.walk(s.target):
                    if isinstance(n, ast.Name):
                        dirty.add(n.id)
                        if not isinstance(s.op, ast.Mult):
                            vdirty.add(n.id)
            elif isinstance(s, (ast.For, ast.While, ast.With, ast.Try)):
                smudge(s)

    walk(f.body, [], 0)
    return atoms


def reach_conditions(f: ast.FunctionDef, callee: str) -> list[str]:
    """the test of the `if` whose body calls the native `callee`, as the list of atoms that must all PASS (not reject)
    for the call to be reached: `A and B` guarding the call is the guard list [not A, not B]. Names denote the values
    of the local variables at the test (not the caller's arguments)."""
    for s in ast.walk(f):
        if isinstance(s, ast.If) and any(isinstance(n, ast.Call) and ast.unparse(n.func) == callee for b in s.body for n in ast.walk(b)) \
                and not any(isinstance(n, ast.Call) and ast.unparse(n.func) == callee for n in ast.walk(s.test)):
            conj = s.test.values if isinstance(s.test, ast.BoolOp) and isinstance(s.test.op, ast.And) else [s.test]
            out = []
            for c in conj:
                src = ast.unparse(c)
                m = re.fullmatch(r'len\((\w+)\) < (\w+)\.shape\[(\w+)\]', src)
                out.append(f'.lenGeDimAt {_q(m.group(1))} {_q(m.group(2))} {_q(m.group(3))}' if m else f'.opaque {_q("not (" + src + ")")}')
            return out
    raise TranslationError(f'{f.name}: no `if` guarding the call of {callee}')


# ======================================================================================================================
# native entry points: the guards at the head of `py_*` / `convexhull`
# ======================================================================================================================

NPY = {'NPY_BOOL': 0, 'NPY_BYTE': 1, 'NPY_UBYTE': 2, 'NPY_SHORT': 3, 'NPY_USHORT': 4, 'NPY_INT': 5, 'NPY_UINT': 6, 'NPY_LONG': 7, 'NPY_ULONG': 8,
       'NPY_LONGLONG': 9, 'NPY_ULONGLONG': 10, 'NPY_FLOAT': 11, 'NPY_DOUBLE': 12, 'NPY_LONGDOUBLE': 13, 'NPY_CFLOAT': 14, 'NPY_CDOUBLE': 15,
       'NPY_CLONGDOUBLE': 16, 'NPY_OBJECT': 17, 'NPY_INT8': 1, 'NPY_UINT8': 2, 'NPY_INT16': 3, 'NPY_UINT16': 4, 'NPY_INT32': 5, 'NPY_UINT32': 6,
       'NPY_INT64': 7, 'NPY_UINT64': 8, 'NPY_FLOAT32': 11, 'NPY_FLOAT64': 12, 'NPY_INTP': 7, 'NPY_UINTP': 8, 'NPY_FLOAT128': 13}
# C++ type -> dtype_code<T>() (mahotas/numpypp/numpy.hpp DECLARE_DTYPE_CODE; LP64)
CTYPE = {'bool': 0, 'char': 1, 'unsigned char': 2, 'short': 3, 'unsigned short': 4, 'int': 5, 'unsigned int': 6, 'unsigned': 6, 'long': 7,
         'unsigned long': 8, 'long long': 9, 'unsigned long long': 10, 'float': 11, 'double': 12, 'npy_intp': 7, 'npy_int32': 5, 'npy_uint32': 6,
         'npy_int64': 7, 'npy_uint64': 8, 'npy_uint8': 2, 'npy_int8': 1, 'npy_int16': 3, 'npy_uint16': 4, 'npy_float32': 11, 'npy_float': 11,
         'npy_float64': 12, 'npy_double': 12, 'npy_bool': 0}
INT_FORMATS = set('bBhHiIlkLKn')

ENTRY_RE = re.compile(r'PyObject\s*\*\s*(py_\w+|convexhull)\s*\(\s*PyObject\s*\*\s*self\s*,\s*PyObject\s*\*\s*args\s*\)\s*\{')
METHOD_RE = re.compile(r'\{\s*"(\w+)"\s*,\s*(?:\(PyCFunction\))?\s*(\w+)\s*,')
ERR_RE = re.compile(r'PyErr_SetString|PyErr_NoMemory|PyErr_Format|PyErr_SetObject|throw\s+PythonException')


def strip_comments(src: str) -> str:
    """remove // and /* */ comments (string literals are kept intact)"""
    out = []
    i, n = 0, len(src)
    while i < n:
        c = src[i]
        if c == '"' or c == "'":
            j = i + 1
            while j < n and src[j] != c:
                j += 2 if src[j] == '\\' else 1
            out.append(src[i:j + 1])
            i = j + 1
        elif src.startswith('//', i):
            j = src.find('\n', i)
            i = n if j < 0 else j
        elif src.startswith('/*', i):
            j = src.find('*/', i + 2)
            i = n if j < 0 else j + 2
        else:
            out.append(c)
            i += 1
    return ''.join(out)


def _match(src: str, i: int, open_: str, close: str) -> int:
    """index just after the bracket closing the one at src[i]"""
    assert src[i] == open_
    depth = 0
    n = len(src)
    while i < n:
        c = src[i]
        if c == '"' or c == "'":
            j = i + 1
            while j < n and src[j] != c:
                j += 2 if src[j] == '\\' else 1
            i = j + 1
            continue
        if c == open_:
            depth += 1
        elif c == close:
            depth -= 1
            if depth == 0:
                return i + 1
        i += 1
    raise TranslationError('unbalanced ' + open_)


def split_statements(body: str) -> list[str]:
    """top-level statements of a brace-less block text (preprocessor lines are statements of their own)"""
    out = []
    i, n = 0, len(body)
    while i < n:
        while i < n and body[i].isspace():
            i += 1
        if i >= n:
            break
        start = i
        if body[i] == '#':
            while i < n:
                j = body.find('\n', i)
                if j < 0:
                    i = n
                    break
                if body[j - 1] == '\\':
                    i = j + 1
                    continue
                i = j + 1
                break
            out.append(body[start:i].strip())
            continue
        while i < n:
            c = body[i]
            if c == '"' or c == "'":
                j = i + 1
                while j < n and body[j] != c:
                    j += 2 if body[j] == '\\' else 1
                i = j + 1
            elif c == '(':
                i = _match(body, i, '(', ')')
            elif c == '{':
                i = _match(body, i, '{', '}')
                k = i
                while k < n and body[k].isspace():
                    k += 1
                if body.startswith('else', k) or body.startswith('catch', k) or (body.startswith('while', k) and body[start:start + 2] == 'do'):
                    i = k
                    continue
                if k < n and body[k] == ';':
                    i = k + 1
                break
            elif c == ';':
                i += 1
                break
            elif c == ':' and re.fullmatch(r'\w+', body[start:i].strip() or '-') and not body.startswith('::', i) and body[start:i].strip() not in ('default', 'public', 'private'):
                i += 1            # a label
                break
            else:
                i += 1
        out.append(body[start:i].strip())
    return out


def split_or(expr: str) -> list[str]:
    parts, depth, cur, i = [], 0, '', 0
    while i < len(expr):
        c = expr[i]
        if c == '(':
            depth += 1
        elif c == ')':
            depth -= 1
        if expr.startswith('||', i) and depth == 0:
            parts.append(cur.strip())
            cur = ''
            i += 2
            continue
        cur += c
        i += 1
    parts.append(cur.strip())
    return [' '.join(p.split()) for p in parts]


def _names_list(s):
    return [x.strip() for x in s.split(',')]


def _qlist(xs):
    return '[' + ', '.join(_q(x) for x in xs) + ']'


def native_atom(a: str, ctx) -> tuple[str, list[str]]:
    """one disjunct -> (Lean NAtom term, C variables it speaks about)"""
    al = ctx['alias']
    m = re.fullmatch(r'!PyArg_ParseTuple\(\s*args\s*,\s*"([^"]*)".*\)', a)
    if m:
        return f'.parse {_q(m.group(1))}', []
    m = re.fullmatch(r'!numpy::are_arrays\(([\w, ]+)\)', a)
    if m:
        ns = _names_list(m.group(1))
        return f'.notArrays {_qlist(ns)}', ns
    m = re.fullmatch(r'!PyArray_Check\((\w+)\)', a)
    if m:
        x = al.get(m.group(1), ('id', m.group(1)))[1]
        return f'.notArrays {_qlist([x])}', [x]
    m = re.fullmatch(r'!numpy::same_shape\((\w+), ?(\w+)\)', a)
    if m:
        return f'.shapesDiffer {_q(m.group(1))} {_q(m.group(2))}', [m.group(1), m.group(2)]
    m = re.fullmatch(r'!numpy::equiv_typenums\(([\w, ]+)\)', a)
    if m:
        ns = _names_list(m.group(1))
        return f'.typesDiffer {_qlist(ns)}', ns
    m = re.fullmatch(r'!PyArray_EquivTypenums\(PyArray_TYPE\((\w+)\), ?PyArray_TYPE\((\w+)\)\)', a)
    if m:
        ns = [m.group(1), m.group(2)]
        return f'.typesDiffer {_qlist(ns)}', ns
    m = re.fullmatch(r'!numpy::check_type<([\w: ]+)>\((\w+)\)', a)
    if m and m.group(1).strip() in CTYPE:
        return f'.typeNotEquiv {_q(m.group(2))} {CTYPE[m.group(1).strip()]}', [m.group(2)]
    m = re.fullmatch(r'!PyArray_EquivTypenums\(PyArray_TYPE\((\w+)\), ?(NPY_\w+)\)', a) or None
    if m and m.group(2) in NPY:
        return f'.typeNotEquiv {_q(m.group(1))} {NPY[m.group(2)]}', [m.group(1)]
    m = re.fullmatch(r'!PyArray_EquivTypenums\((NPY_\w+), ?PyArray_TYPE\((\w+)\)\)', a)
    if m and m.group(1) in NPY:
        return f'.typeNotEquiv {_q(m.group(2))} {NPY[m.group(1)]}', [m.group(2)]
    m = re.fullmatch(r'PyArray_TYPE\((\w+)\) ?!= ?(NPY_\w+)', a)
    if m and m.group(2) in NPY:
        return f'.typeNe {_q(m.group(1))} {NPY[m.group(2)]}', [m.group(1)]
    m = re.fullmatch(r'PyArray_NDIM\((\w+)\) ?(!=|==) ?(\d+)', a)
    if m:
        return f'.{"ndimNe" if m.group(2) == "!=" else "ndimEq"} {_q(m.group(1))} {m.group(3)}', [m.group(1)]
    m = re.fullmatch(r'PyArray_NDIM\((\w+)\) ?!= ?PyArray_NDIM\((\w+)\)', a)
    if m:
        return f'.ndimsDiffer {_q(m.group(1))} {_q(m.group(2))}', [m.group(1), m.group(2)]
    m = re.fullmatch(r'!(?:PyArray_ISCARRAY|numpy::is_carray)\((\w+)\)', a)
    if m:
        x = al.get(m.group(1), ('id', m.group(1)))[1]
        return f'.notCArray {_q(x)}', [x]
    m = re.fullmatch(r'!PyArray_ISCARRAY_RO\((\w+)\)', a)
    if m:
        x = al.get(m.group(1), ('id', m.group(1)))[1]
        return f'.notCArrayRO {_q(x)}', [x]
    m = re.fullmatch(r'!PyArray_ISCONTIGUOUS\((\w+)\)', a)
    if m:
        return f'.notContig {_q(m.group(1))}', [m.group(1)]
    m = re.fullmatch(r'PyArray_SIZE\((\w+)\) ?== ?0', a)
    if m:
        return f'.sizeZero {_q(m.group(1))}', [m.group(1)]
    m = re.fullmatch(r'PyArray_DIM\((\w+), ?(\d)\) ?!= ?PyArray_DIM\((\w+), ?(\d)\)', a)
    if m:
        return f'.dimsDiffer {_q(m.group(1))} {m.group(2)} {_q(m.group(3))} {m.group(4)}', [m.group(1), m.group(3)]
    m = re.fullmatch(r'PyArray_DIM\((\w+), ?(\d)\) ?!= ?PyArray_NDIM\((\w+)\)', a)
    if m:
        return f'.dimNeNdim {_q(m.group(1))} {m.group(2)} {_q(m.group(3))}', [m.group(1), m.group(3)]
    m = re.fullmatch(r'PyArray_DIM\((\w+), ?(\d)\) ?!= ?(\d+)', a)
    if m:
        return f'.dimNe {_q(m.group(1))} {m.group(2)} {m.group(3)}', [m.group(1)]
    m = re.fullmatch(r'(\w+) ?(<|<=|>|>=|==|!=) ?(-?\d+)', a)
    if m:
        x, op, c = m.group(1), m.group(2), int(m.group(3))
        if x in al:                                   # a local initialised from PyArray_NDIM / PyArray_SIZE of a parameter
            what, arr = al[x]
            if what == 'ndim' and op in ('!=', '==') and c >= 0:
                return f'.{"ndimNe" if op == "!=" else "ndimEq"} {_q(arr)} {c}', [arr]
            if what == 'size' and op == '==' and c == 0:
                return f'.sizeZero {_q(arr)}', [arr]
        elif x in ctx['ints'] and op in ('<', '<=', '>', '>='):
            return f'.{ {"<": "intLt", "<=": "intLe", ">": "intGt", ">=": "intGe"}[op] } {_q(x)} ({c})', [x]
    return f'.opaque {_q(a)}', []


def _if_parts(stmt: str):
    """`if (C) S1 [else S2]` -> (C, S1, S2|None)"""
    i = stmt.index('(')
    j = _match(stmt, i, '(', ')')
    cond = stmt[i + 1:j - 1]
    rest = stmt[j:].lstrip()
    if rest.startswith('{'):
        k = _match(rest, 0, '{', '}')
        then, tail = rest[:k], rest[k:].lstrip()
    else:
        sub = split_statements(rest)
        then = sub[0]
        tail = rest[rest.index(then) + len(then):].lstrip()
    els = tail[4:].lstrip() if tail.startswith('else') else None
    return cond, then, els


def _inner(block: str) -> str:
    return block[1:-1] if block.startswith('{') else block


def _exit_action(block: str, labels: dict):
    """None when the block does not leave the function at its top level; else the action code"""
    stmts = split_statements(_inner(block))
    seterr = bool(ERR_RE.search(block))
    for s in stmts:
        m = re.fullmatch(r'return\s*(.*?)\s*;', s, re.S)
        if m:
            if m.group(1) in ('NULL', '0', 'nullptr'):
                return 1 if seterr else 3
            return 4
        if re.fullmatch(r'Py_RETURN_\w+\s*;?', s):
            return 4
        m = re.fullmatch(r'goto\s+(\w+)\s*;', s)
        if m:
            tail = labels.get(m.group(1))
            if tail is None:
                raise TranslationError(f'goto {m.group(1)}: label not found')
            if seterr and 'PyErr_Occurred' in tail and re.search(r'return\s+(NULL|0)\s*;', tail):
                return 1
            if not seterr and re.search(r'return\s+(?!NULL|0\s*;)', tail):
                return 4
            raise TranslationError(f'goto {m.group(1)}: exit path not understood')
    return None


STOP_RE = re.compile(r'^(#define|try\b|for\b|while\b|do\b|switch\b|SAFE_SWITCH|HANDLE|\{|gil_release\b|return\b|Py_RETURN)')


def native_guards(body: str, cname: str, file_funcs: dict = {}, fsrc: str = ''):
    """(params, fmt, [(atom, action)]) of one entry point body (text between the outer braces, comments removed)"""
    labels = {m.group(1): body[m.end():] for m in re.finditer(r'\n\s*(\w+):\s*\n', body) if m.group(1) not in ('default', 'public', 'private')}
    m = re.search(r'PyArg_ParseTuple\(\s*args\s*,\s*"([^"]*)"\s*((?:,\s*&\w+\s*)*)\)', body)
    if not m:
        raise TranslationError(f'{cname}: no PyArg_ParseTuple')
    fmt = m.group(1)
    params = re.findall(r'&(\w+)', m.group(2))
    units = re.findall(r'[A-Za-z]', fmt.split('|')[0].split(':')[0]) + re.findall(r'[A-Za-z]', fmt.split('|')[1].split(':')[0] if '|' in fmt else '')
    if len(units) != len(params):
        raise TranslationError(f'{cname}: format {fmt!r} does not match {params}')
    ctx = dict(alias={}, ints={p for p, u in zip(params, units) if u in INT_FORMATS}, dirty=set())
    out = []

    def wrap(atom, path):
        for kind, x in reversed(path):
            atom = f'.{kind} {_q(x)} ({atom})'
        return atom

    def callee_sets_error(a):
        """`!x` / `!f(…)` where the failing callee has set the error itself (numpy allocation, or a function of this
        file whose body sets one)"""
        m = re.fullmatch(r'!(\w+)', a)
        callee = None
        if m:
            mm = re.search(r'\b' + m.group(1) + r'\s*=\s*(?:\([^()]*\)\s*|reinterpret_cast<[^<>]*>\(\s*)?(\w+)\(', body)
            callee = mm.group(1) if mm else None
        else:
            m = re.fullmatch(r'!(\w+)\(.*\)', a)
            callee = m.group(1) if m else None
        if callee in ('PyArray_SimpleNew', 'PyArray_EMPTY', 'PyArray_ZEROS', 'PyArray_FromDims', 'PyArray_New'):
            return True
        return bool(callee and callee in file_funcs and ERR_RE.search(file_funcs[callee]))

    def inline_checker(a):
        """`!f(x, y, …)` for a function of this file of the form `bool ok = (c1 && c2 && …); …; return ok;`: the negations of the
        conjuncts `p > c`, `p <= c`, … read on the actual arguments, followed by the call itself (its remaining tests) as opaque"""
        m = re.fullmatch(r'!(\w+)\(([\w, ]*)\)', a)
        if not m or m.group(1) not in file_funcs:
            return None
        fbody = file_funcs[m.group(1)]
        mm = re.search(r'bool\s+ok\s*=\s*\(([^;]*)\)\s*;', fbody)
        sig = re.search(r'\b' + m.group(1) + r'\s*\(([^()]*)\)\s*\{', fsrc)
        if not mm or not sig or not re.search(r'return\s+ok\s*;', fbody):
            return None
        formals = [x.strip().split()[-1] for x in sig.group(1).split(',')]
        actuals = [x.strip() for x in m.group(2).split(',')]
        if len(formals) != len(actuals):
            return None
        ren = dict(zip(formals, actuals))
        neg = {'>': '<=', '>=': '<', '<': '>=', '<=': '>'}
        out_ = []
        for c in mm.group(1).split('&&'):
            mc = re.fullmatch(r'\s*(\w+)\s*(<=|>=|<|>)\s*(-?\d+)\s*', c)
            if not mc or mc.group(1) not in ren:
                return None
            out_.append(f'{ren[mc.group(1)]} {neg[mc.group(2)]} {mc.group(3)}')
        return out_ + [a]

    def emit(cond, action, path):
        parts = []
        for a in split_or(' '.join(cond.split())):
            parts += [(x, a) for x in (inline_checker(a) or [a])]
        for a, origin in parts:
            for k, v in ctx['alias'].items():
                if v[0] == 'id':
                    a = re.sub(r'\b' + k + r'\b', v[1], a)
            if action == 3 and callee_sets_error(origin):
                action_a = 5
            else:
                action_a = action
            action, keep_action = action_a, action
            if path is None:
                out.append((f'.opaque {_q("(conditional) " + a)}', 2 if a.startswith('!PyArg_ParseTuple') else action))
                action = keep_action
                continue
            t, vs = native_atom(a, ctx)
            if any(v in ctx['dirty'] or v not in params for v in vs):
                t = f'.opaque {_q(a)}'
            out.append((wrap(t, path), 2 if t.startswith('.parse') else action))
            action = keep_action

    def path_of(cond, negate):
        """a recognised branch condition as a path element"""
        c = ' '.join(cond.split())
        al = ctx['alias']
        if negate:
            m = re.fullmatch(r'!PyArray_Check\((\w+)\)', c)
            if m:
                return ('whenArr', al.get(m.group(1), ('id', m.group(1)))[1])
            m = re.fullmatch(r'(?:reinterpret_cast<PyObject\*>\()?(\w+)\)? ?== ?Py_None', c)
            if m:
                return ('whenNotNone', m.group(1))
        else:
            m = re.fullmatch(r'PyArray_Check\((\w+)\)', c)
            if m:
                return ('whenArr', al.get(m.group(1), ('id', m.group(1)))[1])
            m = re.fullmatch(r'(?:reinterpret_cast<PyObject\*>\()?(\w+)\)? ?!= ?Py_None', c)
            if m:
                return ('whenNotNone', m.group(1))
        return None

    def note_assignments(text):
        for p in params:
            if re.search(r'(?<![\w.>])' + re.escape(p) + r'\s*=(?!=)', text):
                ctx['dirty'].add(p)

    def walk(stmts, path, depth):
        for s in stmts:
            if depth == 0 and STOP_RE.match(s):
                break
            if re.match(r'if\s*\(', s):
                cur, cur_path = s, path
                dirty0, dirty_all = set(ctx['dirty']), set(ctx['dirty'])
                while True:
                    dirty_all |= ctx['dirty']
                    ctx['dirty'] = set(dirty0)          # an assignment in one branch does not reach the other branches
                    cond, then, els = _if_parts(cur)
                    act = _exit_action(then, labels)
                    if act is not None:
                        emit(cond, act, cur_path)
                        nxt = cur_path            # verdict-equivalent: an exit branch need not be negated for the next ones
                    else:
                        pe = path_of(cond, False)
                        inner_path = None if (cur_path is None or pe is None or pe[1] in ctx['dirty'] or pe[1] not in params) else cur_path + [pe]
                        pn = path_of(cond, True)
                        nxt = None if (cur_path is None or pn is None or pn[1] in ctx['dirty'] or pn[1] not in params) else cur_path + [pn]
                        if depth < 2:
                            walk(split_statements(_inner(then)), inner_path, depth + 1)
                            dirty_all |= ctx['dirty']
                            ctx['dirty'] = set(dirty0)
                    if els is None:
                        break
                    if re.match(r'if\s*\(', els):
                        cur, cur_path = els, nxt
                        continue
                    if depth < 2:
                        walk(split_statements(_inner(els)), nxt, depth + 1)
                    break
                ctx['dirty'] |= dirty_all
                note_assignments(s)
                continue
            # local aliases: `const int nd = PyArray_NDIM(a);`, `… size = PyArray_SIZE(a);`, `PyArrayObject* x = (PyArrayObject*)(obj);`
            m = re.fullmatch(r'(?:const\s+)?[\w:]+\s+(\w+)\s*=\s*PyArray_(NDIM|SIZE)\((\w+)\)\s*;', s)
            if m and m.group(3) in params and m.group(3) not in ctx['dirty']:
                ctx['alias'][m.group(1)] = (m.group(2).lower(), m.group(3))
                continue
            m = re.fullmatch(r'PyArrayObject\s*\*\s*(\w+)\s*=\s*\(PyArrayObject\s*\*\)\s*\(?(\w+)\)?\s*;', s)
            if m and m.group(2) in params and m.group(2) not in ctx['dirty']:
                ctx['alias'][m.group(1)] = ('id', m.group(2))
                continue
            note_assignments(s)

    walk(split_statements(body), [], 0)
    # identity aliases are resolved inside atoms: `same_shape(array, labels_arr)` speaks about `labels_obj`
    ids = {k: v[1] for k, v in ctx['alias'].items() if v[0] == 'id'}
    return params, fmt, out, ids


def extract_native(repo: Path):
    """[(module, pyname, cname, params, fmt, [(atom, action)])] for every native entry point"""
    res = []
    files = sorted((repo / 'mahotas').glob('_*.cpp')) + sorted((repo / 'mahotas' / 'features').glob('_*.cpp'))
    for p in files:
        src = strip_comments(p.read_text())
        methods = {c: py for py, c in METHOD_RE.findall(src)}
        file_funcs = {}
        for fm in re.finditer(r'\b(\w+)\s*\([^;{}()]*\)\s*\{', src):
            if fm.group(1) not in ('if', 'for', 'while', 'switch', 'catch'):
                try:
                    file_funcs.setdefault(fm.group(1), src[fm.end():_match(src, fm.end() - 1, '{', '}')])
                except TranslationError:
                    pass
        for m in ENTRY_RE.finditer(src):
            cname = m.group(1)
            end = _match(src, m.end() - 1, '{', '}')
            body = src[m.end():end - 1]
            if cname not in methods:
                raise TranslationError(f'{p.name}: {cname} is not in the method table')
            res.append((p.stem, methods[cname], cname) + native_guards(body, f'{p.name}:{cname}', file_funcs, src))
    return res


# entry points that theorems and the harness refer to: their disappearance is a broken tie
NATIVE_REQUIRED = ['_convolve.find2d', '_convolve.template_match', '_convolve.convolve1d', '_convolve.rank_filter', '_morph.hitmiss',
                   '_morph.majority_filter', '_center_of_mass.center_of_mass', '_thin.thin', '_interpolate.zoom_shift', '_distance.dt',
                   '_bbox.bbox_labeled', '_texture.cooccurence', '_convex.convexhull', '_labeled.slic', '_morph.cwatershed']


def generate(repo: Path, outdir: Path) -> dict:
    helpers = helper_guards(repo)
    lines = ['/- GENERATED by translator/guards.py from the current /repo sources. Do not edit. -/',
             'import Mahotas.Model.C11Base', 'namespace Mahotas.Generated', 'open Mahotas.C11', '']
    table = []
    actions = []
    ninterp = nopaque = 0
    trees = {}
    for rel, names in sorted(PUBLIC.items()):
        p = repo / 'mahotas' / rel
        if not p.exists():
            raise TranslationError(f'{rel} not found')
        with warnings.catch_warnings():
            warnings.simplefilter('ignore', SyntaxWarning)          # invalid escapes in docstrings of the sources
            tree = trees[rel] = ast.parse(p.read_text())
        for name in names:
            f = _func(tree, name)
            if f is None:
                raise TranslationError(f'{rel}: public function {name} not found')
            atoms = function_guards(f, helpers)
            params = [a.arg for a in f.args.args]
            mod = rel[:-3].replace('/', '_')
            ident = f'guards_{mod}_{name}'
            interp = [a for a in atoms if '.opaque' not in a]
            ninterp += len(interp)
            nopaque += len(atoms) - len(interp)
            if interp:
                lines.append(f'-- wrapper: {name}')
            lines.append(f'/-- guards of `mahotas/{rel}:{name}({", ".join(params)})` -/')
            lines.append(f'def {ident} : List Atom := [' + ', '.join(atoms) + ']')
            table.append((f'{mod}.{name}', name, ident))
            actions.append((f'w:{mod}.{name}', ident, [0] * len(atoms)))      # extracted only when the body of the `if` raises
    lines.append('')
    lines.append('/-- (module.function, short name, guards) for every extracted wrapper -/')
    lines.append('def wrapperGuards : List (String × String × List Atom) := [')
    lines.append(',\n'.join(f'  ({_q(full)}, {_q(short)}, {ident})' for full, short, ident in table))
    lines.append(']')
    lines.append('')
    # reach conditions: the branch test in front of a native call
    f = _func(trees['convolve.py'], 'convolve1d')
    reach = reach_conditions(f, '_convolve.convolve1d')
    lines.append('/-- what must hold (every atom passes) for `convolve.convolve1d` to call the native fast path `_convolve.convolve1d`;')
    lines.append('    the names denote the local variables at the test -/')
    lines.append('def reach_convolve_convolve1d : List Atom := [' + ', '.join(reach) + ']')
    lines.append('')
    # native entry points
    natives = extract_native(repo)
    have = {f'{mod}.{py}' for mod, py, *_ in natives}
    for r in NATIVE_REQUIRED:
        if r not in have:
            raise TranslationError(f'native entry point {r} not found')
    ntable = []
    n_interp = n_opaque = 0
    for mod, py, cname, params, fmt, atoms, ids in natives:
        ident = f'nativeGuards{mod}_{py}'
        lines.append(f'-- native: {mod}.{py} cfn={cname} params={",".join(params)} fmt={fmt}')
        lines.append(f'/-- guards of `{cname}` (mahotas/{"features/" if mod in ("_lbp", "_surf", "_texture", "_zernike") else ""}{mod}.cpp), Python name `{mod}.{py}({", ".join(params)})` -/')
        lines.append(f'def {ident} : List NAtom := [' + ', '.join(a for a, _ in atoms) + ']')
        n_interp += sum(1 for a, _ in atoms if '.opaque' not in a and not a.startswith('.parse'))
        n_opaque += sum(1 for a, _ in atoms if '.opaque' in a or a.startswith('.parse'))
        ntable.append((f'{mod}.{py}', cname, ident))
        actions.append((f'n:{mod}.{py}', ident, [act for _, act in atoms]))
    lines.append('')
    lines.append('/-- (module.python name, C function, guards) for every native entry point -/')
    lines.append('def nativeGuardTable : List (String × String × List NAtom) := [')
    lines.append(',\n'.join(f'  ({_q(full)}, {_q(c)}, {ident})' for full, c, ident in ntable))
    lines.append(']')
    lines.append('')
    lines.append('/-- (entry, number of atoms of its guard list, action code of each atom — see `Mahotas.C11.actionIsException`) -/')
    lines.append('def guardActionTable : List (String × Nat × List Nat) := [')
    lines.append(',\n'.join(f'  ({_q(k)}, {ident}.length, [{", ".join(map(str, acts))}])' for k, ident, acts in actions))
    lines.append(']')
    # wrapper -> native argument links (round 3)
    from . import links as _links
    sites, ltables, flows = _links.extract(repo, {f'{mod}.{py}': params for mod, py, cname, params, fmt, atoms, ids in natives})
    lines += _links.lean_lines(sites, ltables, flows)
    link_kinds = {}
    for _, _, _, ls in sites:
        for _, l in ls:
            link_kinds[l[0]] = link_kinds.get(l[0], 0) + 1
    # allocation sites of uninitialised memory (round 4, C10)
    from . import allocs as _allocs
    try:
        alloc_sites = _allocs.extract(repo)
    except _allocs.TranslationError as e:
        raise TranslationError(str(e))
    lines += _allocs.lean_lines(alloc_sites)
    try:
        lines += _allocs.index_guard_lines(_allocs.extract_index_guards(repo))
    except _allocs.TranslationError as e:
        raise TranslationError(str(e))
    lines += ['', 'end Mahotas.Generated', '']
    changed = _write_if_changed(outdir / 'Guards.lean', '\n'.join(lines))
    bare = [k for k, _, acts in actions if 3 in acts]
    return dict(guards_changed=changed, guard_wrappers=len(table), guard_atoms_interpreted=ninterp, guard_atoms_opaque=nopaque,
                link_sites=len(sites), link_kinds=link_kinds, alloc_sites=len(alloc_sites),
                native_entry_points=len(ntable), native_atoms_interpreted=n_interp, native_atoms_opaque_or_parse=n_opaque,
                bare_null_exits=bare)


if __name__ == '__main__':
    import sys
    print(generate(Path(sys.argv[1] if len(sys.argv) > 1 else '/repo'), Path(__file__).resolve().parent.parent / 'lean' / 'Mahotas' / 'Generated'))
