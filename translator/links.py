"""Translator for C11 (round 3): the wrapper -> native ARGUMENT LINKS.

For every top-level function of the Python modules of mahotas and every call of a native entry point in its body, which
expression is passed for each native parameter, classified relative to the PARAMETERS of the wrapper by a forward symbolic
walk over the body (branches are joined; a branch that ends in `return`/`raise` does not reach the join):

  pass p        the caller's argument itself (the local still is the parameter object)
  norm p        a rank-and-shape preserving conversion of it: np.asarray / np.asanyarray / np.array (no ndmin) / np.require /
                .astype / .copy
  norm1 p       np.ascontiguousarray / np.asfortranarray: the same shape for rank >= 1 (a 0-d array becomes (1,))
  view p        `.view(dtype)`: the same rank
  output l o    `_get_output(X, o, …)` with X a pass/norm of parameter l: `o` itself when given (checked to have X's shape
                and to be contiguous) else np.empty(X.shape, dtype)
  fresh l       np.empty/np.zeros(X.shape, …), np.empty_like/np.zeros_like(X)
  structElem a b  `get_structuring_elem(X, b)`
  zeroFrame r c `np.zeros((r + 2, c + 2), bool)` into which only `[1:r + 1, 1:c + 1]` has been stored (thin.py)
A local bound to `pass p` that is stored into (`x[…] = …`, `x.fill(…)`, `out=x`) degrades to `norm p` (same object, other values).
  const v / noneLit / intOf p / lookup T p (`T[p]` for a module-level dict of integers, e.g. mode2int) / other "<source>"

The result is emitted into Generated/Guards.lean by translator/guards.py (`links_…`, `argLinkTable`, `lookupTables`).
A call of a native entry point that is not in the native table, or with another number of arguments than the entry point
parses, raises TranslationError."""
from __future__ import annotations
import ast, re, warnings
from pathlib import Path
from .tables import TranslationError

NATIVE_ALIASES = {'_convolve', '_morph', '_labeled', '_distance', '_histogram', '_interpolate', '_convex', '_lbp', '_surf', '_texture',
                  '_zernike', '_center_of_mass', '_bbox', '_thin'}
FUNC_ALIASES = {'_thin': '_thin.thin'}           # `from ._thin import thin as _thin`
NORM_FUNCS = {'np.asarray', 'np.asanyarray', 'np.array', 'np.require', 'numpy.asarray', 'numpy.asanyarray'}
NORM1_FUNCS = {'np.ascontiguousarray', 'np.asfortranarray'}
FRESH_LIKE = {'np.empty_like', 'np.zeros_like'}
FRESH_SHAPE = {'np.empty', 'np.zeros'}
OTHER = ('other', '')
MUTATORS = {'fill', 'sort', 'resize', 'put', 'itemset', 'setflags', 'partition', 'byteswap', 'setfield'}     # in-place methods of ndarray
CHECK_HELPERS = {'_check_rank', '_check_interpolate'}       # helpers whose own guards are extracted by translator/guards.py (`guards_convolve__check_rank`)


def _q(s: str) -> str:
    return '"' + s.replace('\\', '\\\\').replace('"', '\\"') + '"'


def _src(n) -> str:
    s = ast.unparse(n)
    return s if len(s) <= 60 else s[:57] + '...'


def compose(outer: str, inner):
    """the link of `outer(inner)` for outer in norm / norm1 / view"""
    k = inner[0]
    if outer == 'norm':
        if k == 'structElem':
            # (round 4, C09 aliasing guards) `Bc = Bc.copy()` / `.astype` of a structuring element: rank, shape, size unchanged
            return inner
        return ('norm', inner[1]) if k in ('pass', 'norm') else inner if k in ('norm1', 'view') else OTHER
    if outer == 'norm1':
        return ('norm1', inner[1]) if k in ('pass', 'norm', 'norm1') else OTHER
    if outer == 'view':
        return ('view', inner[1]) if k in ('pass', 'norm', 'view') else OTHER
    return OTHER


ORDER = {'pass': 0, 'norm': 1, 'norm1': 2}


_FRESH = [0]


def fresh_vid():
    _FRESH[0] += 1
    return _FRESH[0]


def join(a, b):
    if isinstance(a, int) or isinstance(b, int):           # value numbers
        return a if a == b else fresh_vid()
    if a == b:
        return a
    if a[0] in ORDER and b[0] in ORDER and a[1] == b[1]:
        return a if ORDER[a[0]] >= ORDER[b[0]] else b
    if {a[0], b[0]} <= {'pass', 'norm', 'view'} and a[1] == b[1]:
        return ('view', a[1])
    # `output l o` and `fresh l` both are ndarrays of the rank and shape of l
    if {a[0], b[0]} == {'output', 'fresh'} and a[1] == b[1]:
        return a if a[0] == 'output' else b
    if {a[0], b[0]} <= {'output', 'fresh', 'norm'} and a[1] == b[1]:
        return ('norm', a[1])
    return ('other', 'join of ' + (a[1] if a[0] == 'other' and len(a) > 1 else a[0]) + ' | ' + (b[1] if b[0] == 'other' and len(b) > 1 else b[0]))


def subst(sm, argmap):
    """the link of a helper's return value (relative to the helper's parameters) re-expressed with the links of the actual arguments"""
    k = sm[0]
    get = lambda hp: argmap.get(hp, ('other', 'default of ' + hp))
    if k == 'pass':
        return get(sm[1])
    if k in ('norm', 'norm1', 'view'):
        return compose(k, get(sm[1]))
    if k == 'output':
        L, O = get(sm[1]), get(sm[2])
        if L[0] in ('pass', 'norm') and O[0] == 'pass':
            return ('output', L[1], O[1])
        return ('norm', L[1]) if L[0] in ('pass', 'norm') else ('other', 'output of a converted array')
    if k == 'fresh':
        L = get(sm[1])
        return ('fresh', L[1]) if L[0] in ('pass', 'norm') else ('other', 'fresh of a converted array')
    if k == 'structElem':
        A, B = get(sm[1]), get(sm[2])
        return ('structElem', A[1], B[1]) if A[0] in ('pass', 'norm', 'output', 'fresh') and B[0] in ('pass', 'norm') else ('other', 'structuring element')
    if k in ('intOf', ):
        A = get(sm[1])
        return ('intOf', A[1]) if A[0] == 'pass' else ('other', 'int(…)')
    if k == 'lookup':
        A = get(sm[2])
        return ('lookup', sm[1], A[1]) if A[0] == 'pass' else ('other', 'lookup')
    return sm


class _Walker:
    def __init__(self, fn: ast.FunctionDef, native_params: dict, tables: dict, funcs: dict = None, stack=()):
        self.fn = fn
        self.native = native_params
        self.tables = tables
        self.funcs = funcs or {}
        self.stack = stack
        self.sites = []               # (native full name, [(cparam, link)], [(cparam, value number, kind)])
        self.returns = []
        self.checks = []              # top-level calls of guard helpers: (helper, [(helper parameter, value number)])

    def summary(self, name):
        """(parameter names, link of the return value relative to them) of a top-level helper of the package"""
        if name in self.stack or name not in self.funcs or self.funcs[name] is None:
            return None
        key = ('#summary', name)
        if key not in self.funcs:
            node = self.funcs[name]
            a = node.args
            params = [x.arg for x in a.posonlyargs + a.args + a.kwonlyargs]
            w = _Walker(node, {}, self.tables, self.funcs, self.stack + (name,))
            w.quiet = True
            w.walk(node.body, {x: ('pass', x) for x in params})
            out = None
            for r in w.returns:
                out = r if out is None else join(out, r)
            self.funcs[key] = (params, out if out is not None else ('other', 'no return value'))
        return self.funcs[key]

    quiet = False

    def check_summary(self, name):
        """[(checker, checker parameter, own parameter)]: the checker is called, at the top level of `name`, with the very object
        `name` received for its own parameter (directly, or through a helper that does so)"""
        if name in self.stack or self.funcs.get(name) is None:
            return []
        key = ('#checks', name)
        if key not in self.funcs:
            node = self.funcs[name]
            a = node.args
            params = [x.arg for x in a.posonlyargs + a.args + a.kwonlyargs]
            w = _Walker(node, {}, self.tables, self.funcs, self.stack + (name,))
            w.quiet = True
            loc = {x: ('pass', x) for x in params}
            pv = {x: fresh_vid() for x in params}
            loc.update({'#' + x: v for x, v in pv.items()})
            w.walk(node.body, loc)
            back = {v: x for x, v in pv.items()}
            self.funcs[key] = [(chk, cp, back[v]) for chk, hv in w.checks for cp, v in hv if v in back]
        return self.funcs[key]

    def note_check(self, call, loc):
        if not isinstance(call.func, ast.Name) or self.funcs.get(call.func.id) is None:
            return
        name = call.func.id
        h = self.funcs[name]
        hp = [x.arg for x in h.args.args]
        bound = {p_: a for p_, a in zip(hp, call.args)}
        bound.update({kw.arg: kw.value for kw in call.keywords if kw.arg})
        vids = {p_: loc['#' + a.id] for p_, a in bound.items() if isinstance(a, ast.Name) and ('#' + a.id) in loc}
        if name in CHECK_HELPERS:
            self.checks.append((name, sorted(vids.items())))
        else:
            by = {}
            for chk, cp, own in self.check_summary(name):
                if own in vids:
                    by.setdefault(chk, []).append((cp, vids[own]))
            for chk, lst in by.items():
                self.checks.append((chk, lst))

    # -- expressions ----------------------------------------------------------------------------------------------
    def link(self, e, loc):
        if isinstance(e, ast.Name):
            return loc.get(e.id, ('other', e.id))
        if isinstance(e, ast.Constant):
            if e.value is None:
                return ('noneLit',)
            if isinstance(e.value, bool):
                return ('const', int(e.value))
            if isinstance(e.value, int):
                return ('const', e.value)
            return ('other', _src(e))
        if isinstance(e, ast.UnaryOp) and isinstance(e.op, ast.USub) and isinstance(e.operand, ast.Constant) and isinstance(e.operand.value, int):
            return ('const', -e.operand.value)
        if isinstance(e, ast.Subscript) and isinstance(e.value, ast.Name) and e.value.id in self.tables and isinstance(e.slice, ast.Name):
            inner = loc.get(e.slice.id, OTHER)
            if inner[0] == 'pass':
                return ('lookup', e.value.id, inner[1])
            return ('other', _src(e))
        if isinstance(e, ast.Call):
            f = ast.unparse(e.func)
            a0 = e.args[0] if e.args else None
            kws = {k.arg for k in e.keywords}
            if f in NORM_FUNCS and a0 is not None and 'ndmin' not in kws and len(e.args) <= 2:
                return compose('norm', self.link(a0, loc))
            if f in NORM1_FUNCS and a0 is not None:
                return compose('norm1', self.link(a0, loc))
            if isinstance(e.func, ast.Attribute) and e.func.attr in ('astype', 'copy') and not (e.func.attr == 'copy' and e.args):
                return compose('norm', self.link(e.func.value, loc))
            if isinstance(e.func, ast.Attribute) and e.func.attr == 'view' and len(e.args) == 1:
                return compose('view', self.link(e.func.value, loc))
            if f in ('_get_output', 'internal._get_output') and len(e.args) >= 2:
                like, out = self.link(e.args[0], loc), self.link(e.args[1], loc)
                if like[0] in ('pass', 'norm') and out[0] == 'pass':
                    return ('output', like[1], out[1])
                if like[0] in ('pass', 'norm'):
                    return ('norm', like[1])          # whichever `out` is used, the result has the rank and shape of X
                return ('other', _src(e))
            if f in ('get_structuring_elem', 'morph.get_structuring_elem') and len(e.args) == 2:
                a, b = self.link(e.args[0], loc), self.link(e.args[1], loc)
                if a[0] in ('pass', 'norm', 'output', 'fresh') and b[0] in ('pass', 'norm'):
                    # (round 4: `norm` = the parameter or a guarded copy of it, `if np.may_share_memory(Bc, out): Bc = Bc.copy()`)
                    return ('structElem', a[1], b[1])
                return ('other', _src(e))
            if (f == 'np.zeros' and len(e.args) == 2 and ast.unparse(e.args[1]) == 'bool' and isinstance(a0, ast.Tuple) and len(a0.elts) == 2):
                m = [re.fullmatch(r'(\w+) \+ 2', ast.unparse(x)) for x in a0.elts]
                if all(m):
                    return ('zeroFrame', m[0].group(1), m[1].group(1))
            if f in FRESH_LIKE and a0 is not None:
                inner = self.link(a0, loc)
                return ('fresh', inner[1]) if inner[0] in ('pass', 'norm') else ('other', _src(e))
            if f in FRESH_SHAPE and a0 is not None and isinstance(a0, ast.Attribute) and a0.attr == 'shape':
                inner = self.link(a0.value, loc)
                return ('fresh', inner[1]) if inner[0] in ('pass', 'norm') else ('other', _src(e))
            if f == 'int' and len(e.args) == 1:
                inner = self.link(a0, loc)
                return ('intOf', inner[1]) if inner[0] == 'pass' else ('other', _src(e))
            hname = f.split('.')[-1] if f.startswith(('internal.', 'morph.')) else f
            if isinstance(e.func, (ast.Name, ast.Attribute)) and re.fullmatch(r'\w+', hname):
                sm = self.summary(hname)
                if sm is not None:
                    params, rl = sm
                    argmap = {}
                    for pn, a in zip(params, e.args):
                        argmap[pn] = self.link(a, loc)
                    for kw in e.keywords:
                        if kw.arg:
                            argmap[kw.arg] = self.link(kw.value, loc)
                    r = subst(rl, argmap)
                    return r if r[0] != 'other' else ('other', _src(e))
        return ('other', _src(e))

    # -- statements -----------------------------------------------------------------------------------------------
    def record_calls(self, node, loc):
        for n in ast.walk(node):
            if not isinstance(n, ast.Call):
                continue
            f = ast.unparse(n.func)
            if f.startswith('mahotas.'):
                f = f[len('mahotas.'):]
            full = FUNC_ALIASES.get(f)
            if full is None and '.' in f and f.split('.')[0] in NATIVE_ALIASES and f.count('.') == 1:
                full = f
            if full is None:
                continue
            if self.quiet:
                continue
            if full not in self.native:
                raise TranslationError(f'{self.fn.name}: call of {full}, which is not in the native table')
            cparams = self.native[full]
            if len(n.args) != len(cparams) or n.keywords:
                raise TranslationError(f'{self.fn.name}: {full} called with {len(n.args)} arguments, the entry point parses {len(cparams)}')
            vids = []
            for c, a in zip(cparams, n.args):
                if isinstance(a, ast.Name) and ('#' + a.id) in loc:
                    vids.append((c, loc['#' + a.id], 0))
                elif isinstance(a, ast.Call) and ast.unparse(a.func) == 'int' and len(a.args) == 1 and isinstance(a.args[0], ast.Name) and ('#' + a.args[0].id) in loc:
                    vids.append((c, loc['#' + a.args[0].id], 1))
            self.sites.append((full, [(c, self.link(a, loc)) for c, a in zip(cparams, n.args)], vids))

    def assign_target(self, t, val, loc):
        if isinstance(t, ast.Name):
            loc[t.id] = val
            loc['#' + t.id] = fresh_vid()
        elif isinstance(t, (ast.Tuple, ast.List)):
            for x in t.elts:
                self.assign_target(x, ('other', 'unpacked'), loc)
        elif isinstance(t, (ast.Subscript, ast.Attribute)) and isinstance(t.value, ast.Name):
            # a[...] = …, a.b = … : the object keeps its identity, rank and shape, not its values
            x = t.value.id
            cur = loc.get(x)
            if cur and cur[0] == 'zeroFrame' and isinstance(t, ast.Subscript) and ast.unparse(t.slice).strip('()') == f'1:{cur[1]} + 1, 1:{cur[2]} + 1':
                return                              # the interior of a zero-framed buffer
            self.mutated(x, loc)

    def mutated(self, x, loc):
        cur = loc.get(x)
        if cur is None:
            return
        if cur[0] == 'pass':
            loc[x] = ('norm', cur[1])
        elif cur[0] == 'zeroFrame':
            loc[x] = ('other', 'zero-framed buffer written outside its interior')
        if '#' + x in loc:
            loc['#' + x] = fresh_vid()

    def smudge(self, node, loc):
        for n in ast.walk(node):
            if isinstance(n, ast.Name) and isinstance(n.ctx, ast.Store):
                loc[n.id] = ('other', 'assigned in a loop')
                loc['#' + n.id] = fresh_vid()

    def walk(self, body, loc):
        """returns False when the end of `body` is not reached (return / raise)"""
        for s in body:
            if isinstance(s, (ast.Return, ast.Raise)):
                if isinstance(s, ast.Return) and s.value is not None:
                    self.record_calls(s.value, loc)
                    self.returns.append(self.link(s.value, loc))
                elif isinstance(s, ast.Return):
                    self.returns.append(('other', 'return without a value'))
                return False
            if isinstance(s, ast.Assign):
                self.record_calls(s.value, loc)
                if isinstance(s.value, ast.Call) and body is self.fn.body:
                    self.note_check(s.value, loc)
                v = self.link(s.value, loc)
                for t in s.targets:
                    self.assign_target(t, v, loc)
            elif isinstance(s, ast.AugAssign):
                self.record_calls(s.value, loc)
                if isinstance(s.target, ast.Name):
                    loc[s.target.id] = ('other', _src(s))
                    loc['#' + s.target.id] = fresh_vid()
            elif isinstance(s, ast.If):
                self.record_calls(s.test, loc)
                l1, l2 = dict(loc), dict(loc)
                r1 = self.walk(s.body, l1)
                r2 = self.walk(s.orelse, l2)
                if not r1 and not r2:
                    return False
                if r1 and r2:
                    keys = set(l1) | set(l2)
                    merged = {k: join(l1.get(k, OTHER), l2.get(k, OTHER)) for k in keys}
                    # `if X is None: … else: …` on an untouched parameter X: links whose meaning is conditional on X being an
                    # ndarray (norm/norm1/view of X) need not hold on the branch where X is None
                    mt = re.fullmatch(r'(\w+) is (not )?None', ast.unparse(s.test))
                    if mt and loc.get(mt.group(1)) == ('pass', mt.group(1)):
                        X = mt.group(1)
                        larr = l1 if mt.group(2) else l2
                        for k in keys:
                            a = larr.get(k)
                            if isinstance(a, tuple) and len(a) == 2 and a[1] == X:
                                if a[0] in ('norm', 'norm1', 'view'):
                                    merged[k] = a
                                elif a[0] == 'pass' and merged[k] != a:
                                    merged[k] = ('norm', X)
                else:
                    merged = l1 if r1 else l2
                loc.clear()
                loc.update(merged)
            elif isinstance(s, (ast.For, ast.While)):
                self.smudge(s, loc)
                self.walk(s.body, loc)
                self.smudge(s, loc)
            elif isinstance(s, (ast.With, ast.Try)):
                self.smudge(s, loc)
                for b in ([s.body] + ([h.body for h in s.handlers] + [s.orelse, s.finalbody] if isinstance(s, ast.Try) else [])):
                    self.walk(b, dict(loc))
                self.smudge(s, loc)
            elif isinstance(s, ast.FunctionDef):
                loc[s.name] = ('other', 'local function')
            elif isinstance(s, (ast.Import, ast.ImportFrom)):
                pass
            else:
                self.record_calls(s, loc)
                for n in ast.walk(s):
                    if isinstance(n, ast.Call):
                        if isinstance(n.func, ast.Attribute) and isinstance(n.func.value, ast.Name) and n.func.attr in MUTATORS:
                            self.mutated(n.func.value.id, loc)
                        for kw in n.keywords:
                            if kw.arg == 'out' and isinstance(kw.value, ast.Name):
                                self.mutated(kw.value.id, loc)
                if isinstance(s, ast.Expr) and isinstance(s.value, ast.Call) and body is self.fn.body:
                    self.note_check(s.value, loc)
        return True


def lean_link(l) -> str:
    k = l[0]
    if k in ('pass', 'norm', 'norm1', 'view', 'fresh', 'intOf'):
        return f'.{k} {_q(l[1])}'
    if k in ('output', 'structElem', 'lookup', 'zeroFrame'):
        return f'.{k} {_q(l[1])} {_q(l[2])}'
    if k == 'const':
        return f'.const ({l[1]})'
    if k == 'noneLit':
        return '.noneLit'
    return f'.other {_q(l[1] if len(l) > 1 else "")}'


def int_tables(tree) -> dict:
    """module-level `NAME = { 'key': int, … }`"""
    out = {}
    for n in tree.body:
        if isinstance(n, ast.Assign) and len(n.targets) == 1 and isinstance(n.targets[0], ast.Name) and isinstance(n.value, ast.Dict):
            vals = []
            for v in n.value.values:
                if isinstance(v, ast.Constant) and isinstance(v.value, int) and not isinstance(v.value, bool):
                    vals.append(v.value)
                else:
                    vals = None
                    break
            if vals:
                out[n.targets[0].id] = vals
    return out


# call sites the theorems refer to: their disappearance is a broken tie
REQUIRED_SITES = [('convolve.find', '_convolve.find2d'), ('convolve.convolve', '_convolve.convolve'), ('convolve.template_match', '_convolve.template_match'),
                  ('convolve.rank_filter', '_convolve.rank_filter'), ('convolve.median_filter', '_convolve.rank_filter'),
                  ('morph.erode', '_morph.erode'), ('morph.dilate', '_morph.dilate'), ('morph.hitmiss', '_morph.hitmiss'),
                  ('morph.majority_filter', '_morph.majority_filter'), ('labeled.label', '_labeled.label'),
                  ('interpolate.shift', '_interpolate.zoom_shift'), ('interpolate.zoom', '_interpolate.zoom_shift'),
                  ('distance.distance', '_distance.dt'), ('segmentation.gvoronoi', '_distance.dt'), ('thin.thin', '_thin.thin'),
                  ('features_texture.cooccurence', '_texture.cooccurence'), ('features_lbp.lbp_transform', '_lbp.map'),
                  ('features_zernike.zernike_moments', '_zernike.znl'), ('features_surf.surf', '_surf.surf'),
                  ('convolve.haar', '_convolve.haar'), ('center_of_mass.center_of_mass', '_center_of_mass.center_of_mass'),
                  ('labeled.bbox', '_bbox.bbox_labeled'), ('histogram.fullhistogram', '_histogram.histogram')]


REQUIRED_FLOWS = [('interpolate.shift', '_check_interpolate', '_interpolate.zoom_shift'), ('interpolate.zoom', '_check_interpolate', '_interpolate.zoom_shift'),
                  ('convolve.rank_filter', '_check_rank', '_convolve.rank_filter'), ('convolve.median_filter', '_check_rank', '_convolve.rank_filter')]


def extract(repo: Path, native_params: dict):
    """([(wrapper 'module.function', native '_module.name', index of the call in the function, [(cparam, link)])], lookup tables)"""
    root = repo / 'mahotas'
    files = sorted(p for p in root.glob('*.py') if not p.name.startswith('__')) + sorted(p for p in (root / 'features').glob('*.py') if not p.name.startswith('__'))
    trees = {}
    tables = {}
    for p in files:
        with warnings.catch_warnings():
            warnings.simplefilter('ignore', SyntaxWarning)
            trees[p] = ast.parse(p.read_text())
        tables.update(int_tables(trees[p]))
    sites = []
    flows = []
    funcs = {}
    for p in files:
        for node in trees[p].body:
            if isinstance(node, ast.FunctionDef):
                funcs[node.name] = None if node.name in funcs else node        # ambiguous names are not summarised
    for p in files:
        mod = str(p.relative_to(root))[:-3].replace('/', '_')
        for node in trees[p].body:
            if not isinstance(node, ast.FunctionDef):
                continue
            w = _Walker(node, native_params, tables, funcs)
            a = node.args
            params = [x.arg for x in a.posonlyargs + a.args + a.kwonlyargs]
            loc = {x: ('pass', x) for x in params}
            loc.update({'#' + x: fresh_vid() for x in params})
            w.walk(node.body, loc)
            seen = {}
            for full, links, vids in w.sites:
                i = seen.get(full, 0)
                seen[full] = i + 1
                sites.append((f'{mod}.{node.name}', full, i, links))
                for helper, hv in w.checks:
                    pairs = [(hp, c, kind) for hp, v in hv for c, v2, kind in vids if v == v2]
                    if pairs:
                        flows.append((f'{mod}.{node.name}', helper, full, i, pairs))
    have = {(w, n) for w, n, _, _ in sites}
    for r in REQUIRED_SITES:
        if r not in have:
            raise TranslationError(f'argument links: the call of {r[1]} in {r[0]} was not found')
    used = sorted({l[1] for _, _, _, ls in sites for _, l in ls if l[0] == 'lookup'})
    for r in REQUIRED_FLOWS:
        if r not in {(w, h, n) for w, h, n, _, _ in flows}:
            raise TranslationError(f'argument links: no value checked by {r[1]} in {r[0]} reaches {r[2]}')
    return sites, {t: tables[t] for t in used}, flows


def lean_lines(sites, tables, flows=()) -> list[str]:
    lines = ['', '/-! ### wrapper → native argument links (translator/links.py) -/', '']
    rows = []
    for w, n, i, links in sites:
        ident = 'links_' + w.replace('.', '_') + '__' + n.lstrip('_').replace('.', '_') + (f'_{i}' if i else '')
        lines.append(f'/-- `{w}` → `{n}` (call {i}): what is passed for each C parameter -/')
        lines.append(f'def {ident} : List (String × Link) := [' + ', '.join(f'({_q(c)}, {lean_link(l)})' for c, l in links) + ']')
        rows.append((w, n, i, ident))
    lines.append('')
    lines.append('/-- (wrapper, native entry point, index of the call in the wrapper, links) for every call of a native entry point -/')
    lines.append('def argLinkTable : List (String × String × Nat × List (String × Link)) := [')
    lines.append(',\n'.join(f'  ({_q(w)}, {_q(n)}, {i}, {ident})' for w, n, i, ident in rows))
    lines.append(']')
    lines.append('')
    lines.append('/-- (wrapper, guard helper, native entry point, index of the call, [(helper parameter, C parameter, 0 = the very object the')
    lines.append('    helper checked | 1 = `int(·)` of it)]): values that a guard helper has checked (top-level call, before the native call)')
    lines.append('    and that are passed on, unchanged, to the native entry point — by value numbering of the locals -/')
    lines.append('def checkFlowTable : List (String × String × String × Nat × List (String × String × Nat)) := [')
    lines.append(',\n'.join(f'  ({_q(w)}, {_q(h)}, {_q(n)}, {i}, [' + ', '.join(f'({_q(a)}, {_q(b)}, {k})' for a, b, k in pairs) + '])' for w, h, n, i, pairs in flows))
    lines.append(']')
    lines.append('')
    lines.append('/-- module-level integer dictionaries used as `T[p]` in an argument (e.g. `mode2int`): the possible values -/')
    lines.append('def lookupTables : List (String × List Int) := [' + ', '.join(f'({_q(t)}, [{", ".join(map(str, v))}])' for t, v in sorted(tables.items())) + ']')
    return lines
