"""Translator "pybody": Python function bodies of the wrapper / numeric layer of mahotas -> Lean definitions.

On every run the *current text* of a reviewed list of Python functions (`TARGETS`) is parsed with `ast` and each body
is turned into one Lean definition in `lean/Mahotas/Generated/PyBodies<Cxx>.lean` (one file per property, over the prelude
`PyBodies.lean`); `lean/Mahotas/Proofs/PyBodyTies*.lean` prove that every generated definition equals the hand-written
model definition the native driver runs. An edit of such a body changes the generated term, the tie theorem no longer
compiles, and the check of the property whose model rests on that body reports a broken obligation (and searches for a
failing input). The full description (subset, primitive tables, ties, trusted base) is design-notes/reports/T2-pybody.md.

Subset (anything else raises `TranslationError` naming function, line and construct - nothing is skipped silently):

  statements   docstring; `x = e`; `x op= e`; `a[i] = e` (-> `P.setitem`); `return e`; `pass`; `raise` (the definition then
               returns `Option`, `raise` = `none`); `if/elif/else`; `for v in range(..)` / `for v in <vector>` with `break` /
               `continue` (-> `List.foldl` over `List.range'` with the sorted tuple of re-assigned variables as state and a
               `done` flag when the loop has a `break`); `while c:` (-> `whileFuel` under the reviewed bound `Target.fuels`);
               `ufunc(a, b, out=x)` as a statement with x a local (-> `x = ufunc(a, b)`); `import` inside a body (ignored);
               calls of the reviewed guard helpers (`_verify_is_integer_type`, ... - dropped: translator/guards.py has them);
               `out = _get_output(...)` and every `out=` / `output=` keyword when `out`/`output` are PARAMETERS (dropped:
               C09's convention, value-level definitions have no destination buffers); `.copy()` is the identity.
  control      continuation style: statement list => nested `let`; re-assignment => shadowing `let`; an `if` one of whose
               branches returns/raises/breaks duplicates the continuation into both branches, otherwise it is an
               expression whose value is the (sorted) tuple of the variables assigned in it, each at the join of the sorts it
               has at the end of the branches; `if x is None` on an optional parameter is a `match`.
  expressions  names, int/float/bool literals, identifier-like string literals, `+ - * / // % **2`, unary minus, comparisons,
               `and/or/not`, `x if c else y`, one-generator list comprehensions, calls through the reviewed primitive table of the
               family (argument ORDER and kept keywords preserved: a swapped `f, g` changes the generated term), attribute /
               method / operator primitives, the idioms listed in `_idiom`.
  sorts        a small first-order sort discipline (`img`, `se`, `nat`, `int`, `K` scalar, `optK`, `vec` = `List K`,
               `fld` = position -> scalar, `bool`, abstract array sorts) decides how an operator is emitted: scalar op;
               `vec op scalar` = `List.map`; `vec op vec` = `List.zipWith` (numpy broadcasting of equal-length 1-D arrays);
               `fld` pointwise; Python `int` -> Lean `Int` (`//` = `Int.fdiv`, `%` = `Int.fmod`: Python semantics, not C),
               naturals where the reviewed signature says so; int literals in scalar position = `ofNat n`; float literals =
               `ofNat n` when integral, else `flit mantissa decimals`.

Round 4b additions (each listed with its Lean reading in design-notes/reports/T2-pybody.md, "## Round 4b"): nested `def`
  with a reviewed signature; tuple unpacking (literal tuples, `a.transpose((2,0,1))`, `np.meshgrid`, `img.shape` of a 2-D
  array, callees returning a pair / four naturals, `idx, = np.where(c)`); search loops (`return` inside `for`: the fold state
  carries `Option <result>`); `for a, b in zip(..)`; `x.append(e)`; `slice(a, b)`; integer-array arithmetic; `assert`;
  `type(x) == T` and `x.dtype is np.bool_` through reviewed primitives; string equality; module constants; kernels that fill an
  argument (`Prim(mutates=i)`); callees that may raise (`Prim(raises=True)`: only `a, b = f(..)` and `return f(..)`); 2-D
  window loads / stores; a LOCAL `out` array passed as `out=` is kept; comprehensions over `range(n)` / `zip(..)`; `**` through
  the power primitive; `np.indices` as coordinate vectors; optional ints / pairs; reviewed SLICES of a body
  (`Target.assume_none`, `Target.result_var`). Everything the value-level definitions drop (aliasing guards, `out=` plumbing,
  guard helpers, identity casts, the tests resolved by a slice) is recorded as a comment in front of the definition and in
  the table `<Cxx>.droppedGuards` at the end of each generated file.

Trusted: this file (the meaning given to each Python construct above), the per-family primitive tables and the signatures in
`TARGETS` (reviewed by hand, including the `while` bounds), numpy itself.
"""
from __future__ import annotations
import ast, re, warnings
from fractions import Fraction
from pathlib import Path
from .tables import TranslationError, _write_if_changed, defined_names

LEAN_KEYWORDS = {'open', 'end', 'at', 'from', 'fun', 'let', 'have', 'show', 'in', 'do', 'then', 'else', 'if', 'by', 'with',
                 'match', 'where', 'instance', 'class', 'structure', 'def', 'theorem', 'example', 'local', 'private',
                 'variable', 'universe', 'namespace', 'section', 'import', 'export', 'mutual', 'macro', 'syntax', 'notation',
                 'prefix', 'infix', 'postfix', 'deriving', 'extends', 'for', 'unless', 'return', 'try', 'catch', 'finally',
                 'using', 'calc', 'nomatch', 'Type', 'Prop', 'Sort', 'max', 'min', 'id', 'st', 'P', 'ofNat', 'ofInt', 'flit', 'K',
                 'X', 'A', 'D', 'I', 'S', 'H', 'G', 'B', 'M', 'Sh'}     # the last row: type parameters of the families

# sorts -> Lean types (inside a family whose header binds I S K)
LEAN_TYPE = {'img': 'I', 'se': 'S', 'nat': 'Nat', 'int': 'Int', 'bool': 'Bool', 'K': 'K', 'vec': 'List K', 'mode': 'M',
             'arr': 'A', 'natlist': 'List Nat', 'intlist': 'List Int', 'fld': 'X → K', 'bfld': 'X → Bool',
             'hist': 'H', 'pimg': 'G', 'str': 'String', 'mat': 'List (List K)', 'bimg': 'B',
             'optK': 'Option K', 'optD': 'Option D', 'dtype': 'D', 'shp': 'Sh',
             'slice': 'Int × Int', 'slicelist': 'List (Int × Int)', 'shape_pos': 'List Int × List (Int × Int)'}
LEAN_TYPE['fld1'] = 'Nat → K'
LIST_ELEM = {'natlist': 'nat', 'intlist': 'int', 'vec': 'K', 'slicelist': 'slice'}

# guard helpers whose calls (as expression statements) are dropped: translator/guards.py extracts them
GUARD_CALLS = {'_verify_is_integer_type', '_verify_is_floatingpoint_type', '_verify_is_bool', '_verify_is_nonnegative',
               '_check_2', '_check_3', '_check_mode', '_check_interp'}
PLUMBING = {'out', 'output'}           # destination-buffer names: never part of the value-level definition
IDENTITY_METHODS = {'copy'}            # `x.copy()` = `x` at value level


MUTATING = {}                          # callee -> index of the argument it writes (filled from the primitive tables)


def lname(n: str) -> str:
    return n + '_' if n in LEAN_KEYWORDS else n


def dotted(node) -> str | None:
    if isinstance(node, ast.Name):
        return node.id
    if isinstance(node, ast.Attribute):
        b = dotted(node.value)
        return None if b is None else b + '.' + node.attr
    return None


class SortChange(Exception):
    """a loop state variable leaves the body with another sort than it entered (e.g. `res = maxt` then `res = a / b`)"""
    def __init__(self, name, have, want):
        super().__init__(f'{name}: {have} -> {want}')
        self.name, self.have, self.want = name, have, want


class Prim:
    """one reviewed primitive: Python callee -> field of the family's structure of primitives.
    `args` = sorts of the kept positional arguments, in the Python order; `kw` = keyword name -> position (keywords that may
    be used instead of a position); positional arguments beyond `args` must be plumbing names or string constants."""

    def __init__(self, field, args, ret, kw=None, doc='', elementwise=False, drop_kw=(), pos=None, raises=False, mutates=None):
        self.mutates = mutates              # index of the (local array) argument the callee writes its result into, when called as a statement
        self.field, self.args, self.ret, self.kw, self.doc = field, list(args), ret, dict(kw or {}), doc
        self.pos = list(pos) if pos is not None else list(range(len(args)))   # Python positions of the kept arguments
        self.drop_kw = set(drop_kw)         # reviewed keywords without value-level meaning (dtype= of a conversion, copy=)
        self.raises = raises                # the callee may raise: the field returns `Option`, only usable as `a, b = callee(..)`
        self.elementwise = elementwise      # a numpy ufunc of one argument: on a vector it is `List.map`


class Target:
    def __init__(self, module, name, params, ret, family, lean=None, drop=(), consts=None, only=None, fuels=(), locals=None, localsorts=None,
                 fallthrough_none=False, raises=False, assume_none=(), result_var=None):
        self.module, self.name, self.params, self.ret, self.family = module, name, list(params), ret, family
        self.lean = lean or (module[:-3].replace('/', '_') + '_' + name)
        self.drop = set(drop)                   # parameters that are not value-level arguments (PLUMBING parameters are added)
        self.consts = dict(consts or {})        # module-level names readable in the body: name -> (lean text, sort)
        self.only = only
        self.locals = dict(locals or {})        # reviewed signatures of nested `def`s: name -> ([parameter sorts], result sort)
        self.localsorts = dict(localsorts or {})  # sort of a local that starts as the empty list `x = []`
        self.fallthrough_none = fallthrough_none  # reviewed: falling off the end (Python returns None) makes every caller raise: `none`
        self.assume_none = set(assume_none)    # reviewed slice: optional PARAMETERS taken to be None (`if p is None: A else: B` -> A)
        self.result_var = result_var            # reviewed slice: the definition is the value of this local right after its first assignment
        self.force_raises = raises              # the body calls a primitive that may raise
        self.fuels = list(fuels)                # reviewed iteration bounds of the `while` loops, in source order (Python expressions)

    @property
    def key(self):
        return f'pybody:{self.module[:-3]}.{self.name}'


class Family:
    def __init__(self, name, tparams, classes, struct, prims, extra_params='', prop='C00'):
        self.name, self.tparams, self.classes, self.struct, self.prims = name, list(tparams), classes, struct, prims
        self.prop = prop                                # the property whose model transliterates these bodies: one generated file each
        self.extra_params = extra_params                # explicit embeddings, e.g. '(ofNat : Nat → K) '
        self.binders = '{' + ' '.join(tparams) + ' : Type}' + (' ' + classes if classes else '')

    def struct_lines(self):
        seen, out = set(), []
        out.append(f'/-- primitives of the `{self.name}` family: every call inside a translated body goes through one field -/')
        out.append(f'structure {self.struct} ({" ".join(self.tparams)} : Type) where')
        for py, p in self.prims.items():
            if p.field in seen or p.field.startswith('='):
                continue
            seen.add(p.field)
            par = lambda t: f'({t})' if '→' in t else t
            ty = ' → '.join([par(LEAN_TYPE[a]) for a in p.args] + [f'Option ({LEAN_TYPE[p.ret]})' if p.raises else par(LEAN_TYPE[p.ret])])
            srcs = ', '.join(sorted(k for k, q in self.prims.items() if q.field == p.field))
            if py == 'shape2':
                out += [f'  /-- `r, c = a.shape` (rows) -/', f'  {p.field}_rows : {par(LEAN_TYPE[p.args[0]])} → Nat',
                        f'  /-- `r, c = a.shape` (columns) -/', f'  {p.field}_cols : {par(LEAN_TYPE[p.args[0]])} → Nat']
                continue
            if py == 'np.meshgrid':
                out += [f'  /-- `{srcs}` (first result) -/', f'  {p.field}_x : {ty}', f'  /-- `{srcs}` (second result) -/', f'  {p.field}_y : {ty}']
                continue
            out.append(f'  /-- `{srcs}` -/')
            out.append(f'  {p.field} : {ty}')
        return out


# ----------------------------------------------------------------------------------------------
# expression / statement translation

class Tr:
    def __init__(self, tgt: Target, fdef: ast.FunctionDef):
        self.t, self.f = tgt, fdef
        self.fam = tgt.family
        # destination-buffer names are plumbing only when they are PARAMETERS of this function
        self.drop = set(tgt.drop) | {a.arg for a in fdef.args.args if a.arg in PLUMBING}
        self.counter = 0
        self.raises = any(isinstance(n, (ast.Raise, ast.Assert)) for n in ast.walk(fdef)) or tgt.force_raises
        self.notes = []                    # (kind, source text) of every construct dropped as a value-level no-op

    def note(self, kind, node):
        """record a construct that is dropped from the value-level definition, for the reviewer's table `droppedGuards`"""
        src = ' '.join(ast.unparse(node).split())
        if (kind, src) not in self.notes:
            self.notes.append((kind, src))

    def err(self, node, what):
        line = getattr(node, 'lineno', '?')
        src = ''
        try:
            src = ast.unparse(node)[:70]
        except Exception:
            pass
        return TranslationError(f'{self.t.module}:{self.t.name} line {line}: {what}: `{src}`')

    def fresh(self, base='st'):
        self.counter += 1
        return f'{base}{self.counter}'

    # ---- expressions -------------------------------------------------------------------------
    def coerce(self, txt, sort, want, node):
        if want is None or sort == want:
            return txt
        if sort == 'none' and want in ('optK', 'optD', 'optint', 'optpair'):
            return '(none)'
        if want == 'optint' and sort in ('int', 'nat', 'natlit'):
            return f'(some {self.coerce(txt, sort, "int", node)})'
        if (sort, want) in (('K', 'optK'), ('dtype', 'optD')):
            return f'(some {txt})'
        if sort == 'natlit':
            if want == 'nat' or want == 'int':
                return txt
            if want == 'K':
                return f'(ofNat {txt})'
        if sort == 'nat' and want == 'int':
            return f'((({txt}) : Nat) : Int)'
        if sort == 'nat' and want == 'K':
            return f'(ofNat {txt})'
        if sort == 'int' and want == 'K':
            return f'(ofInt {txt})'
        if sort == 'int' and want == 'nat':
            return f'(Int.toNat {txt})'
        if sort == 'bool' and want == 'K':
            return f'(if {txt} then ofNat 1 else ofNat 0)'
        raise self.err(node, f'sort {sort} where {want} is expected')

    def lit_float(self, v: float, node):
        q = Fraction(repr(v))
        if q < 0:
            raise self.err(node, 'negative literal')      # ast gives UnaryOp for -x; cannot happen
        if q.denominator == 1:
            return f'(ofNat {q.numerator})', 'K'
        s = repr(v)
        if 'e' in s or 'E' in s or '.' not in s:
            raise self.err(node, 'float literal form')
        ip, fp = s.split('.')
        return f'(flit {int(ip + fp)} {len(fp)})', 'K'

    def E(self, node, env, want=None):
        txt, sort = self._E(node, env, want)
        return self.coerce(txt, sort, want, node), (want or sort)

    def _E(self, node, env, want=None):
        if isinstance(node, ast.Constant):
            v = node.value
            if v is None:
                return 'none', 'none'                   # only where an optional sort is expected (see `coerce`)
            if isinstance(v, bool):
                return ('true' if v else 'false'), 'bool'
            if isinstance(v, int):
                return str(v), 'natlit'
            if isinstance(v, float):
                return self.lit_float(v, node)
            if isinstance(v, str) and re.fullmatch(r'[A-Za-z0-9_]*', v):
                return f'"{v}"', 'str'
            raise self.err(node, 'literal outside the subset')
        if isinstance(node, ast.Name):
            if node.id in env:
                return lname(node.id), env[node.id]
            if node.id in self.t.consts:
                return self.t.consts[node.id]
            raise self.err(node, f'unknown name {node.id}')
        if isinstance(node, ast.UnaryOp):
            if isinstance(node.op, ast.USub):
                a, s = self._E(node.operand, env, want if want in ('K', 'int') else None)
                if s == 'natlit':
                    if want == 'K':
                        return f'(-(ofNat {a}))', 'K'
                    return f'(-{a})', 'int'
                if s in ('K', 'int'):
                    return f'(-{a})', s
                if s == 'nat':
                    return f'(-(({a} : Nat) : Int))', 'int'
                if s == 'vec':
                    return f'(List.map (fun t => -t) {a})', 'vec'
                raise self.err(node, f'unary minus on sort {s}')
            if isinstance(node.op, ast.UAdd):
                a, s = self._E(node.operand, env, want)
                if s in ('K', 'int', 'nat', 'natlit'):
                    return a, s
                raise self.err(node, f'unary plus on sort {s}')
            if isinstance(node.op, ast.Not):
                a = self.cond(node.operand, env)
                return f'(!{a})', 'bool'
            raise self.err(node, 'unary operator outside the subset')
        if isinstance(node, ast.BinOp):
            return self.binop(node, env, want)
        if isinstance(node, ast.Compare):
            txt = self.compare(node, env)
            for key, q in self.fam.prims.items():
                if key.endswith('!=0') and txt.startswith(f'(P.{q.field} '):
                    return txt, q.ret
            return txt, ('bfld' if txt.startswith('(fun p =>') else 'bool')
        if isinstance(node, ast.BoolOp):
            parts = [self.cond(v, env) for v in node.values]
            op = ' && ' if isinstance(node.op, ast.And) else ' || '
            return '(' + op.join(parts) + ')', 'bool'
        if isinstance(node, ast.IfExp):
            c = self.cond(node.test, env)
            a, sa = self.E(node.body, env, want)
            b, sb = self.E(node.orelse, env, want or sa)
            if sa != sb:
                raise self.err(node, f'arms of different sorts {sa}/{sb}')
            return f'(if {c} then {a} else {b})', sa
        if isinstance(node, ast.ListComp):
            if len(node.generators) != 1 or node.generators[0].ifs or node.generators[0].is_async \
                    or not isinstance(node.generators[0].target, (ast.Name, ast.Tuple)):
                raise self.err(node, 'list comprehension outside the subset')
            g0 = node.generators[0]
            if len(node.generators) == 1 and not g0.ifs and isinstance(g0.target, ast.Tuple) and len(g0.target.elts) == 2 \
                    and all(isinstance(e, ast.Name) for e in g0.target.elts) and isinstance(g0.iter, ast.Call) \
                    and dotted(g0.iter.func) == 'zip' and len(g0.iter.args) == 2 and not g0.iter.keywords:
                # [e for a, b in zip(xs, ys)]
                xs, sx = self._E(g0.iter.args[0], env)
                ys, sy = self._E(g0.iter.args[1], env)
                if f'elems:{sy}' in self.fam.prims:                 # a scalar-or-sequence argument iterated as its entries
                    q = self.fam.prims[f'elems:{sy}']
                    ys, sy = f'(P.{q.field} {ys})', q.ret
                if sx not in LIST_ELEM or sy not in LIST_ELEM:
                    raise self.err(node, f'zip over sorts {sx},{sy}')
                env2 = dict(env)
                env2[g0.target.elts[0].id], env2[g0.target.elts[1].id] = LIST_ELEM[sx], LIST_ELEM[sy]
                body, sb = self._E(node.elt, env2)
                back = {'nat': 'natlist', 'natlit': 'natlist', 'int': 'intlist', 'K': 'vec'}.get(sb)
                if back is None:
                    raise self.err(node, f'comprehension yields sort {sb}')
                zz = self.fresh('zz')
                return (f'(List.map (fun {zz} => let {lname(g0.target.elts[0].id)} := {zz}.1; let {lname(g0.target.elts[1].id)} := {zz}.2; '
                        f'{body}) (List.zip {xs} {ys}))'), back
            g = node.generators[0]
            if not isinstance(g.target, ast.Name):
                raise self.err(node, 'list comprehension outside the subset')
            if isinstance(g.iter, ast.Call) and dotted(g.iter.func) == 'range' and len(g.iter.args) == 1 and not g.iter.keywords:
                n_, _ = self.E(g.iter.args[0], env, 'nat')
                seq, ss = f'(List.range {n_})', 'natlist'
            else:
                seq, ss = self._E(g.iter, env)
            elem = {'natlist': 'nat', 'intlist': 'int', 'vec': 'K'}.get(ss)
            if elem is None:
                raise self.err(node, f'comprehension over sort {ss}')
            env2 = dict(env)
            env2[g.target.id] = elem
            body, sb = self._E(node.elt, env2)
            back = {'nat': 'natlist', 'natlit': 'natlist', 'int': 'intlist', 'K': 'vec'}.get(sb)
            if back is None:
                raise self.err(node, f'comprehension yields sort {sb}')
            return f'(List.map (fun {lname(g.target.id)} => {body}) {seq})', back
        if isinstance(node, ast.Tuple) and len(node.elts) == 2:
            a, sa = self._E(node.elts[0], env)
            b, sb = self._E(node.elts[1], env)
            if (sa, sb) == ('intlist', 'slicelist'):
                return f'({a}, {b})', 'shape_pos'
            raise self.err(node, f'tuple of sorts {sa},{sb}')
        if isinstance(node, ast.Call):
            return self.call(node, env, want)
        if isinstance(node, ast.Subscript):
            return self.subscript(node, env)
        if isinstance(node, ast.Attribute) and ('const:' + (dotted(node) or '')) in self.fam.prims:
            p = self.fam.prims['const:' + dotted(node)]
            return f'P.{p.field}', p.ret
        if isinstance(node, ast.Attribute):
            # attribute reads are primitives of arity 1: `x.size` -> P.size x
            key = '.' + node.attr
            if not (key in self.fam.prims):
                _, rs = self._E(node.value, env)
                key = f'{key}:{rs}'                      # the same attribute of receivers of different sorts
            if key in self.fam.prims:
                p = self.fam.prims[key]
                a, _ = self.E(node.value, env, p.args[0])
                return f'(P.{p.field} {a})', p.ret
            raise self.err(node, f'attribute .{node.attr} is not a reviewed primitive')
        raise self.err(node, f'expression {type(node).__name__} outside the subset')

    def cond(self, node, env):
        """a Lean `Bool` for a Python test (truthiness of a non-bool is only accepted for ints: `if n % 2:`)"""
        txt, sort = self._E(node, env)
        if sort == 'bool':
            return txt
        if sort in ('nat', 'int', 'natlit'):
            return f'(decide ({txt} ≠ 0))'
        if sort == 'K':
            return f'(decide (({txt} : K) ≠ ofNat 0))'          # truth value of a float: non-zero
        raise self.err(node, f'truth value of sort {sort}')

    ARITH = {ast.Add: '+', ast.Sub: '-', ast.Mult: '*', ast.Div: '/'}

    def binop(self, node, env, want):
        op = type(node.op)
        if op is ast.Pow and isinstance(node.left, ast.Constant) and isinstance(node.left.value, int) \
                and not isinstance(node.left.value, bool):
            e, se = self._E(node.right, env)
            if se == 'natlit':
                return f'({node.left.value} ^ {e})', 'natlit'
            if se == 'intlist':                     # `2 ** v` of an array of integral values: elementwise
                return f'(List.map (fun e => ({node.left.value} : Int) ^ (Int.toNat e)) {e})', 'intlist'
        if op in (ast.Add, ast.Sub, ast.FloorDiv) and not isinstance(node.left, ast.Constant):
            a, sa = self._E(node.left, env)
            if sa == 'intlist':                     # integer arrays: elementwise with a scalar / with an array of the same length
                b, sb = self._E(node.right, env)
                sym = {ast.Add: '+', ast.Sub: '-'}.get(op)
                if sb == 'intlist' and sym:
                    return f'(List.zipWith (fun a b => a {sym} b) {a} {b})', 'intlist'
                if sb in ('nat', 'int', 'natlit'):
                    b = self.coerce(b, sb, 'int', node) if sb != 'natlit' else f'({b} : Int)'
                    if sym:
                        return f'(List.map (fun t => t {sym} {b}) {a})', 'intlist'
                    return f'(List.map (fun t => Int.fdiv t {b}) {a})', 'intlist'
                raise self.err(node, f'arithmetic on sorts {sa},{sb}')
        if op in (ast.Sub, ast.Pow) and not isinstance(node.left, ast.Constant):
            a, sa = self._E(node.left, env)
            if sa == 'vfld':                        # an array of coordinate vectors (np.indices): elementwise
                if op is ast.Pow and isinstance(node.right, ast.Constant) and node.right.value == 2:
                    return f'(fun p => List.map (fun t => t * t) ({a} p))', 'vfld'
                if op is ast.Sub:
                    b, sb = self._E(node.right, env)
                    if sb in ('nat', 'int', 'natlit', 'K'):
                        return f'(fun p => List.map (fun t => t - {self.coerce(b, sb, "K", node)}) ({a} p))', 'vfld'
                raise self.err(node, f'operator on an index array outside the subset')
        if op is ast.Pow and not isinstance(node.left, ast.Constant) and not isinstance(node.right, ast.Constant):
            a, sa = self._E(node.left, env)
            e, se = self._E(node.right, env)
            if sa == 'vec' and se == 'nat':             # elementwise power with a natural exponent: prelude `pyPowN` (repeated product)
                return f'(List.map (fun t => pyPowN (ofNat 1) t {e}) {a})', 'vec'
        if op is ast.Pow:
            if isinstance(node.right, ast.Constant) and node.right.value == 2:
                a, s = self._E(node.left, env, want)
                if s in ('K', 'int', 'nat'):
                    return f'({a} * {a})', s
                if s == 'fld':
                    return f'(fun p => ({a} p) * ({a} p))', 'fld'
            if 'np.power' in self.fam.prims:
                # `x ** e` through the reviewed power primitive: elementwise on an array seen pointwise; an int exponent is embedded
                a, sa = self._E(node.left, env)
                e, se = self._E(node.right, env)
                if se in ('natlit', 'nat', 'int', 'K') and sa in ('K', 'fld'):
                    e = self.coerce(e, se, 'K', node)
                    pw = self.fam.prims['np.power'].field
                    if sa == 'K':
                        return f'(P.{pw} {a} {e})', 'K'
                    return f'(fun p => P.{pw} ({a} p) {e})', 'fld'
            raise self.err(node, 'power other than **2')
        if op in (ast.BitOr, ast.BitAnd):
            # `|` / `&` of Boolean masks (elementwise) or of two bools
            a, sa = self._E(node.left, env)
            b, sb = self._E(node.right, env)
            sym = '||' if op is ast.BitOr else '&&'
            if f'{sa}{"|" if op is ast.BitOr else "&"}{sb}' in self.fam.prims:
                p = self.fam.prims[f'{sa}{"|" if op is ast.BitOr else "&"}{sb}']
                return f'(P.{p.field} {a} {b})', p.ret
            if sa == 'bool' and sb == 'bool':
                return f'({a} {sym} {b})', 'bool'
            if {sa, sb} <= {'bool', 'bfld'}:
                pa = f'({a} p)' if sa == 'bfld' else a
                pb = f'({b} p)' if sb == 'bfld' else b
                return f'(fun p => {pa} {sym} {pb})', 'bfld'
            raise self.err(node, f'| or & on sorts {sa},{sb} (only Boolean masks)')
        if op in (ast.FloorDiv, ast.Mod):
            a, sa = self._E(node.left, env)
            b, sb = self._E(node.right, env)
            ints = {'nat', 'int', 'natlit'}
            if sa not in ints or sb not in ints:
                raise self.err(node, f'// or % on sorts {sa},{sb}')
            if 'int' in (sa, sb):
                a = self.coerce(a, sa, 'int', node) if sa != 'natlit' else f'({a} : Int)'
                b = self.coerce(b, sb, 'int', node) if sb != 'natlit' else f'({b} : Int)'
                return (f'(Int.fdiv {a} {b})' if op is ast.FloorDiv else f'(Int.fmod {a} {b})'), 'int'
            sym = '/' if op is ast.FloorDiv else '%'
            return f'({a} {sym} {b})', ('nat' if 'nat' in (sa, sb) else 'natlit')
        if op not in self.ARITH:
            raise self.err(node, 'binary operator outside the subset')
        sym = self.ARITH[op]
        a, sa = self._E(node.left, env)
        b, sb = self._E(node.right, env)
        if f'{sa}{sym}{sb}' in self.fam.prims:          # operator on abstract arrays: a reviewed primitive
            p = self.fam.prims[f'{sa}{sym}{sb}']
            return f'(P.{p.field} {a} {b})', p.ret
        # literal adapts to the other side
        if sa == 'natlit' and sb == 'natlit':
            if op is ast.Div:
                raise self.err(node, 'true division of two int literals')
            return f'({a} {sym} {b})', 'natlit'
        rank = {'natlit': 0, 'bool': 0, 'nat': 1, 'int': 2, 'K': 3, 'vec': 4, 'fld': 4, 'bfld': 4, 'natlist': 4}
        if sa not in rank or sb not in rank or ('vec' in (sa, sb) and ({sa, sb} & {'fld', 'bfld'})):
            raise self.err(node, f'arithmetic on sorts {sa},{sb}')
        if op is ast.Div and rank[sa] < 3 and rank[sb] < 3:
            tgt = 'K'                                  # Python 3 true division of ints gives a float
        else:
            tgt = sa if rank[sa] >= rank[sb] else sb
        if tgt in ('natlit', 'bool'):
            tgt = 'nat'
        if tgt == 'nat' and op is ast.Sub:
            tgt = 'int'                                # Python ints do not truncate at 0
        if tgt in ('fld', 'bfld'):                     # arrays seen pointwise: numpy's elementwise arithmetic
            def pw(x, sx):                             # a boolean array in arithmetic counts as 0 / 1
                if sx == 'fld':
                    return f'({x} p)'
                if sx == 'bfld':
                    return f'(if {x} p then ofNat 1 else ofNat 0)'
                return self.coerce(x, sx, 'K', node)
            return f'(fun p => {pw(a, sa)} {sym} {pw(b, sb)})', 'fld'
        if sa == 'vec' and sb == 'natlist':             # a float array and a shape of the same length: elementwise
            return f'(List.zipWith (fun a b => a {sym} (ofNat b)) {a} {b})', 'vec'
        if tgt == 'vec':
            if sa == 'vec' and sb == 'vec':
                return f'(List.zipWith (fun a b => a {sym} b) {a} {b})', 'vec'
            if sa == 'vec':
                b = self.coerce(b, sb, 'K', node)
                return f'(List.map (fun t => t {sym} {b}) {a})', 'vec'
            a = self.coerce(a, sa, 'K', node)
            return f'(List.map (fun t => {a} {sym} t) {b})', 'vec'
        a = self.coerce(a, sa, tgt, node)
        b = self.coerce(b, sb, tgt, node)
        return f'({a} {sym} {b})', tgt

    CMP = {ast.Lt: '<', ast.LtE: '≤', ast.Gt: '>', ast.GtE: '≥', ast.Eq: '=', ast.NotEq: '≠'}

    def compare(self, node, env):
        if len(node.ops) != 1:
            raise self.err(node, 'chained comparison')
        op = type(node.ops[0])
        l, r = node.left, node.comparators[0]
        if op is ast.In and isinstance(r, ast.Constant) and isinstance(r.value, str) and dotted(l) and '.' in dotted(l):
            root, rest = dotted(l).split('.', 1)
            key = f'.{rest} in'
            if root in env and key in self.fam.prims:
                p = self.fam.prims[key]
                a, _ = self.E(ast.copy_location(ast.Name(id=root, ctx=ast.Load()), node), env, p.args[0])
                return f'(P.{p.field} {a} "{r.value}")'
        if op is ast.Eq and isinstance(l, ast.Call) and dotted(l.func) == 'type' and len(l.args) == 1 and not l.keywords \
                and isinstance(r, ast.Name):
            # dispatch on the Python type of an argument: reviewed primitives of the argument's sum sort
            x = l.args[0]
            if isinstance(x, ast.Subscript) and isinstance(x.slice, ast.Constant) and x.slice.value == 0 \
                    and f'type([0])=={r.id}' in self.fam.prims:
                p = self.fam.prims[f'type([0])=={r.id}']
                a, _ = self.E(x.value, env, p.args[0])
                return f'(P.{p.field} {a})'
            if f'type=={r.id}' in self.fam.prims:
                p = self.fam.prims[f'type=={r.id}']
                a, _ = self.E(x, env, p.args[0])
                return f'(P.{p.field} {a})'
            raise self.err(node, 'type test without a reviewed primitive')
        if op in (ast.Is, ast.IsNot) and isinstance(l, ast.Attribute) and l.attr == 'dtype' and dotted(r) == 'np.bool_' \
                and '.dtype is np.bool_' in self.fam.prims:
            p = self.fam.prims['.dtype is np.bool_']
            a, _ = self.E(l.value, env, p.args[0])
            return f'(P.{p.field} {a})' if op is ast.Is else f'(!(P.{p.field} {a}))'
        if op in (ast.Is, ast.IsNot):
            raise self.err(node, '`is` test (default-argument handling must be listed in the signature)')
        if op in (ast.Eq, ast.NotEq):
            a0, s0 = self._E(l, env)
            b0, s1 = self._E(r, env)
            if s0 == 'str' and s1 == 'str':
                return f'(decide ({a0} {self.CMP[op]} {b0}))'
            if f'{s0}{"!=" if op is ast.NotEq else "=="}{s1}' in self.fam.prims:
                return f'(P.{self.fam.prims[s0 + ("!=" if op is ast.NotEq else "==") + s1].field} {a0} {b0})'
            if op is ast.NotEq and f'{s0}!=0' in self.fam.prims and isinstance(r, ast.Constant) and r.value == 0 \
                    and not isinstance(r.value, bool):
                return f'(P.{self.fam.prims[s0 + "!=0"].field} {a0})'
        if op not in self.CMP:
            raise self.err(node, 'comparison outside the subset')
        a, sa = self._E(l, env)
        b, sb = self._E(r, env)
        rank = {'natlit': 0, 'nat': 1, 'int': 2, 'K': 3, 'fld': 4}
        if sa not in rank or sb not in rank:
            raise self.err(node, f'comparison of sorts {sa},{sb}')
        tgt = sa if rank[sa] >= rank[sb] else sb
        if tgt == 'fld':
            a = f'({a} p)' if sa == 'fld' else self.coerce(a, sa, 'K', node)
            b = f'({b} p)' if sb == 'fld' else self.coerce(b, sb, 'K', node)
            return f'(fun p => decide (({a} : K) {self.CMP[op]} {b}))'
        if tgt == 'natlit':
            tgt = 'nat'
        a = self.coerce(a, sa, tgt, node) if sa != 'natlit' or tgt == 'K' else a
        b = self.coerce(b, sb, tgt, node) if sb != 'natlit' or tgt == 'K' else b
        ann = {'nat': 'Nat', 'int': 'Int', 'K': 'K'}[tgt]
        return f'(decide (({a} : {ann}) {self.CMP[op]} {b}))'

    def subscript(self, node, env):
        # reversed copy `w[::-1]`
        sl = node.slice
        if (isinstance(sl, ast.Slice) and sl.lower is None and sl.upper is None and isinstance(sl.step, ast.UnaryOp)
                and isinstance(sl.step.op, ast.USub) and isinstance(sl.step.operand, ast.Constant) and sl.step.operand.value == 1):
            a, s = self._E(node.value, env)
            if s != 'vec':
                raise self.err(node, f'[::-1] on sort {s}')
            return f'(List.reverse {a})', 'vec'
        if isinstance(sl, ast.Constant) and sl.value in (0, 1) and not isinstance(sl.value, bool):
            a0, s0 = self._E(node.value, env)
            if s0 == 'pair':
                return f'({a0}.{sl.value + 1})', 'K'
        w = self._window(sl, env)
        if w is not None and 'getwin' in self.fam.prims:
            p = self.fam.prims['getwin']
            a, _ = self.E(node.value, env, p.args[0])
            return '(' + ' '.join([f'P.{p.field}', a] + w) + ')', p.ret
        if '[]' in self.fam.prims:
            p = self.fam.prims['[]']
            a, _ = self.E(node.value, env, p.args[0])
            i, _ = self.E(sl, env, p.args[1])
            return f'(P.{p.field} {a} {i})', p.ret
        raise self.err(node, 'subscript outside the subset')

    def _window(self, sl, env):
        """`[a:b, c:d]` (two plain slices with both ends given) -> the four bounds as Int terms"""
        if isinstance(sl, ast.Tuple) and len(sl.elts) == 2 and all(
                isinstance(e, ast.Slice) and e.lower is not None and e.upper is not None and e.step is None for e in sl.elts):
            return [self.E(x, env, 'int')[0] for e in sl.elts for x in (e.lower, e.upper)]
        return None

    def _idiom(self, node, env):
        """reviewed multi-node idioms"""
        d = dotted(node.func)
        # np.all(a == b)  ->  P.all_eq a b
        if d == 'np.all' and len(node.args) == 1 and not node.keywords and isinstance(node.args[0], ast.Compare) \
                and len(node.args[0].ops) == 1 and isinstance(node.args[0].ops[0], ast.Eq) and 'np.all(==)' in self.fam.prims:
            p = self.fam.prims['np.all(==)']
            a, _ = self.E(node.args[0].left, env, p.args[0])
            b, _ = self.E(node.args[0].comparators[0], env, p.args[1])
            return f'(P.{p.field} {a} {b})', p.ret
        # np.arange(n, dtype=float)  ->  the list 0, 1, …, n-1 embedded in the scalars
        if d == 'np.arange' and len(node.args) == 1 and [k.arg for k in node.keywords] == ['dtype'] \
                and dotted(node.keywords[0].value) == 'float' and 'K' in self.fam.tparams:
            n, _ = self.E(node.args[0], env, 'nat')
            return f'(List.map ofNat (List.range {n}))', 'vec'
        # np.choose(c, (a0, a1)) on a boolean selector, pointwise: False -> a0, True -> a1
        if d == 'np.choose' and len(node.args) == 2 and not node.keywords and isinstance(node.args[1], (ast.Tuple, ast.List)) \
                and len(node.args[1].elts) == 2:
            c, sc = self._E(node.args[0], env)
            a0, s0 = self._E(node.args[1].elts[0], env)
            a1, s1 = self._E(node.args[1].elts[1], env)
            if sc == 'bfld' and s0 == s1 and s0 in ('fld', 'bfld'):
                return f'(fun p => if {c} p then {a1} p else {a0} p)', s0
            raise self.err(node, f'np.choose on sorts {sc},({s0},{s1})')
        if d == 'np.sum' and len(node.args) == 1 and not node.keywords and 'K' in self.fam.tparams:
            a, s = self._E(node.args[0], env)
            if s == 'vec':
                return f'(List.foldl (fun a b => a + b) 0 {a})', 'K'
        # builtin max / min of two scalars: Python returns the FIRST argument unless the second is strictly larger / smaller
        if d in ('max', 'min') and len(node.args) == 2 and not node.keywords:
            a, sa = self._E(node.args[0], env)
            b, sb = self._E(node.args[1], env)
            if 'K' not in self.fam.tparams and not {sa, sb} <= {'int', 'nat', 'natlit'}:
                raise self.err(node, f'{d} on sorts {sa},{sb}')
            tgt = 'K' if 'K' in (sa, sb) else ('int' if {sa, sb} <= {'int', 'nat', 'natlit'} else 'K')
            a, b = self.coerce(a, sa, tgt, node), self.coerce(b, sb, tgt, node)
            if tgt == 'int':
                a, b = f'({a} : Int)', f'({b} : Int)'
                return (f'(if {a} < {b} then {b} else {a})' if d == 'max' else f'(if {b} < {a} then {b} else {a})'), 'int'
            return (f'(if {a} < {b} then {b} else {a})' if d == 'max' else f'(if {b} < {a} then {b} else {a})'), 'K'
        # np.array([[..], [..]]) of scalars: the rows, in order
        if d == 'np.array' and len(node.args) == 1 and not node.keywords and isinstance(node.args[0], ast.List) \
                and node.args[0].elts and all(isinstance(r, ast.List) for r in node.args[0].elts):
            rows = ['[' + ', '.join(self.E(e, env, 'K')[0] for e in r.elts) + ']' for r in node.args[0].elts]
            return '[' + ', '.join(rows) + ']', 'mat'
        # np.array(shape, dtype=float): the sizes as floats
        if d == 'np.array' and len(node.args) == 1 and [k.arg for k in node.keywords] == ['dtype'] \
                and dotted(node.keywords[0].value) == 'float' and 'K' in self.fam.tparams and 'np.array' not in self.fam.prims:
            a, sa = self._E(node.args[0], env)
            if sa == 'natlist':
                return f'(List.map ofNat {a})', 'vec'
            if f'np.array(float):{sa}' in self.fam.prims:
                q = self.fam.prims[f'np.array(float):{sa}']
                return f'(P.{q.field} {a})', q.ret
        # np.array([a, b, c]) of scalars: the vector
        if d == 'np.array' and len(node.args) == 1 and not node.keywords and isinstance(node.args[0], ast.List) \
                and node.args[0].elts and not any(isinstance(r, (ast.List, ast.Tuple)) for r in node.args[0].elts) \
                and 'K' in self.fam.tparams:
            return '[' + ', '.join(self.E(e, env, 'K')[0] for e in node.args[0].elts) + ']', 'vec'
        # np.dstack([a, b, c]) of three planes: a reviewed primitive
        if d == 'np.dstack' and len(node.args) == 1 and not node.keywords and isinstance(node.args[0], ast.List) \
                and len(node.args[0].elts) == 3 and 'np.dstack3' in self.fam.prims:
            p = self.fam.prims['np.dstack3']
            parts = [self.E(e, env, so)[0] for e, so in zip(node.args[0].elts, p.args)]
            return '(' + ' '.join([f'P.{p.field}'] + parts) + ')', p.ret
        # np.maximum(array, scalar) pointwise: the larger of the two (the scalar when the element is strictly smaller)
        if d == 'np.maximum' and len(node.args) == 2 and not [k for k in node.keywords if k.arg != 'out'] and 'K' in self.fam.tparams:
            a, sa = self._E(node.args[0], env)
            b, sb = self._E(node.args[1], env)
            if sa == 'fld' and sb in ('K', 'nat', 'int', 'natlit'):
                b = self.coerce(b, sb, 'K', node)
                return f'(fun p => if ({a} p) < {b} then {b} else ({a} p))', 'fld'
        # np.minimum(array, scalar) pointwise: the smaller of the two (the scalar when it is strictly smaller)
        if d == 'np.minimum' and len(node.args) == 2 and not [k for k in node.keywords if k.arg != 'out'] and 'K' in self.fam.tparams:
            a, sa = self._E(node.args[0], env)
            b, sb = self._E(node.args[1], env)
            if sa == 'fld' and sb in ('K', 'nat', 'int', 'natlit'):
                b = self.coerce(b, sb, 'K', node)
                return f'(fun p => if {b} < ({a} p) then {b} else ({a} p))', 'fld'
        src = ast.unparse(node).replace(' ', '')
        # np.all((f == 0) | (f == 1)): every element is 0 or 1
        m = re.fullmatch(r'np\.all\(\((\w+)==0\)\|\((\w+)==1\)\)', src)
        if m and m.group(1) == m.group(2) and m.group(1) in env and 'np.all(0|1)' in self.fam.prims:
            p = self.fam.prims['np.all(0|1)']
            a, _ = self.E(ast.copy_location(ast.Name(id=m.group(1), ctx=ast.Load()), node), env, p.args[0])
            return f'(P.{p.field} {a})', p.ret
        # np.pad(f, ((0, 1), (0, 1)), mode='constant'): one background row below, one background column to the right
        if d == 'np.pad' and len(node.args) == 2 and ast.unparse(node.args[1]).replace(' ', '') == '((0,1),(0,1))' \
                and [(k.arg, getattr(k.value, 'value', None)) for k in node.keywords] == [('mode', 'constant')] \
                and 'np.pad01' in self.fam.prims:
            p = self.fam.prims['np.pad01']
            a, _ = self.E(node.args[0], env, p.args[0])
            return f'(P.{p.field} {a})', p.ret
        # x.astype(c.dtype, copy=False) with c a reviewed module constant: conversion to the dtype of c
        if isinstance(node.func, ast.Attribute) and node.func.attr == 'astype' and len(node.args) == 1 \
                and isinstance(node.args[0], ast.Attribute) and node.args[0].attr == 'dtype' \
                and isinstance(node.args[0].value, ast.Name) and node.args[0].value.id in self.t.consts \
                and all(k.arg == 'copy' for k in node.keywords) and '.astype(like)' in self.fam.prims:
            p = self.fam.prims['.astype(like)']
            a, _ = self.E(node.func.value, env, p.args[0])
            c, _ = self.E(node.args[0].value, env, p.args[1])
            return f'(P.{p.field} {a} {c})', p.ret
        # table[values].sum(): the sum of the table entries selected by an integer image
        if isinstance(node.func, ast.Attribute) and node.func.attr == 'sum' and not node.args and not node.keywords \
                and isinstance(node.func.value, ast.Subscript) and '[].sum()' in self.fam.prims:
            p = self.fam.prims['[].sum()']
            a, _ = self.E(node.func.value.value, env, p.args[0])
            i, _ = self.E(node.func.value.slice, env, p.args[1])
            return f'(P.{p.field} {a} {i})', p.ret
        if isinstance(node.func, ast.Attribute) and node.func.attr == 'sum' and len(node.args) == 1 and not node.keywords \
                and isinstance(node.args[0], ast.Constant) and node.args[0].value == 0 and isinstance(node.func.value, ast.Name) \
                and env.get(node.func.value.id) == 'vfld':
            a = lname(node.func.value.id)          # `indices.sum(0)`: the sum over the leading (coordinate) axis, per position
            return f'(fun p => List.foldl (fun a b => a + b) (ofNat 0) ({a} p))', 'fld'
        if d in ('np.zeros', 'np.empty') and len(node.args) == 2 and not node.keywords and isinstance(node.args[0], ast.Tuple) \
                and len(node.args[0].elts) == 2 and d + '2' in self.fam.prims:
            p = self.fam.prims[d + '2']
            parts = [self.E(e, env, 'int')[0] for e in node.args[0].elts] + [self.E(node.args[1], env, p.args[2])[0]]
            return '(' + ' '.join([f'P.{p.field}'] + parts) + ')', p.ret
        if d == 'int' and len(node.args) == 1 and not node.keywords and 'int' not in self.fam.prims:
            a, sa = self._E(node.args[0], env)
            if sa in ('int', 'nat'):
                return a, sa                           # int(x) of a Python int
        if d == 'np.array' and len(node.args) == 1 and not node.keywords and isinstance(node.args[0], ast.BinOp) \
                and isinstance(node.args[0].op, ast.Mult) and isinstance(node.args[0].left, ast.List) \
                and len(node.args[0].left.elts) == 1 and 'np.array([x]*n)' in self.fam.prims:
            p = self.fam.prims['np.array([x]*n)']
            a, _ = self.E(node.args[0].left.elts[0], env, p.args[0])
            n, _ = self.E(node.args[0].right, env, p.args[1])
            return f'(P.{p.field} {a} {n})', p.ret
        if d == 'np.dot' and len(node.args) == 2 and not node.keywords and 'np.dot' not in self.fam.prims:
            a, sa = self._E(node.args[0], env)
            b, sb = self._E(node.args[1], env)
            if f'np.dot:{sa},{sb}' in self.fam.prims:
                p = self.fam.prims[f'np.dot:{sa},{sb}']
                return f'(P.{p.field} {a} {b})', p.ret
            raise self.err(node, f'np.dot on sorts {sa},{sb}')
        if isinstance(node.func, ast.Attribute) and node.func.attr == 'sum' and not node.args and not node.keywords \
                and isinstance(node.func.value, ast.Name) and env.get(node.func.value.id) == 'vec':
            return f'(List.foldl (fun a b => a + b) (ofNat 0) {lname(node.func.value.id)})', 'K'
        if d == 'len' and len(node.args) == 1 and not node.keywords:
            a, sa = self._E(node.args[0], env)
            if f'len:{sa}' in self.fam.prims:
                return f'(P.{self.fam.prims["len:" + sa].field} {a})', 'nat'
            if sa in LIST_ELEM:
                return f'(List.length {a})', 'nat'
        if d == 'np.min' and len(node.args) == 1 and not node.keywords:
            a, sa = self._E(node.args[0], env)
            if sa == 'intlist':
                return f'(listMinI {a})', 'int'    # prelude; numpy raises on an empty array: reviewed call sites test the length first
        if d == 'np.floor' and len(node.args) == 1 and not node.keywords and isinstance(node.args[0], ast.Call) \
                and dotted(node.args[0].func) == 'np.log2' and len(node.args[0].args) == 1 and not node.args[0].keywords \
                and 'np.floor(np.log2)' in self.fam.prims:
            p = self.fam.prims['np.floor(np.log2)']
            a, sa = self._E(node.args[0].args[0], env)
            if sa == 'intlist':
                return f'(List.map P.{p.field} {a})', 'intlist'
        if d == 'slice' and len(node.args) == 2 and not node.keywords:
            a, _ = self.E(node.args[0], env, 'int')
            b, _ = self.E(node.args[1], env, 'int')
            return f'({a}, {b})', 'slice'
        if d == 'tuple' and len(node.args) == 1 and not node.keywords:
            a, sa = self._E(node.args[0], env)
            if sa in ('natlist', 'intlist', 'slicelist'):
                return a, sa                           # a tuple of indices is its list
        if d == 'float' and len(node.args) == 1 and not node.keywords and 'K' in self.fam.tparams:
            a, s = self._E(node.args[0], env)
            if s == 'K':
                return a, 'K'                      # float(x) of a scalar that already is a double
            if s in ('nat', 'int', 'natlit'):
                return self.coerce(a, s, 'K', node), 'K'
        return None

    def call(self, node, env, want=None):
        r = self._idiom(node, env)
        if r is not None:
            return r
        # x.copy()
        if isinstance(node.func, ast.Attribute) and node.func.attr in IDENTITY_METHODS and not node.args and not node.keywords:
            return self._E(node.func.value, env, want)
        if isinstance(node.func, ast.Attribute) and node.func.attr == 'astype' and len(node.args) == 1 \
                and dotted(node.args[0]) == 'int' and all(k.arg == 'copy' for k in node.keywords):
            a, sa = self._E(node.func.value, env)
            if sa == 'intlist':                     # an array of integral floats converted to int: the same integers
                self.note('identity-cast', node)
                return a, sa
        d = dotted(node.func)
        recv = None
        if d in env and env[d].startswith('fn:'):
            # call of a nested `def` (reviewed signature in Target.locals)
            psorts, rsort = self.t.locals[d]
            if node.keywords or len(node.args) != len(psorts):
                raise self.err(node, f'call of the local function {d} does not fit its reviewed signature')
            parts = [self.E(a, env, so)[0] for a, so in zip(node.args, psorts)]
            return '(' + ' '.join([lname(d)] + parts) + ')', rsort
        if (d is None or d not in self.fam.prims) and isinstance(node.func, ast.Attribute) \
                and ('.' + node.func.attr + '()') not in self.fam.prims and not (d and d.split('.')[0] not in env):
            # the same method of receivers of different sorts: `.m():<sort>`
            try:
                _, rs = self._E(node.func.value, env)
            except TranslationError:
                rs = None
            if f'.{node.func.attr}():{rs}' in self.fam.prims:
                d, recv = f'.{node.func.attr}():{rs}', node.func.value
        if recv is not None:
            pass
        elif d is None or d not in self.fam.prims:
            # method call on a value: `.m` primitives take the receiver first
            chain = d.split('.', 1) if d else None
            if isinstance(node.func, ast.Attribute) and ('.' + node.func.attr + '()') in self.fam.prims:
                d, recv = '.' + node.func.attr + '()', node.func.value
            elif chain and len(chain) == 2 and chain[0] in env and ('.' + chain[1] + '()') in self.fam.prims:
                d, recv = '.' + chain[1] + '()', ast.copy_location(ast.Name(id=chain[0], ctx=ast.Load()), node)
            else:
                raise self.err(node, f'call of {d or "<expr>"} is not in the primitive table of family {self.fam.name}')
        if d and node.args and any(k.startswith(d + ':') for k in self.fam.prims):
            try:
                _, s0 = self._E(node.args[0], env)
            except TranslationError:
                s0 = None
            if f'{d}:{s0}' in self.fam.prims:
                d = f'{d}:{s0}'                          # the same callee on a first argument of another sort: its own reviewed signature
        if d and d + '(out)' in self.fam.prims and any(k.arg == 'out' for k in node.keywords):
            d = d + '(out)'                              # the same callee with / without a destination array: two reviewed signatures
        p = self.fam.prims[d]
        if p.raises and not getattr(self, '_allow_raising', False):
            raise self.err(node, f'{d} may raise: only `a, b = {d}(..)` as a statement is in the subset')
        pos = ([recv] if recv is not None else []) + list(node.args)
        slots = [None] * len(p.args)
        for i, a in enumerate(pos):
            if i in p.pos:
                slots[p.pos.index(i)] = a
            elif (isinstance(a, ast.Name) and a.id in self.drop) or (isinstance(a, ast.Constant) and isinstance(a.value, str)):
                continue                                # destination buffer / function name for the error text
            else:
                raise self.err(node, f'extra positional argument {i} of {d}')
        for k in node.keywords:
            if k.arg in p.kw and not (isinstance(k.value, ast.Name) and k.value.id in self.drop):
                if slots[p.kw[k.arg]] is not None:
                    raise self.err(node, f'argument {k.arg} given twice')
                slots[p.kw[k.arg]] = k.value
                continue
            if k.arg in PLUMBING or k.arg in p.drop_kw:
                if k.arg in PLUMBING:
                    self.note('destination-buffer', ast.copy_location(ast.Name(id=f'{k.arg}={ast.unparse(k.value)} in {d}(..)', ctx=ast.Load()), node))
                continue
            if k.arg in p.kw:
                if slots[p.kw[k.arg]] is not None:
                    raise self.err(node, f'argument {k.arg} given twice')
                slots[p.kw[k.arg]] = k.value
            else:
                raise self.err(node, f'keyword {k.arg} of {d} is not reviewed')
        if any(s is None for s in slots):
            raise self.err(node, f'{d}: missing argument {slots.index(None)} (defaults of primitives are not modelled)')
        if p.elementwise and len(slots) == 1:
            a, sa = self._E(slots[0], env)
            if sa == 'vec':
                return f'(List.map P.{p.field} {a})', 'vec'
            if sa == 'fld':
                return f'(fun p => P.{p.field} ({a} p))', 'fld'
        if p.elementwise and len(slots) == 2:
            a, sa = self._E(slots[0], env)
            b, sb = self._E(slots[1], env)
            if sa == 'fld' and sb in ('K', 'nat', 'int', 'natlit'):
                return f'(fun p => P.{p.field} ({a} p) {self.coerce(b, sb, "K", node)})', 'fld'
        parts = [self.E(a, env, s)[0] for a, s in zip(slots, p.args)]
        if p.field.startswith('='):                      # a fixed Lean function of the prelude rather than a field
            return '(' + ' '.join([p.field[1:]] + parts) + ')', p.ret
        return '(' + ' '.join([f'P.{p.field}'] + parts) + ')', p.ret

    # ---- statements ----------------------------------------------------------------------------
    @staticmethod
    def assigned(stmts):
        out = []
        for s in stmts:
            for n in ast.walk(s):
                tg = []
                if isinstance(n, ast.Assign):
                    tg = n.targets
                elif isinstance(n, ast.AugAssign):
                    tg = [n.target]
                elif isinstance(n, ast.For):
                    tg = [n.target]
                elif isinstance(n, ast.Expr) and isinstance(n.value, ast.Call):
                    tg = [kw.value for kw in n.value.keywords if kw.arg == 'out' and isinstance(kw.value, ast.Name)]
                    if dotted(n.value.func) in MUTATING:
                        i = MUTATING[dotted(n.value.func)]
                        if len(n.value.args) > i:
                            tg = tg + [n.value.args[i]]
                    if isinstance(n.value.func, ast.Attribute) and n.value.func.attr == 'append' and isinstance(n.value.func.value, ast.Name):
                        tg = tg + [n.value.func.value]
                for t in tg:
                    while isinstance(t, ast.Subscript):
                        t = t.value
                    if isinstance(t, ast.Name) and t.id not in out:
                        out.append(t.id)
        return out

    @staticmethod
    def exits(stmts):
        """does the block contain a return / raise / break / continue (not counting nested loops for break/continue)?"""
        def walk(ss, inloop):
            for s in ss:
                if isinstance(s, (ast.Return, ast.Raise, ast.Assert)):
                    return True
                if isinstance(s, (ast.Break, ast.Continue)) and not inloop:
                    return True
                if isinstance(s, ast.If) and (walk(s.body, inloop) or walk(s.orelse, inloop)):
                    return True
                if isinstance(s, (ast.For, ast.While)) and walk(s.body, True):
                    return True
            return False
        return walk(stmts, False)

    def tuple_of(self, names):
        ns = [lname(n) for n in names]
        return ns[0] if len(ns) == 1 else '(' + ', '.join(ns) + ')'

    @staticmethod
    def proj(var, i, n):
        if n == 1:
            return var
        return var + '.2' * i + ('.1' if i < n - 1 else '')

    def S(self, stmts, env, k, ind):
        """Lean term (list of lines) for the statement list followed by continuation `k(env, ind) -> lines`;
        k is None at the end of the function body (falling off the end returns None: refused)"""
        pad = '  ' * ind
        if not stmts:
            if k is None:
                if self.t.fallthrough_none and self.raises and getattr(self, '_ret', None) is None:
                    return [pad + 'none']
                raise TranslationError(f'{self.t.module}:{self.t.name}: a path falls off the end of the body without `return`')
            return k(env, ind)
        s, rest = stmts[0], stmts[1:]
        if isinstance(s, ast.Expr):
            if isinstance(s.value, ast.Constant) and isinstance(s.value.value, str):
                return self.S(rest, env, k, ind)                        # docstring
            if isinstance(s.value, ast.Call) and (dotted(s.value.func) or '').split('.')[-1] in GUARD_CALLS:
                self.note('guard-helper', s)
                return self.S(rest, env, k, ind)                        # guard helper: translator/guards.py
            if isinstance(s.value, ast.Call) and isinstance(s.value.func, ast.Attribute) and s.value.func.attr == 'append' \
                    and isinstance(s.value.func.value, ast.Name) and env.get(s.value.func.value.id) in LIST_ELEM \
                    and len(s.value.args) == 1 and not s.value.keywords:
                x = s.value.func.value.id                                   # `x.append(e)`: `x = x + [e]`
                e, _ = self.E(s.value.args[0], env, LIST_ELEM[env[x]])
                return [pad + f'let {lname(x)} := {lname(x)} ++ [{e}]'] + self.S(rest, env, k, ind)
            if isinstance(s.value, ast.Call) and dotted(s.value.func) in self.fam.prims \
                    and self.fam.prims[dotted(s.value.func)].mutates is not None and not s.value.keywords:
                # `kernel(a, b, output)` as a statement: the kernel fills its argument `output` (a local array)
                p = self.fam.prims[dotted(s.value.func)]
                tgt = s.value.args[p.pos.index(p.mutates)] if p.mutates in p.pos and len(s.value.args) > p.pos.index(p.mutates) else None
                if not (isinstance(tgt, ast.Name) and tgt.id in env and tgt.id not in self.drop and env[tgt.id] == p.ret):
                    raise self.err(s, 'kernel call whose written argument is not a local array of the result sort')
                asg = ast.Assign(targets=[ast.Name(id=tgt.id, ctx=ast.Store())], value=s.value)
                ast.copy_location(asg, s); ast.fix_missing_locations(asg)
                return self.S([asg] + list(rest), env, k, ind)
            if isinstance(s.value, ast.Call):
                outs = [kw for kw in s.value.keywords if kw.arg == 'out']
                if len(outs) == 1 and isinstance(outs[0].value, ast.Name) and outs[0].value.id in env \
                        and outs[0].value.id not in self.drop:
                    # `ufunc(a, b, out=x)` as a statement, x a local array: `x = ufunc(a, b)`
                    call = ast.Call(func=s.value.func, args=s.value.args, keywords=[kw for kw in s.value.keywords if kw.arg != 'out'])
                    asg = ast.Assign(targets=[ast.Name(id=outs[0].value.id, ctx=ast.Store())], value=call)
                    ast.copy_location(call, s); ast.copy_location(asg, s); ast.fix_missing_locations(asg)
                    return self.S([asg] + list(rest), env, k, ind)
            raise self.err(s, 'expression statement outside the subset')
        if isinstance(s, (ast.Pass, ast.Import, ast.ImportFrom)):
            return self.S(rest, env, k, ind)
        if isinstance(s, ast.Assert):
            # `assert c, msg`: AssertionError when c is false (python -O is not modelled)
            if getattr(self, '_inloop', 0) or getattr(self, '_ret', None):
                raise self.err(s, '`assert` inside a loop / nested def')
            c = self.cond(s.test, env)
            return [pad + f'if {c} then'] + self.S(rest, env, k, ind + 1) + [pad + 'else', pad + '  none']
        if isinstance(s, ast.Return):
            if s.value is None:
                raise self.err(s, 'bare return')
            if getattr(self, '_inloop', 0):
                if not self._loops[-1].get('ret') or getattr(self, '_ret', None):
                    raise self.err(s, '`return` inside a loop that is not a reviewed search loop')
                txt, _ = self.E(s.value, env, self.t.ret)
                return self._loop_exit(env, ind, False, ret=txt)
            if isinstance(s.value, ast.Call) and self.raises and not getattr(self, '_ret', None):
                dd = dotted(s.value.func)
                if dd and dd + '(out)' in self.fam.prims and any(kk.arg == 'out' for kk in s.value.keywords):
                    dd = dd + '(out)'
                if dd in self.fam.prims and self.fam.prims[dd].raises:
                    # `return callee(..)` of a callee that may raise: its `Option` is the result
                    self._allow_raising = True
                    try:
                        txt, _ = self.E(s.value, env, self.t.ret)
                    finally:
                        self._allow_raising = False
                    return [pad + txt]
            txt, _ = self.E(s.value, env, getattr(self, '_ret', None) or self.t.ret)
            return [pad + (f'some {txt}' if self.raises else txt)]
        if isinstance(s, ast.Raise):
            if getattr(self, '_inloop', 0):
                raise self.err(s, '`raise` inside a loop')
            return [pad + 'none']
        if isinstance(s, (ast.Break, ast.Continue)):
            if not getattr(self, '_inloop', 0):
                raise self.err(s, 'break/continue outside a loop')
            return self._loop_exit(env, ind, isinstance(s, ast.Break))
        if isinstance(s, ast.FunctionDef):
            # nested `def` with a reviewed signature: a local function `let f := fun (x : T) => body`
            sig = self.t.locals.get(s.name)
            a = s.args
            if sig is None or a.vararg or a.kwarg or a.kwonlyargs or a.defaults or len(a.args) != len(sig[0]) or s.decorator_list:
                raise self.err(s, f'nested def {s.name} without a matching reviewed signature (Target.locals)')
            if any(isinstance(n, (ast.Raise, ast.FunctionDef)) for n in ast.walk(s) if n is not s) or getattr(self, '_inloop', 0):
                raise self.err(s, 'nested def with raise / def inside, or inside a loop')
            env_in = dict(env)
            for x, so in zip(a.args, sig[0]):
                env_in[x.arg] = so
            saved = (getattr(self, '_ret', None), self.raises)
            self._ret, self.raises = sig[1], False
            try:
                body = self.S(list(s.body), env_in, None, ind + 2)
            finally:
                self._ret, self.raises = saved
            bind = ' '.join(f'({lname(x.arg)} : {LEAN_TYPE[so]})' for x, so in zip(a.args, sig[0]))
            env2 = dict(env)
            env2[s.name] = 'fn:' + s.name
            return [pad + f'let {lname(s.name)} := (fun {bind} =>'] + body + [pad + '  )'] + self.S(rest, env2, k, ind)
        if isinstance(s, ast.Assign) and len(s.targets) == 1 and isinstance(s.targets[0], ast.Tuple) \
                and len(s.targets[0].elts) == 1 and isinstance(s.targets[0].elts[0], ast.Name) and isinstance(s.value, ast.Call) \
                and dotted(s.value.func) == 'np.where' and len(s.value.args) == 1 and 'np.where' in self.fam.prims:
            # `idx, = np.where(c)`: the indices of the non-zero entries of a 1-D array
            asg = ast.Assign(targets=[s.targets[0].elts[0]], value=s.value)
            ast.copy_location(asg, s); ast.fix_missing_locations(asg)
            return self.S([asg] + list(rest), env, k, ind)
        if isinstance(s, ast.Assign) and len(s.targets) == 1 and isinstance(s.targets[0], ast.Tuple) \
                and all(isinstance(e, ast.Name) for e in s.targets[0].elts):
            names = [e.id for e in s.targets[0].elts]
            val = s.value
            if isinstance(val, ast.Tuple) and len(val.elts) == len(names) \
                    and not ({n.id for n in ast.walk(val) if isinstance(n, ast.Name)} & set(names)):
                # `a, b, c = e1, e2, e3` (no target read on the right): three assignments
                asg = []
                for n, e in zip(names, val.elts):
                    x = ast.Assign(targets=[ast.Name(id=n, ctx=ast.Store())], value=e)
                    ast.copy_location(x, s); ast.fix_missing_locations(x)
                    asg.append(x)
                return self.S(asg + list(rest), env, k, ind)
            if isinstance(val, ast.Call) and isinstance(val.func, ast.Attribute) and val.func.attr == 'transpose' \
                    and len(val.args) == 1 and not val.keywords and ast.unparse(val.args[0]).replace(' ', '') == '(2,0,1)' \
                    and len(names) == 3 and 'unpack:transpose201' in self.fam.prims:
                # `x, y, z = a.transpose((2, 0, 1))`: the three channel planes of an (h, w, 3) array
                p = self.fam.prims['unpack:transpose201']
                a_, _ = self.E(val.func.value, env, p.args[0])
                env2, lines = dict(env), []
                for i, n in enumerate(names):
                    lines.append(pad + f'let {lname(n)} := P.{p.field} {a_} {i}')
                    env2[n] = p.ret
                return lines + self.S(rest, env2, k, ind)
            if isinstance(val, ast.Call) and dotted(val.func) in self.fam.prims and self.fam.prims[dotted(val.func)].raises \
                    and len(names) == 2 and self.fam.prims[dotted(val.func)].ret == 'shape_pos' and self.raises \
                    and not getattr(self, '_inloop', 0):
                # `a, b = callee(..)` of a callee that may raise: `match … with | none => none | some r => …`
                p = self.fam.prims[dotted(val.func)]
                self._allow_raising = True
                try:
                    txt, _ = self._E(val, env)
                finally:
                    self._allow_raising = False
                r = self.fresh('r')
                env2 = dict(env)
                env2[names[0]], env2[names[1]] = 'intlist', 'slicelist'
                return [pad + f'match {txt} with', pad + '| none => none', pad + f'| some {r} =>',
                        pad + f'  let {lname(names[0])} := {r}.1', pad + f'  let {lname(names[1])} := {r}.2'] \
                    + self.S(rest, env2, k, ind + 1)
            if isinstance(val, ast.Attribute) and val.attr == 'shape' and len(names) == 2 and 'shape2' in self.fam.prims:
                # `r, c = img.shape` of a 2-D array
                p = self.fam.prims['shape2']
                a_, _ = self.E(val.value, env, p.args[0])
                env2 = dict(env)
                env2[names[0]] = env2[names[1]] = 'nat'
                return [pad + f'let {lname(names[0])} := P.{p.field}_rows {a_}', pad + f'let {lname(names[1])} := P.{p.field}_cols {a_}'] \
                    + self.S(rest, env2, k, ind)
            if isinstance(val, ast.Call) and dotted(val.func) == 'np.meshgrid' and len(val.args) == 2 and not val.keywords \
                    and len(names) == 2 and 'np.meshgrid' in self.fam.prims:
                # `X, Y = np.meshgrid(x, y)`: X[i, j] = x[j], Y[i, j] = y[i] (numpy's default 'xy' indexing)
                p = self.fam.prims['np.meshgrid']
                a_, _ = self.E(val.args[0], env, p.args[0])
                b_, _ = self.E(val.args[1], env, p.args[1])
                env2 = dict(env)
                env2[names[0]] = env2[names[1]] = p.ret
                t1, t2 = self.fresh('mg'), self.fresh('mg')
                return [pad + f'let {t1} := P.{p.field}_x {a_} {b_}', pad + f'let {t2} := P.{p.field}_y {a_} {b_}',
                        pad + f'let {lname(names[0])} := {t1}', pad + f'let {lname(names[1])} := {t2}'] \
                    + self.S(rest, env2, k, ind)
            if isinstance(val, ast.Call) and dotted(val.func) in self.fam.prims and self.fam.prims[dotted(val.func)].ret == 'nat4' \
                    and len(names) == 4:
                # `a, b, c, d = callee(..)` of a callee returning four naturals
                txt, _ = self._E(val, env)
                r = self.fresh('q')
                env2 = dict(env)
                lines = [pad + f'let {r} := {txt}']
                for n, prj in zip(names, ('.1', '.2.1', '.2.2.1', '.2.2.2')):
                    lines.append(pad + f'let {lname(n)} := {r}{prj}')
                    env2[n] = 'nat'
                return lines + self.S(rest, env2, k, ind)
            raise self.err(s, 'tuple assignment outside the subset')
        if isinstance(s, (ast.Assign, ast.AugAssign)):
            if isinstance(s, ast.Assign):
                if len(s.targets) != 1:
                    raise self.err(s, 'chained assignment')
                tgt, val = s.targets[0], s.value
            else:
                tgt = s.target
                val = ast.BinOp(left=ast.copy_location(ast.Name(id=getattr(tgt, 'id', '?'), ctx=ast.Load()), s), op=s.op, right=s.value)
                ast.copy_location(val, s)
                if not isinstance(tgt, ast.Name):
                    raise self.err(s, 'augmented assignment to a non-name')
            if isinstance(tgt, ast.Subscript) and isinstance(tgt.value, ast.Name) and isinstance(tgt.slice, ast.Constant) \
                    and tgt.slice.value is Ellipsis and 'setitem...' in self.fam.prims:
                # `a[...] = v`: every element becomes v (converted to the dtype of a): a reviewed primitive
                p = self.fam.prims['setitem...']
                a, _ = self.E(tgt.value, env, p.args[0])
                v, _ = self.E(val, env, p.args[1])
                env2 = dict(env)
                env2[tgt.value.id] = p.ret
                return [pad + f'let {lname(tgt.value.id)} := P.{p.field} {a} {v}'] + self.S(rest, env2, k, ind)
            if isinstance(tgt, ast.Subscript) and isinstance(tgt.value, ast.Name) and 'setwin' in self.fam.prims \
                    and self._window(tgt.slice, env) is not None:
                # `a[y0:y1, x0:x1] = b`: the window of a is overwritten with b
                p = self.fam.prims['setwin']
                a, _ = self.E(tgt.value, env, p.args[0])
                v, _ = self.E(val, env, p.args[-1])
                return [pad + f'let {lname(tgt.value.id)} := ' + ' '.join([f'P.{p.field}', a] + self._window(tgt.slice, env) + [v])] \
                    + self.S(rest, env, k, ind)
            if isinstance(tgt, ast.Subscript) and isinstance(tgt.value, ast.Name) and 'setitem' in self.fam.prims:
                p = self.fam.prims['setitem']
                a, _ = self.E(tgt.value, env, p.args[0])
                i, _ = self.E(tgt.slice, env, p.args[1])
                v, _ = self.E(val, env, p.args[2])
                env2 = dict(env)
                return [pad + f'let {lname(tgt.value.id)} := P.{p.field} {a} {i} {v}'] + self.S(rest, env2, k, ind)
            if not isinstance(tgt, ast.Name):
                raise self.err(s, 'assignment target outside the subset')
            if tgt.id in self.drop:
                # destination-buffer plumbing: `out = _get_output(...)`, `if out is None: out = output`
                if isinstance(val, ast.Call) and (dotted(val.func) or '').split('.')[-1] == '_get_output':
                    self.note('destination-buffer', s)
                    return self.S(rest, env, k, ind)
                if isinstance(val, ast.Name) and val.id in self.drop:
                    self.note('destination-buffer', s)
                    return self.S(rest, env, k, ind)
                raise self.err(s, 'assignment to a destination-buffer name that is not `_get_output(...)`')
            if isinstance(val, ast.List) and not val.elts and tgt.id in self.t.localsorts:
                so = self.t.localsorts[tgt.id]
                env2 = dict(env)
                env2[tgt.id] = so
                return [pad + f'let {lname(tgt.id)} := ([] : {LEAN_TYPE[so]})'] + self.S(rest, env2, k, ind)
            txt, sort = self.E(val, env, env.get(tgt.id) if env.get(tgt.id) in ('K', 'vec') else None)
            if sort == 'natlit':
                sort = 'nat'
                txt = f'({txt} : Nat)'
            env2 = dict(env)
            env2[tgt.id] = sort
            return [pad + f'let {lname(tgt.id)} := {txt}'] + self.S(rest, env2, k, ind)
        if isinstance(s, ast.If):
            # `if <dtype test>: x = x.astype(np.float64)`: a conversion to double of an array whose values are scalars of the
            # family already - the identity at value level, whatever the test says
            if not s.orelse and len(s.body) == 1 and isinstance(s.body[0], ast.Assign) and len(s.body[0].targets) == 1 \
                    and isinstance(s.body[0].targets[0], ast.Name) and env.get(s.body[0].targets[0].id) in ('mat', 'fld', 'vec') \
                    and ast.unparse(s.body[0].value).replace(' ', '') == f'{s.body[0].targets[0].id}.astype(np.float64)':
                self.note('identity-cast', s)
                return self.S(rest, env, k, ind)
            # `if out is None: out = output` and other pure plumbing tests
            if self._plumbing_test(s.test):
                if self.assigned(s.body + s.orelse) and all(n in self.drop for n in self.assigned(s.body + s.orelse)) \
                        and not self.exits(s.body + s.orelse):
                    self.note('destination-buffer', s)
                    return self.S(rest, env, k, ind)
                raise self.err(s, 'test of a destination-buffer name guarding value-level code')
            # `if np.may_share_memory(a, out): a = a.copy()`: an aliasing guard around destination buffers - no value-level
            # meaning, accepted only when everything it guards is a value-level no-op (`x = x.copy()`)
            if isinstance(s.test, ast.Call) and dotted(s.test.func) == 'np.may_share_memory':
                def noop(st):
                    return (isinstance(st, ast.Assign) and len(st.targets) == 1 and isinstance(st.targets[0], ast.Name)
                            and isinstance(st.value, ast.Call) and isinstance(st.value.func, ast.Attribute)
                            and st.value.func.attr in IDENTITY_METHODS and not st.value.args and not st.value.keywords
                            and isinstance(st.value.func.value, ast.Name) and st.value.func.value.id == st.targets[0].id)
                if all(noop(st) for st in list(s.body) + list(s.orelse)):
                    self.note('aliasing-guard', s)
                    return self.S(rest, env, k, ind)
                raise self.err(s, 'aliasing test guarding value-level code')
            # `if x is None:` on an optional parameter: a `match` that rebinds x as a scalar where it is not None
            nt = self._none_test(s.test, env)
            if nt is not None:
                x, positive = nt
                env_none, env_some = dict(env), dict(env)
                env_none.pop(x)
                env_some[x] = {'optK': 'K', 'optD': 'dtype', 'optint': 'int', 'optpair': 'pair'}[env[x]]
                b_then, b_else = (env_none, env_some) if positive else (env_some, env_none)
                h_none, h_some = f'| none =>', f'| some {lname(x)} =>'
                heads = (f'(match {lname(x)} with', h_none if positive else h_some, h_some if positive else h_none, ')')
            else:
                c = self.cond(s.test, env)
                b_then, b_else = env, env
                heads = (None, f'if {c} then', 'else', None)

            def wrap(pad_, a_, b_):
                out = [pad_ + heads[0]] if heads[0] else []
                out += [pad_ + heads[1]] + a_ + [pad_ + heads[2]] + b_
                return out + ([pad_ + heads[3]] if heads[3] else [])
            if self.exits(s.body) or self.exits(s.orelse):
                a = self.S(list(s.body) + list(rest), b_then, k, ind + 1)
                b = self.S(list(s.orelse) + list(rest), b_else, k, ind + 1)
                return wrap(pad, a, b)
            inb, ine = self.assigned(s.body), self.assigned(s.orelse)
            merged = sorted(n for n in set(inb) | set(ine) if n in env or (n in inb and n in ine))
            merged = [n for n in merged if n not in self.drop]
            if not merged:
                raise self.err(s, '`if` without effect on the value-level state')
            rk = {'nat': 1, 'int': 2, 'K': 3}
            # pass 1: the sorts with which each branch leaves the merged variables; their join is the sort after the `if`
            seen = []

            def probe(e, i):
                seen.append({n: e[n] for n in merged})
                return []
            saved = self.counter
            self.S(list(s.body), b_then, probe, 0)
            self.S(list(s.orelse), b_else, probe, 0)
            self.counter = saved
            sorts = {}
            for n in merged:
                ss = {d[n] for d in seen}
                if len(ss) == 1:
                    sorts[n] = ss.pop()
                elif ss <= set(rk):
                    sorts[n] = max(ss, key=rk.get)
                    if getattr(self, '_inloop', 0) and n in env and env[n] != sorts[n]:
                        raise SortChange(n, env[n], sorts[n])     # embedded before the enclosing loop, then retried
                else:
                    raise self.err(s, f'variable {n} leaves the branches with sorts {sorted(ss)}')

            def kk(e, i):
                parts = [self.coerce(lname(n), e[n], sorts[n], s) for n in merged]
                return ['  ' * i + (parts[0] if len(parts) == 1 else '(' + ', '.join(parts) + ')')]
            a = self.S(list(s.body), b_then, kk, ind + 2)
            b = self.S(list(s.orelse), b_else, kk, ind + 2)
            env2 = dict(env)
            env2.update(sorts)
            v = lname(merged[0]) if len(merged) == 1 else self.fresh('br')
            head = [pad + f'let {v} :='] + wrap(pad + '  ', a, b)
            if len(merged) > 1:
                for i, n in enumerate(merged):
                    head.append(pad + f'let {lname(n)} := {self.proj(v, i, len(merged))}')
            return head + self.S(rest, env2, k, ind)
        if isinstance(s, (ast.For, ast.While)):
            # a state variable that enters as an int and leaves as a scalar is embedded before the loop (`res = maxt`)
            pre, env1 = [], dict(env)
            for _ in range(4):
                saved = (self.counter, list(getattr(self, '_loops', [])), getattr(self, '_inloop', 0))
                try:
                    body = self.for_loop(s, rest, env1, k, ind) if isinstance(s, ast.For) else self.while_loop(s, rest, env1, k, ind)
                    return pre + body
                except SortChange as sc:
                    self.counter, self._loops, self._inloop = saved
                    txt = self.coerce(lname(sc.name), sc.have, sc.want, s)
                    pre.append('  ' * ind + f'let {lname(sc.name)} := {txt}')
                    env1[sc.name] = sc.want
            raise self.err(s, 'sorts of the loop state do not stabilise')
        raise self.err(s, f'statement {type(s).__name__} outside the subset')

    def _none_test(self, test, env):
        """`x is None` / `x is not None` on an optional scalar -> (x, is_positive)"""
        if isinstance(test, ast.Compare) and len(test.ops) == 1 and isinstance(test.ops[0], (ast.Is, ast.IsNot)) \
                and isinstance(test.left, ast.Name) and env.get(test.left.id) in ('optK', 'optD', 'optint', 'optpair') \
                and isinstance(test.comparators[0], ast.Constant) and test.comparators[0].value is None:
            return test.left.id, isinstance(test.ops[0], ast.Is)
        return None

    def _plumbing_test(self, test):
        names = [n.id for n in ast.walk(test) if isinstance(n, ast.Name)]
        return bool(names) and all(n in self.drop for n in names)

    def _loop_exit(self, env, ind, brk, ret=None):
        lp = self._loops[-1]
        for n in lp['state']:
            if env.get(n) != lp['sorts'][n]:
                raise SortChange(n, lp['sorts'][n], env.get(n))
        tup = [lname(n) for n in lp['state']]
        if lp['brk']:
            tup = ['true' if brk else 'false'] + tup
        if lp.get('ret'):
            tup = [f'(some {ret})' if ret is not None else 'none'] + tup
        return ['  ' * ind + (tup[0] if len(tup) == 1 else '(' + ', '.join(tup) + ')')]

    def for_loop(self, s, rest, env, k, ind):
        pad = '  ' * ind
        if s.orelse:
            raise self.err(s, 'for/else')
        it = s.iter
        unpack = []                                     # `for a, b in zip(xs, ys)`: the element is a pair
        if isinstance(s.target, ast.Tuple) and len(s.target.elts) == 2 and all(isinstance(e, ast.Name) for e in s.target.elts) \
                and isinstance(it, ast.Call) and dotted(it.func) == 'zip' and len(it.args) == 2 and not it.keywords:
            xs, sx = self._E(it.args[0], env)
            ys, sy = self._E(it.args[1], env)
            if sx not in LIST_ELEM or sy not in LIST_ELEM:
                raise self.err(s, f'zip over sorts {sx},{sy}')
            seq = f'(List.zip {xs} {ys})'
            lvar = self.fresh('zz')
            vty = f'{LEAN_TYPE[LIST_ELEM[sx]]} × {LEAN_TYPE[LIST_ELEM[sy]]}'
            unpack = [(s.target.elts[0].id, LIST_ELEM[sx], f'{lvar}.1'), (s.target.elts[1].id, LIST_ELEM[sy], f'{lvar}.2')]
            targets = {u[0] for u in unpack}
        elif not isinstance(s.target, ast.Name):
            raise self.err(s, 'loop target outside the subset')
        elif isinstance(it, ast.Call) and dotted(it.func) == 'range' and not it.keywords and 1 <= len(it.args) <= 2:
            if len(it.args) == 1:
                n, _ = self.E(it.args[0], env, 'nat')
                seq = f"(List.range' 0 {n})"
            else:
                a, _ = self.E(it.args[0], env, 'nat')
                b, _ = self.E(it.args[1], env, 'nat')
                seq = f"(List.range' {a} ({b} - {a}))"
            lvar, vty, targets = lname(s.target.id), 'Nat', {s.target.id}
            unpack = [(s.target.id, 'nat', None)]
        else:
            sq, ss = self._E(it, env)
            if ss != 'vec':
                raise self.err(s, f'iteration over sort {ss}')
            seq = sq
            lvar, vty, targets = lname(s.target.id), 'K', {s.target.id}
            unpack = [(s.target.id, 'K', None)]
        body_assigned = [n for n in self.assigned(s.body) if n not in self.drop]
        state = sorted(n for n in body_assigned if n in env and n not in targets)
        brk = any(isinstance(n, ast.Break) for n in ast.walk(s))

        def direct_returns(ss):                         # `return` in this loop's body, not inside a nested loop / def
            for st in ss:
                if isinstance(st, ast.Return):
                    return True
                if isinstance(st, ast.If) and (direct_returns(st.body) or direct_returns(st.orelse)):
                    return True
            return False
        ret = direct_returns(s.body)                    # a search loop: the state carries `Option <result>`, the first hit wins
        if ret and (getattr(self, '_inloop', 0) or getattr(self, '_ret', None)):
            raise self.err(s, '`return` inside a nested loop / nested def')
        if not state and not ret:
            raise self.err(s, 'loop without effect on variables defined before it')
        lp = dict(state=state, sorts={n: env[n] for n in state}, brk=brk, ret=ret)
        self._loops = getattr(self, '_loops', []) + [lp]
        self._inloop = getattr(self, '_inloop', 0) + 1
        v = self.fresh('st')
        lead = (1 if ret else 0) + (1 if brk else 0)
        nst = len(state) + lead
        tys = ([f'Option ({LEAN_TYPE[self.t.ret]})'] if ret else []) + (['Bool'] if brk else []) + [LEAN_TYPE[env[n]] for n in state]
        lines = [pad + f'let {v} := List.foldl (fun ({v} : {" × ".join(tys)}) ({lvar} : {vty}) =>']
        inner = ind + 2
        ipad = '  ' * inner
        if ret:
            lines.append(ipad + f'if ({self.proj(v, 0, nst)}).isSome then {v} else')
        if brk:
            lines.append(ipad + f'if {self.proj(v, 1 if ret else 0, nst)} then {v} else')
        for i, n in enumerate(state):
            lines.append(ipad + f'let {lname(n)} := {self.proj(v, i + lead, nst)}')
        env_in = dict(env)
        for n, so, prj in unpack:
            env_in[n] = so
            if prj is not None:
                lines.append(ipad + f'let {lname(n)} := {prj}')
        lines += self.S(list(s.body), env_in, lambda e, i: self._loop_exit(e, i, False), inner)
        init = (['none'] if ret else []) + (['false'] if brk else []) + [lname(n) for n in state]
        lines.append(ipad[:-2] + ') ' + (init[0] if len(init) == 1 else '(' + ', '.join(init) + ')') + ' ' + seq)
        self._loops = self._loops[:-1]
        self._inloop -= 1
        env2 = {n: t for n, t in env.items()}           # loop-local variables do not survive (refused if read later)
        after = [f'let {lname(n)} := {self.proj(v, i + lead, nst)}' for i, n in enumerate(state)]
        if ret:
            r = self.fresh('r')
            lines += [pad + f'match {self.proj(v, 0, nst)} with', pad + f'| some {r} => ' + (f'some {r}' if self.raises else r),
                      pad + '| none =>']
            return lines + ['  ' * (ind + 1) + a for a in after] + self.S(rest, env2, k, ind + 1)
        return lines + [pad + a for a in after] + self.S(rest, env2, k, ind)

    def while_loop(self, s, rest, env, k, ind):
        pad = '  ' * ind
        if s.orelse:
            raise self.err(s, 'while/else')
        if any(isinstance(n, (ast.Break, ast.Continue)) for n in ast.walk(s)):
            raise self.err(s, 'break/continue inside `while`')
        whiles = sorted((n for n in ast.walk(self.f) if isinstance(n, ast.While)), key=lambda n: (n.lineno, n.col_offset))
        i = [id(n) for n in whiles].index(id(s))            # source order (a continuation may be translated more than once)
        if len(whiles) != len(self.t.fuels):
            raise self.err(s, f'{len(whiles)} `while` loops but {len(self.t.fuels)} reviewed fuel bounds in the signature table')
        fuel, _ = self.E(ast.parse(self.t.fuels[i], mode='eval').body, env, 'nat')
        state = sorted(n for n in self.assigned(s.body) if n in env and n not in self.drop)
        if not state:
            raise self.err(s, 'loop without effect on variables defined before it')
        lp = dict(state=state, sorts={n: env[n] for n in state}, brk=False)
        self._loops = getattr(self, '_loops', []) + [lp]
        self._inloop = getattr(self, '_inloop', 0) + 1
        v = self.fresh('st')
        nst = len(state)
        ty = ' × '.join(LEAN_TYPE[env[n]] for n in state)
        unpack = [f'let {lname(n)} := {self.proj(v, j, nst)}' for j, n in enumerate(state)]
        ipad = '  ' * (ind + 2)
        lines = [pad + f'let {v} := whileFuel {fuel}']
        lines.append(pad + f'    (fun ({v} : {ty}) =>')
        lines += [ipad + '  ' + u for u in unpack]
        lines.append(ipad + '  ' + self.cond(s.test, env) + ')')
        lines.append(pad + f'    (fun ({v} : {ty}) =>')
        lines += [ipad + '  ' + u for u in unpack]
        lines += self.S(list(s.body), dict(env), lambda e, i2: self._loop_exit(e, i2, False), ind + 3)
        init = [lname(n) for n in state]
        lines.append(pad + '    ) ' + (init[0] if len(init) == 1 else '(' + ', '.join(init) + ')'))
        self._loops = self._loops[:-1]
        self._inloop -= 1
        lines += [pad + u for u in unpack]
        return lines + self.S(rest, dict(env), k, ind)

    def _slice(self, stmts):
        """the reviewed slice of a body (Target.assume_none / Target.result_var): tests of the parameters assumed None are
        resolved, the deprecated-alias block `if out is None and output is not None: …` (output a dropped parameter) is
        removed, and the statement list ends with `return <result_var>` right after the first assignment of that local"""
        t = self.t

        def is_none_test(test):
            if isinstance(test, ast.Compare) and len(test.ops) == 1 and isinstance(test.left, ast.Name) \
                    and isinstance(test.comparators[0], ast.Constant) and test.comparators[0].value is None:
                if test.left.id in t.assume_none and isinstance(test.ops[0], ast.Is):
                    return True
                if test.left.id in t.assume_none and isinstance(test.ops[0], ast.IsNot):
                    return False
                if test.left.id in self.drop and isinstance(test.ops[0], ast.IsNot):
                    return False                        # a dropped (deprecated alias) parameter is never given
                if test.left.id in self.drop and isinstance(test.ops[0], ast.Is):
                    return True
            if isinstance(test, ast.BoolOp) and isinstance(test.op, ast.And):
                vs = [is_none_test(v) for v in test.values]
                if any(v is False for v in vs):
                    return False
                if all(v is True for v in vs):
                    return True
            return None

        def walk(ss):
            out = []
            for st in ss:
                if isinstance(st, ast.If):
                    v = is_none_test(st.test)
                    if v is True:
                        self.note('slice-assumes-None', st.test)
                        sub, done = walk(st.body)
                    elif v is False:
                        self.note('slice-assumes-None', st.test)
                        sub, done = walk(st.orelse)
                    else:
                        sub, done = [st], False
                    out += sub
                    if done:
                        return out, True
                    continue
                out.append(st)
                if t.result_var and isinstance(st, ast.Assign) and len(st.targets) == 1 \
                        and isinstance(st.targets[0], ast.Name) and st.targets[0].id == t.result_var:
                    r = ast.Return(value=ast.Name(id=t.result_var, ctx=ast.Load()))
                    ast.copy_location(r, st); ast.fix_missing_locations(r)
                    out.append(r)
                    return out, True
            return out, False
        res, done = walk(stmts)
        if t.result_var and not done:
            raise TranslationError(f'{t.module}:{t.name}: the sliced local {t.result_var} is not assigned on the reviewed path')
        return res

    # ---- definition ------------------------------------------------------------------------------
    def definition(self):
        t, f = self.t, self.f
        argnames = [a.arg for a in f.args.args]
        if f.args.vararg or f.args.kwarg or f.args.kwonlyargs:
            raise TranslationError(f'{t.module}:{t.name}: *args/**kwargs/keyword-only parameters')
        want = [p for p, _ in t.params]
        have = [a for a in argnames if a not in self.drop]
        if have != want:
            raise TranslationError(f'{t.module}:{t.name}: parameters {have} differ from the reviewed signature {want}')
        env = {p: s for p, s in t.params}
        stmts = list(f.body)
        if t.assume_none or t.result_var:
            stmts = self._slice(stmts)
        try:
            body = self.S(stmts, env, None, 1)
        except SortChange as sc:
            raise TranslationError(f'{t.module}:{t.name}: variable {sc} changes sort outside a loop')
        ret = LEAN_TYPE[t.ret]
        if self.raises:
            ret = f'Option ({ret})'
        binders = ' '.join(f'({lname(p)} : {LEAN_TYPE[s]})' for p, s in t.params)
        notes = [f'-- dropped [{kind}] {t.module[:-3]}.{t.name}: {src}' for kind, src in self.notes]
        head = notes + [f'/-- `mahotas/{t.module}: {t.name}({", ".join(argnames)})`, body translated from the current source -/',
                f'def {t.lean} {t.family.binders} {t.family.extra_params}(P : {t.family.struct} {' '.join(t.family.tparams)}) {binders} : {ret} :=']
        return head + body


# ----------------------------------------------------------------------------------------------
# reviewed tables: families of primitives and the target functions

MORPH = Family(
    'morph', ['I', 'S'], '', 'MorphPrims',
    {
        'get_structuring_elem': Prim('get_structuring_elem', ['img', 'se'], 'se'),
        'erode': Prim('erode', ['img', 'se'], 'img'),
        '_morph.erode': Prim('erode', ['img', 'se'], 'img'),
        'dilate': Prim('dilate', ['img', 'se'], 'img'),
        '_morph.dilate': Prim('dilate', ['img', 'se'], 'img'),
        'np.maximum': Prim('maximum', ['img', 'img'], 'img'),
        'np.minimum': Prim('minimum', ['img', 'img'], 'img'),
        'subm': Prim('subm', ['img', 'img'], 'img'),
        'np.all(==)': Prim('all_eq', ['img', 'img'], 'bool'),
        # the translated bodies may call each other: these are instantiated with the generated definitions themselves
        'open': Prim('open_', ['img', 'se'], 'img'),
        'close': Prim('close', ['img', 'se'], 'img'),
    }, prop='C02')

NUM = '[Add K] [Sub K] [Mul K] [Div K] [Neg K] [Zero K]'
EMBED = '(ofNat : Nat → K) (ofInt : Int → K) (flit : Nat → Nat → K) '
CONV = Family(
    'convolve', ['K', 'A', 'M'], NUM, 'ConvPrims',
    {
        'np.exp': Prim('exp', ['K'], 'K', elementwise=True),
        'int': Prim('trunc', ['K'], 'int', doc='Python `int(x)` of a float: truncation toward zero'),
        'convolve1d': Prim('convolve1d', ['arr', 'vec', 'int', 'mode', 'K'], 'arr',
                           kw={'axis': 2, 'mode': 3, 'cval': 4}),
    }, extra_params=EMBED, prop='C06')

THRESH = Family(
    'thresholding', ['K', 'X', 'S'], '[Add K] [Sub K] [Mul K] [Div K] [LT K] [DecidableLT K] [LE K] [DecidableLE K]', 'ThreshPrims',
    {
        'rank_filter': Prim('rank_filter', ['fld', 'se', 'int'], 'fld'),
        '.sum()': Prim('se_sum', ['se'], 'int', doc='number of non-zero entries of a 0/1 structuring element'),
        'circle_se': Prim('circle_se', ['K'], 'se', doc='`mahotas.morph.circle_se(radius)`'),
        'gbernsen': Prim('gbernsen', ['fld', 'se', 'K', 'K'], 'bfld', doc='instantiated with the generated `thresholding_gbernsen`'),
    }, extra_params=EMBED, prop='C16')

LAPL = Family(
    'laplacian', ['K', 'A'], '[Add K] [Sub K] [Div K] [Neg K] [LT K] [DecidableLT K] [LE K] [DecidableLE K]', 'LaplPrims',
    {
        'np.array': Prim('as_float', ['arr'], 'arr', drop_kw={'dtype'}, doc='`np.array(array, dtype=float)`'),
        '.ndim': Prim('ndim', ['arr'], 'nat'),
        'convolve': Prim('convolve', ['arr', 'mat', 'str'], 'arr', kw={'mode': 2}),
    }, extra_params=EMBED, prop='C06')

SOFT = Family(
    'soft threshold', ['K', 'X'], '[Add K] [Sub K] [Mul K] [Neg K] [LT K] [DecidableLT K] [LE K] [DecidableLE K] [DecidableEq K]', 'SoftPrims',
    {
        'np.abs': Prim('abs', ['K'], 'K', elementwise=True),
        'int': Prim('trunc', ['K'], 'int'),
        '.dtype.kind in': Prim('dtype_kind_in', ['fld', 'str'], 'bool', doc='`f.dtype.kind in "iu"`'),
        '.dtype.type()': Prim('dtype_cast', ['fld', 'K'], 'K', doc='`f.dtype.type(v)`: the scalar `v` converted to the dtype of `f`'),
    }, extra_params=EMBED, prop='C16')

EXTREMA = Family(
    'extrema', ['I', 'S', 'B'], '', 'ExtremaPrims',
    {
        'get_structuring_elem': Prim('get_structuring_elem', ['img', 'se'], 'se'),
        '.shape:se': Prim('shape', ['se'], 'natlist'),
        'setitem': Prim('setitem', ['se', 'natlist', 'bool'], 'se', doc='`Bc[index] = v`'),
        '_remove_centre': Prim('remove_centre', ['se'], 'se'),
        '_morph.locmin_max': Prim('locmin_max', ['img', 'se', 'bool'], 'bimg', pos=[0, 1, 3]),
        '_morph.regmin_max': Prim('regmin_max', ['img', 'se', 'bool'], 'bimg', pos=[0, 1, 3]),
        'np.ascontiguousarray': Prim('as_bool', ['img'], 'img', drop_kw={'dtype'}, doc='`np.ascontiguousarray(ref, dtype=np.bool_)`'),
        '_morph.close_holes': Prim('close_holes', ['img', 'se'], 'bimg'),
    }, prop='C14')

STRETCH = Family(
    'stretch', ['K', 'X', 'D', 'Sh'],
    '[Add K] [Sub K] [Mul K] [Div K] [LT K] [DecidableLT K] [LE K] [DecidableLE K] [DecidableEq K]', 'StretchPrims',
    {
        '.astype()': Prim('astype', ['fld', 'dtype'], 'fld', drop_kw={'copy'}),
        'const:np.double': Prim('double', [], 'dtype'),
        '.min()': Prim('min_of', ['fld'], 'K', doc='`img.min()`'),
        'np.ptp': Prim('ptp', ['fld'], 'K'),
        '.shape:fld': Prim('shape', ['fld'], 'shp'),
        'np.zeros': Prim('zeros', ['shp', 'dtype'], 'fld'),
        'setitem...': Prim('fill', ['fld', 'K'], 'fld', doc='`a[...] = v`: every element becomes v converted to the dtype of a'),
    }, extra_params=EMBED, prop='C20')

COLORS = Family(
    'colors', ['K', 'X', 'D'],
    '[Add K] [Sub K] [Mul K] [Div K] [Neg K] [LT K] [DecidableLT K] [LE K] [DecidableLE K]', 'ColorPrims',
    {
        'np.power': Prim('pow', ['K', 'K'], 'K', elementwise=True),
        '_convert': Prim('convert', ['fld', 'mat', 'optD'], 'fld', kw={'dtype': 2},
                         doc='`_convert(array, matrix, dtype, funcname)`: the 3x3 matrix applied along the channel axis, then '
                             '`astype(dtype)` unless dtype is None'),
        '.astype()': Prim('astype', ['fld', 'dtype'], 'fld', drop_kw={'copy'}),
    }, extra_params=EMBED, prop='C20')

COLORS2 = Family(
    'colors2', ['K', 'X', 'A', 'D'],
    '[Add K] [Sub K] [Mul K] [Div K] [Neg K] [LT K] [DecidableLT K] [LE K] [DecidableLE K]', 'Color2Prims',
    {
        'np.power': Prim('pow', ['K', 'K'], 'K', elementwise=True),
        '_convert': Prim('convert', ['fld', 'mat', 'optD'], 'fld', kw={'dtype': 2}, drop_kw={'funcname'},
                         doc='as in the `colors` family; positions are (pixel, channel)'),
        '.astype():fld': Prim('astype', ['fld', 'dtype'], 'fld', drop_kw={'copy'}),
        '.astype():arr': Prim('astype3', ['arr', 'dtype'], 'arr', drop_kw={'copy'}),
        'const:np.float32': Prim('float32', [], 'dtype'),
        'const:np.uint8': Prim('uint8', [], 'dtype'),
        'np.dot': Prim('dot3', ['arr', 'vec'], 'fld', doc='`np.dot(array, w)` of an (h, w, 3) array and a 3-vector: one value per pixel'),
        'unpack:transpose201': Prim('channel', ['arr', 'nat'], 'fld', doc='`x, y, z = a.transpose((2, 0, 1))`: plane `i` of an (h, w, 3) array'),
        'np.dstack3': Prim('dstack3', ['fld', 'fld', 'fld'], 'arr', doc='`np.dstack([a, b, c])` of three planes'),
        'rgb2xyz': Prim('rgb2xyz', ['arr'], 'arr', doc='`rgb2xyz(rgb)` with its default dtype (None)'),
        'xyz2lab': Prim('xyz2lab', ['arr', 'optD'], 'arr', kw={'dtype': 1}, doc='instantiated with the generated `colors_xyz2lab`'),
    }, extra_params=EMBED, prop='C20')

WAVE = Family(
    'wavelet center', ['K', 'A', 'D'], '', 'WavePrims',
    {
        'np.floor(np.log2)': Prim('floor_log2', ['int'], 'int', doc='`np.floor(np.log2(o))` of one positive side, as an integer'),
        '_wavelet_center_compute': Prim('center_compute', ['intlist', 'int'], 'shape_pos', raises=True,
                                        doc='instantiated with the generated `convolve__wavelet_center_compute`'),
        'np.zeros': Prim('zeros', ['intlist', 'dtype'], 'arr', kw={'dtype': 1}),
        'arr+K': Prim('add_scalar', ['arr', 'K'], 'arr', doc='`a += v` on an array'),
        'setitem': Prim('setslice', ['arr', 'slicelist', 'arr'], 'arr', doc='`a[tuple(slices)] = b`'),
        '[]': Prim('getslice', ['arr', 'slicelist'], 'arr', doc='`a[tuple(slices)]`'),
        '.shape:arr': Prim('shape', ['arr'], 'intlist'),
    }, prop='C17')

CIRCLE = Family(
    'circle_se', ['K', 'X'], '[Add K] [Sub K] [Mul K] [Div K] [Neg K] [LT K] [DecidableLT K] [LE K] [DecidableLE K]', 'CirclePrims',
    {
        'np.arange': Prim('arange', ['K', 'K'], 'fld1', doc='`np.arange(a, b)`: entry k is a + k (k < b - a)'),
        'np.meshgrid': Prim('meshgrid', ['fld1', 'fld1'], 'fld', doc='two fields `meshgrid_x`, `meshgrid_y`: X[i, j] = x[j], Y[i, j] = y[i]'),
    }, extra_params=EMBED, prop='C16')

LEAN_TYPE['buf'] = 'Bf'
RESIZE = Family(
    'resize', ['K', 'A', 'D', 'Bf'], '[Add K] [Sub K] [Mul K] [Div K]', 'ResizePrims',
    {
        '.ndim': Prim('ndim', ['arr'], 'nat'),
        '.dtype': Prim('dtype', ['arr'], 'dtype'),
        '.shape': Prim('shape', ['arr'], 'natlist'),
        'np.empty': Prim('empty', ['natlist', 'dtype'], 'buf', kw={'dtype': 1}, doc='a destination array: carries its shape and dtype'),
        'zoom': Prim('zoom_out', ['arr', 'vec', 'nat', 'buf'], 'arr', kw={'order': 2, 'out': 3},
                     doc='`interpolate.zoom(array, zoom, order=order, out=out)` with the defaults mode="constant", cval=0.0, prefilter=True'),
    }, extra_params=EMBED, prop='C18')

LEAN_TYPE.update({'vimg': 'V', 'tbl': 'T', 'kern': 'Kn', 'res': 'R'})
EULER = Family(
    'euler', ['A', 'V', 'T', 'Kn', 'R'], '', 'EulerPrims',
    {
        'const:_euler_lookup8': Prim('lookup8', [], 'tbl'),
        'const:_euler_lookup4': Prim('lookup4', [], 'tbl'),
        'const:_powers': Prim('powers', [], 'kern'),
        '.dtype is np.bool_': Prim('is_bool', ['arr'], 'bool', doc='`f.dtype is np.bool_`'),
        'np.all(0|1)': Prim('all_binary', ['arr'], 'bool', doc='`np.all((f == 0) | (f == 1))`'),
        'arr!=0': Prim('ne0', ['arr'], 'arr', doc='`f != 0`: the boolean image'),
        'np.pad01': Prim('pad01', ['arr'], 'arr', doc='`np.pad(f, ((0, 1), (0, 1)), mode="constant")`'),
        '.astype(like)': Prim('astype_like', ['arr', 'kern'], 'arr', doc='`f.astype(_powers.dtype, copy=False)`'),
        'convolve': Prim('convolve', ['arr', 'kern', 'str'], 'vimg', kw={'mode': 2}),
        '[].sum()': Prim('lookup_sum', ['tbl', 'vimg'], 'res', doc='`lookup[value].sum()`'),
    }, prop='C15')

LEAN_TYPE.update({'larr': 'L', 'optint': 'Option Int', 'regs': 'Rg', 'carr': 'C'})
LABELED = Family(
    'labeled', ['A', 'L', 'D', 'Bf', 'H', 'Sh', 'B', 'Rg', 'C'], '', 'LabeledPrims',
    {
        '_as_labeled': Prim('as_labeled', ['arr', 'larr'], 'larr', doc='`_as_labeled(array, labeled, funcname)`: the label map as a C int array (raises when the shapes differ: C09/guards)'),
        '_convert_labeled': Prim('convert_labeled', ['larr'], 'larr'),
        '.max()': Prim('max_label', ['larr'], 'int'),
        '.dtype': Prim('dtype', ['arr'], 'dtype'),
        '.shape': Prim('shape', ['larr'], 'shp'),
        'shp!=shp': Prim('shape_ne', ['shp', 'shp'], 'bool'),
        'np.empty': Prim('empty', ['int', 'dtype'], 'buf', kw={'dtype': 1}, doc='an output array of that many slots'),
        '_labeled.labeled_sum': Prim('k_sum', ['arr', 'larr', 'buf'], 'buf', mutates=2),
        '_labeled.labeled_max_min': Prim('k_max_min', ['arr', 'larr', 'buf', 'bool'], 'buf', mutates=2),
        '_labeled.is_same_labeling': Prim('k_same', ['larr', 'larr'], 'bool'),
        '.astype()': Prim('astype', ['larr', 'dtype'], 'larr', drop_kw={'copy'}),
        'const:np.uint32': Prim('uint32', [], 'dtype'),
        'fullhistogram': Prim('fullhistogram', ['larr'], 'hist'),
        'np.where': Prim('nonzero_idx', ['carr'], 'regs', doc='`idx, = np.where(conditions)`'),
        'remove_regions': Prim('remove_regions', ['larr', 'regs', 'bool'], 'larr', kw={'inplace': 2}),
        '_as_labeled:larr': Prim('as_labeled_self', ['larr', 'larr', 'bool'], 'larr', kw={'inplace': 2}, pos=[0, 1, 3],
                                 doc='`_as_labeled(labeled, labeled, funcname, inplace=inplace)`'),
        'np.asarray': Prim('as_intc', ['regs'], 'regs', drop_kw={'dtype'}, doc='`np.asarray(regions, dtype=np.intc)`'),
        'np.unique': Prim('unique', ['regs'], 'regs'),
        '_labeled.remove_regions': Prim('k_remove', ['larr', 'regs'], 'larr', mutates=0),
        'larr!=0': Prim('ne0', ['larr'], 'bimg', doc='`bw != 0`'),
        'bimg&bimg': Prim('and_', ['bimg', 'bimg'], 'bimg', doc='elementwise `&` of two boolean images'),
        'borders': Prim('borders', ['bimg', 'nat', 'str'], 'bimg', kw={'mode': 2}),
    }, prop='C13')
for _fam in (LABELED,):
    for _k, _p in _fam.prims.items():
        if _p.mutates is not None:
            MUTATING[_k] = _p.mutates

LEAN_TYPE['vfld'] = 'X → List K'
DISK = Family(
    'disk', ['K', 'X', 'A', 'D'], '[Add K] [Sub K] [Mul K] [LT K] [DecidableLT K] [LE K] [DecidableLE K]', 'DiskPrims',
    {
        'const:bool': Prim('bool_dtype', [], 'dtype'),
        'const:float': Prim('float_dtype', [], 'dtype'),
        'np.zeros': Prim('zeros', ['natlist', 'dtype'], 'arr'),
        '_morph.disk_2d': Prim('disk_2d', ['arr', 'nat'], 'bfld', doc='the C++ kernel for two dimensions'),
        'np.indices': Prim('indices', ['natlist', 'dtype'], 'vfld', doc='`np.indices(shape, float)`: at every position, its coordinate vector'),
    }, extra_params='(ofNat : Nat → K) ', prop='C01')

LEAN_TYPE['nat4'] = 'Nat × Nat × Nat × Nat'
THIN = Family(
    'thin', ['A', 'D'], '', 'ThinPrims',
    {
        'const:bool': Prim('bool_dtype', [], 'dtype'),
        'bbox': Prim('bbox', ['arr'], 'nat4', doc='`bbox(img)` of a 2-D image: (min0, max0, min1, max1)'),
        'np.zeros_like': Prim('zeros_like', ['arr'], 'arr'),
        'np.zeros2': Prim('zeros2', ['int', 'int', 'dtype'], 'arr', doc='`np.zeros((h, w), dtype)`'),
        'np.empty2': Prim('empty2', ['int', 'int', 'dtype'], 'arr', doc='`np.empty((h, w), dtype)`'),
        'getwin': Prim('getwin', ['arr', 'int', 'int', 'int', 'int'], 'arr', doc='`a[y0:y1, x0:x1]`'),
        'setwin': Prim('setwin', ['arr', 'int', 'int', 'int', 'int', 'arr'], 'arr', doc='`a[y0:y1, x0:x1] = b`'),
        '_thin': Prim('thin_kernel', ['arr', 'arr', 'int'], 'arr', mutates=0, doc='`_thin.thin(image, buffer, max_iter)`: thins `image` in place'),
    }, prop='C15')
MUTATING['_thin'] = 0

LEAN_TYPE['zarg'] = 'Z'
ZOOM = Family(
    'zoom shape', ['K', 'A', 'Z'], '[Add K] [Sub K] [Mul K] [Div K]', 'ZoomPrims',
    {
        '_maybe_filter': Prim('maybe_filter', ['arr', 'nat', 'bool'], 'arr', drop_kw={'dtype'}, pos=[0, 1, 3]),
        'np.array': Prim('as_array', ['zarg'], 'zarg', doc='`np.array(zoom)` of a number or a sequence'),
        '.ndim:zarg': Prim('zndim', ['zarg'], 'nat'),
        '.ndim:arr': Prim('ndim', ['arr'], 'nat'),
        '.shape:arr': Prim('shape', ['arr'], 'natlist'),
        'np.array([x]*n)': Prim('replicate', ['zarg', 'nat'], 'zarg', doc='`np.array([zoom] * n)` of a 0-d array'),
        'len:zarg': Prim('zlen', ['zarg'], 'nat'),
        'elems:zarg': Prim('elems', ['zarg'], 'vec', doc='the entries of a 1-d array, as iterated by `zip`'),
        'int': Prim('trunc', ['K'], 'int', doc='Python `int(x)` of a float: truncation toward zero'),
    }, extra_params=EMBED, prop='C18')

LEAN_TYPE['sizearg'] = 'Sz'
IMRESIZE = Family(
    'imresize', ['K', 'A', 'Sz', 'Bf', 'D'], '[Add K] [Sub K] [Mul K] [Div K]', 'ImresizePrims',
    {
        'type==tuple': Prim('is_tuple', ['sizearg'], 'bool'),
        'type==list': Prim('is_list', ['sizearg'], 'bool'),
        'type([0])==int': Prim('first_is_int', ['sizearg'], 'bool', doc='`type(nsize[0]) == int`'),
        'const:np.float64': Prim('float64', [], 'dtype'),
        'np.empty': Prim('empty', ['sizearg', 'dtype'], 'buf', kw={'dtype': 1}),
        'np.array(float):sizearg': Prim('as_floats', ['sizearg'], 'vec', doc='`np.array(nsize, dtype=float)`'),
        '.shape': Prim('shape', ['arr'], 'natlist'),
        'zoom(out)': Prim('zoom_out', ['arr', 'vec', 'nat', 'buf'], 'arr', kw={'order': 2, 'out': 3}, raises=True),
        'zoom': Prim('zoom_factor', ['arr', 'sizearg', 'nat'], 'arr', kw={'order': 2}, raises=True),
    }, extra_params=EMBED, prop='C18')

LEAN_TYPE.update({'optpair': 'Option (K × K)', 'pair': 'K × K'})
MOMENTS = Family(
    'moments', ['K'], '[Add K] [Sub K] [Mul K] [Div K]', 'MomentPrims',
    {
        'shape2': Prim('shape', ['mat'], 'nat'),
        'np.dot:mat,vec': Prim('dot_mv', ['mat', 'vec'], 'vec', doc='`np.dot(img, p)`: one dot product per row'),
        'np.dot:vec,vec': Prim('dot_vv', ['vec', 'vec'], 'K'),
    }, extra_params=EMBED, prop='C19')

HISTO = Family(
    'histogram thresholds', ['H', 'G'], '', 'HistPrims',
    {
        'fullhistogram': Prim('fullhistogram', ['pimg'], 'hist'),
        'np.asanyarray': Prim('asanyarray', ['hist'], 'hist', drop_kw={'dtype'}),
        'setitem': Prim('setitem', ['hist', 'nat', 'nat'], 'hist', doc='`h[i] = v`'),
        '_histogram.otsu': Prim('otsu', ['hist'], 'nat'),
    }, prop='C16')

RC = Family(
    'Riddler-Calvard', ['K', 'H', 'G'], '[Add K] [Sub K] [Mul K] [Div K] [LT K] [DecidableLT K] [LE K] [DecidableLE K]', 'RcPrims',
    {
        'fullhistogram': Prim('fullhistogram', ['pimg'], 'hist'),
        'setitem': Prim('setitem', ['hist', 'nat', 'nat'], 'hist', doc='`h[i] = v`'),
        '[]': Prim('getitem', ['hist', 'int'], 'int', doc='`h[i]` (a Python int index; the ties only use indices in range)'),
        '.size:hist': Prim('size', ['hist'], 'nat'),
        '.size:pimg': Prim('img_size', ['pimg'], 'nat'),
        'np.cumsum': Prim('cumsum', ['hist'], 'hist'),
        'np.flipud': Prim('flipud', ['hist'], 'hist'),
        'np.arange': Prim('arange', ['nat'], 'hist'),
        'hist*hist': Prim('mul', ['hist', 'hist'], 'hist', doc='elementwise product of two integer arrays'),
    }, extra_params=EMBED, prop='C16')

TARGETS = [
    Target('morph.py', 'open', [('f', 'img'), ('Bc', 'se')], 'img', MORPH),
    Target('morph.py', 'close', [('f', 'img'), ('Bc', 'se')], 'img', MORPH),
    Target('morph.py', 'cerode', [('f', 'img'), ('g', 'img'), ('Bc', 'se')], 'img', MORPH),
    Target('morph.py', 'cdilate', [('f', 'img'), ('g', 'img'), ('Bc', 'se'), ('n', 'nat')], 'img', MORPH),
    Target('morph.py', 'tophat_open', [('f', 'img'), ('Bc', 'se')], 'img', MORPH),
    Target('morph.py', 'tophat_close', [('f', 'img'), ('Bc', 'se')], 'img', MORPH),
    # order: a Python int; the reviewed signature takes it as a natural (a negative order ends in the final `raise` like any order > 3)
    Target('convolve.py', 'gaussian_filter1d',
           [('array', 'arr'), ('sigma', 'K'), ('axis', 'int'), ('order', 'nat'), ('mode', 'mode'), ('cval', 'K')], 'arr', CONV),
    # arrays are seen pointwise (`fld` = position -> value): the numpy operators and np.choose act element by element
    Target('thresholding.py', 'gbernsen', [('f', 'fld'), ('se', 'se'), ('contrast_threshold', 'K'), ('gthresh', 'K')], 'bfld', THRESH),
    Target('thresholding.py', 'bernsen', [('f', 'fld'), ('radius', 'K'), ('contrast_threshold', 'K'), ('gthresh', 'optK')], 'bfld', THRESH),
    Target('thresholding.py', 'otsu', [('img', 'pimg'), ('ignore_zeros', 'bool')], 'nat', HISTO),
    Target('convolve.py', 'laplacian_2D', [('array', 'arr'), ('alpha', 'K')], 'arr', LAPL),
    # fuels: both `while` loops run at most N = hist.size times (maxt walks down from N-1, t walks up to at most maxt)
    Target('thresholding.py', 'rc', [('img', 'pimg'), ('ignore_zeros', 'bool')], 'K', RC, fuels=['N', 'N']),
    Target('thresholding.py', 'soft_threshold', [('f', 'fld'), ('tval', 'K')], 'fld', SOFT),
    Target('morph.py', '_remove_centre', [('Bc', 'se')], 'se', EXTREMA),
    Target('morph.py', 'locmax', [('f', 'img'), ('Bc', 'se')], 'bimg', EXTREMA),
    Target('morph.py', 'locmin', [('f', 'img'), ('Bc', 'se')], 'bimg', EXTREMA),
    Target('morph.py', 'regmax', [('f', 'img'), ('Bc', 'se')], 'bimg', EXTREMA),
    Target('morph.py', 'regmin', [('f', 'img'), ('Bc', 'se')], 'bimg', EXTREMA),
    Target('morph.py', 'close_holes', [('ref', 'img'), ('Bc', 'se')], 'bimg', EXTREMA),
    Target('stretch.py', 'stretch', [('img', 'fld'), ('arg0', 'optK'), ('arg1', 'optK'), ('dtype', 'dtype')], 'fld', STRETCH),
    # positions X = (pixel, channel): the transfer functions act on every channel value, `_convert` mixes the channels of a pixel
    Target('colors.py', 'rgb2xyz', [('rgb', 'fld'), ('dtype', 'optD')], 'fld', COLORS),
    Target('colors.py', 'xyz2rgb', [('xyz', 'fld'), ('dtype', 'optD')], 'fld', COLORS),
    # A = an (h, w, 3) array, X -> K = one plane of it (positions are pixels); for rgb2sepia positions are (pixel, channel)
    Target('colors.py', 'rgb2grey', [('array', 'arr'), ('dtype', 'dtype')], 'fld', COLORS2),
    Target('colors.py', 'xyz2lab', [('xyz', 'arr'), ('dtype', 'optD')], 'arr', COLORS2, locals={'f': (['fld'], 'fld')}),
    Target('colors.py', 'rgb2lab', [('rgb', 'arr'), ('dtype', 'optD')], 'arr', COLORS2),
    Target('colors.py', 'rgb2sepia', [('rgb', 'fld')], 'fld', COLORS2),
    Target('morph.py', 'circle_se', [('radius', 'K')], 'bfld', CIRCLE),
    Target('labeled.py', 'labeled_sum', [('array', 'arr'), ('labeled', 'larr'), ('minlength', 'optint')], 'buf', LABELED),
    Target('labeled.py', 'labeled_max', [('array', 'arr'), ('labeled', 'larr')], 'buf', LABELED),
    Target('labeled.py', 'labeled_min', [('array', 'arr'), ('labeled', 'larr')], 'buf', LABELED),
    Target('labeled.py', 'labeled_size', [('labeled', 'larr')], 'hist', LABELED),
    Target('labeled.py', 'remove_regions_where', [('labeled', 'larr'), ('conditions', 'carr'), ('inplace', 'bool')], 'larr', LABELED),
    Target('labeled.py', 'remove_regions', [('labeled', 'larr'), ('regions', 'regs'), ('inplace', 'bool')], 'larr', LABELED),
    Target('labeled.py', 'is_same_labeling', [('labeled0', 'larr'), ('labeled1', 'larr')], 'bool', LABELED),
    Target('labeled.py', 'bwperim', [('bw', 'larr'), ('n', 'nat'), ('mode', 'str')], 'bimg', LABELED),
    Target('morph.py', 'disk', [('radius', 'nat'), ('dim', 'nat')], 'bfld', DISK,
           consts={'bool': ('P.bool_dtype', 'dtype'), 'float': ('P.float_dtype', 'dtype')}),
    Target('thin.py', 'thin', [('binimg', 'arr'), ('max_iter', 'int')], 'arr', THIN, consts={'bool': ('P.bool_dtype', 'dtype')}),
    Target('features/moments.py', 'moments', [('img', 'mat'), ('p0', 'nat'), ('p1', 'nat'), ('cm', 'optpair'), ('convert_to_float', 'bool'),
                                              ('normalize', 'bool'), ('normalise', 'bool')], 'K', MOMENTS),
    Target('resize.py', 'imresize', [('img', 'arr'), ('nsize', 'sizearg'), ('order', 'nat')], 'arr', IMRESIZE, raises=True),
    # a reviewed SLICE of interpolate.zoom: the path `out is None` (and the deprecated alias `output` not given), up to the
    # assignment of `output_shape` - the shape arithmetic `int(s * z)` with the scalar-to-vector broadcast and both checks
    Target('interpolate.py', 'zoom', [('array', 'arr'), ('zoom', 'zarg'), ('order', 'nat'), ('prefilter', 'bool')], 'intlist', ZOOM,
           lean='interpolate_zoom_output_shape', drop={'mode', 'cval', 'output'}, assume_none={'out'}, result_var='output_shape'),
    Target('euler.py', 'euler', [('f', 'arr'), ('n', 'nat'), ('mode', 'str')], 'res', EULER,
           consts={'_euler_lookup8': ('P.lookup8', 'tbl'), '_euler_lookup4': ('P.lookup4', 'tbl'), '_powers': ('P.powers', 'kern')}),
    # `out` is a LOCAL here (the array that fixes the output shape), not a destination-buffer parameter: it is kept
    Target('resize.py', 'resize_to', [('im', 'arr'), ('nsize', 'natlist'), ('order', 'nat')], 'arr', RESIZE),
    # falls off the end after 63 unsuccessful steps: Python returns None and both callers fail on the tuple unpacking
    Target('convolve.py', '_wavelet_center_compute', [('oshape', 'intlist'), ('border', 'int')], 'shape_pos', WAVE,
           drop={'dtype', 'cval'}, localsorts={'position': 'slicelist'}, fallthrough_none=True),
    Target('convolve.py', 'wavelet_center', [('f', 'arr'), ('border', 'int'), ('dtype', 'dtype'), ('cval', 'K')], 'arr', WAVE, raises=True),
    Target('convolve.py', 'wavelet_decenter', [('w', 'arr'), ('oshape', 'intlist'), ('border', 'int')], 'arr', WAVE, raises=True),
]
FAMILIES = [MORPH, CONV, THRESH, HISTO, LAPL, RC, SOFT, EXTREMA, STRETCH, COLORS, COLORS2, WAVE, CIRCLE, RESIZE, EULER, LABELED, DISK, THIN, ZOOM, IMRESIZE, MOMENTS]


def _find_function(tree, name):
    for n in tree.body:
        if isinstance(n, ast.FunctionDef) and n.name == name:
            return n
    return None


def _stale(old: str, key: str):
    m = re.search(r'^-- BEGIN block %s\n(.*?)^-- END block %s$' % (re.escape(key), re.escape(key)), old, re.S | re.M)
    return m.group(1).rstrip('\n').split('\n') if m else None


def translate_target(repo: Path, t: Target, trees: dict) -> list[str]:
    if t.module not in trees:
        p = repo / 'mahotas' / t.module
        if not p.exists():
            raise TranslationError(f'{t.module} not found')
        with warnings.catch_warnings():
            warnings.simplefilter('ignore', SyntaxWarning)
            trees[t.module] = ast.parse(p.read_text())
    f = _find_function(trees[t.module], t.name)
    if f is None:
        raise TranslationError(f'{t.module}: function {t.name} not found')
    return Tr(t, f).definition()


def _lean_str(x: str) -> str:
    return '"' + x.replace('\\', '\\\\').replace('"', '\\"') + '"'


def _dropped_table(prop: str, lines: list[str]) -> list[str]:
    """the reviewer's table of everything the bodies of this file contained that the value-level definitions drop
    (read back from the `-- dropped [...]` comments of the blocks, so that a block kept from the last run keeps its entries)"""
    rows = []
    for ln in lines:
        m = re.match(r'-- dropped \[([\w-]+)\] ([\w\.]+): (.*)$', ln)
        if m:
            rows.append('(' + ', '.join(_lean_str(g) for g in (m.group(2), m.group(1), m.group(3))) + ')')
    out = [f'/-- Reviewer\'s table: every statement of the bodies above that the value-level definitions DROP, as',
           '    (function, kind, source text). `aliasing-guard`: `if np.may_share_memory(x, out): x = x.copy()` (no value-level',
           '    meaning: only accepted when all it guards is `x = x.copy()`); `destination-buffer`: `out=` plumbing (C09 owns that',
           '    convention); `guard-helper`: calls of the reviewed argument checks (translator/guards.py extracts them for C09/C11);',
           '    `identity-cast`: a dtype conversion that keeps every value; `slice-assumes-None`: a test of an optional parameter',
           '    resolved by a reviewed slice of the body (Target.assume_none). -/',
           f'def {prop}.droppedGuards : List (String × String × String) :=']
    if not rows:
        return out + ['  []', '']
    return out + ['  [' + ',\n   '.join(rows) + ']', '']


PRELUDE = ['/- GENERATED by translator/pybody.py. Shared prelude of the translated Python bodies (Generated/PyBodies<Cxx>.lean). Do not edit. -/',
           'namespace Mahotas.Generated.Py', '',
           '/-- `while c: body` under a reviewed iteration bound: at most `fuel` iterations (the tie theorems show the bound is not hit) -/',
           'def whileFuel {σ : Type} : Nat → (σ → Bool) → (σ → σ) → σ → σ',
           '  | 0, _, _, s => s',
           '  | n + 1, c, b, s => if c s then whileFuel n c b (b s) else s', '',
           '/-- `x ** n` for a natural exponent as the repeated product (`one` is the scalar 1) -/',
           'def pyPowN {K : Type} [Mul K] (one : K) (x : K) : Nat → K',
           '  | 0 => one',
           '  | n + 1 => pyPowN one x n * x', '',
           '/-- `np.min` of a non-empty integer array (numpy raises on an empty one: the reviewed call sites test the length first) -/',
           'def listMinI : List Int → Int',
           '  | [] => 0',
           '  | x :: xs => xs.foldl (fun a b => if b < a then b else a) x', '',
           'end Mahotas.Generated.Py', '']


def generate(repo: Path, outdir: Path) -> dict:
    """one file per property (`PyBodies<Cxx>.lean`: the bodies that property's model transliterates) on top of the shared
    prelude `PyBodies.lean`, so that a body whose new text no longer type-checks breaks the ties of its own property only"""
    failed, names, res = {}, {}, {}
    changed = _write_if_changed(outdir / 'PyBodies.lean', '\n'.join(PRELUDE))
    trees = {}
    for prop in sorted({f.prop for f in FAMILIES}):
        p = outdir / f'PyBodies{prop}.lean'
        old = p.read_text() if p.exists() else ''
        s = [f'/- GENERATED by translator/pybody.py from the current /repo sources (bodies tied to Model/{prop}.lean). Do not edit. -/',
             'import Mahotas.Generated.PyBodies', 'set_option linter.unusedVariables false', 'namespace Mahotas.Generated.Py', '']
        for fam in [f for f in FAMILIES if f.prop == prop]:
            s += [f'/-! ## family `{fam.name}` -/', ''] + fam.struct_lines() + ['']
            for t in [t for t in TARGETS if t.family is fam]:
                try:
                    lines = translate_target(repo, t, trees)
                except Exception as e:  # noqa: the body left the subset (or the function is gone): keep the last text
                    lines = _stale(old, t.key)
                    if lines is None:
                        raise
                    failed[t.key] = f'{type(e).__name__}: {e}'
                names[t.key] = defined_names('\n'.join(lines))
                s += [f'-- BEGIN block {t.key}'] + lines + [f'-- END block {t.key}', '']
        s += _dropped_table(prop, s)
        s += ['end Mahotas.Generated.Py', '']
        changed = _write_if_changed(p, '\n'.join(s)) or changed
    res['pybodies_changed'] = changed
    res['pybodies'] = len(TARGETS)
    res['_failed'] = failed
    res['_names'] = names
    return res


if __name__ == '__main__':
    import sys
    repo = Path(sys.argv[1]) if len(sys.argv) > 1 else Path('/repo')
    print(generate(repo, Path(__file__).resolve().parent.parent / 'lean' / 'Mahotas' / 'Generated'))
