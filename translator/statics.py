"""C12 translator: extracts from the current sources

  * every namespace-scope, class-static and function-`static` object of the C++ sources and headers
    (name, file, const or not, whether any function body of that file writes it or lets it escape as a
    non-indexed value, whether it is only registered with the interpreter at module initialisation),
  * every Python module global that a function rebinds (`global X`) or mutates in place, together with a
    classification of the lazy-initialisation pattern (complete value built privately and published by one
    rebinding = benign; published first and filled in afterwards = other threads can see it half built),
  * every `gil_release` site with the idiom it uses and the interpreter calls that are lexically inside
    the released region,

into lean/Mahotas/Generated/Statics.lean. The theorems of Properties/C12.lean are `decide`d over these
tables on every run. A construct that no longer parses raises tables.TranslationError."""
from __future__ import annotations
import ast, re, warnings
from pathlib import Path
from .tables import TranslationError, _write_if_changed

CPP_GLOBS = ['mahotas/*.cpp', 'mahotas/features/*.cpp', 'mahotas/*.h', 'mahotas/*.hpp', 'mahotas/numpypp/*.hpp']

# macros of numpy's C API that only read fields of an array object (no reference counting, no allocation,
# no error indicator): allowed while the lock is released
PURE_PY_MACROS = {
    'PyArray_DATA', 'PyArray_BYTES', 'PyArray_DIM', 'PyArray_DIMS', 'PyArray_NDIM', 'PyArray_STRIDE',
    'PyArray_STRIDES', 'PyArray_SIZE', 'PyArray_NBYTES', 'PyArray_TYPE', 'PyArray_ITEMSIZE', 'PyArray_ISCARRAY',
    'PyArray_ISCARRAY_RO', 'PyArray_ISCONTIGUOUS', 'PyArray_ISALIGNED', 'PyArray_GETPTR1', 'PyArray_GETPTR2',
    'PyArray_GETPTR3', 'PyArray_GETPTR4', 'PyArray_GetPtr', 'PyArray_EquivTypenums', 'PyArray_ISFORTRAN',
    'PyArray_CHKFLAGS', 'PyArray_FLAGS', 'PyArray_ISWRITEABLE', 'PyArray_Check',
    'PyArray_FILLWBYTE',
}


def strip_cpp(src: str) -> str:
    """blank out comments, string and character literals (newlines kept, so offsets/lines stay valid)"""
    out = []
    i, n = 0, len(src)
    while i < n:
        c = src[i]
        if src.startswith('//', i):
            j = src.find('\n', i)
            j = n if j < 0 else j
            out.append(' ' * (j - i))
            i = j
        elif src.startswith('/*', i):
            j = src.find('*/', i + 2)
            if j < 0:
                raise TranslationError('unterminated comment')
            out.append(re.sub(r'[^\n]', ' ', src[i:j + 2]))
            i = j + 2
        elif c == '"' or c == "'":
            j = i + 1
            while j < n and src[j] != c:
                if src[j] == '\\':
                    j += 1
                if j < n and src[j] == '\n' and c == "'":
                    break
                j += 1
            if j >= n:
                raise TranslationError('unterminated literal')
            out.append(c + re.sub(r'[^\n]', ' ', src[i + 1:j]) + c)
            i = j + 1
        else:
            out.append(c)
            i += 1
    return ''.join(out)


def blank_preprocessor(s: str) -> tuple[str, list[str]]:
    """blank preprocessor directives (with continuation lines) by spaces, so that offsets stay valid;
    returns the text and the list of directives"""
    lines = s.split('\n')
    out, macros = [], []
    i = 0
    while i < len(lines):
        if lines[i].lstrip().startswith('#'):
            buf = [lines[i]]
            while lines[i].rstrip().endswith('\\') and i + 1 < len(lines):
                out.append(' ' * len(lines[i]))
                i += 1
                buf.append(lines[i])
            out.append(' ' * len(lines[i]))
            macros.append('\n'.join(buf))
        else:
            out.append(lines[i])
        i += 1
    return '\n'.join(out), macros


_KEYWORDS_SKIP = re.compile(r'^\s*(typedef|using|template|friend|return|extern|namespace|public|private|protected|'
                            r'case|default|goto|throw|delete|if|else|for|while|do|switch|break|continue)\b')
_TYPE_OPEN = re.compile(r'^\s*(template\s*<[^{}]*>\s*)?(typedef\s+)?(struct|class|union|enum)\b[^()=;]*$', re.S)
_NS_OPEN = re.compile(r'^\s*(extern\s*("\s*")?\s*|namespace\b[^()=;]*)$', re.S)


class Scope:
    __slots__ = ('kind', 'start', 'header')

    def __init__(self, kind, start, header):
        self.kind, self.start, self.header = kind, start, header


def scan_cpp(path: Path, rel: str):
    """returns (objects, function_bodies, text) for one C++ file.
    objects: dicts name/file/line/const/scope('namespace'|'class'|'function')/defspan"""
    raw = path.read_text(errors='replace')
    text_pp = strip_cpp(raw)
    text, macros = blank_preprocessor(text_pp)
    assert len(text) == len(text_pp)
    objs, bodies = [], []          # bodies: (start, end, header) of outermost function bodies
    stack: list[Scope] = []
    stmt_start = 0
    i, n = 0, len(text)
    paren = 0

    def ctx():
        """innermost non-initialiser scope kind"""
        for s in reversed(stack):
            if s.kind != 'init':
                return s.kind
        return 'ns'

    def in_function():
        return any(s.kind in ('func', 'block') for s in stack)

    def consider(stmt: str, start: int, end: int):
        s = stmt.strip()
        if not s or _KEYWORDS_SKIP.match(s):
            return
        k = ctx()
        infun = in_function()
        if infun and not re.match(r'static\b', s):
            return
        # header = up to the initialiser / array brackets
        m = re.match(r'^([^=\[({;]*)', s, flags=re.S)
        head = m.group(1).strip()
        restc = s[len(m.group(1)):].lstrip()[:1]
        if restc == '(':
            # function declaration or a constructor-style initialisation `T name(args);`
            if not infun or not re.match(r'static\b', s):
                return
        toks = re.findall(r'[A-Za-z_][A-Za-z0-9_:<>]*|\*|&', head)
        if len(toks) < 2:
            return
        name = toks[-1]
        if not re.match(r'^[A-Za-z_]\w*$', name) or name in ('const', 'static', 'int', 'double', 'float', 'char', 'bool'):
            return
        if k == 'type' and 'static' not in toks:
            return                      # ordinary (per-object) data member
        if toks[0] in ('struct', 'class', 'union', 'enum') and restc in ('', ';') and len(toks) == 2:
            return                      # forward declaration
        before = toks[:-1]
        if '*' in before:
            last = len(before) - 1 - before[::-1].index('*')
            const = 'const' in before[last:]
        else:
            const = 'const' in before or 'constexpr' in before
        objs.append(dict(name=name, file=rel, line=text.count('\n', 0, start + (len(stmt) - len(stmt.lstrip()))) + 1,
                         const=const, scope='function' if infun else ('class' if k == 'type' else 'namespace'),
                         defspan=(start, end)))

    while i < n:
        c = text[i]
        if c == '(':
            paren += 1
        elif c == ')':
            paren = max(0, paren - 1)
        elif c == '{':
            header = text[stmt_start:i]
            h = header.strip()
            if stack and stack[-1].kind == 'init':
                kind = 'init'
            elif _NS_OPEN.match(h) or h == '':
                kind = 'ns' if (h != '' or not in_function()) and not in_function() else 'block'
                if h == '' and not in_function() and ctx() != 'ns':
                    kind = 'block'
            elif _TYPE_OPEN.match(h):
                kind = 'type'
            elif re.search(r'=\s*$', h) or paren > 0 or re.search(r'\]\s*$', h):
                kind = 'init'
            elif ')' in h or re.search(r'\b(else|do|try)\s*$', h):
                kind = 'block' if in_function() else 'func'
            else:
                kind = 'init' if '=' in h else ('block' if in_function() else 'ns')
            stack.append(Scope(kind, i, header))
            if kind != 'init':
                stmt_start = i + 1
        elif c == '}':
            if not stack:
                raise TranslationError(f'{rel}: unbalanced braces at offset {i}')
            sc = stack.pop()
            if sc.kind == 'func':
                bodies.append((sc.start, i, sc.header.strip()))
            if sc.kind != 'init':
                stmt_start = i + 1
        elif c == ';' and paren == 0 and not (stack and stack[-1].kind == 'init'):
            consider(text[stmt_start:i], stmt_start, i)
            stmt_start = i + 1
        i += 1
    if stack:
        raise TranslationError(f'{rel}: unbalanced braces at end of file')
    return objs, bodies, text, macros, text_pp


_WRITE_AFTER = r'\s*(?:\[[^\]]*\]\s*)*(?:=(?!=)|\+=|-=|\*=|/=|%=|\|=|&=|\^=|<<=|>>=|\+\+|--)'


def cpp_usage(name: str, text: str, bodies, defspan) -> tuple[bool, bool]:
    """(written, escapes) over all function bodies of the file, outside the object's own definition"""
    written = escapes = False
    pat = re.compile(r'(?<![\w.>])' + re.escape(name) + r'\b')
    for (a, b, _h) in bodies:
        for m in pat.finditer(text, a, b):
            if defspan[0] <= m.start() <= defspan[1]:
                continue
            after = text[m.end():m.end() + 80]
            before = text[max(0, m.start() - 8):m.start()]
            if re.search(r'sizeof\s*\(\s*$', text[max(0, m.start() - 16):m.start()]):
                continue
            if re.match(_WRITE_AFTER, after) or re.search(r'(\+\+|--)\s*$', before):
                written = True
            elif not re.match(r'\s*\[', after):
                # used as a whole (decays to a pointer / bound to a reference): may be written through it,
                # unless it is only read as a scalar in an expression; conservative
                escapes = True
    return written, escapes


def extract_cpp_objects(repo: Path):
    out = []
    nfiles = 0
    for g in CPP_GLOBS:
        for p in sorted(repo.glob(g)):
            nfiles += 1
            rel = str(p.relative_to(repo))
            objs, bodies, text, macros, text_pp = scan_cpp(p, rel)
            for o in objs:
                w, e = cpp_usage(o['name'], text, bodies, o['defspan'])
                # a const scalar/array read as a whole is not an escape that matters
                o['written'] = w or (e and not o['const'])
                o['initOnly'] = False
                out.append(o)
            # objects defined through the module-declaration macro (utils.hpp): registered once at import
            if re.search(r'^\s*DECLARE_MODULE\s*\(', text, flags=re.M):
                ln = text[:re.search(r'^\s*DECLARE_MODULE\s*\(', text, flags=re.M).start()].count('\n') + 1
                out.append(dict(name='moduledef', file=rel, line=ln, const=False, scope='namespace',
                                written=False, initOnly=True))
    if nfiles < 20:
        raise TranslationError(f'only {nfiles} C++ sources found')
    names = {o['name'] for o in out}
    for must in ('_factorialtable', 'TypeErrorMsg', 'D2', 'methods'):
        if must not in names:
            raise TranslationError(f'expected static object {must} not found (scanner out of date?)')
    for o in out:
        if o['name'] == 'methods':
            o['initOnly'] = True        # handed to PyModule_Create by DECLARE_MODULE, at import only
    return out


# --------------------------------------------------------------------------------------------
# gil_release sites

def _match_brace(text: str, open_idx: int) -> int:
    d = 0
    for j in range(open_idx, len(text)):
        if text[j] == '{':
            d += 1
        elif text[j] == '}':
            d -= 1
            if d == 0:
                return j
    raise TranslationError('unbalanced braces')


def _enclosing_open(text: str, pos: int, lo: int) -> int:
    """offset of the `{` that opens the innermost block containing pos (searching back to lo)"""
    d = 0
    for j in range(pos - 1, lo - 1, -1):
        if text[j] == '}':
            d += 1
        elif text[j] == '{':
            if d == 0:
                return j
            d -= 1
    raise TranslationError('no enclosing block')


_INTERP_CALL = re.compile(r'\b(Py[A-Za-z]*_[A-Za-z0-9_]+|Py_[A-Z]+[A-Za-z0-9_]*|new_array\s*<[^>]*>)\s*\(')
_WRAP = re.compile(r'\b(?:numpy::)?(?:aligned_array|array_base|array)\s*<[^;{}()]*>\s*(?:[A-Za-z_]\w*\s*)?\(|'
                   r'\bintegral_image_type\s*\(')


def wrapper_building_helpers(repo: Path) -> list[str]:
    """names of helper classes (struct X { X(PyArrayObject* ...) { ... aligned_array<T> v(arr); ... } }) whose
    constructor builds a reference-counted array wrapper: constructing such a helper inside a released region
    touches a reference count without the lock although no wrapper is visible at the site"""
    out = []
    for g in CPP_GLOBS:
        for p in sorted(repo.glob(g)):
            t = strip_cpp(p.read_text(errors='replace'))
            for m in re.finditer(r'\bstruct\s+(\w+)\s*\{', t):
                name = m.group(1)
                end = _match_brace(t, m.end() - 1)
                body = t[m.end():end]
                for c in re.finditer(r'\b' + name + r'\s*\(\s*PyArrayObject\s*\*[^)]*\)[^{;]*\{', body):
                    ce = _match_brace(body, c.end() - 1)
                    if re.search(r'\b(?:numpy::)?(?:aligned_array|array_base)\s*<[^;{}()]*>\s*\w+\s*\(', body[c.end():ce]):
                        out.append(name)
    return sorted(set(out))


def extract_gil_sites(repo: Path):
    sites = []
    helpers = wrapper_building_helpers(repo)
    helper_re = re.compile(r'\b(?:' + '|'.join(map(re.escape, helpers)) + r')\s*<[^;{}()]*>\s*\w+\s*\(') if helpers else None
    for g in CPP_GLOBS:
        for p in sorted(repo.glob(g)):
            rel = str(p.relative_to(repo))
            objs, bodies, text, macros, text_pp = scan_cpp(p, rel)
            for m in re.finditer(r'\bgil_release\s+(\w+)\s*;', text_pp):
                in_macro = text[m.start():m.end()].strip() == ''
                if in_macro and not re.match(r'\s*#\s*define\b', text_pp[text_pp.rfind('\n#', 0, m.start()) + 1:][:40]):
                    continue            # inside a conditional-compilation line or similar: not a declaration we model
                body = [b for b in bodies if b[0] < m.start() < b[1]]
                if not body:
                    raise TranslationError(f'{rel}: gil_release outside a function body')
                a, b, header = body[0]
                hm = re.search(r'([A-Za-z_]\w*)\s*\([^()]*(?:\([^()]*\)[^()]*)*\)\s*(?:const\s*)?$', header, flags=re.S)
                if not hm:
                    raise TranslationError(f'{rel}: cannot parse the header of the function around a gil_release')
                func = hm.group(1)
                is_entry = bool(re.search(r'PyObject\s*\*\s*\w+\s*,\s*PyObject\s*\*', header))
                var = m.group(1)
                T = text_pp if in_macro else text     # a declaration inside a #define: braces of the macro body
                op = _enclosing_open(T, m.start(), a)
                cl = _match_brace(T, op)
                first_stmt = T[op + 1:m.start()].strip() == '' or (
                    op == a and re.fullmatch(r'(\s*assert\s*\([^;]*\)\s*;)*\s*', T[op + 1:m.start()]) is not None)
                pre = T[max(a, op - 12):op]
                in_try = bool(re.search(r'\btry\s*$', pre))
                # any try block of the same function enclosing the site
                enclosing_try = in_try
                j = op
                while not enclosing_try and j > a:
                    j = _enclosing_open(T, j, a) if j > a else a
                    if re.search(r'\btry\s*$', T[max(a, j - 12):j]):
                        enclosing_try = True
                    if j <= a:
                        break
                if not is_entry:
                    idiom = 'a'
                elif enclosing_try:
                    idiom = 'c'
                else:
                    idiom = 'b'
                region = text_pp[m.end():cl]
                # interpreter calls while released: cut away what follows an explicit restore() up to the
                # `return` that ends that branch
                reg2 = re.sub(r'\b' + var + r'\s*\.\s*restore\s*\(\s*\)\s*;.*?\breturn\b[^;]*;', ' ', region, flags=re.S)
                restores = len(re.findall(r'\b' + var + r'\s*\.\s*restore\s*\(', region))
                calls = [c.group(1) for c in _INTERP_CALL.finditer(reg2)]
                calls = [c for c in calls if re.sub(r'\s*<.*', '', c) not in PURE_PY_MACROS]
                wraps = len(_WRAP.findall(reg2))
                helper_wraps = len(helper_re.findall(reg2)) if helper_re else 0
                # for idiom (a): is every call of the kernel inside a try / SAFE_SWITCH of this file?
                caught = True
                if idiom == 'a':
                    caught = False
                    callers = [bb for bb in bodies if bb is not body[0] and re.search(
                        r'\b' + re.escape(func) + r'\s*(<[^;(){}]*>)?\s*\(', text[bb[0]:bb[1]])]
                    users = callers
                    # also through HANDLE macros (blanked from text): look in the raw macro list
                    macro_use = [mc for mc in macros if re.search(r'\b' + re.escape(func) + r'\s*(<[^;(){}]*>)?\s*\(', mc)]
                    if callers or macro_use:
                        caught = True
                        for bb in callers:
                            t = text[bb[0]:bb[1]]
                            hdr = bb[2]
                            if re.search(r'PyObject\s*\*\s*\w+\s*,\s*PyObject\s*\*', hdr):
                                if not re.search(r'\btry\b|SAFE_SWITCH_ON_', t):
                                    caught = False
                        if macro_use and not callers:
                            # macro-dispatched: the py_ function that expands it must use SAFE_SWITCH/try
                            caught = bool(re.search(r'SAFE_SWITCH_ON_|\btry\b', text))
                sites.append(dict(file=rel, func=func, line=text.count('\n', 0, m.start()) + 1, idiom=idiom,
                                  first=bool(first_stmt), restores=restores, interp_calls=calls, wraps=wraps, helper_wraps=helper_wraps,
                                  caught=bool(caught)))
    if len(sites) < 30:
        raise TranslationError(f'only {len(sites)} gil_release sites found')
    return sites


# --------------------------------------------------------------------------------------------
# Python module globals

_MUTATORS = {'append', 'extend', 'insert', 'pop', 'remove', 'clear', 'update', 'setdefault', 'add', 'discard',
             'popitem', 'sort', 'reverse', 'fill', 'put', 'resize', 'setflags', 'itemset'}


def _root_name(node):
    while isinstance(node, (ast.Subscript, ast.Attribute)):
        node = node.value
    return node.id if isinstance(node, ast.Name) else None


def _flatten_targets(t):
    if isinstance(t, (ast.Tuple, ast.List)):
        for e in t.elts:
            yield from _flatten_targets(e)
    elif isinstance(t, ast.Starred):
        yield from _flatten_targets(t.value)
    else:
        yield t


def _store_targets(n):
    """the expressions a node stores into (or deletes), tuple unpacking flattened"""
    raw = []
    if isinstance(n, ast.Assign):
        raw = list(n.targets)
    elif isinstance(n, (ast.AugAssign, ast.AnnAssign, ast.NamedExpr, ast.For, ast.AsyncFor)):
        raw = [n.target]
    elif isinstance(n, (ast.With, ast.AsyncWith)):
        raw = [i.optional_vars for i in n.items if i.optional_vars is not None]
    elif isinstance(n, ast.Delete):
        raw = list(n.targets)
    for t in raw:
        yield from _flatten_targets(t)


def extract_py_globals(repo: Path):
    out = []
    files = sorted((repo / 'mahotas').rglob('*.py'))
    files = [p for p in files if 'tests' not in p.parts]
    if len(files) < 30:
        raise TranslationError('python sources not found')
    for p in files:
        rel = str(p.relative_to(repo))
        try:
            with warnings.catch_warnings():
                warnings.simplefilter('ignore')
                tree = ast.parse(p.read_text())
        except SyntaxError as e:
            raise TranslationError(f'{rel}: {e}')
        modnames = {}
        for node in tree.body:
            targets = []
            if isinstance(node, ast.Assign):
                targets = [t for t in node.targets if isinstance(t, ast.Name)]
            elif isinstance(node, ast.AnnAssign) and isinstance(node.target, ast.Name):
                targets = [node.target]
            for t in targets:
                modnames.setdefault(t.id, node.lineno)
        for fn in ast.walk(tree):
            if not isinstance(fn, (ast.FunctionDef, ast.AsyncFunctionDef)):
                continue
            declared = set()
            for n in ast.walk(fn):
                if isinstance(n, ast.Global):
                    declared.update(n.names)
            localnames = {a.arg for a in fn.args.args + fn.args.kwonlyargs}
            for n in ast.walk(fn):
                for t in _store_targets(n):
                    if isinstance(t, ast.Name) and t.id not in declared:
                        localnames.add(t.id)
            # (name -> list of (kind, lineno)) in source order
            events = {}
            for n in ast.walk(fn):
                # every statement form that binds or deletes a name / stores into a container: plain, augmented,
                # annotated and tuple-unpacking assignments, `for`/`with … as` targets, walrus, `del`
                for t in _store_targets(n):
                    if isinstance(t, ast.Name) and t.id in declared:
                        events.setdefault(t.id, []).append(('rebind', n.lineno, n))
                    elif isinstance(t, (ast.Subscript, ast.Attribute)):
                        r = _root_name(t)
                        if r and r not in localnames and (r in declared or r in modnames):
                            events.setdefault(r, []).append(('mutate', n.lineno, n))
                # in-place mutation through a method, on the global itself or on something reached from it
                # by subscripts / attributes (`X.append(v)`, `X[k].update(d)`, `X.cache.clear()`)
                if isinstance(n, ast.Call) and isinstance(n.func, ast.Attribute) and n.func.attr in _MUTATORS:
                    r = _root_name(n.func.value)
                    if r and r not in localnames and (r in declared or r in modnames):
                        events.setdefault(r, []).append(('mutate', n.lineno, n))
            for name, evs in events.items():
                evs.sort(key=lambda e: e[1])
                rebinds = [e for e in evs if e[0] == 'rebind']
                mutates = [e for e in evs if e[0] == 'mutate']
                # lazy initialisation: `if X is None:` guarding the rebinding
                guarded = False
                for n in ast.walk(fn):
                    if isinstance(n, ast.If):
                        t = n.test
                        if (isinstance(t, ast.Compare) and isinstance(t.left, ast.Name) and t.left.id == name
                                and len(t.ops) == 1 and isinstance(t.ops[0], ast.Is)
                                and isinstance(t.comparators[0], ast.Constant) and t.comparators[0].value is None):
                            inner = {id(x) for x in ast.walk(n)}
                            if rebinds and all(id(e[2]) in inner for e in rebinds + mutates):
                                guarded = True
                # the published value must not depend on the call's arguments, and nothing may mutate the
                # global after it has been published (mutations of a half-built global are visible to others)
                argnames = {a.arg for a in fn.args.args + fn.args.kwonlyargs}
                if fn.args.vararg:
                    argnames.add(fn.args.vararg.arg)
                if fn.args.kwarg:
                    argnames.add(fn.args.kwarg.arg)
                dep = False
                for e in rebinds:
                    val = getattr(e[2], 'value', None) if isinstance(e[2], (ast.Assign, ast.AnnAssign)) else None
                    if val is None:
                        # augmented assignment, loop / with target, walrus, `del`, bare annotation: the value
                        # published is not one complete, argument-independent object
                        dep = True
                        continue
                    for x in ast.walk(val):
                        if isinstance(x, ast.Name) and x.id in argnames:
                            dep = True
                single_publish = guarded and len(rebinds) == 1 and not mutates and not dep
                out.append(dict(name=name, file=rel, line=evs[0][1], func=fn.name,
                                rebinds=len(rebinds), mutates=len(mutates), guarded=guarded,
                                lazy_idempotent=bool(single_publish)))
    if not any(o['name'] == '_perimeter_values' for o in out):
        raise TranslationError('_perimeter_values (labeled.py) no longer found as a function-written module global')
    return out


# --------------------------------------------------------------------------------------------

def _b(x):
    return 'true' if x else 'false'


def _s(x):
    return '"' + str(x).replace('\\', '\\\\').replace('"', '\\"') + '"'


# ---- raw GIL API calls (round 4): a release written by hand instead of the RAII `gil_release`

_RAW_RELEASE = re.compile(r'\b(PyEval_SaveThread|Py_BEGIN_ALLOW_THREADS|Py_UNBLOCK_THREADS|PyGILState_Release)\b')
_RAW_ACQUIRE = re.compile(r'\b(PyEval_RestoreThread|Py_END_ALLOW_THREADS|Py_BLOCK_THREADS|PyGILState_Ensure)\b')
# anything between a hand-written release and its re-acquire that can leave the function: `return`, `throw`, `goto`,
# and the dispatch macros (their `catch` clauses `return NULL`)
_RAW_EXIT = re.compile(r'\b(return|throw|goto|SAFE_SWITCH_ON\w*|HANDLE\w*|CATCH_PYTHON_EXCEPTIONS\w*)\b')


def extract_raw_gil_sites(repo: Path):
    """every use of the interpreter's own release API outside the body of `struct gil_release` (utils.hpp): file, function,
    line, the API name, number of re-acquire calls after it in the same function, number of constructs between the release and
    the LAST of those re-acquires through which control can leave the function with the lock still released"""
    out = []
    for g in CPP_GLOBS:
        for p in sorted(repo.glob(g)):
            rel = str(p.relative_to(repo))
            raw = p.read_text(errors='replace')
            text = strip_cpp(raw)
            skip = []
            for m in re.finditer(r'\bstruct\s+gil_release\s*\{', text):
                skip.append((m.start(), _match_brace(text, m.end() - 1)))
            try:
                _objs, bodies, _t, _macros, _tpp = scan_cpp(p, rel)
            except Exception:
                bodies = []
            for m in _RAW_RELEASE.finditer(text):
                if any(a <= m.start() <= b for a, b in skip):
                    continue
                body = [b for b in bodies if b[0] < m.start() < b[1]]
                if body:
                    a, b, header = body[0]
                    hm = re.search(r'([A-Za-z_]\w*)\s*\([^()]*(?:\([^()]*\)[^()]*)*\)\s*(?:const\s*)?$', header, flags=re.S)
                    func = hm.group(1) if hm else '?'
                    rest = text[m.end():b]
                else:                       # inside a macro definition or at namespace scope: the rest of the file
                    func, rest = '?', text[m.end():]
                acq = list(_RAW_ACQUIRE.finditer(rest))
                region = rest[:acq[-1].start()] if acq else rest
                exits = len(_RAW_EXIT.findall(region))
                out.append(dict(file=rel, func=func, line=text.count('\n', 0, m.start()) + 1, api=m.group(1),
                                restores=len(acq), exits=exits))
    return out


def generate(repo: Path, outdir: Path) -> dict:
    objs = extract_cpp_objects(repo)
    pys = extract_py_globals(repo)
    sites = extract_gil_sites(repo)
    raws = extract_raw_gil_sites(repo)
    L = ['/- GENERATED by translator/statics.py from the current /repo sources. Do not edit. -/',
         'namespace Mahotas.Generated', '',
         '/-- an object with static storage duration (C++) or a module global written by a function (Python) -/',
         'structure StaticObj where',
         '  name : String', '  file : String', '  line : Nat',
         '  lang : String            -- "c++" | "py"',
         '  scope : String           -- namespace | class | function | module',
         '  isConst : Bool           -- declared const (the object itself, not only what it points to)',
         '  written : Bool           -- some function body of its file assigns to it / mutates it / lets it escape non-const',
         '  initOnly : Bool          -- handed to the interpreter at module initialisation only (method table, module def)',
         '  lazyIdempotent : Bool    -- Python: `if X is None:` guard, complete value published by ONE rebinding, no later mutation',
         '  deriving Repr, DecidableEq', '',
         '/-- one `gil_release` declaration -/',
         'structure GilSite where',
         '  file : String', '  func : String', '  line : Nat',
         '  idiom : Nat              -- 0 = (a) RAII first statement of a kernel function, 1 = (b) braced block in the entry point, 2 = (c) inside try/catch in the entry point',
         '  firstStmt : Bool         -- the declaration opens its block',
         '  restores : Nat           -- explicit `.restore()` calls',
         '  interpCalls : Nat        -- Python C-API calls lexically inside the released region (after cutting `restore(); ...; return`)',
         '  wrappers : Nat           -- array wrappers (reference counted) constructed lexically inside the released region',
         '  caught : Bool            -- idiom (a): every entry point that calls the kernel does so inside try/SAFE_SWITCH',
         '  helperWrappers : Nat     -- helper objects constructed inside the released region whose constructor builds a wrapper (filter_iterator)',
         '  deriving Repr, DecidableEq', '',
         'def statics : List StaticObj := [']
    rows = []
    for o in objs:
        rows.append(f'  ⟨{_s(o["name"])}, {_s(o["file"])}, {o["line"]}, "c++", {_s(o["scope"])}, {_b(o["const"])}, '
                    f'{_b(o["written"])}, {_b(o["initOnly"])}, false⟩')
    for o in pys:
        rows.append(f'  ⟨{_s(o["name"])}, {_s(o["file"])}, {o["line"]}, "py", "module", false, true, false, '
                    f'{_b(o["lazy_idempotent"])}⟩')
    L.append(',\n'.join(rows))
    L.append(']')
    L.append('')
    L.append('def gilSites : List GilSite := [')
    idi = {'a': 0, 'b': 1, 'c': 2}
    L.append(',\n'.join(
        f'  ⟨{_s(s["file"])}, {_s(s["func"])}, {s["line"]}, {idi[s["idiom"]]}, {_b(s["first"])}, {s["restores"]}, '
        f'{len(s["interp_calls"])}, {s["wraps"]}, {_b(s["caught"])}, {s["helper_wraps"]}⟩' for s in sites))
    L.append(']')
    L.append('')
    L.append('/-- a release of the interpreter lock written by hand (`PyEval_SaveThread`, `Py_BEGIN_ALLOW_THREADS`, …) outside the RAII')
    L.append('class `gil_release`: `restores` = re-acquire calls after it in the same function, `exits` = constructs between the')
    L.append('release and the last re-acquire through which control can leave with the lock released (`return`, `throw`, `goto`,')
    L.append('the dispatch macros whose catch clauses return) -/')
    L.append('structure RawGilSite where')
    L.append('  file : String')
    L.append('  func : String')
    L.append('  line : Nat')
    L.append('  api : String')
    L.append('  restores : Nat')
    L.append('  exits : Nat')
    L.append('  deriving Repr, DecidableEq')
    L.append('')
    L.append('def rawGilSites : List RawGilSite := [')
    L.append(',\n'.join(f'  ⟨{_s(r["file"])}, {_s(r["func"])}, {r["line"]}, {_s(r["api"])}, {r["restores"]}, {r["exits"]}⟩' for r in raws))
    L.append(']')
    L.append('')
    L.append('end Mahotas.Generated')
    L.append('')
    changed = _write_if_changed(outdir / 'Statics.lean', '\n'.join(L))
    return dict(statics_cpp=len(objs), statics_cpp_nonconst=sum(1 for o in objs if not o['const']),
                statics_py=len(pys), gil_sites=len(sites), raw_gil_sites=len(raws),
                gil_sites_by_idiom={k: sum(1 for s in sites if s['idiom'] == k) for k in 'abc'},
                gil_sites_wrappers_inside=sum(1 for s in sites if s['wraps']),
                gil_sites_helper_wrappers_inside=sum(1 for s in sites if s['helper_wraps']),
                statics_changed=changed)


if __name__ == '__main__':
    import sys, json
    repo = Path(sys.argv[1])
    print(json.dumps(dict(objects=[{k: v for k, v in o.items() if k != 'defspan'} for o in extract_cpp_objects(repo)],
                          py=extract_py_globals(repo), sites=extract_gil_sites(repo)), indent=1))
