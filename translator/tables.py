"""Translator: regenerates lean/Mahotas/Generated/*.lean from the current /repo sources.

Everything that *is* data in the code (constant tables, mode numbering, connectivity translation)
is extracted here so that the Lean theorems about it are re-checked by `lake build` against what the
code says now. A construct that can no longer be parsed raises: that is a broken tie."""
from __future__ import annotations
import ast, re
from pathlib import Path


class TranslationError(Exception):
    pass


def _write_if_changed(p: Path, s: str) -> bool:
    if p.exists() and p.read_text() == s:
        return False
    p.parent.mkdir(parents=True, exist_ok=True)
    p.write_text(s)
    return True


def _py_assign(tree, name):
    for node in ast.walk(tree):
        if isinstance(node, ast.Assign):
            for t in node.targets:
                if isinstance(t, ast.Name) and t.id == name:
                    return node.value
    raise TranslationError(f'assignment to {name} not found')


def extract_modes(repo: Path):
    src = (repo / 'mahotas' / '_filters.py').read_text()
    val = _py_assign(ast.parse(src), 'mode2int')
    py = {k.value: v.value for k, v in zip(val.keys, val.values)}
    h = (repo / 'mahotas' / '_filters.h').read_text()
    m = re.search(r'typedef enum \{(.*?)\} ExtendMode;', h, flags=re.S)
    if not m:
        raise TranslationError('ExtendMode enum not found')
    cpp = {}
    for name, num in re.findall(r'Extend(\w+)\s*=\s*(\d+)', m.group(1)):
        cpp[name.lower()] = int(num)
    return py, cpp


def extract_translate_sizes(repo: Path):
    src = (repo / 'mahotas' / 'morph.py').read_text()
    tree = ast.parse(src)
    for node in ast.walk(tree):
        if isinstance(node, ast.FunctionDef) and node.name == 'get_structuring_elem':
            val = _py_assign(node, 'translate_sizes')
            out = []
            for k, v in zip(val.keys, val.values):
                out.append((k.elts[0].value, k.elts[1].value, v.value))
            # the literal default cross
            lit = None
            for n in ast.walk(node):
                if isinstance(n, ast.Call) and getattr(n.func, 'attr', '') == 'array' and n.args and isinstance(n.args[0], ast.List):
                    try:
                        lit = [[e.value for e in row.elts] for row in n.args[0].elts]
                    except Exception:
                        pass
            if lit is None:
                raise TranslationError('default cross literal not found')
            return out, lit
    raise TranslationError('get_structuring_elem not found')


# ---------------------------------------------------------------------------------------------
# C15: thinning templates (_thin.cpp) and Euler bit-quad tables (euler.py)

def extract_thin(repo: Path):
    """the 8 hit-or-miss elements of `_thin.cpp` as built by `fill_data`: for each element, in pass
    order, the six (d0, d1, required value) triples"""
    src = (repo / 'mahotas' / '_thin.cpp').read_text()
    m = re.search(r'const\s+int\s+Element_Size\s*=\s*(\d+)\s*;', src)
    if not m:
        raise TranslationError('_thin.cpp: Element_Size not found')
    esize = int(m.group(1))
    m = re.search(r'const\s+bool\s+boolvals\[\]\s*=\s*\{([^}]*)\}', src)
    if not m:
        raise TranslationError('_thin.cpp: boolvals not found')
    boolvals = [{'true': True, 'false': False}[t.strip()] for t in m.group(1).split(',') if t.strip()]
    deltas = {}
    for name, body in re.findall(r'const\s+npy_intp\s+(\w+)\[\]\s*=\s*\{([^}]*)\}', src):
        deltas[name] = [int(t.strip().replace('+', '')) for t in body.split(',') if t.strip()]
    # the semantics of fill_data / match / the deletion loop are anchored textually
    anchors = [r'elem\.data\[j\]\s*=\s*\(flip\s*\?\s*!\s*boolvals\[j\]\s*:\s*boolvals\[j\]\)',
               r'elem\.offset\[j\]\s*=\s*coordinates_delta\(array,\s*delta0\[j\],\s*delta1\[j\]\)',
               r'return\s*\(d0\*PyArray_STRIDE\(array,0\)\s*\+\s*d1\*PyArray_STRIDE\(array,1\)\)/sizeof\(bool\)',
               r'if\s*\(!\*array\)\s*return\s+false;',
               r'if\s*\(elem\.data\[i\]\s*!=\s*\*\(array\+elem\.offset\[i\]\)\)\s*return\s+false;',
               r'if\s*\(\*pb\s*&&\s*\*pa\)\s*\{\s*\*pa\s*=\s*false;\s*any_change\s*=\s*true;']
    for a in anchors:
        if not re.search(a, src):
            raise TranslationError('_thin.cpp: construct no longer matches: ' + a)
    m = re.search(r'const\s+int\s+Nr_Elements\s*=\s*(\d+)\s*;', src)
    if not m:
        raise TranslationError('_thin.cpp: Nr_Elements not found')
    nelems = int(m.group(1))
    fills = re.findall(r'fill_data\(array,\s*elems\[(\d+)\],\s*(true|false),\s*(\w+),\s*(\w+)\);', src)
    if [int(f[0]) for f in fills] != list(range(nelems)):
        raise TranslationError(f'_thin.cpp: fill_data calls do not cover elems[0..{nelems}) in order')
    elems = []
    for _, flip, n0, n1 in fills:
        if n0 not in deltas or n1 not in deltas:
            raise TranslationError(f'_thin.cpp: unknown delta table {n0}/{n1}')
        d0, d1 = deltas[n0], deltas[n1]
        if not (len(d0) == len(d1) == len(boolvals) == esize):
            raise TranslationError('_thin.cpp: table lengths differ from Element_Size')
        fl = flip == 'true'
        elems.append([(a, b, (not v) if fl else v) for a, b, v in zip(d0, d1, boolvals)])
    return dict(boolvals=boolvals, deltas=deltas, fills=[(f[1] == 'true', f[2], f[3]) for f in fills], elems=elems)


def extract_euler(repo: Path):
    """numerators/denominator of `_euler_lookup4/8` and the weights `_powers` of euler.py"""
    tree = ast.parse((repo / 'mahotas' / 'euler.py').read_text())

    def lookup(name):
        v = _py_assign(tree, name)
        # np.array([...]) / 4.
        if not (isinstance(v, ast.BinOp) and isinstance(v.op, ast.Div) and isinstance(v.right, ast.Constant)
                and isinstance(v.left, ast.Call) and getattr(v.left.func, 'attr', '') == 'array'):
            raise TranslationError(f'euler.py: {name} is no longer np.array([...])/const')
        den = v.right.value
        if den != int(den) or int(den) <= 0:
            raise TranslationError(f'euler.py: {name}: denominator {den!r}')
        try:
            nums = [int(ast.literal_eval(e)) for e in v.left.args[0].elts]
        except Exception as e:
            raise TranslationError(f'euler.py: {name}: {e}')
        return nums, int(den)
    l4, d4 = lookup('_euler_lookup4')
    l8, d8 = lookup('_euler_lookup8')
    if d4 != d8:
        raise TranslationError('euler.py: the two look-up tables have different denominators')
    pv = _py_assign(tree, '_powers')
    try:
        powers = ast.literal_eval(pv.args[0])
        powers = [[int(x) for x in row] for row in powers]
    except Exception as e:
        raise TranslationError(f'euler.py: _powers: {e}')
    return dict(lookup4=l4, lookup8=l8, den=d4, powers=powers)


def _lean_bool(b):
    return 'true' if b else 'false'


def c15_block(repo: Path):
    th = extract_thin(repo)
    eu = extract_euler(repo)
    s = ['/-! ### C15: thinning templates (`_thin.cpp`) and Euler bit-quad tables (`euler.py`) -/', '',
         '/-- `boolvals` of `_thin.cpp` -/',
         'def thinBoolvals : List Bool := [' + ', '.join(_lean_bool(b) for b in th['boolvals']) + ']']
    for name in sorted(th['deltas']):
        s.append(f'def thin_{name} : List Int := ' + lean_list(th['deltas'][name]))
    s += ['/-- the `fill_data(array, elems[i], flip, delta0, delta1)` calls of `py_thin`, in order -/',
          'def thinFills : List (Bool × List Int × List Int) := [' + ', '.join(
              f'({_lean_bool(fl)}, thin_{a}, thin_{b})' for fl, a, b in th['fills']) + ']',
          '/-- the eight hit-or-miss elements in pass order: (row offset, column offset, required value) -/',
          'def thinElems : List (List (Int × Int × Bool)) := [']
    rows = []
    for e in th['elems']:
        rows.append('  [' + ', '.join(f'({a}, {b}, {_lean_bool(v)})' for a, b, v in e) + ']')
    s.append((',' + chr(10)).join(rows) + ']')
    s += ['',
          '/-- numerators of `_euler_lookup4` (the table is this list divided by `eulerDen`) -/',
          'def eulerLookup4 : List Int := ' + lean_list(eu['lookup4']),
          '/-- numerators of `_euler_lookup8` -/',
          'def eulerLookup8 : List Int := ' + lean_list(eu['lookup8']),
          f'def eulerDen : Nat := {eu["den"]}',
          '/-- `_powers` (row major): weight of quad pixel (i, j) in the table index -/',
          'def eulerPowers : List (List Nat) := [' + ', '.join(lean_list(r) for r in eu['powers']) + ']', '']
    return s, dict(thin_elems=len(th['elems']), euler_tables=2)


def lean_list(xs):
    return '[' + ', '.join(str(x) for x in xs) + ']'


def generate(repo: Path, outdir: Path) -> dict:
    py, cpp = extract_modes(repo)
    ts, cross = extract_translate_sizes(repo)
    names = ['nearest', 'wrap', 'reflect', 'mirror', 'constant', 'ignore']
    s = ['/- GENERATED by translator/tables.py from the current /repo sources. Do not edit. -/',
         'namespace Mahotas.Generated', '',
         '/-- `mode2int` of `_filters.py` as (name index, code); names indexed as in `Mode.code` -/',
         'def pyModes : List (String × Nat) := [' + ', '.join(f'("{k}", {v})' for k, v in sorted(py.items())) + ']',
         '/-- `ExtendMode` of `_filters.h` -/',
         'def cppModes : List (String × Nat) := [' + ', '.join(f'("{k}", {v})' for k, v in sorted(cpp.items())) + ']',
         '',
         '/-- `translate_sizes` of `get_structuring_elem`: (ndim, connectivity count, radius) -/',
         'def translateSizes : List (Nat × Nat × Nat) := [' + ', '.join(f'({a}, {b}, {c})' for a, b, c in ts) + ']',
         '/-- the literal 2-D default cross of `get_structuring_elem` -/',
         'def defaultCross : List Int := ' + lean_list([x for row in cross for x in row]),
         '']
    c15_lines, c15_info = c15_block(repo)
    s += c15_lines
    s += ['end Mahotas.Generated', '']
    changed = _write_if_changed(outdir / 'Tables.lean', '\n'.join(s))
    return dict(tables_changed=changed, modes=len(py), translate_sizes=len(ts), **c15_info)


if __name__ == '__main__':
    import sys
    print(generate(Path('/repo'), Path(__file__).resolve().parent.parent / 'lean' / 'Mahotas' / 'Generated'))
