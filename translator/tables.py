"""Translator: regenerates lean/Mahotas/Generated/*.lean from the current /repo sources.

Everything that *is* data in the code (constant tables, mode numbering, connectivity translation)
is extracted here so that the Lean theorems about it are re-checked by `lake build` against what the
code says now. A construct that can no longer be parsed raises: that is a broken tie."""
from __future__ import annotations
import ast, re
from pathlib import Path


class TranslationError(Exception):
    pass


def _write_if_changed(p: Path, s: str) -> bool:
    if p.exists() and p.read_text() == s:
        return False
    p.parent.mkdir(parents=True, exist_ok=True)
    p.write_text(s)
    return True


def _py_assign(tree, name):
    for node in ast.walk(tree):
        if isinstance(node, ast.Assign):
            for t in node.targets:
                if isinstance(t, ast.Name) and t.id == name:
                    return node.value
    raise TranslationError(f'assignment to {name} not found')


def extract_modes(repo: Path):
    src = (repo / 'mahotas' / '_filters.py').read_text()
    val = _py_assign(ast.parse(src), 'mode2int')
    py = {k.value: v.value for k, v in zip(val.keys, val.values)}
    h = (repo / 'mahotas' / '_filters.h').read_text()
    m = re.search(r'typedef enum \{(.*?)\} ExtendMode;', h, flags=re.S)
    if not m:
        raise TranslationError('ExtendMode enum not found')
    cpp = {}
    for name, num in re.findall(r'Extend(\w+)\s*=\s*(\d+)', m.group(1)):
        cpp[name.lower()] = int(num)
    return py, cpp


def extract_translate_sizes(repo: Path):
    src = (repo / 'mahotas' / 'morph.py').read_text()
    tree = ast.parse(src)
    for node in ast.walk(tree):
        if isinstance(node, ast.FunctionDef) and node.name == 'get_structuring_elem':
            val = _py_assign(node, 'translate_sizes')
            out = []
            for k, v in zip(val.keys, val.values):
                out.append((k.elts[0].value, k.elts[1].value, v.value))
            # the literal default cross
            lit = None
            for n in ast.walk(node):
                if isinstance(n, ast.Call) and getattr(n.func, 'attr', '') == 'array' and n.args and isinstance(n.args[0], ast.List):
                    try:
                        lit = [[e.value for e in row.elts] for row in n.args[0].elts]
                    except Exception:
                        pass
            if lit is None:
                raise TranslationError('default cross literal not found')
            return out, lit
    raise TranslationError('get_structuring_elem not found')


# ----------------------------------------------------------------------------------------------
# C20: colour matrices, transfer-function constants and np.choose selections of colors.py

def _dec(node):
    """a numeric literal (possibly negated) as (python float, exact decimal string)"""
    neg = False
    if isinstance(node, ast.UnaryOp) and isinstance(node.op, ast.USub):
        neg, node = True, node.operand
    if not (isinstance(node, ast.Constant) and isinstance(node.value, (int, float)) and not isinstance(node.value, bool)):
        raise TranslationError(f'numeric literal expected, got {ast.dump(node)[:80]}')
    from fractions import Fraction
    q = Fraction(repr(node.value))            # repr is the shortest decimal that round-trips: the literal's value
    return -q if neg else q


def _func(tree, name):
    for node in ast.walk(tree):
        if isinstance(node, ast.FunctionDef) and node.name == name:
            return node
    raise TranslationError(f'function {name} not found')


def _np_array_literal(node):
    if not (isinstance(node, ast.Call) and getattr(node.func, 'attr', '') == 'array' and node.args):
        raise TranslationError('np.array([...]) expected')
    lit = node.args[0]
    if not isinstance(lit, ast.List):
        raise TranslationError('list literal expected')
    if lit.elts and isinstance(lit.elts[0], ast.List):
        return [[_dec(e) for e in row.elts] for row in lit.elts]
    return [_dec(e) for e in lit.elts]


def _choose(fn, target):
    """`target = np.choose(x <= c, [alt0, alt1])` -> (c, alt0 name, alt1 name)"""
    val = _py_assign(fn, target) if target else None
    if val is None:
        for n in ast.walk(fn):
            if isinstance(n, ast.Return) and isinstance(n.value, ast.Call) and getattr(n.value.func, 'attr', '') == 'choose':
                val = n.value
    if not (isinstance(val, ast.Call) and getattr(val.func, 'attr', '') == 'choose' and len(val.args) == 2):
        raise TranslationError(f'np.choose(...) expected for {target}')
    cond, alts = val.args
    if not (isinstance(cond, ast.Compare) and len(cond.ops) == 1 and isinstance(cond.ops[0], ast.LtE)
            and isinstance(alts, ast.List) and len(alts.elts) == 2 and all(isinstance(e, ast.Name) for e in alts.elts)):
        raise TranslationError(f'np.choose(x <= c, [a, b]) expected for {target}')
    return cond.comparators[0], alts.elts[0].id, alts.elts[1].id


def _xyz2rgb_literals(f) -> dict:
    """C20 round 4: the literals of the encoder of `xyz2rgb` that are not shared with `rgb2xyz`:
    `srgb_high = (1 + a)*np.power(rgb_linear, 1./2.4)` -> exponent numerator `1.` and denominator `2.4`;
    `srgb_high -= a`; `srgb *= 255.` -> the output scale"""
    hi = _py_assign(f, 'srgb_high')
    if not (isinstance(hi, ast.BinOp) and isinstance(hi.op, ast.Mult) and isinstance(hi.right, ast.Call)
            and getattr(hi.right.func, 'attr', '') == 'power' and len(hi.right.args) == 2
            and isinstance(hi.left, ast.BinOp) and isinstance(hi.left.op, ast.Add)
            and isinstance(hi.left.right, ast.Name) and hi.left.right.id == 'a'):
        raise TranslationError('srgb_high = (1 + a)*np.power(rgb_linear, 1./gamma) expected')
    ex = hi.right.args[1]
    if not (isinstance(ex, ast.BinOp) and isinstance(ex.op, ast.Div)):
        raise TranslationError('exponent 1./gamma expected in xyz2rgb')
    out = dict(one_inv=_dec(hi.left.left), gamma_inv_num=_dec(ex.left), gamma_inv=_dec(ex.right))
    aug = {}
    for n in ast.walk(f):
        if isinstance(n, ast.AugAssign) and isinstance(n.target, ast.Name):
            aug[n.target.id] = n
    sub = aug.get('srgb_high')
    if not (sub is not None and isinstance(sub.op, ast.Sub) and isinstance(sub.value, ast.Name) and sub.value.id == 'a'):
        raise TranslationError('srgb_high -= a expected')
    mul = aug.get('srgb')
    if not (mul is not None and isinstance(mul.op, ast.Mult)):
        raise TranslationError('srgb *= 255. expected')
    out['scale_inv'] = _dec(mul.value)
    return out


def extract_colors(repo: Path) -> dict:
    tree = ast.parse((repo / 'mahotas' / 'colors.py').read_text())
    out = {}
    f = _func(tree, 'rgb2grey')
    out['grey'] = _np_array_literal(_py_assign(f, 'transform'))
    f = _func(tree, 'rgb2xyz')
    out['rgb2xyz'] = _np_array_literal(_py_assign(f, 'transformation'))
    out['a_fwd'] = _dec(_py_assign(f, 'a'))
    hi = _py_assign(f, 'rgb_linear_high')          # np.power((rgb + a)/(1.+a), 2.4)
    if not (isinstance(hi, ast.Call) and getattr(hi.func, 'attr', '') == 'power' and len(hi.args) == 2):
        raise TranslationError('rgb_linear_high = np.power(..., gamma) expected')
    out['gamma'] = _dec(hi.args[1])
    lo = _py_assign(f, 'rgb_linear_low')           # rgb/12.92
    if not (isinstance(lo, ast.BinOp) and isinstance(lo.op, ast.Div)):
        raise TranslationError('rgb_linear_low = rgb/slope expected')
    out['slope'] = _dec(lo.right)
    sc = _py_assign(f, 'rgb')                      # rgb/255.
    if not (isinstance(sc, ast.BinOp) and isinstance(sc.op, ast.Div)):
        raise TranslationError('rgb = rgb/255. expected')
    out['scale'] = _dec(sc.right)
    c, a0, a1 = _choose(f, 'rgb_linear')
    out['knee_fwd'] = _dec(c)
    if {a0, a1} != {'rgb_linear_low', 'rgb_linear_high'}:
        raise TranslationError('rgb2xyz: unexpected np.choose alternatives')
    out['fwd_low_when_below'] = (a1 == 'rgb_linear_low')      # np.choose takes alternative 1 where the test is true
    f = _func(tree, 'xyz2rgb')
    out['xyz2rgb'] = _np_array_literal(_py_assign(f, 'transformation'))
    out['a_inv'] = _dec(_py_assign(f, 'a'))
    c, a0, a1 = _choose(f, 'srgb')
    out['knee_inv'] = _dec(c)
    if {a0, a1} != {'srgb_low', 'srgb_high'}:
        raise TranslationError('xyz2rgb: unexpected np.choose alternatives')
    out['inv_low_when_below'] = (a1 == 'srgb_low')
    lo = _py_assign(f, 'srgb_low')                 # 12.92 * rgb_linear
    if not (isinstance(lo, ast.BinOp) and isinstance(lo.op, ast.Mult)):
        raise TranslationError('srgb_low = slope * rgb_linear expected')
    out['slope_inv'] = _dec(lo.left)
    out.update(_xyz2rgb_literals(f))
    f = _func(tree, 'xyz2lab')
    g = _func(f, 'f')
    c, a0, a1 = _choose(g, None)
    if {a0, a1} != {'branch_small', 'branch_large'}:
        raise TranslationError('xyz2lab: unexpected np.choose alternatives')
    out['lab_small_when_below'] = (a1 == 'branch_small')
    # threshold (6./29)**k
    if not (isinstance(c, ast.BinOp) and isinstance(c.op, ast.Pow) and isinstance(c.left, ast.BinOp)
            and isinstance(c.left.op, ast.Div)):
        raise TranslationError('xyz2lab threshold (6./29)**k expected')
    out['lab_delta_num'] = _dec(c.left.left)
    out['lab_delta_den'] = _dec(c.left.right)
    out['lab_knee_exp'] = int(_dec(c.right))
    wp = None
    for n in ast.walk(f):
        if isinstance(n, ast.Assign) and isinstance(n.targets[0], ast.Tuple) and \
                [getattr(e, 'id', '') for e in n.targets[0].elts] == ['xn', 'yn', 'zn']:
            wp = [_dec(e) for e in n.value.elts]
    if wp is None:
        raise TranslationError('xn, yn, zn = ... not found')
    out['white'] = wp
    f = _func(tree, 'rgb2sepia')
    out['sepia'] = _np_array_literal(_py_assign(f, 'rgb2sepia_weights'))
    return out


def _q(q):
    """Lean term for an exact rational, usable at Rat and (as a decimal literal) at Float"""
    return f'({q.numerator} : Rat) / {q.denominator}'


def _fl(q):
    """decimal Float literal with the same value (every extracted number is a finite decimal)"""
    k = 0
    while (q * 10 ** k).denominator != 1:
        k += 1
        if k > 40:
            raise TranslationError(f'not a finite decimal: {q}')
    num = int(q * 10 ** k)
    digits = str(abs(num)).rjust(k + 1, '0')
    txt = (digits[:-k] + '.' + digits[-k:]) if k else (digits + '.0')
    return f'({"-" if num < 0 else ""}{txt} : Float)'


def lean_colors(c: dict) -> list[str]:
    def mat(name, m, doc):
        rows_q = ', '.join('[' + ', '.join(_q(x) for x in row) + ']' for row in m)
        rows_f = ', '.join('[' + ', '.join(_fl(x) for x in row) + ']' for row in m)
        return [f'/-- {doc} (exact rationals of the decimal literals) -/',
                f'def {name}Q : List (List Rat) := [{rows_q}]',
                f'/-- {doc} (the same literals as doubles) -/',
                f'def {name}F : List (List Float) := [{rows_f}]']
    def vec(name, v, doc):
        return [f'/-- {doc} -/',
                f'def {name}Q : List Rat := [' + ', '.join(_q(x) for x in v) + ']',
                f'def {name}F : List Float := [' + ', '.join(_fl(x) for x in v) + ']']
    def sc(name, q, doc):
        return [f'/-- {doc} -/', f'def {name}Q : Rat := {_q(q)}', f'def {name}F : Float := {_fl(q)}']
    s = ['/-! ## C20: colors.py -/']
    s += mat('rgb2xyzM', c['rgb2xyz'], '`transformation` of `rgb2xyz`')
    s += mat('xyz2rgbM', c['xyz2rgb'], '`transformation` of `xyz2rgb`')
    s += mat('sepiaM', c['sepia'], '`rgb2sepia_weights`')
    s += vec('greyW', c['grey'], '`transform` of `rgb2grey`')
    s += vec('labWhite', c['white'], '`xn, yn, zn` of `xyz2lab`')
    s += sc('srgbA', c['a_fwd'], '`a` of `rgb2xyz`')
    s += sc('srgbAInv', c['a_inv'], '`a` of `xyz2rgb`')
    s += sc('srgbGamma', c['gamma'], 'exponent of the power branch of `rgb2xyz`')
    s += sc('srgbSlope', c['slope'], 'divisor of the linear branch of `rgb2xyz`')
    s += sc('srgbSlopeInv', c['slope_inv'], 'factor of the linear branch of `xyz2rgb`')
    s += sc('srgbScale', c['scale'], '`rgb/255.`')
    s += sc('srgbGammaInv', c['gamma_inv'], '`2.4` of the exponent `1./2.4` of the power branch of `xyz2rgb`')
    s += sc('srgbGammaInvNum', c['gamma_inv_num'], 'numerator `1.` of that exponent')
    s += sc('srgbOneInv', c['one_inv'], '`1` of `(1 + a)` in `xyz2rgb`')
    s += sc('srgbScaleInv', c['scale_inv'], '`srgb *= 255.` in `xyz2rgb`')
    s += sc('srgbKnee', c['knee_fwd'], 'threshold of `np.choose` in `rgb2xyz`')
    s += sc('srgbKneeInv', c['knee_inv'], 'threshold of `np.choose` in `xyz2rgb`')
    s += sc('labDeltaNum', c['lab_delta_num'], 'numerator of `6./29` in `xyz2lab`')
    s += sc('labDeltaDen', c['lab_delta_den'], 'denominator of `6./29` in `xyz2lab`')
    s += ['/-- exponent `k` of the threshold `(6./29)**k` in `xyz2lab` -/',
          f'def labKneeExp : Nat := {c["lab_knee_exp"]}',
          '/-- `np.choose(test, [a0, a1])` takes `a1` where the test holds: is `a1` the linear (low) branch? -/',
          f'def fwdLowWhenBelow : Bool := {str(c["fwd_low_when_below"]).lower()}',
          f'def invLowWhenBelow : Bool := {str(c["inv_low_when_below"]).lower()}',
          f'def labSmallWhenBelow : Bool := {str(c["lab_small_when_below"]).lower()}', '']
    return s


# ----------------------------------------------------------------------------------------------
# C19: direction tables of texture.py, factorial table of _zernike.cpp

def extract_texture(repo: Path) -> dict:
    tree = ast.parse((repo / 'mahotas' / 'features' / 'texture.py').read_text())
    out = {}
    for name in ('_2d_deltas', '_3d_deltas'):
        val = _py_assign(tree, name)
        if not isinstance(val, ast.List):
            raise TranslationError(f'{name}: list literal expected')
        rows = []
        for t in val.elts:
            if not isinstance(t, ast.Tuple):
                raise TranslationError(f'{name}: tuple expected')
            rows.append([int(_dec(e)) for e in t.elts])
        out[name] = rows
    return out


def extract_factorials(repo: Path) -> list[int]:
    src = (repo / 'mahotas' / 'features' / '_zernike.cpp').read_text()
    m = re.search(r'double\s+_factorialtable\[\]\s*=\s*\{(.*?)\};', src, flags=re.S)
    if not m:
        raise TranslationError('_factorialtable not found')
    try:
        return [int(x) for x in m.group(1).replace('\n', ' ').split(',') if x.strip()]
    except ValueError as e:
        raise TranslationError(f'_factorialtable: {e}')


def lean_texture(t: dict, fact: list[int]) -> list[str]:
    def tab(rows):
        return '[' + ', '.join('[' + ', '.join(str(x) for x in r) + ']' for r in rows) + ']'
    return ['/-! ## C19: texture.py direction tables, _zernike.cpp factorial table -/',
            '/-- `_2d_deltas` -/', 'def deltas2d : List (List Int) := ' + tab(t['_2d_deltas']),
            '/-- `_3d_deltas` -/', 'def deltas3d : List (List Int) := ' + tab(t['_3d_deltas']),
            '/-- `_factorialtable` -/', 'def factorialTable : List Nat := ' + lean_list(fact), '']

# ---------------------------------------------------------------------------------------------
# C15: thinning templates (_thin.cpp) and Euler bit-quad tables (euler.py)

def extract_thin(repo: Path):
    """the 8 hit-or-miss elements of `_thin.cpp` as built by `fill_data`: for each element, in pass
    order, the six (d0, d1, required value) triples"""
    src = (repo / 'mahotas' / '_thin.cpp').read_text()
    m = re.search(r'const\s+int\s+Element_Size\s*=\s*(\d+)\s*;', src)
    if not m:
        raise TranslationError('_thin.cpp: Element_Size not found')
    esize = int(m.group(1))
    m = re.search(r'const\s+bool\s+boolvals\[\]\s*=\s*\{([^}]*)\}', src)
    if not m:
        raise TranslationError('_thin.cpp: boolvals not found')
    boolvals = [{'true': True, 'false': False}[t.strip()] for t in m.group(1).split(',') if t.strip()]
    deltas = {}
    for name, body in re.findall(r'const\s+npy_intp\s+(\w+)\[\]\s*=\s*\{([^}]*)\}', src):
        deltas[name] = [int(t.strip().replace('+', '')) for t in body.split(',') if t.strip()]
    # the semantics of fill_data / match / the deletion loop are anchored textually
    anchors = [r'elem\.data\[j\]\s*=\s*\(flip\s*\?\s*!\s*boolvals\[j\]\s*:\s*boolvals\[j\]\)',
               r'elem\.offset\[j\]\s*=\s*coordinates_delta\(array,\s*delta0\[j\],\s*delta1\[j\]\)',
               r'return\s*\(d0\*PyArray_STRIDE\(array,0\)\s*\+\s*d1\*PyArray_STRIDE\(array,1\)\)/sizeof\(bool\)',
               r'if\s*\(!\*array\)\s*return\s+false;',
               r'if\s*\(elem\.data\[i\]\s*!=\s*\*\(array\+elem\.offset\[i\]\)\)\s*return\s+false;',
               r'if\s*\(\*pb\s*&&\s*\*pa\)\s*\{\s*\*pa\s*=\s*false;\s*any_change\s*=\s*true;']
    for a in anchors:
        if not re.search(a, src):
            raise TranslationError('_thin.cpp: construct no longer matches: ' + a)
    m = re.search(r'const\s+int\s+Nr_Elements\s*=\s*(\d+)\s*;', src)
    if not m:
        raise TranslationError('_thin.cpp: Nr_Elements not found')
    nelems = int(m.group(1))
    fills = re.findall(r'fill_data\(array,\s*elems\[(\d+)\],\s*(true|false),\s*(\w+),\s*(\w+)\);', src)
    if [int(f[0]) for f in fills] != list(range(nelems)):
        raise TranslationError(f'_thin.cpp: fill_data calls do not cover elems[0..{nelems}) in order')
    elems = []
    for _, flip, n0, n1 in fills:
        if n0 not in deltas or n1 not in deltas:
            raise TranslationError(f'_thin.cpp: unknown delta table {n0}/{n1}')
        d0, d1 = deltas[n0], deltas[n1]
        if not (len(d0) == len(d1) == len(boolvals) == esize):
            raise TranslationError('_thin.cpp: table lengths differ from Element_Size')
        fl = flip == 'true'
        elems.append([(a, b, (not v) if fl else v) for a, b, v in zip(d0, d1, boolvals)])
    return dict(boolvals=boolvals, deltas=deltas, fills=[(f[1] == 'true', f[2], f[3]) for f in fills], elems=elems)


def extract_euler(repo: Path):
    """numerators/denominator of `_euler_lookup4/8` and the weights `_powers` of euler.py"""
    tree = ast.parse((repo / 'mahotas' / 'euler.py').read_text())

    def lookup(name):
        v = _py_assign(tree, name)
        # np.array([...]) / 4.
        if not (isinstance(v, ast.BinOp) and isinstance(v.op, ast.Div) and isinstance(v.right, ast.Constant)
                and isinstance(v.left, ast.Call) and getattr(v.left.func, 'attr', '') == 'array'):
            raise TranslationError(f'euler.py: {name} is no longer np.array([...])/const')
        den = v.right.value
        if den != int(den) or int(den) <= 0:
            raise TranslationError(f'euler.py: {name}: denominator {den!r}')
        try:
            nums = [int(ast.literal_eval(e)) for e in v.left.args[0].elts]
        except Exception as e:
            raise TranslationError(f'euler.py: {name}: {e}')
        return nums, int(den)
    l4, d4 = lookup('_euler_lookup4')
    l8, d8 = lookup('_euler_lookup8')
    if d4 != d8:
        raise TranslationError('euler.py: the two look-up tables have different denominators')
    pv = _py_assign(tree, '_powers')
    try:
        powers = ast.literal_eval(pv.args[0])
        powers = [[int(x) for x in row] for row in powers]
    except Exception as e:
        raise TranslationError(f'euler.py: _powers: {e}')
    return dict(lookup4=l4, lookup8=l8, den=d4, powers=powers)


def _lean_bool(b):
    return 'true' if b else 'false'


def extract_thin_structure(repo: Path):
    """(Round 4, C15) the control structure around the eight passes: the statements of `thin.py: thin` (normalised by
    `ast.unparse`; docstring and imports dropped) — bounding-box crop, zero frame of width 1, native call, paste back —
    and the loop skeleton of `py_thin` in `_thin.cpp`: the `while` condition, the reset of `any_change`, the `for` over the
    elements with `fast_hitmiss(array, elems[i], buffer)` and the element count of the clearing loop."""
    tree = ast.parse((repo / 'mahotas' / 'thin.py').read_text())
    fn = next((n for n in tree.body if isinstance(n, ast.FunctionDef) and n.name == 'thin'), None)
    if fn is None:
        raise TranslationError('thin.py: thin not found')
    body = []
    for st in fn.body:
        if isinstance(st, ast.Expr) and isinstance(st.value, ast.Constant) and isinstance(st.value.value, str):
            continue
        if isinstance(st, (ast.Import, ast.ImportFrom)):
            continue
        body.append(ast.unparse(st).replace('"', "'"))
    params = [a.arg for a in fn.args.args] + ['=' + ast.unparse(d) for d in fn.args.defaults]
    src = (repo / 'mahotas' / '_thin.cpp').read_text()
    src = re.sub(r'//[^\n]*', '', src)
    m = re.search(r'PyObject\*\s*py_thin\b(.*?)\n\}\n', src, flags=re.S)
    if not m:
        raise TranslationError('_thin.cpp: py_thin not found')
    f = m.group(1)
    w = re.search(r'while\s*\((.*?)\)\s*\{', f, flags=re.S)
    if not w:
        raise TranslationError('_thin.cpp: the while loop of py_thin not found')
    cond = re.sub(r'\s+', ' ', w.group(1)).strip()
    rest = f[w.end():]
    skel = []
    for pat, name in [(r'any_change\s*=\s*false\s*;', 'any_change = false'),
                      (r'for\s*\(\s*int\s+i\s*=\s*0\s*;\s*i\s*!=\s*Nr_Elements\s*;\s*\+\+i\s*\)', 'for i in [0, Nr_Elements)'),
                      (r'fast_hitmiss\(array,\s*elems\[i\],\s*buffer\)\s*;', 'fast_hitmiss(array, elems[i], buffer)'),
                      (r'for\s*\(\s*int\s+j\s*=\s*0\s*;\s*j\s*!=\s*N\s*;\s*\+\+j\s*\)', 'for j in [0, N)'),
                      (r'if\s*\(\*pb\s*&&\s*\*pa\)', 'if (*pb && *pa)')]:
        k = re.search(pat, rest)
        if not k:
            raise TranslationError('_thin.cpp: loop skeleton of py_thin no longer matches: ' + name)
        skel.append(name)
        rest = rest[k.end():]
    pre = f[:w.start()]
    init = []
    for pat, name in [(r'const\s+npy_int\s+N\s*=\s*PyArray_SIZE\(array\)\s*;', 'N = PyArray_SIZE(array)'),
                      (r'bool\s+any_change\s*=\s*true\s*;', 'any_change = true'),
                      (r'int\s+n\s*=\s*0\s*;', 'n = 0')]:
        if not re.search(pat, pre):
            raise TranslationError('_thin.cpp: initialisation of the loop of py_thin no longer matches: ' + name)
        init.append(name)
    return dict(params=params, body=body, cond=cond, skel=skel, init=init)


def c15_block(repo: Path):
    th = extract_thin(repo)
    eu = extract_euler(repo)
    ts = extract_thin_structure(repo)
    s = ['/-! ### C15: thinning templates (`_thin.cpp`) and Euler bit-quad tables (`euler.py`) -/', '',
         '/-- `boolvals` of `_thin.cpp` -/',
         'def thinBoolvals : List Bool := [' + ', '.join(_lean_bool(b) for b in th['boolvals']) + ']']
    for name in sorted(th['deltas']):
        s.append(f'def thin_{name} : List Int := ' + lean_list(th['deltas'][name]))
    s += ['/-- the `fill_data(array, elems[i], flip, delta0, delta1)` calls of `py_thin`, in order -/',
          'def thinFills : List (Bool × List Int × List Int) := [' + ', '.join(
              f'({_lean_bool(fl)}, thin_{a}, thin_{b})' for fl, a, b in th['fills']) + ']',
          '/-- the eight hit-or-miss elements in pass order: (row offset, column offset, required value) -/',
          'def thinElems : List (List (Int × Int × Bool)) := [']
    rows = []
    for e in th['elems']:
        rows.append('  [' + ', '.join(f'({a}, {b}, {_lean_bool(v)})' for a, b, v in e) + ']')
    s.append((',' + chr(10)).join(rows) + ']')
    s += ['',
          '/-- numerators of `_euler_lookup4` (the table is this list divided by `eulerDen`) -/',
          'def eulerLookup4 : List Int := ' + lean_list(eu['lookup4']),
          '/-- numerators of `_euler_lookup8` -/',
          'def eulerLookup8 : List Int := ' + lean_list(eu['lookup8']),
          f'def eulerDen : Nat := {eu["den"]}',
          '/-- `_powers` (row major): weight of quad pixel (i, j) in the table index -/',
          'def eulerPowers : List (List Nat) := [' + ', '.join(lean_list(r) for r in eu['powers']) + ']', '']
    qs = lambda x: '"' + x.replace('\\', '\\\\').replace('"', '\\"') + '"'
    s += ['/-- (round 4) `thin.py: thin`: parameters with defaults, and the statements of the body (`ast.unparse`) -/',
          'def thinPyParams : List String := [' + ', '.join(qs(x) for x in ts['params']) + ']',
          'def thinPyBody : List String := [' + ', '.join(qs(x) for x in ts['body']) + ']',
          '/-- (round 4) `_thin.cpp: py_thin`: initialisation before the loop, the `while` condition, the skeleton of its body in order -/',
          'def thinLoopInit : List String := [' + ', '.join(qs(x) for x in ts['init']) + ']',
          'def thinLoopCond : String := ' + qs(ts['cond']),
          'def thinLoopSkeleton : List String := [' + ', '.join(qs(x) for x in ts['skel']) + ']', '']
    return s, dict(thin_elems=len(th['elems']), euler_tables=2, thin_statements=len(ts['body']))

# ---------------------------------------------------------------------------------------------
# C17: Daubechies coefficient tables of _convolve.cpp

def extract_daubechies(repo: Path):
    """`const float D2[] = {...}` … `D20`, the `dcoeffs` switch and `ncoeffs = 2*(code + 1)`.
    Each literal is converted the way the compiler does it (decimal text -> nearest double -> nearest
    float32) and returned as the exact dyadic rational (mantissa, k) meaning mantissa / 2^k."""
    import struct
    from fractions import Fraction
    src = (repo / 'mahotas' / '_convolve.cpp').read_text()
    tables = {}
    for name, body in re.findall(r'const\s+float\s+(D\d+)\s*\[\s*\]\s*=\s*\{(.*?)\}\s*;', src, flags=re.S):
        vals = []
        for tok in body.replace('\n', ' ').split(','):
            tok = tok.strip()
            if not tok:
                continue
            if not re.fullmatch(r'[-+]?(\d+\.?\d*|\.\d+)([eE][-+]?\d+)?', tok):
                raise TranslationError(f'{name}: cannot parse coefficient literal {tok!r}')
            f32 = struct.unpack('<f', struct.pack('<f', float(tok)))[0]
            fr = Fraction(f32)
            k = fr.denominator.bit_length() - 1
            if fr.denominator != 1 << k:
                raise TranslationError(f'{name}: {tok} is not dyadic?')
            vals.append((fr.numerator, k))
        tables[name] = vals
    m = re.search(r'const\s+float\s*\*\s*dcoeffs\s*\(\s*const\s+int\s+code\s*\)\s*\{(.*?)\n\}', src, flags=re.S)
    if not m:
        raise TranslationError('dcoeffs() not found')
    switch = [(int(i), n) for i, n in re.findall(r'case\s+(\d+)\s*:\s*return\s+(D\d+)\s*;', m.group(1))]
    if not switch or [i for i, _ in switch] != list(range(len(switch))):
        raise TranslationError('dcoeffs(): case labels are not 0..n-1')
    for _, n in switch:
        if n not in tables:
            raise TranslationError(f'dcoeffs(): table {n} not found')
    nc = re.findall(r'int\s+ncoeffs\s*=\s*2\s*\*\s*\(\s*code\s*\+\s*1\s*\)\s*;', src)
    if len(nc) != 2:
        raise TranslationError('ncoeffs = 2*(code + 1) not found in py_daubechies / py_idaubechies')
    py = (repo / 'mahotas' / 'convolve.py').read_text()
    if not re.search(r"_daubechies_codes\s*=\s*\[\('D%s'\s*%\s*ci\)\s*for\s+ci\s+in\s+range\(2,\s*21,\s*2\)\]", py):
        raise TranslationError("_daubechies_codes = ['D2', 'D4', ... 'D20'] not found in convolve.py")
    return tables, switch


def _c17_block(repo: Path):
    tables, switch = extract_daubechies(repo)
    out = ['', '/-! ### C17: Daubechies scaling coefficients of `_convolve.cpp` as exact dyadic rationals',
           '`(m, k)` stands for `m / 2^k`, the float32 value the compiler stores for the decimal literal. -/']
    for _, name in switch:
        out.append(f'def {name} : List (Int × Nat) := [' + ', '.join(f'({m}, {k})' for m, k in tables[name]) + ']')
    out.append('/-- `dcoeffs(code)`: `code` is the index of `Dxx` in `_daubechies_codes` (`D2` ↦ 0 … `D20` ↦ 9);')
    out.append('    the kernels use the first `ncoeffs = 2*(code+1)` entries. -/')
    out.append('def dcoeffs : List (List (Int × Nat)) := [' + ', '.join(n for _, n in switch) + ']')
    return out, dict(daubechies_tables=len(switch))

# ---------------------------------------------------------------------------------------------
# C09: the out= convention — `_get_output`'s tests in source order, every wrapper's call to it
# (array argument, dtype argument), and hitmiss's hand-written validation

OUT_MODULES = ['morph', 'convolve', 'labeled', 'interpolate']


def _src(node):
    return ast.unparse(node).replace('"', "'")


def _raise_class(stmt):
    if isinstance(stmt, ast.Raise) and stmt.exc is not None:
        f = stmt.exc.func if isinstance(stmt.exc, ast.Call) else stmt.exc
        return getattr(f, 'id', None) or getattr(f, 'attr', None)
    return None


def extract_get_output(repo: Path):
    """the sequence of (test on `out`, exception class) of internal._get_output after `if out is None`"""
    tree = ast.parse((repo / 'mahotas' / 'internal.py').read_text())
    fn = next((n for n in tree.body if isinstance(n, ast.FunctionDef) and n.name == '_get_output'), None)
    if fn is None:
        raise TranslationError('_get_output not found')
    checks, seen_none, default_alloc, returns_out = [], False, None, False
    for st in fn.body:
        if isinstance(st, ast.If) and _src(st.test) == 'out is None':
            seen_none = True
            if len(st.body) == 1 and isinstance(st.body[0], ast.Return):
                default_alloc = _src(st.body[0].value)
            continue
        if seen_none and isinstance(st, ast.If):
            cls = _raise_class(st.body[0]) if len(st.body) == 1 else None
            if cls is None or st.orelse:
                raise TranslationError('unexpected statement in _get_output: ' + _src(st)[:80])
            checks.append((_src(st.test), cls))
        elif seen_none and isinstance(st, ast.Return):
            returns_out = _src(st.value) == 'out'
        elif seen_none:
            raise TranslationError('unexpected statement in _get_output: ' + _src(st)[:80])
    if not seen_none or default_alloc is None or not returns_out:
        raise TranslationError('_get_output: structure not recognised')
    return checks, default_alloc


def extract_out_sites(repo: Path):
    """for every public function of the out-modules with an out/output parameter: how `out` is consumed —
    a call to `_get_output(array, out, name, dtype)` or the calls `out=` is forwarded to"""
    sites = []
    for m in OUT_MODULES:
        tree = ast.parse((repo / 'mahotas' / (m + '.py')).read_text())
        for fn in tree.body:
            if not isinstance(fn, ast.FunctionDef) or fn.name.startswith('_'):
                continue
            params = [a.arg for a in fn.args.args]
            if 'out' not in params and 'output' not in params:
                continue
            found = []
            # (Round 2) position of the `out` parameter of every function of this module, for positional forwarding
            out_pos = {g.name: [a.arg for a in g.args.args].index('out') for g in tree.body
                       if isinstance(g, ast.FunctionDef) and 'out' in [a.arg for a in g.args.args]}
            for node in ast.walk(fn):
                # (Round 2) whole-buffer stores `x[...] = expr` and `return <name>`: the copy-back and the returned buffer
                if (isinstance(node, ast.Assign) and len(node.targets) == 1 and isinstance(node.targets[0], ast.Subscript)
                        and isinstance(node.targets[0].value, ast.Name)
                        and isinstance(node.targets[0].slice, ast.Constant) and node.targets[0].slice.value is Ellipsis):
                    found.append(f"store:{node.targets[0].value.id}[...]={_src(node.value)}")
                if isinstance(node, ast.Return) and isinstance(node.value, ast.Name):
                    found.append(f"return:{node.value.id}")
                if isinstance(node, ast.Call):
                    name = getattr(node.func, 'id', None) or getattr(node.func, 'attr', None)
                    if isinstance(node.func, ast.Name) and name in out_pos and len(node.args) > out_pos[name] \
                            and _src(node.args[out_pos[name]]) != 'None':
                        found.append(f"forward:{name}(out={_src(node.args[out_pos[name]])})")
                    if name == '_get_output':
                        if len(node.args) < 3:
                            raise TranslationError(f'{m}.{fn.name}: _get_output call not understood')
                        dt = node.args[3] if len(node.args) > 3 else next((k.value for k in node.keywords if k.arg == 'dtype'), None)
                        alias = any(k.arg == 'output' for k in node.keywords)
                        found.append(f"get_output({_src(node.args[0])},{_src(node.args[1])},{_src(dt) if dt is not None else 'None'}{',output' if alias else ''})")
                    else:
                        for k in node.keywords:
                            if k.arg in ('out', 'output') and _src(k.value) != 'None':
                                found.append(f"forward:{name}({k.arg}={_src(k.value)})")
            hand = [ _src(n.test) + '->' + str(_raise_class(n.body[0])) for n in ast.walk(fn)
                     if isinstance(n, ast.If) and len(n.body) == 1 and _raise_class(n.body[0]) and 'out' in _src(n.test).replace('output', 'out')]
            sites.append((m + '.' + fn.name, ','.join(p for p in params if p in ('out', 'output')), found, hand))
    if not sites:
        raise TranslationError('no out= call sites found')
    return sites


def extract_out_events(repo: Path):
    """(Round 4, C09) for every public function with an out/output parameter: the events that matter for the buffer
    flow, IN SOURCE ORDER — `get_output(array,out,dtype[,output])`, aliasing guards
    `if np.may_share_memory(x, y): n = n.copy()` (as `unalias:n|x~y`), whole-buffer stores (`store:x[...]=e`, `store:x[:]=e`,
    `fill:x(v)`), calls of same-module functions that take `out` (`call:<source text>`), native kernel calls
    (`native:_mod.fn(args)`) and `return:<name>`. A `may_share_memory` test guarding anything but a copy of one of its
    two operands is a `TranslationError`."""
    sites = []
    for m in OUT_MODULES:
        tree = ast.parse((repo / 'mahotas' / (m + '.py')).read_text())
        takes_out = {g.name for g in tree.body if isinstance(g, ast.FunctionDef)
                     and ({'out', 'output'} & {a.arg for a in g.args.args})}
        for fn in tree.body:
            if not isinstance(fn, ast.FunctionDef) or fn.name.startswith('_'):
                continue
            params = [a.arg for a in fn.args.args]
            if 'out' not in params and 'output' not in params:
                continue
            ev = []
            for node in ast.walk(fn):
                pos = (getattr(node, 'lineno', 0), getattr(node, 'col_offset', 0))
                if isinstance(node, ast.If) and isinstance(node.test, ast.Call) and _src(node.test.func) == 'np.may_share_memory':
                    if len(node.test.args) != 2 or node.orelse:
                        raise TranslationError(f'{m}.{fn.name}: may_share_memory test not understood')
                    x, y = _src(node.test.args[0]), _src(node.test.args[1])
                    for st in node.body:
                        ok = (isinstance(st, ast.Assign) and len(st.targets) == 1 and isinstance(st.targets[0], ast.Name)
                              and _src(st.value) == st.targets[0].id + '.copy()' and st.targets[0].id in (x, y))
                        if not ok:
                            raise TranslationError(f'{m}.{fn.name}: aliasing test guards something else than a copy of an operand')
                        ev.append((pos, f'unalias:{st.targets[0].id}|{x}~{y}'))
                elif isinstance(node, ast.Assign) and len(node.targets) == 1 and isinstance(node.targets[0], ast.Subscript) \
                        and isinstance(node.targets[0].value, ast.Name):
                    sl = node.targets[0].slice
                    if isinstance(sl, ast.Constant) and sl.value is Ellipsis:
                        ev.append((pos, f'store:{node.targets[0].value.id}[...]={_src(node.value)}'))
                    elif isinstance(sl, ast.Slice) and sl.lower is None and sl.upper is None and sl.step is None:
                        ev.append((pos, f'store:{node.targets[0].value.id}[:]={_src(node.value)}'))
                elif isinstance(node, ast.Return) and isinstance(node.value, ast.Name):
                    ev.append(((node.lineno, node.col_offset + 10000), f'return:{node.value.id}'))
                elif isinstance(node, ast.Call):
                    f = node.func
                    if isinstance(f, ast.Name) and f.id == '_get_output' or isinstance(f, ast.Attribute) and f.attr == '_get_output':
                        dt = node.args[3] if len(node.args) > 3 else next((k.value for k in node.keywords if k.arg == 'dtype'), None)
                        alias = any(k.arg == 'output' for k in node.keywords)
                        ev.append((pos, f"get_output({_src(node.args[0])},{_src(node.args[1])},{_src(dt) if dt is not None else 'None'}{',output' if alias else ''})"))
                    elif isinstance(f, ast.Attribute) and isinstance(f.value, ast.Name) and f.value.id.startswith('_') \
                            and f.value.id[1:] in ('morph', 'convolve', 'labeled', 'interpolate'):
                        ev.append((pos, f"native:{f.value.id}.{f.attr}({','.join(_src(a) for a in node.args)})"))
                    elif isinstance(f, ast.Attribute) and f.attr == 'fill' and isinstance(f.value, ast.Name):
                        ev.append((pos, f"fill:{f.value.id}({','.join(_src(a) for a in node.args)})"))
                    elif isinstance(f, ast.Name) and f.id in takes_out and f.id != fn.name:
                        ev.append((pos, 'call:' + _src(node).replace(' ', '')))
                    elif isinstance(f, ast.Attribute) and _src(f) == 'np.maximum' and any(k.arg == 'out' for k in node.keywords):
                        ev.append((pos, 'call:' + _src(node).replace(' ', '')))
            ev.sort(key=lambda t: t[0])
            sites.append((m + '.' + fn.name, [e for _, e in ev]))
    return sites


def generate_outconv(repo: Path, outdir: Path) -> dict:
    checks, alloc = extract_get_output(repo)
    sites = extract_out_sites(repo)

    def q(x):
        return '"' + x.replace('\\', '\\\\').replace('"', '\\"') + '"'
    s = ['/- GENERATED by translator/tables.py (generate_outconv) from the current /repo sources. Do not edit. -/',
         'namespace Mahotas.Generated', '',
         '/-- the tests `internal._get_output` applies to a supplied `out`, in source order, with the exception raised -/',
         'def getOutputChecksSrc : List (String × String) := [' + ', '.join(f'({q(a)}, {q(b)})' for a, b in checks) + ']',
         '/-- what `_get_output` returns when `out is None` -/',
         'def getOutputDefault : String := ' + q(alloc),
         '',
         '/-- every public function with an out/output parameter: (name, parameters, how out is consumed, own raise-tests on out) -/',
         'def outSites : List (String × String × List String × List String) := [']
    s += ['  (' + ', '.join([q(n), q(p), '[' + ', '.join(q(x) for x in f) + ']', '[' + ', '.join(q(x) for x in h) + ']']) + '),' for n, p, f, h in sites]
    s[-1] = s[-1][:-1]
    s += [']', '']
    # (Round 4) the same functions as ordered event sequences: aliasing guards, stores, native calls
    events = extract_out_events(repo)
    s += ['/-- (Round 4) per function with an out/output parameter, IN SOURCE ORDER: `_get_output` calls, aliasing guards',
          '    (`unalias:n|x~y` = `if np.may_share_memory(x, y): n = n.copy()`), whole-buffer stores, calls of out-taking functions of the',
          '    same module, native kernel calls, returned names',
          '    — each event as (kind, text) -/',
          'def outEvents : List (String × List (String × String)) := [']
    s += ['  (' + q(n) + ', [' + ', '.join('(' + q(x.split(':', 1)[0] if not x.startswith('get_output') else 'get_output') + ', ' +
                                            q(x.split(':', 1)[1] if not x.startswith('get_output') else x[len('get_output'):]) + ')'
                                            for x in ev) + ']),' for n, ev in events]
    s[-1] = s[-1][:-1]
    s += [']', '', 'end Mahotas.Generated', '']
    changed = _write_if_changed(outdir / 'OutConv.lean', '\n'.join(s))
    return dict(outconv_changed=changed, out_sites=len(sites), get_output_checks=len(checks), out_events=sum(len(e) for _, e in events))


# ---------------------------------------------------------------------------------------------
# C08: which numpy normalisation stands between the user's array and a native ISCARRAY guard

NORM_SITES = [('labeled', '_as_labeled', 'labeled'), ('labeled', '_convert_labeled', 'labeled'),
              ('histogram', 'fullhistogram', 'img'), ('polygon', 'convexhull', 'bwimg')]


def extract_normalisers(repo: Path):
    out = []
    for mod, fname, param in NORM_SITES:
        tree = ast.parse((repo / 'mahotas' / (mod + '.py')).read_text())
        fn = next((n for n in tree.body if isinstance(n, ast.FunctionDef) and n.name == fname), None)
        if fn is None:
            raise TranslationError(f'{mod}.{fname} not found')
        found = []
        for node in ast.walk(fn):
            if not isinstance(node, ast.Call):
                continue
            call = node
            name = getattr(call.func, 'attr', None)
            if name not in ('require', 'array', 'ascontiguousarray', 'asanyarray', 'asarray'):
                continue
            if not (call.args and isinstance(call.args[0], ast.Name) and call.args[0].id == param):
                continue
            kw = {k.arg: k.value for k in call.keywords}
            if name == 'require':
                r = kw.get('requirements', call.args[2] if len(call.args) > 2 else None)
                if isinstance(r, ast.Constant) and isinstance(r.value, str):
                    letters = r.value
                elif isinstance(r, (ast.List, ast.Tuple)):
                    letters = ''.join(e.value[0] for e in r.elts)
                else:
                    raise TranslationError(f'{mod}.{fname}: np.require requirements not understood')
                found.append('require:' + ''.join(c for c in 'CAW' if c in letters.upper()))
            elif name == 'array':
                o = kw.get('order')
                found.append('array:' + (o.value if isinstance(o, ast.Constant) else 'K'))
            elif name == 'ascontiguousarray':
                found.append('ascontiguousarray')
            else:
                found.append('asanyarray')
        if not found:
            raise TranslationError(f'{mod}.{fname}: no normalisation of `{param}` found')
        for k, f in enumerate(found):
            out.append((f'{mod}.{fname}#{k}', f))
    return out


def generate_normalisers(repo: Path, outdir: Path) -> dict:
    sites = extract_normalisers(repo)
    s = ['/- GENERATED by translator/tables.py (generate_normalisers) from the current /repo sources. Do not edit. -/',
         'namespace Mahotas.Generated', '',
         '/-- (wrapper#occurrence, numpy normalisation applied to the array argument before a native ISCARRAY guard) -/',
         'def normSites : List (String × String) := [' + ', '.join(f'("{a}", "{b}")' for a, b in sites) + ']',
         '', 'end Mahotas.Generated', '']
    changed = _write_if_changed(outdir / 'Normalise.lean', '\n'.join(s))
    return dict(normalise_changed=changed, norm_sites=len(sites))


# ---------------------------------------------------------------------------------------------
# C08 (purity): the wrappers around in-place native kernels hand over the user's array only when asked

COPY_GUARD_SITES = [('convolve', '_wavelet_array', 'inline'), ('labeled', '_as_labeled', 'inplace'),
                    ('features/surf', 'integral', 'in_place')]


def extract_copy_guards(repo: Path):
    """for each site: under `if not <flag>:` every assignment/return to the array is a copying numpy call"""
    out = []
    for mod, fname, flag in COPY_GUARD_SITES:
        import warnings
        with warnings.catch_warnings():
            warnings.simplefilter('ignore')          # surf.py has an invalid escape in a docstring
            tree = ast.parse((repo / 'mahotas' / (mod + '.py')).read_text())
        fn = next((n for n in tree.body if isinstance(n, ast.FunctionDef) and n.name == fname), None)
        if fn is None:
            raise TranslationError(f'{mod}.{fname} not found')
        guard = next((n for n in ast.walk(fn) if isinstance(n, ast.If) and _src(n.test) == f'not {flag}'), None)
        if guard is None:
            raise TranslationError(f'{mod}.{fname}: `if not {flag}:` not found')
        calls = set()

        def visit(stmts):
            for st in stmts:
                if isinstance(st, ast.If):
                    if not st.orelse:
                        raise TranslationError(f'{mod}.{fname}: a branch under `not {flag}` may fall through without a copy')
                    visit(st.body)
                    visit(st.orelse)
                elif isinstance(st, (ast.Assign, ast.Return)) and isinstance(st.value, ast.Call):
                    calls.add(getattr(st.value.func, 'attr', None) or getattr(st.value.func, 'id', '?'))
                else:
                    raise TranslationError(f'{mod}.{fname}: unexpected statement under `not {flag}`: {_src(st)[:60]}')
        visit(guard.body)
        if not calls:
            raise TranslationError(f'{mod}.{fname}: nothing happens under `not {flag}`')
        out.append((f"{mod.replace('/', '.')}.{fname}", flag, sorted(calls)))
    return out


# C08 (purity, round 4): EVERY call of a native kernel that overwrites one of its array arguments, with the provenance of
# the buffer the wrapper hands over (scanned over all of mahotas/*.py, mahotas/features/*.py: a new call site appears here
# by itself)

INPLACE_NATIVE = {            # native function -> index of the argument it overwrites
    '_morph.subm': 0, '_labeled.label': 0, '_labeled.relabel': 0, '_labeled.remove_regions': 0, '_labeled.slic': 1,
    '_distance.dt': 0, '_interpolate.spline_filter1d': 0, '_surf.integral': 0, '_thin.thin': 0,
    '_convolve.haar': 0, '_convolve.ihaar': 0, '_convolve.daubechies': 0, '_convolve.idaubechies': 0,
    '_convolve.wavelet': 0, '_convolve.iwavelet': 0}
FRESH_CALLS = {'zeros', 'empty', 'ones', 'full', 'copy', 'astype', 'array', 'zeros_like', 'empty_like', 'ones_like', 'full_like',
               'arange', 'reshape'}
VIEW_CALLS = {'moveaxis', 'transpose', 'swapaxes'}


def _provenance(expr, fn, before_line, depth=0):
    """where does the array `expr` (evaluated before line `before_line` of function `fn`) come from?
    fresh | out | guarded:<helper> | flag:<flag> | param:<name> | unknown:<src>"""
    if depth > 14:
        return 'unknown:depth'
    if isinstance(expr, ast.Subscript):
        return _provenance(expr.value, fn, before_line, depth + 1)
    if isinstance(expr, ast.IfExp):            # `a if c else b`: both alternatives must be harmless
        pa = _provenance(expr.body, fn, before_line, depth + 1)
        pb = _provenance(expr.orelse, fn, before_line, depth + 1)
        if pa == pb:
            return pa
        bad = [x for x in (pa, pb) if not (x in ('fresh', 'out') or x.startswith('guarded:') or x.startswith('flag:'))]
        return bad[0] if bad else pa
    if isinstance(expr, ast.Attribute) and expr.attr == 'T':
        return _provenance(expr.value, fn, before_line, depth + 1)
    if isinstance(expr, ast.Call):
        name = getattr(expr.func, 'attr', None) or getattr(expr.func, 'id', None)
        if name in VIEW_CALLS and expr.args:
            return _provenance(expr.args[0], fn, before_line, depth + 1)
        if name == 'reshape' and isinstance(expr.func, ast.Attribute):
            return _provenance(expr.func.value, fn, before_line, depth + 1)
        if name in FRESH_CALLS:
            return 'fresh'
        if name == '_get_output':
            return 'out'
        if name in ('_wavelet_array', '_as_labeled'):
            return 'guarded:' + name
        return 'unknown:' + _src(expr)[:40]
    if isinstance(expr, ast.Name):
        params = [a.arg for a in fn.args.args]
        assigns = []
        for n in ast.walk(fn):
            if isinstance(n, ast.Assign) and n.lineno < before_line:
                for t in n.targets:
                    if isinstance(t, ast.Name) and t.id == expr.id:
                        assigns.append(n)
                    elif isinstance(t, ast.Tuple) and isinstance(n.value, ast.Tuple) and len(t.elts) == len(n.value.elts):
                        # `a, b = x, y`: element-wise
                        for te, ve in zip(t.elts, n.value.elts):
                            if isinstance(te, ast.Name) and te.id == expr.id:
                                fake = ast.Assign(targets=[te], value=ve)
                                fake.lineno = n.lineno
                                assigns.append(fake)
        if not assigns:
            return ('param:' + expr.id) if expr.id in params else 'unknown:' + expr.id
        # an assignment under `if not <flag>:` leaves the parameter untouched when the flag is set: that is the documented
        # in-place switch (the copy-guard table above says what happens when it is not set)
        guarded = []
        for n in ast.walk(fn):
            if isinstance(n, ast.If) and isinstance(n.test, ast.UnaryOp) and isinstance(n.test.op, ast.Not) \
                    and isinstance(n.test.operand, ast.Name):
                inside = {id(x) for st in n.body for x in ast.walk(st)}
                if all(id(a_) in inside for a_ in assigns) and expr.id in params:
                    guarded.append(n.test.operand.id)
        if guarded:
            return 'flag:' + guarded[0]
        last = max(assigns, key=lambda n: n.lineno)
        pv = _provenance(last.value, fn, last.lineno, depth + 1)
        return pv
    return 'unknown:' + _src(expr)[:40]


def extract_inplace_sites(repo: Path):
    import warnings
    out = []
    files = sorted((repo / 'mahotas').glob('*.py')) + sorted((repo / 'mahotas' / 'features').glob('*.py'))
    for f in files:
        with warnings.catch_warnings():
            warnings.simplefilter('ignore')
            tree = ast.parse(f.read_text())
        mod = str(f.relative_to(repo / 'mahotas'))[:-3].replace('/', '.')
        for fn in [n for n in ast.walk(tree) if isinstance(n, ast.FunctionDef)]:
            for call in [n for n in ast.walk(fn) if isinstance(n, ast.Call)]:
                if isinstance(call.func, ast.Attribute) and isinstance(call.func.value, ast.Name):
                    key = call.func.value.id + '.' + call.func.attr
                    if key in INPLACE_NATIVE and len(call.args) > INPLACE_NATIVE[key]:
                        out.append((f'{mod}.{fn.name}', key, _provenance(call.args[INPLACE_NATIVE[key]], fn, call.lineno)))
                elif isinstance(call.func, ast.Name) and call.func.id == '_thin' and len(call.args) >= 2:
                    # `from ._thin import thin as _thin`: both the padded image and the scratch buffer are overwritten
                    for idx in (0, 1):
                        out.append((f'{mod}.{fn.name}', f'_thin.thin[{idx}]', _provenance(call.args[idx], fn, call.lineno)))
    if len(out) < 10:
        raise TranslationError(f'only {len(out)} in-place native call sites found (the wrappers no longer call them by these names)')
    return sorted(set(out))


def generate_copy_guards(repo: Path, outdir: Path) -> dict:
    sites = extract_copy_guards(repo)
    inplace = extract_inplace_sites(repo)
    s = ['/- GENERATED by translator/tables.py (generate_copy_guards) from the current /repo sources. Do not edit. -/',
         'namespace Mahotas.Generated', '',
         '/-- (wrapper, flag, numpy calls that produce the array handed to the in-place kernel when the flag is false) -/',
         'def copyGuards : List (String × String × List String) := [' +
         ', '.join('("%s", "%s", [%s])' % (a, b, ', '.join('"%s"' % x for x in c)) for a, b, c in sites) + ']',
         '',
         '/-- every call of a native kernel that overwrites an array argument: (wrapper, native function, provenance of the',
         'buffer handed over, detail): `fresh` = allocated/copied in the wrapper, `out` = result of `_get_output`, `guarded` + helper =',
         'through that copy-guard helper of `copyGuards`, `flag` + name = the parameter itself unless copied under `if not <name>`,',
         '`param`/`unknown` = anything else) -/',
         'def inplaceSites : List (String × String × String × String) := [' +
         ', '.join('("%s", "%s", "%s", "%s")' % (w, k, pv.split(':', 1)[0],
                                                (w.rsplit('.', 1)[0] + '.' + pv.split(':', 1)[1]) if pv.startswith('guarded:')
                                                else (pv.split(':', 1)[1] if ':' in pv else ''))
                   for w, k, pv in inplace) + ']',
         '', 'end Mahotas.Generated', '']
    changed = _write_if_changed(outdir / 'CopyGuards.lean', '\n'.join(s))
    return dict(copy_guards_changed=changed, copy_guards=len(sites), inplace_sites=len(inplace))


def lean_list(xs):
    return '[' + ', '.join(str(x) for x in xs) + ']'


def _blk_modes(repo: Path):
    py, cpp = extract_modes(repo)
    return ['/-- `mode2int` of `_filters.py` as (name index, code); names indexed as in `Mode.code` -/',
            'def pyModes : List (String × Nat) := [' + ', '.join(f'("{k}", {v})' for k, v in sorted(py.items())) + ']',
            '/-- `ExtendMode` of `_filters.h` -/',
            'def cppModes : List (String × Nat) := [' + ', '.join(f'("{k}", {v})' for k, v in sorted(cpp.items())) + ']',
            ''], dict(modes=len(py))


def _blk_structuring(repo: Path):
    ts, cross = extract_translate_sizes(repo)
    return ['/-- `translate_sizes` of `get_structuring_elem`: (ndim, connectivity count, radius) -/',
            'def translateSizes : List (Nat × Nat × Nat) := [' + ', '.join(f'({a}, {b}, {c})' for a, b, c in ts) + ']',
            '/-- the literal 2-D default cross of `get_structuring_elem` -/',
            'def defaultCross : List Int := ' + lean_list([x for row in cross for x in row]),
            ''], dict(translate_sizes=len(ts))


# C20 round 4: argument decoding of stretch (stretch.py); emitted inside the colours block (C20's own block)

def extract_stretch_decode(repo: Path) -> dict:
    """C20 round 4: the decoding of the optional positional arguments of `stretch` (stretch.py):
    `if arg0 is None: min = 0; max = 255 / elif arg1 is None: min = 0; max = arg0 / else: min = arg0; max = arg1`
    as a chain [(tested name | None, min value, max value)], plus the defaults of the signature"""
    tree = ast.parse((repo / 'mahotas' / 'stretch.py').read_text())
    f = next((n for n in tree.body if isinstance(n, ast.FunctionDef) and n.name == 'stretch'), None)
    if f is None:
        raise TranslationError('stretch not found')
    names = [a.arg for a in f.args.args]
    defaults = f.args.defaults
    if names != ['img', 'arg0', 'arg1', 'dtype'] or len(defaults) != 3 or \
            not all(isinstance(d, ast.Constant) and d.value is None for d in defaults[:2]) or \
            not (isinstance(defaults[2], ast.Attribute) and isinstance(defaults[2].value, ast.Name) and defaults[2].value.id == 'np'):
        raise TranslationError('stretch(img, arg0=None, arg1=None, dtype=np.<type>) expected')
    node = next((n for n in f.body if isinstance(n, ast.If)), None)
    def none_test(t):
        if isinstance(t, ast.Compare) and isinstance(t.left, ast.Name) and len(t.ops) == 1 and isinstance(t.ops[0], ast.Is) \
                and isinstance(t.comparators[0], ast.Constant) and t.comparators[0].value is None and t.left.id in ('arg0', 'arg1'):
            return t.left.id
        raise TranslationError('test `argN is None` expected in stretch')
    def val(v):
        if isinstance(v, ast.Constant) and isinstance(v.value, int) and not isinstance(v.value, bool):
            return int(v.value)
        if isinstance(v, ast.Name) and v.id in ('arg0', 'arg1'):
            return v.id
        raise TranslationError('integer literal or arg0/arg1 expected in the decoding of stretch')
    def assigns(body):
        got = {}
        for st in body:
            if not (isinstance(st, ast.Assign) and len(st.targets) == 1 and isinstance(st.targets[0], ast.Name)
                    and st.targets[0].id in ('min', 'max')):
                raise TranslationError('only `min = …` / `max = …` expected in the decoding of stretch')
            got[st.targets[0].id] = val(st.value)
        if set(got) != {'min', 'max'}:
            raise TranslationError('both min and max must be assigned in every branch of the decoding of stretch')
        return got['min'], got['max']
    chain = []
    while True:
        if not isinstance(node, ast.If):
            raise TranslationError('if/elif/else chain expected in stretch')
        chain.append((none_test(node.test),) + assigns(node.body))
        if len(node.orelse) == 1 and isinstance(node.orelse[0], ast.If):
            node = node.orelse[0]
            continue
        chain.append((None,) + assigns(node.orelse))
        break
    return dict(chain=chain, default_dtype=defaults[2].attr)


def lean_stretch_decode(d: dict) -> list[str]:
    def v(x):
        return f'({x} : Int)' if isinstance(x, int) else f'{x}.getD 0'
    body = ''
    for test, lo, hi in d['chain']:
        pair = f'({v(lo)}, {v(hi)})'
        body += (f'if {test}.isNone then {pair} else ' if test else pair)
    return ['/-- C20: the decoding of the optional positional arguments of `stretch` (the `if arg0 is None … elif arg1 is None … else`',
            '    chain of stretch.py), generated from the source -/',
            'def stretchDecodeGen (arg0 arg1 : Option Int) : Int × Int :=',
            '  ' + body,
            '/-- default `dtype` of `stretch` (attribute name of `np.<type>`) -/',
            f'def stretchDefaultDtype : String := "{d["default_dtype"]}"', '']


def _blk_colors(repo: Path):
    col = extract_colors(repo)
    dec = extract_stretch_decode(repo)
    return lean_colors(col) + lean_stretch_decode(dec), dict(colour_constants=len(col), stretch_decode_branches=len(dec['chain']))


def _blk_texture(repo: Path):
    tex = extract_texture(repo)
    fact = extract_factorials(repo)
    return lean_texture(tex, fact), dict(directions_2d=len(tex['_2d_deltas']), directions_3d=len(tex['_3d_deltas']),
                                         factorials=len(fact))


def _blk_c17(repo: Path):
    lines, info = _c17_block(repo)
    return lines + [''], info


# ---- C06 (round 4): the Sobel kernels of edge.py ------------------------------------------------------------------
def extract_sobel(repo: Path):
    """`_hsobel_filter = np.array([[..],[..],[..]])/8.` and `_vsobel_filter` of mahotas/edge.py ->
    (numerators row-major, divisor) each; the border mode string of the two `convolve` calls in `sobel`"""
    tree = ast.parse((repo / 'mahotas' / 'edge.py').read_text())
    out = {}
    for name in ('_hsobel_filter', '_vsobel_filter'):
        val = _py_assign(tree, name)
        if not (isinstance(val, ast.BinOp) and isinstance(val.op, ast.Div)):
            raise TranslationError(f'{name} = np.array([...])/c expected')
        rows = _np_array_literal(val.left)
        div = _dec(val.right)
        if not rows or not isinstance(rows[0], list) or any(q.denominator != 1 for r in rows for q in r) or div.denominator != 1 or div <= 0:
            raise TranslationError(f'{name}: 2-D integer literal over a positive integer expected')
        out[name] = ([len(rows), len(rows[0])], [int(q) for r in rows for q in r], int(div))
    fn = _func(tree, 'sobel')
    modes = []
    for n in ast.walk(fn):
        if isinstance(n, ast.Call) and getattr(n.func, 'id', '') == 'convolve':
            kw = {k.arg: k.value for k in n.keywords}
            if not (len(n.args) == 2 and isinstance(n.args[1], ast.Name) and isinstance(kw.get('mode'), ast.Constant)):
                raise TranslationError('sobel: convolve(img, <filter>, mode=<literal>) expected')
            modes.append((n.args[1].id, kw['mode'].value))
    if sorted(m[0] for m in modes) != ['_hsobel_filter', '_vsobel_filter']:
        raise TranslationError('sobel: one convolve call per Sobel filter expected')
    return out, sorted(modes)


def generate_edge(repo: Path, outdir: Path) -> dict:
    """Generated/Edge.lean (its own file: nothing else has to be rebuilt when it changes)"""
    tabs, modes = extract_sobel(repo)
    lines = ['/- GENERATED by translator/tables.py (generate_edge) from mahotas/edge.py. Do not edit. -/',
             'namespace Mahotas.Generated', '']
    for name, lean in (('_hsobel_filter', 'hsobel'), ('_vsobel_filter', 'vsobel')):
        shp, num, div = tabs[name]
        lines += [f'/-- `{name}` of `edge.py`: shape, numerators (row-major) and the divisor -/',
                  f'def {lean}Shape : List Nat := {lean_list(shp)}',
                  f'def {lean}Num : List Int := {lean_list(num)}',
                  f'def {lean}Div : Nat := {div}']
    lines += ['/-- the `convolve` calls of `edge.sobel`: (filter, border mode) -/',
              'def sobelCalls : List (String × String) := [' + ', '.join(f'("{a}", "{b}")' for a, b in modes) + ']', '',
              'end Mahotas.Generated', '']
    changed = _write_if_changed(outdir / 'Edge.lean', '\n'.join(lines))
    return dict(edge_changed=changed, sobel_filters=2)


# the blocks of Generated/Tables.lean, in file order. Each is extracted on its own: when the construct a block reads no
# longer has the expected form, that block keeps its last generated text (so that every theorem that does not speak
# about it is still checked) and the failure is reported under the block's name; harness/core.py decides which
# properties' Lean files mention a definition of that block and breaks the tie for those only.
TABLE_BLOCKS = [('modes', _blk_modes), ('structuring', _blk_structuring), ('colors', _blk_colors), ('texture', _blk_texture),
                ('c15', c15_block), ('c17', _blk_c17)]
FILE_BLOCKS = [('outconv', generate_outconv, 'OutConv.lean'), ('normalise', generate_normalisers, 'Normalise.lean'),
               ('copyguards', generate_copy_guards, 'CopyGuards.lean'), ('edge', generate_edge, 'Edge.lean')]


def _stale_block(old: str, name: str):
    m = re.search(r'^-- BEGIN block %s\n(.*?)^-- END block %s$' % (re.escape(name), re.escape(name)), old, re.S | re.M)
    return m.group(1).rstrip('\n').split('\n') if m else None


def defined_names(text: str) -> list[str]:
    return sorted(set(re.findall(r'^\s*(?:def|abbrev|structure|inductive|theorem)\s+([A-Za-z_][\w\.]*)', text, re.M)))


def generate(repo: Path, outdir: Path) -> dict:
    res, failed, names = {}, {}, {}
    tp = outdir / 'Tables.lean'
    old = tp.read_text() if tp.exists() else ''
    s = ['/- GENERATED by translator/tables.py from the current /repo sources. Do not edit. -/',
         'namespace Mahotas.Generated', '']
    for name, fn in TABLE_BLOCKS:
        try:
            lines, info = fn(repo)
            res.update(info)
        except Exception as e:  # noqa: the construct is gone or changed shape
            lines = _stale_block(old, name)
            if lines is None:
                raise
            failed[name] = f'{type(e).__name__}: {e}'
        names[name] = defined_names('\n'.join(lines))
        s += [f'-- BEGIN block {name}'] + list(lines) + [f'-- END block {name}', '']
    s += ['end Mahotas.Generated', '']
    res['tables_changed'] = _write_if_changed(tp, '\n'.join(s))
    for name, fn, fname in FILE_BLOCKS:
        try:
            res.update(fn(repo, outdir))
        except Exception as e:  # noqa
            if not (outdir / fname).exists():
                raise
            failed[name] = f'{type(e).__name__}: {e}'
        names[name] = defined_names((outdir / fname).read_text())
    res['_failed'] = failed
    res['_names'] = names
    return res


if __name__ == '__main__':
    import sys
    print(generate(Path('/repo'), Path(__file__).resolve().parent.parent / 'lean' / 'Mahotas' / 'Generated'))
