"""Translator: regenerates lean/Mahotas/Generated/*.lean from the current /repo sources.

Everything that *is* data in the code (constant tables, mode numbering, connectivity translation)
is extracted here so that the Lean theorems about it are re-checked by `lake build` against what the
code says now. A construct that can no longer be parsed raises: that is a broken tie."""
from __future__ import annotations
import ast, re
from pathlib import Path


class TranslationError(Exception):
    pass


def _write_if_changed(p: Path, s: str) -> bool:
    if p.exists() and p.read_text() == s:
        return False
    p.parent.mkdir(parents=True, exist_ok=True)
    p.write_text(s)
    return True


def _py_assign(tree, name):
    for node in ast.walk(tree):
        if isinstance(node, ast.Assign):
            for t in node.targets:
                if isinstance(t, ast.Name) and t.id == name:
                    return node.value
    raise TranslationError(f'assignment to {name} not found')


def extract_modes(repo: Path):
    src = (repo / 'mahotas' / '_filters.py').read_text()
    val = _py_assign(ast.parse(src), 'mode2int')
    py = {k.value: v.value for k, v in zip(val.keys, val.values)}
    h = (repo / 'mahotas' / '_filters.h').read_text()
    m = re.search(r'typedef enum \{(.*?)\} ExtendMode;', h, flags=re.S)
    if not m:
        raise TranslationError('ExtendMode enum not found')
    cpp = {}
    for name, num in re.findall(r'Extend(\w+)\s*=\s*(\d+)', m.group(1)):
        cpp[name.lower()] = int(num)
    return py, cpp


def extract_translate_sizes(repo: Path):
    src = (repo / 'mahotas' / 'morph.py').read_text()
    tree = ast.parse(src)
    for node in ast.walk(tree):
        if isinstance(node, ast.FunctionDef) and node.name == 'get_structuring_elem':
            val = _py_assign(node, 'translate_sizes')
            out = []
            for k, v in zip(val.keys, val.values):
                out.append((k.elts[0].value, k.elts[1].value, v.value))
            # the literal default cross
            lit = None
            for n in ast.walk(node):
                if isinstance(n, ast.Call) and getattr(n.func, 'attr', '') == 'array' and n.args and isinstance(n.args[0], ast.List):
                    try:
                        lit = [[e.value for e in row.elts] for row in n.args[0].elts]
                    except Exception:
                        pass
            if lit is None:
                raise TranslationError('default cross literal not found')
            return out, lit
    raise TranslationError('get_structuring_elem not found')


# ---------------------------------------------------------------------------------------------
# C09: the out= convention — `_get_output`'s tests in source order, every wrapper's call to it
# (array argument, dtype argument), and hitmiss's hand-written validation

OUT_MODULES = ['morph', 'convolve', 'labeled', 'interpolate']


def _src(node):
    return ast.unparse(node).replace('"', "'")


def _raise_class(stmt):
    if isinstance(stmt, ast.Raise) and stmt.exc is not None:
        f = stmt.exc.func if isinstance(stmt.exc, ast.Call) else stmt.exc
        return getattr(f, 'id', None) or getattr(f, 'attr', None)
    return None


def extract_get_output(repo: Path):
    """the sequence of (test on `out`, exception class) of internal._get_output after `if out is None`"""
    tree = ast.parse((repo / 'mahotas' / 'internal.py').read_text())
    fn = next((n for n in tree.body if isinstance(n, ast.FunctionDef) and n.name == '_get_output'), None)
    if fn is None:
        raise TranslationError('_get_output not found')
    checks, seen_none, default_alloc, returns_out = [], False, None, False
    for st in fn.body:
        if isinstance(st, ast.If) and _src(st.test) == 'out is None':
            seen_none = True
            if len(st.body) == 1 and isinstance(st.body[0], ast.Return):
                default_alloc = _src(st.body[0].value)
            continue
        if seen_none and isinstance(st, ast.If):
            cls = _raise_class(st.body[0]) if len(st.body) == 1 else None
            if cls is None or st.orelse:
                raise TranslationError('unexpected statement in _get_output: ' + _src(st)[:80])
            checks.append((_src(st.test), cls))
        elif seen_none and isinstance(st, ast.Return):
            returns_out = _src(st.value) == 'out'
        elif seen_none:
            raise TranslationError('unexpected statement in _get_output: ' + _src(st)[:80])
    if not seen_none or default_alloc is None or not returns_out:
        raise TranslationError('_get_output: structure not recognised')
    return checks, default_alloc


def extract_out_sites(repo: Path):
    """for every public function of the out-modules with an out/output parameter: how `out` is consumed —
    a call to `_get_output(array, out, name, dtype)` or the calls `out=` is forwarded to"""
    sites = []
    for m in OUT_MODULES:
        tree = ast.parse((repo / 'mahotas' / (m + '.py')).read_text())
        for fn in tree.body:
            if not isinstance(fn, ast.FunctionDef) or fn.name.startswith('_'):
                continue
            params = [a.arg for a in fn.args.args]
            if 'out' not in params and 'output' not in params:
                continue
            found = []
            for node in ast.walk(fn):
                if isinstance(node, ast.Call):
                    name = getattr(node.func, 'id', None) or getattr(node.func, 'attr', None)
                    if name == '_get_output':
                        if len(node.args) < 3:
                            raise TranslationError(f'{m}.{fn.name}: _get_output call not understood')
                        dt = node.args[3] if len(node.args) > 3 else next((k.value for k in node.keywords if k.arg == 'dtype'), None)
                        alias = any(k.arg == 'output' for k in node.keywords)
                        found.append(f"get_output({_src(node.args[0])},{_src(node.args[1])},{_src(dt) if dt is not None else 'None'}{',output' if alias else ''})")
                    else:
                        for k in node.keywords:
                            if k.arg in ('out', 'output') and _src(k.value) != 'None':
                                found.append(f"forward:{name}({k.arg}={_src(k.value)})")
            hand = [ _src(n.test) + '->' + str(_raise_class(n.body[0])) for n in ast.walk(fn)
                     if isinstance(n, ast.If) and len(n.body) == 1 and _raise_class(n.body[0]) and 'out' in _src(n.test).replace('output', 'out')]
            sites.append((m + '.' + fn.name, ','.join(p for p in params if p in ('out', 'output')), found, hand))
    if not sites:
        raise TranslationError('no out= call sites found')
    return sites


def generate_outconv(repo: Path, outdir: Path) -> dict:
    checks, alloc = extract_get_output(repo)
    sites = extract_out_sites(repo)

    def q(x):
        return '"' + x.replace('\\', '\\\\').replace('"', '\\"') + '"'
    s = ['/- GENERATED by translator/tables.py (generate_outconv) from the current /repo sources. Do not edit. -/',
         'namespace Mahotas.Generated', '',
         '/-- the tests `internal._get_output` applies to a supplied `out`, in source order, with the exception raised -/',
         'def getOutputChecksSrc : List (String × String) := [' + ', '.join(f'({q(a)}, {q(b)})' for a, b in checks) + ']',
         '/-- what `_get_output` returns when `out is None` -/',
         'def getOutputDefault : String := ' + q(alloc),
         '',
         '/-- every public function with an out/output parameter: (name, parameters, how out is consumed, own raise-tests on out) -/',
         'def outSites : List (String × String × List String × List String) := [']
    s += ['  (' + ', '.join([q(n), q(p), '[' + ', '.join(q(x) for x in f) + ']', '[' + ', '.join(q(x) for x in h) + ']']) + '),' for n, p, f, h in sites]
    s[-1] = s[-1][:-1]
    s += [']', '', 'end Mahotas.Generated', '']
    changed = _write_if_changed(outdir / 'OutConv.lean', '\n'.join(s))
    return dict(outconv_changed=changed, out_sites=len(sites), get_output_checks=len(checks))


# ---------------------------------------------------------------------------------------------
# C08: which numpy normalisation stands between the user's array and a native ISCARRAY guard

NORM_SITES = [('labeled', '_as_labeled', 'labeled'), ('labeled', '_convert_labeled', 'labeled'),
              ('histogram', 'fullhistogram', 'img'), ('polygon', 'convexhull', 'bwimg')]


def extract_normalisers(repo: Path):
    out = []
    for mod, fname, param in NORM_SITES:
        tree = ast.parse((repo / 'mahotas' / (mod + '.py')).read_text())
        fn = next((n for n in tree.body if isinstance(n, ast.FunctionDef) and n.name == fname), None)
        if fn is None:
            raise TranslationError(f'{mod}.{fname} not found')
        found = []
        for node in ast.walk(fn):
            if not isinstance(node, ast.Call):
                continue
            call = node
            name = getattr(call.func, 'attr', None)
            if name not in ('require', 'array', 'ascontiguousarray', 'asanyarray', 'asarray'):
                continue
            if not (call.args and isinstance(call.args[0], ast.Name) and call.args[0].id == param):
                continue
            kw = {k.arg: k.value for k in call.keywords}
            if name == 'require':
                r = kw.get('requirements', call.args[2] if len(call.args) > 2 else None)
                if isinstance(r, ast.Constant) and isinstance(r.value, str):
                    letters = r.value
                elif isinstance(r, (ast.List, ast.Tuple)):
                    letters = ''.join(e.value[0] for e in r.elts)
                else:
                    raise TranslationError(f'{mod}.{fname}: np.require requirements not understood')
                found.append('require:' + ''.join(c for c in 'CAW' if c in letters.upper()))
            elif name == 'array':
                o = kw.get('order')
                found.append('array:' + (o.value if isinstance(o, ast.Constant) else 'K'))
            elif name == 'ascontiguousarray':
                found.append('ascontiguousarray')
            else:
                found.append('asanyarray')
        if not found:
            raise TranslationError(f'{mod}.{fname}: no normalisation of `{param}` found')
        for k, f in enumerate(found):
            out.append((f'{mod}.{fname}#{k}', f))
    return out


def generate_normalisers(repo: Path, outdir: Path) -> dict:
    sites = extract_normalisers(repo)
    s = ['/- GENERATED by translator/tables.py (generate_normalisers) from the current /repo sources. Do not edit. -/',
         'namespace Mahotas.Generated', '',
         '/-- (wrapper#occurrence, numpy normalisation applied to the array argument before a native ISCARRAY guard) -/',
         'def normSites : List (String × String) := [' + ', '.join(f'("{a}", "{b}")' for a, b in sites) + ']',
         '', 'end Mahotas.Generated', '']
    changed = _write_if_changed(outdir / 'Normalise.lean', '\n'.join(s))
    return dict(normalise_changed=changed, norm_sites=len(sites))


# ---------------------------------------------------------------------------------------------
# C08 (purity): the wrappers around in-place native kernels hand over the user's array only when asked

COPY_GUARD_SITES = [('convolve', '_wavelet_array', 'inline'), ('labeled', '_as_labeled', 'inplace'),
                    ('features/surf', 'integral', 'in_place')]


def extract_copy_guards(repo: Path):
    """for each site: under `if not <flag>:` every assignment/return to the array is a copying numpy call"""
    out = []
    for mod, fname, flag in COPY_GUARD_SITES:
        import warnings
        with warnings.catch_warnings():
            warnings.simplefilter('ignore')          # surf.py has an invalid escape in a docstring
            tree = ast.parse((repo / 'mahotas' / (mod + '.py')).read_text())
        fn = next((n for n in tree.body if isinstance(n, ast.FunctionDef) and n.name == fname), None)
        if fn is None:
            raise TranslationError(f'{mod}.{fname} not found')
        guard = next((n for n in ast.walk(fn) if isinstance(n, ast.If) and _src(n.test) == f'not {flag}'), None)
        if guard is None:
            raise TranslationError(f'{mod}.{fname}: `if not {flag}:` not found')
        calls = set()

        def visit(stmts):
            for st in stmts:
                if isinstance(st, ast.If):
                    if not st.orelse:
                        raise TranslationError(f'{mod}.{fname}: a branch under `not {flag}` may fall through without a copy')
                    visit(st.body)
                    visit(st.orelse)
                elif isinstance(st, (ast.Assign, ast.Return)) and isinstance(st.value, ast.Call):
                    calls.add(getattr(st.value.func, 'attr', None) or getattr(st.value.func, 'id', '?'))
                else:
                    raise TranslationError(f'{mod}.{fname}: unexpected statement under `not {flag}`: {_src(st)[:60]}')
        visit(guard.body)
        if not calls:
            raise TranslationError(f'{mod}.{fname}: nothing happens under `not {flag}`')
        out.append((f"{mod.replace('/', '.')}.{fname}", flag, sorted(calls)))
    return out


def generate_copy_guards(repo: Path, outdir: Path) -> dict:
    sites = extract_copy_guards(repo)
    s = ['/- GENERATED by translator/tables.py (generate_copy_guards) from the current /repo sources. Do not edit. -/',
         'namespace Mahotas.Generated', '',
         '/-- (wrapper, flag, numpy calls that produce the array handed to the in-place kernel when the flag is false) -/',
         'def copyGuards : List (String × String × List String) := [' +
         ', '.join('("%s", "%s", [%s])' % (a, b, ', '.join('"%s"' % x for x in c)) for a, b, c in sites) + ']',
         '', 'end Mahotas.Generated', '']
    changed = _write_if_changed(outdir / 'CopyGuards.lean', '\n'.join(s))
    return dict(copy_guards_changed=changed, copy_guards=len(sites))


def lean_list(xs):
    return '[' + ', '.join(str(x) for x in xs) + ']'


def generate(repo: Path, outdir: Path) -> dict:
    py, cpp = extract_modes(repo)
    ts, cross = extract_translate_sizes(repo)
    names = ['nearest', 'wrap', 'reflect', 'mirror', 'constant', 'ignore']
    s = ['/- GENERATED by translator/tables.py from the current /repo sources. Do not edit. -/',
         'namespace Mahotas.Generated', '',
         '/-- `mode2int` of `_filters.py` as (name index, code); names indexed as in `Mode.code` -/',
         'def pyModes : List (String × Nat) := [' + ', '.join(f'("{k}", {v})' for k, v in sorted(py.items())) + ']',
         '/-- `ExtendMode` of `_filters.h` -/',
         'def cppModes : List (String × Nat) := [' + ', '.join(f'("{k}", {v})' for k, v in sorted(cpp.items())) + ']',
         '',
         '/-- `translate_sizes` of `get_structuring_elem`: (ndim, connectivity count, radius) -/',
         'def translateSizes : List (Nat × Nat × Nat) := [' + ', '.join(f'({a}, {b}, {c})' for a, b, c in ts) + ']',
         '/-- the literal 2-D default cross of `get_structuring_elem` -/',
         'def defaultCross : List Int := ' + lean_list([x for row in cross for x in row]),
         '', 'end Mahotas.Generated', '']
    changed = _write_if_changed(outdir / 'Tables.lean', '\n'.join(s))
    res = dict(tables_changed=changed, modes=len(py), translate_sizes=len(ts))
    res.update(generate_outconv(repo, outdir))      # C09
    res.update(generate_normalisers(repo, outdir))  # C08
    res.update(generate_copy_guards(repo, outdir))  # C08
    return res


if __name__ == '__main__':
    import sys
    print(generate(Path('/repo'), Path(__file__).resolve().parent.parent / 'lean' / 'Mahotas' / 'Generated'))
