"""Translator: regenerates lean/Mahotas/Generated/*.lean from the current /repo sources.

Everything that *is* data in the code (constant tables, mode numbering, connectivity translation)
is extracted here so that the Lean theorems about it are re-checked by `lake build` against what the
code says now. A construct that can no longer be parsed raises: that is a broken tie."""
from __future__ import annotations
import ast, re
from pathlib import Path


class TranslationError(Exception):
    pass


def _write_if_changed(p: Path, s: str) -> bool:
    if p.exists() and p.read_text() == s:
        return False
    p.parent.mkdir(parents=True, exist_ok=True)
    p.write_text(s)
    return True


def _py_assign(tree, name):
    for node in ast.walk(tree):
        if isinstance(node, ast.Assign):
            for t in node.targets:
                if isinstance(t, ast.Name) and t.id == name:
                    return node.value
    raise TranslationError(f'assignment to {name} not found')


def extract_modes(repo: Path):
    src = (repo / 'mahotas' / '_filters.py').read_text()
    val = _py_assign(ast.parse(src), 'mode2int')
    py = {k.value: v.value for k, v in zip(val.keys, val.values)}
    h = (repo / 'mahotas' / '_filters.h').read_text()
    m = re.search(r'typedef enum \{(.*?)\} ExtendMode;', h, flags=re.S)
    if not m:
        raise TranslationError('ExtendMode enum not found')
    cpp = {}
    for name, num in re.findall(r'Extend(\w+)\s*=\s*(\d+)', m.group(1)):
        cpp[name.lower()] = int(num)
    return py, cpp


def extract_translate_sizes(repo: Path):
    src = (repo / 'mahotas' / 'morph.py').read_text()
    tree = ast.parse(src)
    for node in ast.walk(tree):
        if isinstance(node, ast.FunctionDef) and node.name == 'get_structuring_elem':
            val = _py_assign(node, 'translate_sizes')
            out = []
            for k, v in zip(val.keys, val.values):
                out.append((k.elts[0].value, k.elts[1].value, v.value))
            # the literal default cross
            lit = None
            for n in ast.walk(node):
                if isinstance(n, ast.Call) and getattr(n.func, 'attr', '') == 'array' and n.args and isinstance(n.args[0], ast.List):
                    try:
                        lit = [[e.value for e in row.elts] for row in n.args[0].elts]
                    except Exception:
                        pass
            if lit is None:
                raise TranslationError('default cross literal not found')
            return out, lit
    raise TranslationError('get_structuring_elem not found')


# ---------------------------------------------------------------------------------------------
# C17: Daubechies coefficient tables of _convolve.cpp

def extract_daubechies(repo: Path):
    """`const float D2[] = {...}` … `D20`, the `dcoeffs` switch and `ncoeffs = 2*(code + 1)`.
    Each literal is converted the way the compiler does it (decimal text -> nearest double -> nearest
    float32) and returned as the exact dyadic rational (mantissa, k) meaning mantissa / 2^k."""
    import struct
    from fractions import Fraction
    src = (repo / 'mahotas' / '_convolve.cpp').read_text()
    tables = {}
    for name, body in re.findall(r'const\s+float\s+(D\d+)\s*\[\s*\]\s*=\s*\{(.*?)\}\s*;', src, flags=re.S):
        vals = []
        for tok in body.replace('\n', ' ').split(','):
            tok = tok.strip()
            if not tok:
                continue
            if not re.fullmatch(r'[-+]?(\d+\.?\d*|\.\d+)([eE][-+]?\d+)?', tok):
                raise TranslationError(f'{name}: cannot parse coefficient literal {tok!r}')
            f32 = struct.unpack('<f', struct.pack('<f', float(tok)))[0]
            fr = Fraction(f32)
            k = fr.denominator.bit_length() - 1
            if fr.denominator != 1 << k:
                raise TranslationError(f'{name}: {tok} is not dyadic?')
            vals.append((fr.numerator, k))
        tables[name] = vals
    m = re.search(r'const\s+float\s*\*\s*dcoeffs\s*\(\s*const\s+int\s+code\s*\)\s*\{(.*?)\n\}', src, flags=re.S)
    if not m:
        raise TranslationError('dcoeffs() not found')
    switch = [(int(i), n) for i, n in re.findall(r'case\s+(\d+)\s*:\s*return\s+(D\d+)\s*;', m.group(1))]
    if not switch or [i for i, _ in switch] != list(range(len(switch))):
        raise TranslationError('dcoeffs(): case labels are not 0..n-1')
    for _, n in switch:
        if n not in tables:
            raise TranslationError(f'dcoeffs(): table {n} not found')
    nc = re.findall(r'int\s+ncoeffs\s*=\s*2\s*\*\s*\(\s*code\s*\+\s*1\s*\)\s*;', src)
    if len(nc) != 2:
        raise TranslationError('ncoeffs = 2*(code + 1) not found in py_daubechies / py_idaubechies')
    py = (repo / 'mahotas' / 'convolve.py').read_text()
    if not re.search(r"_daubechies_codes\s*=\s*\[\('D%s'\s*%\s*ci\)\s*for\s+ci\s+in\s+range\(2,\s*21,\s*2\)\]", py):
        raise TranslationError("_daubechies_codes = ['D2', 'D4', ... 'D20'] not found in convolve.py")
    return tables, switch


def _c17_block(repo: Path):
    tables, switch = extract_daubechies(repo)
    out = ['', '/-! ### C17: Daubechies scaling coefficients of `_convolve.cpp` as exact dyadic rationals',
           '`(m, k)` stands for `m / 2^k`, the float32 value the compiler stores for the decimal literal. -/']
    for _, name in switch:
        out.append(f'def {name} : List (Int × Nat) := [' + ', '.join(f'({m}, {k})' for m, k in tables[name]) + ']')
    out.append('/-- `dcoeffs(code)`: `code` is the index of `Dxx` in `_daubechies_codes` (`D2` ↦ 0 … `D20` ↦ 9);')
    out.append('    the kernels use the first `ncoeffs = 2*(code+1)` entries. -/')
    out.append('def dcoeffs : List (List (Int × Nat)) := [' + ', '.join(n for _, n in switch) + ']')
    return out, dict(daubechies_tables=len(switch))


def lean_list(xs):
    return '[' + ', '.join(str(x) for x in xs) + ']'


def generate(repo: Path, outdir: Path) -> dict:
    py, cpp = extract_modes(repo)
    ts, cross = extract_translate_sizes(repo)
    names = ['nearest', 'wrap', 'reflect', 'mirror', 'constant', 'ignore']
    s = ['/- GENERATED by translator/tables.py from the current /repo sources. Do not edit. -/',
         'namespace Mahotas.Generated', '',
         '/-- `mode2int` of `_filters.py` as (name index, code); names indexed as in `Mode.code` -/',
         'def pyModes : List (String × Nat) := [' + ', '.join(f'("{k}", {v})' for k, v in sorted(py.items())) + ']',
         '/-- `ExtendMode` of `_filters.h` -/',
         'def cppModes : List (String × Nat) := [' + ', '.join(f'("{k}", {v})' for k, v in sorted(cpp.items())) + ']',
         '',
         '/-- `translate_sizes` of `get_structuring_elem`: (ndim, connectivity count, radius) -/',
         'def translateSizes : List (Nat × Nat × Nat) := [' + ', '.join(f'({a}, {b}, {c})' for a, b, c in ts) + ']',
         '/-- the literal 2-D default cross of `get_structuring_elem` -/',
         'def defaultCross : List Int := ' + lean_list([x for row in cross for x in row]),
         '', 'end Mahotas.Generated', '']
    info = {}
    for block in (_c17_block,):          # per-property blocks, inserted before the closing `end`
        lines, inf = block(repo)
        s[-2:-2] = lines + ['']
        info.update(inf)
    changed = _write_if_changed(outdir / 'Tables.lean', '\n'.join(s))
    return dict(tables_changed=changed, modes=len(py), translate_sizes=len(ts), **info)


if __name__ == '__main__':
    import sys
    print(generate(Path('/repo'), Path(__file__).resolve().parent.parent / 'lean' / 'Mahotas' / 'Generated'))
